package main

// Runtime oracle of C13: the property text evaluated on the stored revisions, written
// against the statement (overlay key by key, which defaults stay in force, rollback restores
// unchanged), not against the Coq model.

import (
	"fmt"
	"strings"

	"verif/harness/internal/hx"
)

func (*c13) Oracle(ci, oi any) []hx.Violation {
	c, obs := ci.(c13Case), oi.(c13Obs)
	var vs []hx.Violation
	add := func(sig, what string) {
		for _, v := range vs {
			if v.Sig == "C13:"+sig {
				return
			}
		}
		vs = append(vs, hx.Violation{Sig: "C13:" + sig, What: what})
	}
	if obs.Panic != "" {
		add("panic", "an action panicked: "+obs.Panic)
		return vs
	}
	if obs.Bad != "" {
		add("history-unreadable", obs.Bad)
		return vs
	}
	pstr := func(p []string) string { return strings.Join(p, ".") }
	var revs []c13Rev // the stored revisions of the release being judged
	rev := func(n int) *c13Rev {
		if n >= 1 && n <= len(revs) {
			return &revs[n-1]
		}
		return nil
	}
	// defaultsShow: every path the recorded config says nothing about shows [dflt] in the rendering
	defaultsShow := func(step int, what string, r *c13Rev, dflt vtree, sig string, ch *c04Chart) {
		if dflt == nil {
			dflt = vtree{}
		}
		depName := map[string]bool{}
		if ch != nil {
			for _, d := range ch.Deps {
				depName[d.Name] = true
			}
		}
		for _, p := range orAllPaths(r.Config, dflt, r.Rendered) {
			// inside a subchart's section its own defaults fill in and the parent's globals win
			// (C04/C11): there only a recorded non-global leaf is judged
			inDep := depName[p[0]]
			if x, ok := orLeaf(p, r.Config); ok && x != nil && !(inDep && orHasKey(p, "global")) {
				if got, ok := orLeaf(p, r.Rendered); !ok || !vtEqual(got, x) {
					add("rendered-user-value", fmt.Sprintf("step %d (%s): revision %d: path %s: recorded user value %#v, templates saw %#v (%v)", step, what, r.Version, pstr(p), x, got, ok))
				}
			}
			if !inDep && !orDefines(p, r.Config) {
				want, wok := vtLookup(p, dflt)
				got, gok := vtLookup(p, r.Rendered)
				if wok != gok || (wok && !vtEqual(want, got)) {
					add(sig, fmt.Sprintf("step %d (%s): revision %d: path %s is not set by the recorded values: defaults in force have %#v (%v), templates saw %#v (%v)", step, what, r.Version, pstr(p), want, wok, got, gok))
				}
			}
		}
	}
	// the map the caller supplied is, after the call, what it was right before it: the "new
	// values" of the property text are the caller's, and a caller that hands the same parsed
	// overrides to a second upgrade (another release, or the same release later) must be
	// supplying the same values (the chart OBJECT being rewritten by --reuse-values is another
	// matter: C04's K-C04-1; this is about the values map only)
	for i, o := range c.Ops {
		if i < len(obs.Steps) && obs.Steps[i].ValsMutated && o.Kind != "rollback" {
			add("caller-values-modified-by-"+o.Kind, fmt.Sprintf("step %d (%s on %s%s): the values map the caller supplied was %#v before the call and is %#v after it",
				i, c13Mode(o), c13Names[o.Rel], c13ShareNote(o), c13Before(c, obs, i), obs.Steps[i].ValsOut))
		}
	}
	for k := 0; k < c.nrel(); k++ {
		ops, steps, idx := c13Project(c, obs, k)
		revs = nil
		if k < len(obs.Revs) {
			revs = obs.Revs[k]
		}
		n := 0              // revisions stored so far
		lastOK := 0         // the revision stored by the most recent operation that returned without error
		var before []string // statuses of the stored revisions before the step
		for j, o := range ops {
			if j >= len(steps) {
				break
			}
			i := idx[j] // position in the chain, for the messages
			st := steps[j]
			prev := before
			before = st.Statuses
			// an operation that fails or is rejected leaves the status of every earlier revision
			// alone: the deployed revision stays the deployed one
			if !st.OK {
				for v := 1; v <= len(prev) && v <= len(st.Statuses); v++ {
					if prev[v-1] != st.Statuses[v-1] {
						add("failed-step-changed-status", fmt.Sprintf("step %d (%s on %s) returned an error but revision %d went from %s to %s", i, c13Mode(o), c13Names[k], v, prev[v-1], st.Statuses[v-1]))
					}
				}
			}
			if len(st.Statuses) == n {
				continue // nothing was stored by this step
			}
			if len(st.Statuses) != n+1 {
				add("revision-count", fmt.Sprintf("step %d (%s) changed the number of stored revisions from %d to %d", i, o.Kind, n, len(st.Statuses)))
				break
			}
			// the revision values are carried forward from — the currently deployed one — is the
			// revision stored by the most recent operation that returned without error, however
			// many failed ones were stored after it; while no operation has returned without error,
			// the newest revision.  The stored statuses must say the same (the highest revision
			// with status deployed before the step; when there is none the newest one).
			base := lastOK
			if base == 0 {
				base = len(prev)
			}
			obsBase := 0
			for v := len(prev); v >= 1; v-- {
				if prev[v-1] == "deployed" {
					obsBase = v
					break
				}
			}
			if obsBase == 0 {
				obsBase = len(prev)
			}
			if obsBase != base {
				add("deployed-revision", fmt.Sprintf("step %d (%s on %s): the most recent operation that returned without error stored revision %d, but by the stored statuses %v the revision to carry forward from is %d", i, c13Mode(o), c13Names[k], lastOK, prev, obsBase))
			}
			if st.OK {
				for v := 1; v <= n; v++ {
					if st.Statuses[v-1] == "deployed" {
						add("deployed-not-unique", fmt.Sprintf("step %d (%s on %s) returned without error and stored revision %d, but revision %d still has status deployed", i, c13Mode(o), c13Names[k], n+1, v))
					}
				}
			}
			cur := rev(base)
			n++
			if st.OK {
				lastOK = n
			}
			nw := rev(n)
			if nw == nil {
				add("revision-missing", fmt.Sprintf("step %d (%s) stored revision %d but it is not in the history", i, o.Kind, n))
				break
			}
			// what a revision records is fixed when it is stored: a later operation (on this or
			// another release) must not change it
			if st.Stored && !vtEqual(st.NewConfig, nw.Config) {
				add("record-changed-later", fmt.Sprintf("step %d (%s on %s): revision %d recorded values %#v when it was stored, at the end of the chain it holds %#v", i, o.Kind, c13Names[k], n, st.NewConfig, nw.Config))
			}
			shared := ""
			if o.Share > 0 {
				shared = c13ShareNote(o)
				if st.ValsIn != nil {
					shared += fmt.Sprintf(" — an earlier call wrote into that object: it held %#v when this call began", st.ValsIn)
				}
			}
			wantStatus := "deployed"
			if !st.OK {
				wantStatus = "failed"
			}
			if st.Statuses[n-1] != wantStatus {
				add("new-revision-status", fmt.Sprintf("step %d (%s, ok=%v) stored revision %d with status %s", i, o.Kind, st.OK, n, st.Statuses[n-1]))
			}
			newv := o.Vals
			if newv == nil {
				newv = vtree{}
			}
			switch o.Kind {
			case "install":
				if !vtEqual(nw.Config, newv) {
					add("install-config", fmt.Sprintf("step %d: install recorded %#v, given %#v%s", i, nw.Config, newv, shared))
				}
				defaultsShow(i, "install", nw, o.Chart.Values, "new-defaults-apply", o.Chart)
			case "rollback":
				tv := o.Version
				if tv == 0 {
					tv = n - 2
				}
				_ = cur
				t := rev(tv)
				if t == nil {
					add("rollback-target", fmt.Sprintf("step %d: rollback to %d succeeded but that revision does not exist", i, tv))
					continue
				}
				if !vtEqual(nw.Config, t.Config) {
					add("rollback-config", fmt.Sprintf("step %d: rollback to %d recorded values %#v, the target has %#v", i, tv, nw.Config, t.Config))
				}
				if !vtEqual(nw.Rendered, t.Rendered) {
					add("rollback-rendered", fmt.Sprintf("step %d: rollback to %d: templates saw %#v, the target's saw %#v", i, tv, nw.Rendered, t.Rendered))
				}
			case "upgrade":
				if cur == nil {
					add("upgrade-without-release", fmt.Sprintf("step %d: upgrade succeeded with no stored revision", i))
					continue
				}
				mode := "plain"
				switch {
				case o.Reset:
					mode = "reset-values"
				case o.Reuse:
					mode = "reuse-values"
				case o.RTR:
					mode = "reset-then-reuse-values"
				}
				switch mode {
				case "reset-values":
					if !vtEqual(nw.Config, newv) {
						add("reset-config", fmt.Sprintf("step %d: reset-values recorded %#v, the new values are %#v%s", i, nw.Config, newv, shared))
					}
				case "plain":
					want := newv
					if len(newv) == 0 {
						want = cur.Config
					}
					if !vtEqual(nw.Config, want) {
						add("plain-config", fmt.Sprintf("step %d: upgrade without flags recorded %#v, expected %#v (new values %#v, deployed %#v)%s", i, nw.Config, want, newv, cur.Config, shared))
					}
				default:
					for _, p := range orAllPaths(newv, cur.Config, nw.Config) {
						if x, ok := orLeaf(p, newv); ok && x != nil {
							if got, ok := orLeaf(p, nw.Config); !ok || !vtEqual(got, x) {
								add("overlay-new-wins", fmt.Sprintf("step %d (%s): path %s: new value %#v, recorded %#v (%v)%s", i, mode, pstr(p), x, got, ok, shared))
							}
						}
						// a new null laid over a key the deployed revision holds (whatever it holds:
						// scalar, list or table) removes the key from the recorded values
						if x, ok := vtLookup(p, newv); ok && x == nil {
							if _, held := vtLookup(p, cur.Config); held {
								if got, still := vtLookup(p, nw.Config); still {
									add("overlay-null-removes", fmt.Sprintf("step %d (%s): path %s: new null over a deployed value, but the recorded values still have %#v", i, mode, pstr(p), got))
								}
							}
						}
						if !orDefines(p, newv) {
							want, wok := vtLookup(p, cur.Config)
							got, gok := vtLookup(p, nw.Config)
							if wok != gok || (wok && !vtEqual(want, got)) {
								add("overlay-carries-forward", fmt.Sprintf("step %d (%s): path %s is not set by the new values: deployed revision has %#v (%v), recorded %#v (%v)%s", i, mode, pstr(p), want, wok, got, gok, shared))
							}
						}
					}
				}
				if mode == "reuse-values" {
					defaultsShow(i, mode, nw, cur.Rendered, "old-defaults-stay", o.Chart)
				} else {
					defaultsShow(i, mode, nw, o.Chart.Values, "new-defaults-apply", o.Chart)
				}
			}
		}
		if n != len(revs) {
			add("revision-count", fmt.Sprintf("%s: %d operations stored a revision but %d revisions are stored", c13Names[k], n, len(revs)))
		}
	}
	return vs
}

func c13Mode(o c13Op) string {
	switch {
	case o.Kind != "upgrade":
		return o.Kind
	case o.Reset:
		return "upgrade reset-values"
	case o.Reuse:
		return "upgrade reuse-values"
	case o.RTR:
		return "upgrade reset-then-reuse-values"
	}
	return "upgrade"
}

func c13ShareNote(o c13Op) string {
	if o.Share > 0 {
		return fmt.Sprintf(" [values: shared map object %d, handed to several operations]", o.Share)
	}
	return ""
}

// c13Before: the content of the supplied map right before step i
func c13Before(c c13Case, obs c13Obs, i int) vtree {
	if obs.Steps[i].ValsIn != nil {
		return obs.Steps[i].ValsIn
	}
	return c.vals(c.Ops[i])
}

package main

// Runtime oracle of C13: the property text evaluated on the stored revisions, written
// against the statement (overlay key by key, which defaults stay in force, rollback restores
// unchanged), not against the Coq model.

import (
	"fmt"
	"strings"

	"verif/harness/internal/hx"
)

func (*c13) Oracle(ci, oi any) []hx.Violation {
	c, obs := ci.(c13Case), oi.(c13Obs)
	var vs []hx.Violation
	add := func(sig, what string) {
		for _, v := range vs {
			if v.Sig == "C13:"+sig {
				return
			}
		}
		vs = append(vs, hx.Violation{Sig: "C13:" + sig, What: what})
	}
	if obs.Panic != "" {
		add("panic", "an action panicked: "+obs.Panic)
		return vs
	}
	if obs.Bad != "" {
		add("history-unreadable", obs.Bad)
		return vs
	}
	pstr := func(p []string) string { return strings.Join(p, ".") }
	rev := func(n int) *c13Rev {
		if n >= 1 && n <= len(obs.Revs) {
			return &obs.Revs[n-1]
		}
		return nil
	}
	// defaultsShow: every path the recorded config says nothing about shows [dflt] in the rendering
	defaultsShow := func(step int, what string, r *c13Rev, dflt vtree, sig string, ch *c04Chart) {
		if dflt == nil {
			dflt = vtree{}
		}
		depName := map[string]bool{}
		if ch != nil {
			for _, d := range ch.Deps {
				depName[d.Name] = true
			}
		}
		for _, p := range orAllPaths(r.Config, dflt, r.Rendered) {
			// inside a subchart's section its own defaults fill in and the parent's globals win
			// (C04/C11): there only a recorded non-global leaf is judged
			inDep := depName[p[0]]
			if x, ok := orLeaf(p, r.Config); ok && x != nil && !(inDep && orHasKey(p, "global")) {
				if got, ok := orLeaf(p, r.Rendered); !ok || !vtEqual(got, x) {
					add("rendered-user-value", fmt.Sprintf("step %d (%s): revision %d: path %s: recorded user value %#v, templates saw %#v (%v)", step, what, r.Version, pstr(p), x, got, ok))
				}
			}
			if !inDep && !orDefines(p, r.Config) {
				want, wok := vtLookup(p, dflt)
				got, gok := vtLookup(p, r.Rendered)
				if wok != gok || (wok && !vtEqual(want, got)) {
					add(sig, fmt.Sprintf("step %d (%s): revision %d: path %s is not set by the recorded values: defaults in force have %#v (%v), templates saw %#v (%v)", step, what, r.Version, pstr(p), want, wok, got, gok))
				}
			}
		}
	}
	n := 0 // revisions stored so far
	var before []string // statuses of the stored revisions before the step
	for i, o := range c.Ops {
		if i >= len(obs.Steps) {
			break
		}
		st := obs.Steps[i]
		prev := before
		before = st.Statuses
		// st.ValsMutated is recorded but not judged here (C04 judges the caller's map).
		if len(st.Statuses) == n {
			continue // nothing was stored by this step
		}
		if len(st.Statuses) != n+1 {
			add("revision-count", fmt.Sprintf("step %d (%s) changed the number of stored revisions from %d to %d", i, o.Kind, n, len(st.Statuses)))
			break
		}
		// the revision values are carried forward from: the highest revision that had status
		// deployed before the step; only when there is none, the newest one
		base := 0
		for v := len(prev); v >= 1; v-- {
			if prev[v-1] == "deployed" {
				base = v
				break
			}
		}
		if base == 0 {
			base = len(prev)
		}
		cur := rev(base)
		n++
		nw := rev(n)
		if nw == nil {
			add("revision-missing", fmt.Sprintf("step %d (%s) stored revision %d but it is not in the history", i, o.Kind, n))
			break
		}
		wantStatus := "deployed"
		if !st.OK {
			wantStatus = "failed"
		}
		if st.Statuses[n-1] != wantStatus {
			add("new-revision-status", fmt.Sprintf("step %d (%s, ok=%v) stored revision %d with status %s", i, o.Kind, st.OK, n, st.Statuses[n-1]))
		}
		newv := o.Vals
		if newv == nil {
			newv = vtree{}
		}
		switch o.Kind {
		case "install":
			if !vtEqual(nw.Config, newv) {
				add("install-config", fmt.Sprintf("step %d: install recorded %#v, given %#v", i, nw.Config, newv))
			}
			defaultsShow(i, "install", nw, o.Chart.Values, "new-defaults-apply", o.Chart)
		case "rollback":
			tv := o.Version
			if tv == 0 {
				tv = n - 2
			}
			_ = cur
			t := rev(tv)
			if t == nil {
				add("rollback-target", fmt.Sprintf("step %d: rollback to %d succeeded but that revision does not exist", i, tv))
				continue
			}
			if !vtEqual(nw.Config, t.Config) {
				add("rollback-config", fmt.Sprintf("step %d: rollback to %d recorded values %#v, the target has %#v", i, tv, nw.Config, t.Config))
			}
			if !vtEqual(nw.Rendered, t.Rendered) {
				add("rollback-rendered", fmt.Sprintf("step %d: rollback to %d: templates saw %#v, the target's saw %#v", i, tv, nw.Rendered, t.Rendered))
			}
		case "upgrade":
			if cur == nil {
				add("upgrade-without-release", fmt.Sprintf("step %d: upgrade succeeded with no stored revision", i))
				continue
			}
			mode := "plain"
			switch {
			case o.Reset:
				mode = "reset-values"
			case o.Reuse:
				mode = "reuse-values"
			case o.RTR:
				mode = "reset-then-reuse-values"
			}
			switch mode {
			case "reset-values":
				if !vtEqual(nw.Config, newv) {
					add("reset-config", fmt.Sprintf("step %d: reset-values recorded %#v, the new values are %#v", i, nw.Config, newv))
				}
			case "plain":
				want := newv
				if len(newv) == 0 {
					want = cur.Config
				}
				if !vtEqual(nw.Config, want) {
					add("plain-config", fmt.Sprintf("step %d: upgrade without flags recorded %#v, expected %#v (new values %#v, deployed %#v)", i, nw.Config, want, newv, cur.Config))
				}
			default:
				for _, p := range orAllPaths(newv, cur.Config, nw.Config) {
					if x, ok := orLeaf(p, newv); ok && x != nil {
						if got, ok := orLeaf(p, nw.Config); !ok || !vtEqual(got, x) {
							add("overlay-new-wins", fmt.Sprintf("step %d (%s): path %s: new value %#v, recorded %#v (%v)", i, mode, pstr(p), x, got, ok))
						}
					}
					// a new null laid over a key the deployed revision holds (whatever it holds:
					// scalar, list or table) removes the key from the recorded values
					if x, ok := vtLookup(p, newv); ok && x == nil {
						if _, held := vtLookup(p, cur.Config); held {
							if got, still := vtLookup(p, nw.Config); still {
								add("overlay-null-removes", fmt.Sprintf("step %d (%s): path %s: new null over a deployed value, but the recorded values still have %#v", i, mode, pstr(p), got))
							}
						}
					}
					if !orDefines(p, newv) {
						want, wok := vtLookup(p, cur.Config)
						got, gok := vtLookup(p, nw.Config)
						if wok != gok || (wok && !vtEqual(want, got)) {
							add("overlay-carries-forward", fmt.Sprintf("step %d (%s): path %s is not set by the new values: deployed revision has %#v (%v), recorded %#v (%v)", i, mode, pstr(p), want, wok, got, gok))
						}
					}
				}
			}
			if mode == "reuse-values" {
				defaultsShow(i, mode, nw, cur.Rendered, "old-defaults-stay", o.Chart)
			} else {
				defaultsShow(i, mode, nw, o.Chart.Values, "new-defaults-apply", o.Chart)
			}
		}
	}
	if n != len(obs.Revs) {
		add("revision-count", fmt.Sprintf("%d operations succeeded but %d revisions are stored", n, len(obs.Revs)))
	}
	return vs
}

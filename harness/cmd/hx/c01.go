package main

// C01 — release revision ledger stays well-formed under any history and faults.
// Histories of real install/upgrade/rollback/uninstall with cluster faults, storage-write
// failures and crash points; the ledger (and everything else observed) is compared with
// Engine/Seq.v, and the ledger clauses of the property are evaluated directly.

import (
	"encoding/json"
	"fmt"
	"math/rand"
	"sort"
	"strings"

	"verif/harness/internal/eng"
	"verif/harness/internal/hx"
)

func init() { hx.Register("c01", func() hx.Property { return &c01{} }) }

type c01 struct{}

func (*c01) ID() string        { return "C01" }
func (*c01) CoqImport() string { return c01Import }

const engImport = "From Helm Require Import Engine.Types Engine.Eff Engine.Ops Engine.Cluster Engine.Seq Run.RunEng."
const c01Import = "From Helm Require Import Engine.Types Engine.Eff Engine.Ops Engine.Cluster Engine.Seq Run.RunC01."

func (*c01) Rule() string {
	return "40% generic: histories of 1-6 real operations (install/upgrade/rollback/uninstall, random flags atomic/cleanup-on-fail/keep-history/replace/" +
		"max-history/no-hooks, 5-resource chart family with hooks) on memory/Secret/ConfigMap storage; per operation one of: no fault (40%), " +
		"one cluster fault (25%: rejected create/patch/delete/get of one resource, hook failure, wait failure), n-th storage write fails (15%), " +
		"process death before the n-th mutating effect (20%); 30% ledger-stress: 5-10 operations, history limits, failed upgrades, explicit rollback targets; " +
		"30% fault-then-recover: fault-free prefix, one operation with a crash point or write failure at a random position, then 2-4 recovery operations " +
		"(a second faulted one in a third of them); 1/8 of the generated histories give one later operation a storage READ fault (the n-th Driver.Get/Query/List " +
		"of the operation returns an error, n < 6); enumerated on every run: the ledgers 1:deployed 2:failed 3:failed / 1:superseded 2:deployed / 1:superseded 2:deployed " +
		"3:failed x upgrade (history limit 3, 2, none), rollback to 1 (with and without limit), install --replace, uninstall x EVERY read position of the operation " +
		"(counted by a fault-free run), followed by a fault-free upgrade; read-fault histories are compared with the model up to the faulted operation (the model has " +
		"no error answer for a read) and judged by the oracle from there on; non-trivial = at least 2 operations changed the ledger; distinct = hash of (case, observation)"
}

func engDecode(raw json.RawMessage) (any, error) {
	var h eng.History
	err := json.Unmarshal(raw, &h)
	return h, err
}
func (*c01) Decode(raw json.RawMessage) (any, error) { return engDecode(raw) }

func mkOp(kind string, chart int, f eng.Flags, keys ...string) *eng.Op {
	op := &eng.Op{Kind: kind, Flags: f, ChartID: chart, ValsID: chart}
	for _, k := range keys {
		op.Manifest = append(op.Manifest, eng.Res{Kind: "ConfigMap", Name: k, Fields: map[string]string{"d:k": fmt.Sprintf("v%d", chart)}})
	}
	return op
}
func ipt(n int) *int { return &n }

func (*c01) Corpus() []any {
	var out []any
	for _, b := range []string{"secret", "memory"} {
		// K1: install; failed upgrade; install --replace  => two deployed
		up := mkOp("upgrade", 2, eng.Flags{}, "a")
		up.WaitFail = true
		out = append(out, eng.History{Backend: b, Steps: []eng.Step{
			{Op: mkOp("install", 1, eng.Flags{}, "a")}, {Op: up}, {Op: mkOp("install", 3, eng.Flags{Replace: true}, "a")}}})
		// K2: the "superseded" write of a successful upgrade fails and is swallowed => two deployed
		up2 := mkOp("upgrade", 2, eng.Flags{}, "a")
		up2.WFail = ipt(1)
		out = append(out, eng.History{Backend: b, Steps: []eng.Step{{Op: mkOp("install", 1, eng.Flags{}, "a")}, {Op: up2}}})
		// K2': the final "deployed" write of install fails and is swallowed => success reported, record pending
		in := mkOp("install", 1, eng.Flags{}, "a")
		in.WFail = ipt(1)
		out = append(out, eng.History{Backend: b, Steps: []eng.Step{{Op: in}}})
		// pruning, atomic rollback, crash + recovery
		up3 := mkOp("upgrade", 3, eng.Flags{Atomic: true, MaxHistory: 2}, "a", "b")
		up3.KFault = &eng.KFault{Verb: "create", Key: "ConfigMap/b"}
		cr := mkOp("upgrade", 4, eng.Flags{}, "a")
		cr.Crash = ipt(2)
		out = append(out, eng.History{Backend: b, Steps: []eng.Step{
			{Op: mkOp("install", 1, eng.Flags{}, "a")}, {Op: mkOp("upgrade", 2, eng.Flags{MaxHistory: 2}, "a")}, {Op: up3},
			{Op: cr}, {Op: mkOp("rollback", 0, eng.Flags{Version: 1})}, {Op: mkOp("uninstall", 0, eng.Flags{})}}})
		// Example C01_prune_gap (Engine/LedgerEx.v gap_history): max-history 1 deletes revision 2 before 3 is created
		upw := mkOp("upgrade", 2, eng.Flags{}, "a")
		upw.WaitFail = true
		out = append(out, eng.History{Backend: b, Steps: []eng.Step{
			{Op: mkOp("install", 1, eng.Flags{}, "a")}, {Op: upw}, {Op: mkOp("upgrade", 3, eng.Flags{MaxHistory: 1}, "a")}}})
		// Example C01_nonvacuous (Engine/LedgerEx.v nv_history): failed upgrade, atomic rollback, pruning, crash,
		// refused upgrade (pending), recovery by rollback, keep-history uninstall, install --replace, purge
		nv2 := mkOp("upgrade", 2, eng.Flags{}, "a")
		nv2.WaitFail = true
		nv3 := mkOp("upgrade", 3, eng.Flags{Atomic: true, MaxHistory: 3}, "a", "b")
		nv3.KFault = &eng.KFault{Verb: "create", Key: "ConfigMap/b"}
		nv5 := mkOp("upgrade", 5, eng.Flags{}, "a")
		nv5.Crash = ipt(2)
		out = append(out, eng.History{Backend: b, Steps: []eng.Step{
			{Op: mkOp("install", 1, eng.Flags{}, "a")}, {Op: nv2}, {Op: nv3},
			{Op: mkOp("upgrade", 4, eng.Flags{MaxHistory: 2}, "a")}, {Op: nv5}, {Op: mkOp("upgrade", 6, eng.Flags{}, "a")},
			{Op: mkOp("rollback", 0, eng.Flags{Version: 5})}, {Op: mkOp("uninstall", 0, eng.Flags{KeepHistory: true})},
			{Op: mkOp("install", 7, eng.Flags{Replace: true}, "a")}, {Op: mkOp("uninstall", 0, eng.Flags{})}}})
	}
	for _, b := range []string{"secret", "memory"} {
		// Example C01_narrow_h1_instance (wf_history): the "failed" status write of a failing upgrade is lost,
		// revision 2 stays pending-upgrade, the next upgrade is refused, rollback recovers
		w2 := mkOp("upgrade", 2, eng.Flags{}, "a")
		w2.WaitFail, w2.WFail = true, ipt(2)
		out = append(out, eng.History{Backend: b, Steps: []eng.Step{
			{Op: mkOp("install", 1, eng.Flags{}, "a")}, {Op: w2}, {Op: mkOp("upgrade", 3, eng.Flags{}, "a")},
			{Op: mkOp("rollback", 0, eng.Flags{})}}})
		// Example C01_crashed_install_instance (ci_history): crashed install; install --replace, upgrade and
		// rollback are refused; uninstall; install
		ci := mkOp("install", 1, eng.Flags{}, "a")
		ci.Crash = ipt(1)
		out = append(out, eng.History{Backend: b, Steps: []eng.Step{
			{Op: ci}, {Op: mkOp("install", 2, eng.Flags{Replace: true}, "a")}, {Op: mkOp("upgrade", 3, eng.Flags{}, "a")},
			{Op: mkOp("rollback", 0, eng.Flags{})}, {Op: mkOp("uninstall", 0, eng.Flags{})}, {Op: mkOp("install", 4, eng.Flags{}, "a")}}})
		// K2'': the final "uninstalled" write of uninstall --keep-history fails and is swallowed
		un := mkOp("uninstall", 0, eng.Flags{KeepHistory: true})
		un.WFail = ipt(1)
		out = append(out, eng.History{Backend: b, Steps: []eng.Step{{Op: mkOp("install", 1, eng.Flags{}, "a")}, {Op: un}}})
		// uninstall of a history kept by an earlier uninstall --keep-history, with more than one revision:
		// a plain uninstall must leave no revision at all (the already-uninstalled branch of Uninstall.Run
		// purges every record, not only the newest); then the name is free again
		out = append(out, eng.History{Backend: b, Steps: []eng.Step{
			{Op: mkOp("install", 1, eng.Flags{}, "a")}, {Op: mkOp("upgrade", 2, eng.Flags{}, "a", "b")},
			{Op: mkOp("upgrade", 3, eng.Flags{}, "a")}, {Op: mkOp("uninstall", 0, eng.Flags{KeepHistory: true})},
			{Op: mkOp("uninstall", 0, eng.Flags{})}, {Op: mkOp("install", 4, eng.Flags{}, "a")}}})
	}
	// more than nine revisions (storage keys ...v10 sort before ...v2), then a history limit: pruning must
	// work on the revision order, not on the order the driver lists the records in
	for _, b := range []string{"secret", "configmap", "memory"} {
		steps := []eng.Step{{Op: mkOp("install", 1, eng.Flags{}, "a")}}
		for v := 2; v <= 11; v++ {
			steps = append(steps, eng.Step{Op: mkOp("upgrade", v, eng.Flags{}, "a")})
		}
		steps = append(steps, eng.Step{Op: mkOp("upgrade", 12, eng.Flags{MaxHistory: 4}, "a")},
			eng.Step{Op: mkOp("rollback", 0, eng.Flags{MaxHistory: 2})})
		out = append(out, eng.History{Backend: b, Steps: steps})
	}
	out = append(out, c01RFailCorpus()...) // storage read faults (c01_rfail.go)
	return out
}

func (*c01) Exhaustive(tier string) []any {
	rf := c01RFailEnum(tier) // storage read faults: every read position (c01_rfail.go)
	if tier != "thorough" {
		return rf
	}
	// Small scope, exhaustively: histories install; op2; op3 over {install, upgrade, rollback, uninstall} x
	// {plain, atomic, replace+keep-history+max-history 1} (the first operation is an install: anything else on
	// an empty history is refused before any write), each
	//  - without fault,
	//  - with every crash point 0..5 and every storage-write failure position 0..5 on the LAST operation,
	//  - for length 3 also with each of these faults on the MIDDLE operation followed by a plain recovery
	//    operation (crash / swallowed write error, then install --replace / upgrade / rollback / uninstall).
	out := rf
	kinds := []string{"install", "upgrade", "rollback", "uninstall"}
	flagsOf := func(fi int) eng.Flags {
		f := eng.Flags{}
		switch fi {
		case 1:
			f.Atomic = true
		case 2:
			f.Replace, f.KeepHistory, f.MaxHistory = true, true, 1
		}
		return f
	}
	faulted := func(op *eng.Op) []*eng.Op {
		var r []*eng.Op
		for n := 0; n < 6; n++ {
			c, w := *op, *op
			c.Crash, w.WFail = ipt(n), ipt(n)
			r = append(r, &c, &w)
		}
		return r
	}
	emit := func(ops ...*eng.Op) {
		st := make([]eng.Step, len(ops))
		for i, o := range ops {
			st[i] = eng.Step{Op: o}
		}
		out = append(out, eng.History{Backend: "secret", Steps: st})
	}
	for f1 := 0; f1 < 3; f1++ {
		op1 := mkOp("install", 1, flagsOf(f1), "a", "b")
		emit(op1)
		for _, o := range faulted(op1) {
			emit(o)
		}
		for _, k2 := range kinds {
			for f2 := 0; f2 < 3; f2++ {
				op2 := mkOp(k2, 2, flagsOf(f2), "a", "b")
				emit(op1, op2)
				for _, o := range faulted(op2) {
					emit(op1, o)
					for _, k3 := range kinds { // recovery after a fault in the middle
						emit(op1, o, mkOp(k3, 3, eng.Flags{Replace: k3 == "install"}, "a", "b"))
					}
				}
				for _, k3 := range kinds {
					for f3 := 0; f3 < 3; f3++ {
						op3 := mkOp(k3, 3, flagsOf(f3), "a", "b")
						emit(op1, op2, op3)
						for _, o := range faulted(op3) {
							emit(op1, op2, o)
						}
					}
				}
			}
		}
	}
	return out
}

func (*c01) Generate(r *rand.Rand, _ int) any {
	if r.Intn(8) == 0 {
		return c01GenRFail(r)
	}
	switch k := r.Intn(10); {
	case k < 3:
		return genLedgerStress(r)
	case k < 6:
		return genRecover(r)
	}
	return eng.GenHistory(r, eng.GenOpts{Faults: true, Hooks: 2, Flags: true})
}

// genRecover: fault-then-recover histories.  A fault-free prefix (install, 0-2 upgrades), then ONE operation
// with a crash point or a storage-write failure at a random position, then 2-4 recovery operations without
// storage faults (upgrade, rollback [previous or an explicit revision], uninstall [+/- keep-history],
// install [--replace]); one third of the histories contain a second faulted operation in the recovery part.
func genRecover(r *rand.Rand) eng.History {
	h := eng.History{Backend: []string{"secret", "memory", "configmap"}[r.Intn(3)]}
	variant, top := 0, 0
	content := func(op *eng.Op) {
		variant++
		op.ChartID, op.ValsID = variant, r.Intn(4)
		op.Manifest = eng.GenManifest(r, variant, false)
		op.Hooks = eng.GenHooks(r, 1)
	}
	fault := func(op *eng.Op) {
		if r.Intn(2) == 0 {
			op.Crash = ipt(r.Intn(7))
		} else {
			op.WFail = ipt(r.Intn(6))
		}
		if r.Intn(4) == 0 {
			op.WaitFail = true // failure path + storage fault
		}
	}
	add := func(op *eng.Op) {
		if op.Kind != "uninstall" {
			top++
		}
		h.Steps = append(h.Steps, eng.Step{Op: op})
	}
	inst := &eng.Op{Kind: "install"}
	content(inst)
	prefix := r.Intn(3)
	if prefix == 0 && r.Intn(2) == 0 {
		fault(inst) // the very first install is the faulted operation
		add(inst)
	} else {
		add(inst)
		for i := 0; i < prefix; i++ {
			u := &eng.Op{Kind: "upgrade"}
			content(u)
			if r.Intn(4) == 0 {
				u.WaitFail = true
			}
			add(u)
		}
		fo := &eng.Op{Kind: []string{"upgrade", "upgrade", "upgrade", "rollback", "uninstall", "install"}[r.Intn(6)]}
		switch fo.Kind {
		case "upgrade":
			content(fo)
			fo.Flags.Atomic = r.Intn(3) == 0
			if r.Intn(3) == 0 {
				fo.Flags.MaxHistory = 1 + r.Intn(3)
			}
		case "install":
			content(fo)
			fo.Flags.Replace = true
		case "uninstall":
			fo.Flags.KeepHistory = r.Intn(2) == 0
		}
		fault(fo)
		add(fo)
	}
	n := 2 + r.Intn(3)
	second := r.Intn(3) == 0
	for i := 0; i < n; i++ {
		op := &eng.Op{Kind: []string{"upgrade", "upgrade", "rollback", "rollback", "uninstall", "install"}[r.Intn(6)]}
		switch op.Kind {
		case "upgrade":
			content(op)
			op.Flags.Atomic = r.Intn(4) == 0
		case "install":
			content(op)
			op.Flags.Replace = r.Intn(4) > 0
		case "rollback":
			if r.Intn(2) == 0 && top > 0 {
				op.Flags.Version = 1 + r.Intn(top)
			}
			if r.Intn(4) == 0 {
				op.Flags.MaxHistory = 1 + r.Intn(3)
			}
		case "uninstall":
			op.Flags.KeepHistory = r.Intn(2) == 0
		}
		if second && i == 0 {
			fault(op)
		}
		add(op)
	}
	return h
}

// genLedgerStress: longer histories (5-10 operations) aimed at the ledger clauses: many upgrades and
// rollbacks with a history limit, failed upgrades (so that the deployed revision is not the last one and
// failed revisions pile up for pruning), rollbacks to explicit existing revisions, keep-history uninstalls
// followed by install --replace, and a few storage faults / crashes.
func genLedgerStress(r *rand.Rand) eng.History {
	h := eng.History{Backend: []string{"secret", "memory", "configmap"}[r.Intn(3)]}
	n := 5 + r.Intn(6)
	variant, top := 0, 0 // top: rough estimate of the highest revision so far
	for i := 0; i < n; i++ {
		kind := "install"
		if i > 0 {
			switch k := r.Intn(20); {
			case k < 10:
				kind = "upgrade"
			case k < 15:
				kind = "rollback"
			case k < 17:
				kind = "uninstall"
			}
		}
		op := &eng.Op{Kind: kind}
		f := &op.Flags
		switch kind {
		case "install":
			f.Replace = i > 0 && r.Intn(5) > 0
			f.Atomic = r.Intn(6) == 0
		case "upgrade", "rollback":
			if r.Intn(5) < 3 {
				f.MaxHistory = 1 + r.Intn(4)
			}
			f.Atomic = kind == "upgrade" && r.Intn(4) == 0
			f.Cleanup = r.Intn(5) == 0
			if kind == "rollback" && r.Intn(2) == 0 && top > 0 {
				f.Version = 1 + r.Intn(top)
			}
		case "uninstall":
			f.KeepHistory = r.Intn(10) < 7
		}
		f.NoHooks = r.Intn(6) == 0
		if kind == "install" || kind == "upgrade" {
			variant++
			op.ChartID, op.ValsID = variant, r.Intn(4)
			op.Manifest = eng.GenManifest(r, variant, false)
			op.Hooks = eng.GenHooks(r, 1)
		}
		switch k := r.Intn(20); {
		case k < 11:
		case k < 15:
			op.WaitFail = true
		case k < 17:
			op.Crash = ipt(r.Intn(7))
		case k < 18:
			op.WFail = ipt(r.Intn(5))
		default:
			if len(op.Manifest) > 0 {
				op.KFault = &eng.KFault{Verb: []string{"create", "patch"}[r.Intn(2)], Key: op.Manifest[r.Intn(len(op.Manifest))].Key()}
			}
		}
		if kind != "uninstall" {
			top++
			if f.Atomic && kind == "upgrade" {
				top++
			}
		}
		h.Steps = append(h.Steps, eng.Step{Op: op})
	}
	return h
}

func engExecute(ci any) any {
	h := ci.(eng.History)
	return eng.NewRunner(h.Backend).Run(h)
}
func (*c01) Execute(ci any) any { return engExecute(ci) }

// the model has no error answer for a storage read: a history is compared up to its first read-faulted operation
func (*c01) CoqCase(ci, oi any) string {
	h, o := c01TruncateUnmodelled(ci.(eng.History), oi.(eng.Obs))
	return eng.CoqCaseExt(h, o, nil, func(_ int, s eng.Step, def string) string {
		if s.Op != nil && s.Op.RFail != nil {
			// Engine/OpsR.v: the operation whose n-th storage read fails
			return fmt.Sprintf("RRead %d %s", *s.Op.RFail, strings.TrimPrefix(def, "HOp "))
		}
		return "RS (" + def + ")"
	}, "mkRCase")
}

// c01TruncateUnmodelled: a read fault is inside the model (Engine/OpsR.v, Run/RunC01.v) unless the same operation
// also carries a crash point (a dying process and a failing read in one operation: the model's dead process still
// answers reads); such a history is compared up to that operation and judged by the oracle from there on.
func c01TruncateUnmodelled(h eng.History, o eng.Obs) (eng.History, eng.Obs) {
	for i, s := range h.Steps {
		if s.Op != nil && s.Op.RFail != nil && s.Op.Crash != nil {
			h2, o2 := h, o
			h2.Steps = h.Steps[:i]
			if len(o2.Steps) > i {
				o2.Steps = o2.Steps[:i]
			}
			return h2, o2
		}
	}
	return h, o
}

func (*c01) Class(ci, _ any) string {
	h := ci.(eng.History)
	cls := "nofault"
	for _, s := range h.Steps {
		if s.Op == nil {
			continue
		}
		switch {
		case s.Op.RFail != nil:
			cls = "readfault"
		case s.Op.Crash != nil && cls != "readfault":
			cls = "crash"
		case s.Op.WFail != nil && cls != "crash" && cls != "readfault":
			cls = "wfail"
		case (s.Op.KFault != nil || s.Op.HFault != nil || s.Op.WaitFail) && cls == "nofault":
			cls = "clusterfault"
		}
	}
	lim := ""
	for _, st := range h.Steps {
		if st.Op != nil && st.Op.Flags.MaxHistory > 0 {
			lim = "/limit"
		}
	}
	rec := ""
	for i, st := range h.Steps {
		if st.Op != nil && (st.Op.Crash != nil || st.Op.WFail != nil) && i+1 < len(h.Steps) {
			rec = "/then-recover"
		}
	}
	return fmt.Sprintf("len%d/%s%s%s", len(h.Steps), cls, lim, rec)
}

func (*c01) NonTrivial(_, oi any) bool {
	o := oi.(eng.Obs)
	changes := 0
	prev := ""
	for _, s := range o.Steps {
		b, _ := json.Marshal(ledgerProj(s.Ledger))
		if string(b) != prev {
			changes++
		}
		prev = string(b)
	}
	return changes >= 2
}

func ledgerProj(l []eng.LedgerRow) [][2]interface{} {
	var out [][2]interface{}
	for _, r := range l {
		out = append(out, [2]interface{}{r.Rev, r.Status})
	}
	return out
}

// Oracle: the ledger clauses of C01 evaluated on what the real code left in storage.
func (*c01) Oracle(ci, oi any) []hx.Violation {
	h, o := ci.(eng.History), oi.(eng.Obs)
	var vs []hx.Violation
	// K14 (repaired in /repo, ac81746): Install.availableName / replaceRelease took a FAILED history lookup for "no such
	// release"; when revision 1 had been pruned the install then stored a new revision 1 next to the existing history
	// (c01_rfail.go c01LostNameCheck).  The narrow signature stays: should that step ever come back it is reported under it
	lostNameCheck := false
	add := func(sig, what string) {
		if lostNameCheck {
			switch sig {
			case "C01:two-deployed", "C01:revision-not-successor", "C01:success-without-deployed-head", "C01:previous-not-superseded":
				sig, what = "C01:install-after-lost-name-check", what+" [the history lookup of the name check failed and was taken for 'the name is free']"
			}
		}
		vs = append(vs, hx.Violation{Sig: sig, What: what})
	}
	var prev []eng.LedgerRow
	for i, s := range h.Steps {
		if i >= len(o.Steps) {
			break
		}
		so := o.Steps[i]
		lostNameCheck = c01LostNameCheck(s.Op, so, prev)
		if so.Panic != "" {
			add("C01:panic", fmt.Sprintf("step %d panicked: %s", i, so.Panic))
		}
		led := so.Ledger
		// unique, strictly increasing revisions
		for j := 1; j < len(led); j++ {
			if led[j].Rev <= led[j-1].Rev {
				add("C01:duplicate-revision", fmt.Sprintf("step %d: revision %d stored twice", i, led[j].Rev))
			}
		}
		op := s.Op
		faulted := op != nil && (op.WFail != nil)
		// at most one deployed
		nd := 0
		for _, r := range led {
			if r.Status == "deployed" {
				nd++
			}
		}
		if nd > 1 {
			sig := "C01:two-deployed"
			prevDeployed := false
			for _, r := range prev {
				if r.Status == "deployed" {
					prevDeployed = true
				}
			}
			switch {
			case alreadyTwo(prev):
				sig = "" // consequence of an earlier (reported) violation in this history
			case op != nil && op.Kind == "install" && op.Flags.Replace && prevDeployed && !faulted:
				sig = "C01:two-deployed-install-replace-over-deployed" // K1
			case faulted:
				sig = "C01:storage-write-error-swallowed" // K2
			}
			if sig != "" {
				add(sig, fmt.Sprintf("step %d (%s): %d revisions are marked deployed: %v", i, kindOf(op), nd, ledgerProj(led)))
			}
		}
		if op == nil {
			prev = led
			continue
		}
		// new revisions are exactly prevmax+1, +2, ...
		pm := 0
		had := map[int]bool{}
		for _, r := range prev {
			had[r.Rev] = true
			if r.Rev > pm {
				pm = r.Rev
			}
		}
		var fresh []int
		for _, r := range led {
			if !had[r.Rev] {
				fresh = append(fresh, r.Rev)
			}
		}
		sort.Ints(fresh)
		for k, v := range fresh {
			if v != pm+1+k {
				add("C01:revision-not-successor", fmt.Sprintf("step %d (%s): new revision %d, highest before was %d (new: %v)", i, op.Kind, v, pm, fresh))
				break
			}
		}
		// the same on the trace of effective writes: every Create carries prevmax+1, a second one (only the
		// automatic rollback of an atomic upgrade) prevmax+2 -- also when the record is gone again afterwards
		var made []int
		for _, e := range so.Trace {
			if e.Store == "create" {
				made = append(made, e.Rev)
			}
		}
		for k, v := range made {
			if v != pm+1+k || k > 1 || (k == 1 && !(op.Kind == "upgrade" && op.Flags.Atomic)) {
				add("C01:revision-not-successor", fmt.Sprintf("step %d (%s): created revisions %v, highest before was %d", i, op.Kind, made, pm))
				break
			}
		}
		dry := op.Flags.IsDry()
		if so.Outcome == "ok" && !dry {
			var prevDep *eng.LedgerRow
			for k := range prev {
				if prev[k].Status == "deployed" {
					prevDep = &prev[k]
				}
			}
			switch op.Kind {
			case "install", "upgrade", "rollback":
				okPost := len(led) > 0 && led[len(led)-1].Status == "deployed" && !had[led[len(led)-1].Rev]
				if !okPost {
					sig := "C01:success-without-deployed-head"
					if faulted {
						sig = "C01:storage-write-error-swallowed"
					}
					add(sig, fmt.Sprintf("step %d: %s reported success but the highest revision is not a new deployed one: %v", i, op.Kind, ledgerProj(led)))
				}
				if prevDep != nil && !(op.Kind == "install" && op.Flags.Replace) {
					for _, r := range led {
						if r.Rev == prevDep.Rev && r.Status != "superseded" && !faulted && !alreadyTwo(prev) {
							add("C01:previous-not-superseded", fmt.Sprintf("step %d: %s succeeded but revision %d is %s", i, op.Kind, r.Rev, r.Status))
						}
					}
				}
				if op.Kind == "rollback" && okPost {
					tv := op.Flags.Version
					if tv == 0 {
						tv = pm - 1
					}
					for _, t := range prev {
						if t.Rev == tv {
							n := led[len(led)-1]
							if n.ChartID != t.ChartID || n.ValsID != t.ValsID || fmt.Sprint(keysOf(n.Manifest)) != fmt.Sprint(keysOf(t.Manifest)) {
								add("C01:rollback-content", fmt.Sprintf("step %d: rollback to %d created a revision with different chart/values/manifest", i, tv))
							}
						}
					}
				}
			case "uninstall":
				if !op.Flags.KeepHistory && len(led) != 0 {
					add("C01:uninstall-left-history", fmt.Sprintf("step %d: uninstall without keep-history left %v", i, ledgerProj(led)))
				}
				if op.Flags.KeepHistory && (len(led) == 0 || led[len(led)-1].Status != "uninstalled" || led[len(led)-1].Rev != pm) {
					sig := "C01:uninstall-keep-history-head-not-uninstalled"
					if faulted {
						sig = "C01:storage-write-error-swallowed"
					}
					add(sig, fmt.Sprintf("step %d: uninstall --keep-history succeeded but the history is %v", i, ledgerProj(led)))
				}
			}
		}
		// pruning (upgrade / rollback with max-history), only when no storage fault or crash was injected
		if n := op.Flags.MaxHistory; n > 0 && (op.Kind == "upgrade" || op.Kind == "rollback") && !dry && op.WFail == nil && op.Crash == nil && len(fresh) > 0 {
			now := map[int]bool{}
			for _, r := range led {
				now[r.Rev] = true
			}
			var removed, keptOld []int
			depBefore := -1
			for _, r := range prev {
				if r.Status == "deployed" && r.Rev > depBefore {
					depBefore = r.Rev
				}
			}
			for _, r := range prev {
				if !now[r.Rev] {
					removed = append(removed, r.Rev)
				} else if r.Rev != depBefore {
					keptOld = append(keptOld, r.Rev)
				}
			}
			for _, x := range removed {
				if x == depBefore {
					add("C01:pruned-deployed", fmt.Sprintf("step %d: pruning removed the deployed revision %d", i, x))
				}
				for _, y := range keptOld {
					if y < x {
						add("C01:pruned-not-oldest", fmt.Sprintf("step %d: pruning removed revision %d but kept older %d", i, x, y))
					}
				}
			}
			// exactly the oldest len(prev)-(n-1) revisions other than the deployed one (fewer only when there are no more)
			var want []int
			if len(prev) > n-1 {
				for _, r := range prev { // prev is sorted by revision
					if len(prev)-len(want) == n-1 {
						break
					}
					if r.Rev != depBefore {
						want = append(want, r.Rev)
					}
				}
			}
			sort.Ints(removed)
			if fmt.Sprint(removed) != fmt.Sprint(want) {
				add("C01:pruned-wrong-set", fmt.Sprintf("step %d: max-history %d over %v (deployed %d): removed %v, expected %v", i, n, ledgerProj(prev), depBefore, removed, want))
			}
			// the operation itself may add two revisions (atomic: failed + rollback)
			if extra := len(fresh) - 1; len(led)-extra > n && !(len(led)-extra == n+1 && depBefore >= 0 && now[depBefore] && n == 1) {
				add("C01:history-limit-exceeded", fmt.Sprintf("step %d: max-history %d but %d revisions remain: %v", i, n, len(led), ledgerProj(led)))
			}
		}
		// upgrade and rollback delete records only by pruning: a Delete must never hit a record whose STORED status is
		// deployed (seen by the recording driver wrapper, so also when the operation failed later on)
		if (op.Kind == "upgrade" || op.Kind == "rollback") && op.WFail == nil && op.Crash == nil && len(so.DelDeployed) > 0 && !alreadyTwo(prev) {
			add("C01:pruned-deployed", fmt.Sprintf("step %d (%s --history-max %d): the record of revision %v was deleted while its stored status was deployed; before: %v, after: %v",
				i, op.Kind, op.Flags.MaxHistory, so.DelDeployed, ledgerProj(prev), ledgerProj(led)))
		}
		prev = led
	}
	return vs
}

func alreadyTwo(l []eng.LedgerRow) bool {
	n := 0
	for _, r := range l {
		if r.Status == "deployed" {
			n++
		}
	}
	return n > 1
}
func kindOf(op *eng.Op) string {
	if op == nil {
		return "edit"
	}
	return op.Kind
}
func keysOf(rs []eng.Res) []string {
	var k []string
	for _, r := range rs {
		k = append(k, r.Key())
	}
	return k
}

package main

// C01 — release revision ledger stays well-formed under any history and faults.
// Histories of real install/upgrade/rollback/uninstall with cluster faults, storage-write
// failures and crash points; the ledger (and everything else observed) is compared with
// Engine/Seq.v, and the ledger clauses of the property are evaluated directly.

import (
	"encoding/json"
	"fmt"
	"math/rand"
	"sort"

	"verif/harness/internal/eng"
	"verif/harness/internal/hx"
)

func init() { hx.Register("c01", func() hx.Property { return &c01{} }) }

type c01 struct{}

func (*c01) ID() string        { return "C01" }
func (*c01) CoqImport() string { return engImport }

const engImport = "From Helm Require Import Engine.Types Engine.Eff Engine.Ops Engine.Cluster Engine.Seq Run.RunEng."

func (*c01) Rule() string {
	return "histories of 1-6 real operations (install/upgrade/rollback/uninstall, random flags atomic/cleanup-on-fail/keep-history/replace/" +
		"max-history/no-hooks, 5-resource chart family with hooks) on memory/Secret/ConfigMap storage; per operation one of: no fault (40%), " +
		"one cluster fault (25%: rejected create/patch/delete/get of one resource, hook failure, wait failure), n-th storage write fails (15%), " +
		"process death before the n-th mutating effect (20%); non-trivial = at least 2 operations changed the ledger; distinct = hash of (case, observation)"
}

func engDecode(raw json.RawMessage) (any, error) {
	var h eng.History
	err := json.Unmarshal(raw, &h)
	return h, err
}
func (*c01) Decode(raw json.RawMessage) (any, error) { return engDecode(raw) }

func mkOp(kind string, chart int, f eng.Flags, keys ...string) *eng.Op {
	op := &eng.Op{Kind: kind, Flags: f, ChartID: chart, ValsID: chart}
	for _, k := range keys {
		op.Manifest = append(op.Manifest, eng.Res{Kind: "ConfigMap", Name: k, Fields: map[string]string{"d:k": fmt.Sprintf("v%d", chart)}})
	}
	return op
}
func ipt(n int) *int { return &n }

func (*c01) Corpus() []any {
	var out []any
	for _, b := range []string{"secret", "memory"} {
		// K1: install; failed upgrade; install --replace  => two deployed
		up := mkOp("upgrade", 2, eng.Flags{}, "a")
		up.WaitFail = true
		out = append(out, eng.History{Backend: b, Steps: []eng.Step{
			{Op: mkOp("install", 1, eng.Flags{}, "a")}, {Op: up}, {Op: mkOp("install", 3, eng.Flags{Replace: true}, "a")}}})
		// K2: the "superseded" write of a successful upgrade fails and is swallowed => two deployed
		up2 := mkOp("upgrade", 2, eng.Flags{}, "a")
		up2.WFail = ipt(1)
		out = append(out, eng.History{Backend: b, Steps: []eng.Step{{Op: mkOp("install", 1, eng.Flags{}, "a")}, {Op: up2}}})
		// K2': the final "deployed" write of install fails and is swallowed => success reported, record pending
		in := mkOp("install", 1, eng.Flags{}, "a")
		in.WFail = ipt(1)
		out = append(out, eng.History{Backend: b, Steps: []eng.Step{{Op: in}}})
		// pruning, atomic rollback, crash + recovery
		up3 := mkOp("upgrade", 3, eng.Flags{Atomic: true, MaxHistory: 2}, "a", "b")
		up3.KFault = &eng.KFault{Verb: "create", Key: "ConfigMap/b"}
		cr := mkOp("upgrade", 4, eng.Flags{}, "a")
		cr.Crash = ipt(2)
		out = append(out, eng.History{Backend: b, Steps: []eng.Step{
			{Op: mkOp("install", 1, eng.Flags{}, "a")}, {Op: mkOp("upgrade", 2, eng.Flags{MaxHistory: 2}, "a")}, {Op: up3},
			{Op: cr}, {Op: mkOp("rollback", 0, eng.Flags{Version: 1})}, {Op: mkOp("uninstall", 0, eng.Flags{})}}})
		// Example C01_prune_gap (Engine/LedgerEx.v gap_history): max-history 1 deletes revision 2 before 3 is created
		upw := mkOp("upgrade", 2, eng.Flags{}, "a")
		upw.WaitFail = true
		out = append(out, eng.History{Backend: b, Steps: []eng.Step{
			{Op: mkOp("install", 1, eng.Flags{}, "a")}, {Op: upw}, {Op: mkOp("upgrade", 3, eng.Flags{MaxHistory: 1}, "a")}}})
		// Example C01_nonvacuous (Engine/LedgerEx.v nv_history): failed upgrade, atomic rollback, pruning, crash,
		// refused upgrade (pending), recovery by rollback, keep-history uninstall, install --replace, purge
		nv2 := mkOp("upgrade", 2, eng.Flags{}, "a")
		nv2.WaitFail = true
		nv3 := mkOp("upgrade", 3, eng.Flags{Atomic: true, MaxHistory: 3}, "a", "b")
		nv3.KFault = &eng.KFault{Verb: "create", Key: "ConfigMap/b"}
		nv5 := mkOp("upgrade", 5, eng.Flags{}, "a")
		nv5.Crash = ipt(2)
		out = append(out, eng.History{Backend: b, Steps: []eng.Step{
			{Op: mkOp("install", 1, eng.Flags{}, "a")}, {Op: nv2}, {Op: nv3},
			{Op: mkOp("upgrade", 4, eng.Flags{MaxHistory: 2}, "a")}, {Op: nv5}, {Op: mkOp("upgrade", 6, eng.Flags{}, "a")},
			{Op: mkOp("rollback", 0, eng.Flags{Version: 5})}, {Op: mkOp("uninstall", 0, eng.Flags{KeepHistory: true})},
			{Op: mkOp("install", 7, eng.Flags{Replace: true}, "a")}, {Op: mkOp("uninstall", 0, eng.Flags{})}}})
	}
	return out
}

func (*c01) Exhaustive(tier string) []any {
	if tier != "thorough" {
		return nil
	}
	// all histories of length <= 3 over the four operations x one flag each x every single crash/write-fault position
	var out []any
	kinds := []string{"install", "upgrade", "rollback", "uninstall"}
	var rec func(prefix []eng.Step, depth int)
	rec = func(prefix []eng.Step, depth int) {
		if depth == 0 {
			return
		}
		for _, k := range kinds {
			for fi := 0; fi < 3; fi++ {
				f := eng.Flags{}
				switch fi {
				case 1:
					f.Atomic = true
				case 2:
					f.Replace, f.KeepHistory, f.MaxHistory = true, true, 1
				}
				op := mkOp(k, len(prefix)+1, f, "a", "b")
				steps := append(append([]eng.Step{}, prefix...), eng.Step{Op: op})
				out = append(out, eng.History{Backend: "secret", Steps: steps})
				if depth == 1 {
					for n := 0; n < 6; n++ {
						for _, crash := range []bool{true, false} {
							o2 := *op
							if crash {
								o2.Crash = ipt(n)
							} else {
								o2.WFail = ipt(n)
							}
							s2 := append(append([]eng.Step{}, prefix...), eng.Step{Op: &o2})
							out = append(out, eng.History{Backend: "secret", Steps: s2})
						}
					}
				}
				rec(steps, depth-1)
			}
		}
	}
	rec(nil, 3)
	return out
}

func (*c01) Generate(r *rand.Rand, _ int) any {
	return eng.GenHistory(r, eng.GenOpts{Faults: true, Hooks: 2, Flags: true})
}

func engExecute(ci any) any {
	h := ci.(eng.History)
	return eng.NewRunner(h.Backend).Run(h)
}
func (*c01) Execute(ci any) any { return engExecute(ci) }

func (*c01) CoqCase(ci, oi any) string { return eng.CoqCase(ci.(eng.History), oi.(eng.Obs)) }

func (*c01) Class(ci, _ any) string {
	h := ci.(eng.History)
	cls := "nofault"
	for _, s := range h.Steps {
		if s.Op == nil {
			continue
		}
		switch {
		case s.Op.Crash != nil:
			cls = "crash"
		case s.Op.WFail != nil && cls != "crash":
			cls = "wfail"
		case (s.Op.KFault != nil || s.Op.HFault != nil || s.Op.WaitFail) && cls == "nofault":
			cls = "clusterfault"
		}
	}
	return fmt.Sprintf("len%d/%s", len(h.Steps), cls)
}

func (*c01) NonTrivial(_, oi any) bool {
	o := oi.(eng.Obs)
	changes := 0
	prev := ""
	for _, s := range o.Steps {
		b, _ := json.Marshal(ledgerProj(s.Ledger))
		if string(b) != prev {
			changes++
		}
		prev = string(b)
	}
	return changes >= 2
}

func ledgerProj(l []eng.LedgerRow) [][2]interface{} {
	var out [][2]interface{}
	for _, r := range l {
		out = append(out, [2]interface{}{r.Rev, r.Status})
	}
	return out
}

// Oracle: the ledger clauses of C01 evaluated on what the real code left in storage.
func (*c01) Oracle(ci, oi any) []hx.Violation {
	h, o := ci.(eng.History), oi.(eng.Obs)
	var vs []hx.Violation
	add := func(sig, what string) { vs = append(vs, hx.Violation{Sig: sig, What: what}) }
	var prev []eng.LedgerRow
	for i, s := range h.Steps {
		if i >= len(o.Steps) {
			break
		}
		so := o.Steps[i]
		if so.Panic != "" {
			add("C01:panic", fmt.Sprintf("step %d panicked: %s", i, so.Panic))
		}
		led := so.Ledger
		// unique, strictly increasing revisions
		for j := 1; j < len(led); j++ {
			if led[j].Rev <= led[j-1].Rev {
				add("C01:duplicate-revision", fmt.Sprintf("step %d: revision %d stored twice", i, led[j].Rev))
			}
		}
		op := s.Op
		faulted := op != nil && (op.WFail != nil)
		// at most one deployed
		nd := 0
		for _, r := range led {
			if r.Status == "deployed" {
				nd++
			}
		}
		if nd > 1 {
			sig := "C01:two-deployed"
			prevDeployed := false
			for _, r := range prev {
				if r.Status == "deployed" {
					prevDeployed = true
				}
			}
			switch {
			case alreadyTwo(prev):
				sig = "" // consequence of an earlier (reported) violation in this history
			case op != nil && op.Kind == "install" && op.Flags.Replace && prevDeployed && !faulted:
				sig = "C01:two-deployed-install-replace-over-deployed" // K1
			case faulted:
				sig = "C01:storage-write-error-swallowed" // K2
			}
			if sig != "" {
				add(sig, fmt.Sprintf("step %d (%s): %d revisions are marked deployed: %v", i, kindOf(op), nd, ledgerProj(led)))
			}
		}
		if op == nil {
			prev = led
			continue
		}
		// new revisions are exactly prevmax+1, +2, ...
		pm := 0
		had := map[int]bool{}
		for _, r := range prev {
			had[r.Rev] = true
			if r.Rev > pm {
				pm = r.Rev
			}
		}
		var fresh []int
		for _, r := range led {
			if !had[r.Rev] {
				fresh = append(fresh, r.Rev)
			}
		}
		sort.Ints(fresh)
		for k, v := range fresh {
			if v != pm+1+k {
				add("C01:revision-not-successor", fmt.Sprintf("step %d (%s): new revision %d, highest before was %d (new: %v)", i, op.Kind, v, pm, fresh))
				break
			}
		}
		dry := op.Flags.IsDry()
		if so.Outcome == "ok" && !dry {
			var prevDep *eng.LedgerRow
			for k := range prev {
				if prev[k].Status == "deployed" {
					prevDep = &prev[k]
				}
			}
			switch op.Kind {
			case "install", "upgrade", "rollback":
				okPost := len(led) > 0 && led[len(led)-1].Status == "deployed" && !had[led[len(led)-1].Rev]
				if !okPost {
					sig := "C01:success-without-deployed-head"
					if faulted {
						sig = "C01:storage-write-error-swallowed"
					}
					add(sig, fmt.Sprintf("step %d: %s reported success but the highest revision is not a new deployed one: %v", i, op.Kind, ledgerProj(led)))
				}
				if prevDep != nil && !(op.Kind == "install" && op.Flags.Replace) {
					for _, r := range led {
						if r.Rev == prevDep.Rev && r.Status != "superseded" && !faulted && !alreadyTwo(prev) {
							add("C01:previous-not-superseded", fmt.Sprintf("step %d: %s succeeded but revision %d is %s", i, op.Kind, r.Rev, r.Status))
						}
					}
				}
				if op.Kind == "rollback" && okPost {
					tv := op.Flags.Version
					if tv == 0 {
						tv = pm - 1
					}
					for _, t := range prev {
						if t.Rev == tv {
							n := led[len(led)-1]
							if n.ChartID != t.ChartID || n.ValsID != t.ValsID || fmt.Sprint(keysOf(n.Manifest)) != fmt.Sprint(keysOf(t.Manifest)) {
								add("C01:rollback-content", fmt.Sprintf("step %d: rollback to %d created a revision with different chart/values/manifest", i, tv))
							}
						}
					}
				}
			case "uninstall":
				if !op.Flags.KeepHistory && len(led) != 0 {
					add("C01:uninstall-left-history", fmt.Sprintf("step %d: uninstall without keep-history left %v", i, ledgerProj(led)))
				}
			}
		}
		// pruning (upgrade / rollback with max-history), only when no storage fault or crash was injected
		if n := op.Flags.MaxHistory; n > 0 && (op.Kind == "upgrade" || op.Kind == "rollback") && !dry && op.WFail == nil && op.Crash == nil && len(fresh) > 0 {
			now := map[int]bool{}
			for _, r := range led {
				now[r.Rev] = true
			}
			var removed, keptOld []int
			depBefore := -1
			for _, r := range prev {
				if r.Status == "deployed" && r.Rev > depBefore {
					depBefore = r.Rev
				}
			}
			for _, r := range prev {
				if !now[r.Rev] {
					removed = append(removed, r.Rev)
				} else if r.Rev != depBefore {
					keptOld = append(keptOld, r.Rev)
				}
			}
			for _, x := range removed {
				if x == depBefore {
					add("C01:pruned-deployed", fmt.Sprintf("step %d: pruning removed the deployed revision %d", i, x))
				}
				for _, y := range keptOld {
					if y < x {
						add("C01:pruned-not-oldest", fmt.Sprintf("step %d: pruning removed revision %d but kept older %d", i, x, y))
					}
				}
			}
			// the operation itself may add two revisions (atomic: failed + rollback)
			if extra := len(fresh) - 1; len(led)-extra > n && !(len(led)-extra == n+1 && depBefore >= 0 && now[depBefore] && n == 1) {
				add("C01:history-limit-exceeded", fmt.Sprintf("step %d: max-history %d but %d revisions remain: %v", i, n, len(led), ledgerProj(led)))
			}
		}
		prev = led
	}
	return vs
}

func alreadyTwo(l []eng.LedgerRow) bool {
	n := 0
	for _, r := range l {
		if r.Status == "deployed" {
			n++
		}
	}
	return n > 1
}
func kindOf(op *eng.Op) string {
	if op == nil {
		return "edit"
	}
	return op.Kind
}
func keysOf(rs []eng.Res) []string {
	var k []string
	for _, r := range rs {
		k = append(k, r.Key())
	}
	return k
}

package main

// C07 — Helm never takes over or deletes resources it does not own.
//
// A case is an eng.History: pre-existing objects in every ownership placement (absent /
// unlabelled foreign / owned by another release name / same name in another namespace /
// partially labelled / correctly owned) at the keys the operation under test would newly
// create, plus bystander objects outside every manifest, then a scenario of REAL operations:
// install; upgrade adding resources; install --replace after uninstall --keep-history;
// rollback that re-creates dropped resources — with take-ownership on and off.
// The whole history is compared with Engine/Seq.v (outcome class, ledger, objects, trace) and
// the runtime oracle evaluates the property text directly on the raw request log.

import (
	"encoding/json"
	"fmt"
	"math/rand"
	"reflect"
	"sort"
	"strings"

	"verif/harness/internal/eng"
	"verif/harness/internal/hx"
)

func init() { hx.Register("c07", func() hx.Property { return &c07{} }) }

type c07 struct{}

type c07Case struct {
	H        eng.History `json:"history"`
	Scenario string      `json:"scenario"`        // install upgrade-add replace rollback-recreate
	Place    []string    `json:"placements"`      // per new resource
	Metas    []string    `json:"metas,omitempty"` // per new resource: ownership metadata its template renders
	NS       []string    `json:"ns,omitempty"`    // per new resource: namespace ("" = the release namespace)
	Intr     string      `json:"intr,omitempty"`  // check-to-create race in the step under test: get404 post get404-hook post-hook
	Test     int         `json:"test"`            // index of the step under test
}

// one direct run of setMetadataVisitor / checkOwnership (pkg/action/validate.go) on an object's
// label and annotation maps
type c07Stamp struct {
	RN     string            `json:"rn"`
	NS     string            `json:"ns"`
	Force  bool              `json:"force"`
	Labels map[string]string `json:"labels"`
	Annots map[string]string `json:"annots"`
	Owned  bool              `json:"owned"` // checkOwnership(obj, rn, ns) == nil, before stamping
	Err    bool              `json:"err"`   // setMetadataVisitor returned an error
	OutL   map[string]string `json:"out_labels,omitempty"`
	OutA   map[string]string `json:"out_annots,omitempty"`
}

type c07Req struct {
	Method string `json:"m"`
	Key    string `json:"k"`
	Code   int    `json:"c"`
}

type c07Obs struct {
	Obs    eng.Obs                        `json:"obs"`
	Before map[string]map[string]string   `json:"before"`        // objects just before the step under test
	LedgB  []eng.LedgerRow                `json:"ledger_before"` // ledger just before the step under test
	Raw    []c07Req                       `json:"raw"`           // raw mutating requests of the step under test
	Pre    []map[string]map[string]string `json:"pre"`           // per step: objects just before it (nil for edits)
	Log    [][]c07Req                     `json:"log"`           // per step: EVERY request of an operation, GETs included, in arrival order
	Stamps []c07Stamp                     `json:"stamps"`
}

func (*c07) ID() string { return "C07" }
func (*c07) CoqImport() string {
	return "From Helm Require Import Engine.Types Engine.Eff Engine.Ops Engine.Cluster Engine.Seq Run.RunEng.\nFrom Helm Require Import Run.RunC07."
}

func (*c07) Rule() string {
	return "scenario (install 30%, upgrade adding resources 10%, retried upgrade after one that failed before creating them 10%, upgrade adding resources whose NAME a resource of another kind in the release already has 5%, upgrade adding in a second namespace resources whose KIND AND NAME the release already has in its own namespace 5%, install --replace after uninstall --keep-history 20%, rollback re-creating dropped resources 20%) x " +
		"45%: templates that render ownership metadata of their own (right / wrong label / stale from another release / empty / partial / wrong case, plus a label and an annotation that must survive), also on the updated resource of an upgrade; 20%: some new resources in a second namespace and same-named objects of another release in a third; every case: up to 2 objects stamped directly by setMetadataVisitor with and without force x " +
		"1-4 new resources (ConfigMap/Secret/ServiceAccount) each with a pre-existing object in one of six placements (absent, foreign, other release, other namespace, " +
		"partially labelled in 5 variants, correctly owned) x take-ownership on/off x random atomic/cleanup/no-hooks flags, charts with hooks, bystander objects " +
		"(unlabelled, owned by another release, and labelled as this release's but in no manifest); 15% of the install/upgrade cases and 60 corpus cases reject (403) the ownership GET of one new resource; quick tier enumerates all 6^2 placements of 2 resources for " +
		"install/upgrade/replace x take on/off (and 6 placements of 1 resource for rollback and the same-name upgrade), thorough all 6^3 of 3 resources; non-trivial = at least one new resource has a pre-existing object; distinct = hash of (case, observation)"
}

func (*c07) Decode(raw json.RawMessage) (any, error) {
	var c c07Case
	err := json.Unmarshal(raw, &c)
	return c, err
}

func (*c07) Execute(ci any) any {
	c := ci.(c07Case)
	h := c.H
	r := eng.NewRunner(h.Backend)
	r.Srv.ByNS = true // objects are keyed by (namespace, kind, name)
	for _, x := range h.Init {
		r.PutRes(x)
	}
	var o c07Obs
	for i, s := range h.Steps {
		if i == c.Test {
			o.Before = r.Srv.Snapshot()
			o.LedgB = c07Ledger(r.Inner)
		}
		switch {
		case s.Op != nil:
			o.Pre = append(o.Pre, r.Srv.Snapshot())
			n0 := len(r.Srv.Log)
			so := r.RunOp(s.Op)
			var all []c07Req
			for _, q := range r.Srv.Log[n0:] {
				all = append(all, c07Req{q.Method, q.Key, q.Code})
				if i == c.Test && q.Method != "GET" {
					o.Raw = append(o.Raw, c07Req{q.Method, q.Key, q.Code})
				}
			}
			o.Log = append(o.Log, all)
			o.Obs.Steps = append(o.Obs.Steps, so)
		case s.Edit != nil:
			o.Pre = append(o.Pre, nil)
			o.Log = append(o.Log, nil)
			if s.Edit.Set != nil {
				r.PutRes(*s.Edit.Set)
			} else {
				r.Srv.Remove(s.Edit.Del)
			}
			o.Obs.Steps = append(o.Obs.Steps, eng.StepObs{Outcome: "ok", Ledger: c07Ledger(r.Inner), Objs: r.Srv.Snapshot()})
		}
	}
	o.Stamps = c07RunStamps(c)
	return o
}

// the property text's ownership test: label and both annotations, for this very release
func c07Owned(f map[string]string) bool {
	return f["l:app.kubernetes.io/managed-by"] == "Helm" && f["a:meta.helm.sh/release-name"] == eng.RelName &&
		f["a:meta.helm.sh/release-namespace"] == eng.RelNS
}

func c07LedgerEq(a, b []eng.LedgerRow) bool {
	if len(a) == 0 && len(b) == 0 {
		return true
	}
	x, _ := json.Marshal(a)
	y, _ := json.Marshal(b)
	return string(x) == string(y)
}

func c07Keys(rs []eng.Res) map[string]bool {
	m := map[string]bool{}
	for _, r := range rs {
		m[r.Key()] = true
	}
	return m
}

func (*c07) Oracle(ci, oi any) []hx.Violation {
	c, o := ci.(c07Case), oi.(c07Obs)
	var vs []hx.Violation
	add := func(sig, what string) { vs = append(vs, hx.Violation{Sig: sig, What: what}) }
	if c.Test >= len(o.Obs.Steps) || c.H.Steps[c.Test].Op == nil {
		return nil
	}
	for i, s := range o.Obs.Steps {
		if s.Panic != "" {
			add("C07:panic", fmt.Sprintf("step %d panicked: %s", i, s.Panic))
		}
	}
	op := c.H.Steps[c.Test].Op
	t := o.Obs.Steps[c.Test]
	what := fmt.Sprintf("%s (scenario %s, placements %v, take-ownership=%v)", op.Kind, c.Scenario, c.Place, op.Flags.TakeOwnership)

	// keys that belong to the release: every manifest and hook of a stored revision before the
	// operation, and of the operation's own chart
	relKeys := map[string]bool{}
	hookKeys := map[string]bool{}
	curKeys := map[string]bool{} // manifest of the revision the upgrade starts from
	for _, row := range o.LedgB {
		for _, m := range row.Manifest {
			relKeys[m.Key()] = true
		}
		for _, h := range row.Hooks {
			relKeys[h.Res.Key()] = true
			hookKeys[h.Res.Key()] = true
		}
	}
	for i := len(o.LedgB) - 1; i >= 0; i-- {
		if o.LedgB[i].Status == "deployed" {
			curKeys = c07Keys(o.LedgB[i].Manifest)
			break
		}
	}
	if len(curKeys) == 0 && len(o.LedgB) > 0 {
		curKeys = c07Keys(o.LedgB[len(o.LedgB)-1].Manifest)
	}
	maniKeys := c07Keys(op.Manifest)
	for k := range maniKeys {
		relKeys[k] = true
	}
	for _, h := range op.Hooks {
		relKeys[h.Res.Key()] = true
		hookKeys[h.Res.Key()] = true
	}
	if op.Kind == "rollback" && len(t.Ledger) > 0 {
		// the manifest rolled back to: the head revision after the operation, when one was created
		maniKeys = c07Keys(t.Ledger[len(t.Ledger)-1].Manifest)
	}

	// 1. refusal before any mutation
	if (op.Kind == "install" || op.Kind == "upgrade") && !op.Flags.TakeOwnership {
		var blocked []string
		for k := range maniKeys {
			if op.Kind == "upgrade" && curKeys[k] {
				continue // not newly created
			}
			if live, ok := o.Before[k]; ok && !c07Owned(live) {
				blocked = append(blocked, k)
			}
		}
		sort.Strings(blocked)
		if len(blocked) > 0 {
			if t.Outcome == "ok" {
				add("C07:no-refusal", fmt.Sprintf("%s succeeded although %v exist and are not owned by this release", what, blocked))
			}
			if t.MutReqs != 0 {
				add("C07:cluster-mutation-before-refusal", fmt.Sprintf("%s: %d mutating request(s) %v although %v exist and are not owned", what, t.MutReqs, o.Raw, blocked))
			}
			if t.SWrites != 0 {
				add("C07:storage-write-before-refusal", fmt.Sprintf("%s: %d storage write(s) although %v exist and are not owned", what, t.SWrites, blocked))
			}
			after := t.Objs
			if op.Intr != nil && t.IntrFired {
				// what the OTHER actor of a race created during the look-up is not Helm's change
				if _, had := o.Before[op.Intr.Obj.Key()]; !had && reflect.DeepEqual(t.Objs[op.Intr.Obj.Key()], op.Intr.Obj.Fields) {
					after = map[string]map[string]string{}
					for k, v := range t.Objs {
						if k != op.Intr.Obj.Key() {
							after[k] = v
						}
					}
				}
			}
			if !reflect.DeepEqual(o.Before, after) {
				add("C07:objects-changed-on-refusal", what+": cluster objects changed")
			}
			if !c07LedgerEq(o.LedgB, t.Ledger) {
				add("C07:ledger-changed-on-refusal", what+": release history changed")
			}
		}
	}

	// 2. objects that do not belong to this release are never modified without take-ownership
	//    (hook objects are not labelled and are replaced by key: the property allows that)
	if !op.Flags.TakeOwnership {
		for k, live := range o.Before {
			if c07Owned(live) || hookKeys[k] {
				continue
			}
			if op.Kind == "upgrade" && curKeys[k] || op.Kind == "uninstall" || op.Kind == "rollback" && curKeys[k] {
				continue // resources of the current manifest are Helm's to update (not "newly created")
			}
			after, ok := t.Objs[k]
			if !ok || !reflect.DeepEqual(live, after) {
				add("C07:foreign-object-touched", fmt.Sprintf("%s changed or removed %s, which is not owned by this release", what, k))
			}
		}
	}

	// 3. every manifest resource created or updated carries the ownership metadata
	for k, after := range t.Objs {
		if !maniKeys[k] {
			continue
		}
		before, had := o.Before[k]
		if had && reflect.DeepEqual(before, after) {
			continue
		}
		if op.Intr != nil && k == op.Intr.Obj.Key() && reflect.DeepEqual(after, op.Intr.Obj.Fields) {
			continue // put there by the other actor of a race, not by Helm (clause 7)
		}
		if !c07Owned(after) {
			add("C07:written-without-ownership-metadata", fmt.Sprintf("%s created or updated %s without the managed-by label / release annotations: %v", what, k, after))
		}
	}

	// 4. every DELETE targets a key of a manifest or hook of the release; bystanders unchanged
	for _, q := range o.Raw {
		if q.Method == "DELETE" && !relKeys[q.Key] {
			add("C07:delete-outside-release", fmt.Sprintf("%s sent DELETE %s, which is in no manifest or hook of the release", what, q.Key))
		}
		if q.Method != "DELETE" && q.Method != "GET" && !relKeys[q.Key] {
			add("C07:write-outside-release", fmt.Sprintf("%s sent %s %s, which is in no manifest or hook of the release", what, q.Method, q.Key))
		}
	}
	for k, live := range o.Before {
		if relKeys[k] {
			continue
		}
		if after, ok := t.Objs[k]; !ok || !reflect.DeepEqual(live, after) {
			add("C07:bystander-changed", fmt.Sprintf("%s changed or removed the bystander object %s", what, k))
		}
	}
	// 5. stamping forces the three ownership values (every operation of the history, and the
	//    direct runs of setMetadataVisitor)
	c07StampOracle(c, o, add)
	// 6. request level: every resource to be newly created is looked up before the first mutating request
	c07PreflightOracle(c, o, add)
	// 7. check-to-create races: a foreign object that appeared in the middle of the operation is not taken over
	c07RaceOracle(c, o, add)
	return vs
}

// String literals are by far the most expensive part of a case file for coqc (every character is
// a constructor application): the recurring ones are printed as the identifiers Run/RunC07.v
// defines for them (Definition sL := "l:app.kubernetes.io/managed-by". ...).
var c07Abbrev = strings.NewReplacer(
	`"l:app.kubernetes.io/managed-by"`, "sL", `"a:meta.helm.sh/release-name"`, "sAN", `"a:meta.helm.sh/release-namespace"`, "sAS",
	`"app.kubernetes.io/managed-by"`, "sl", `"meta.helm.sh/release-name"`, "san", `"meta.helm.sh/release-namespace"`, "sas",
	`"l:app.kubernetes.io/name"`, "sLN", `"a:example.com/note"`, "sAT", `"app.kubernetes.io/name"`, "sln", `"example.com/note"`, "sat",
	`"ConfigMap/bystander"`, "sB1", `"ConfigMap/bystander-other"`, "sB2", `"Secret/bystander-labelled"`, "sB3",
	`"ConfigMap/base"`, "sCB", `"ConfigMap"`, "sCM", `"Secret"`, "sSE", `"ServiceAccount"`, "sSA",
	`"default"`, "sD", `"elsewhere"`, "sE", `"Helm"`, "sH", `"keep me"`, "sKM", `"create"`, "sCr", `"update"`, "sUp", `"delete"`, "sDe",
	`"hookwatch"`, "sHW", `"bystander"`, "sby", `"bystander-other"`, "sbo", `"bystander-labelled"`, "sbl")

func (*c07) CoqCase(ci, oi any) string {
	o := oi.(c07Obs)
	return c07Abbrev.Replace(fmt.Sprintf("mkC7 (%s)\n  %s\n  %s\n  %s", eng.CoqCase(ci.(c07Case).H, o.Obs), c07CoqStamps(o.Stamps), c07CoqLogs(ci.(c07Case), o), c07CoqIntr(ci.(c07Case))))
}

func (*c07) Class(ci, oi any) string {
	c, o := ci.(c07Case), oi.(c07Obs)
	take := "check"
	out := "?"
	if c.Test < len(c.H.Steps) && c.H.Steps[c.Test].Op != nil {
		if c.H.Steps[c.Test].Op.Flags.TakeOwnership {
			take = "take"
		}
	}
	if c.Test < len(o.Obs.Steps) {
		out = o.Obs.Steps[c.Test].Outcome
	}
	p := append([]string{}, c.Place...)
	sort.Strings(p)
	cls := fmt.Sprintf("%s/%s/%s/%s", c.Scenario, take, out, strings.Join(p, "+"))
	if len(c.Metas) > 0 {
		seen := map[string]bool{}
		var m []string
		for _, x := range c.Metas {
			if !seen[x] && x != "none" {
				seen[x] = true
				m = append(m, x)
			}
		}
		sort.Strings(m)
		cls += "/meta:" + strings.Join(m, "+")
	}
	for _, n := range c.NS {
		if n != "" {
			cls += "/2ns"
			break
		}
	}
	if c.Intr != "" {
		cls += "/race:" + c.Intr
	}
	return cls
}

func (*c07) NonTrivial(ci, _ any) bool {
	for _, p := range ci.(c07Case).Place {
		if p != "absent" {
			return true
		}
	}
	return false
}

func (*c07) Generate(r *rand.Rand, _ int) any { return c07Gen(r) }

package main

// Translator table for C19 (Gen/C19Origin.v): the credential decisions of the Go source, read
// with go/ast by a small symbolic interpreter and printed in the language of Misc/CredsSrc.v,
// so that Misc/CredsSrcProofs.v can prove them equal to the model's decisions for EVERY
// assignment of the atoms (pass flag, scheme / host equality, user / password set, --repo
// given, parse errors).  The tie is semantic: nested ifs <-> one condition, De Morgan,
// if/else <-> locals blanked under the negated condition, a same-package helper
// (sameOrigin(u1, u2), repoEntryOptions(rc)) <-> its body, switch <-> if-chain leave the
// obligations intact; a changed comparison, a dropped conjunct, a swapped argument break them.
//
//   pkg/getter/httpgetter.go            HTTPGetter.get          when req.SetBasicAuth(user, pass) is called
//   pkg/action/install.go               ChartPathOptions.LocateChart   dl.Options at dl.DownloadTo
//   pkg/action/pull.go                  Pull.Run                c.Options at c.DownloadTo
//   pkg/downloader/manager.go           Manager.downloadAll     dl.Options at dl.DownloadTo (one dependency)
//   pkg/downloader/chart_downloader.go  ResolveChartVersion     what each successful return has appended to c.Options
//                                       DownloadTo              the two Get calls and the options they are given
//   pkg/repo/chartrepo.go               DownloadIndexFile       the options of its Get call
//
// The interpreter: assignments of strings / booleans / option slices to locals, url.Parse
// bindings (variable -> what was parsed, and its error variable), append to an option slice,
// composite literals with an Options field, if / else (symbolic merge), tag-less switch, one
// pass through loop bodies, return / continue / break end a path, calls of functions of the
// same file with a body are inlined.  Anything it does not understand becomes an opaque token
// (COther / TOtherTok), which cannot satisfy an obligation it matters for.

import (
	"fmt"
	"go/ast"
	"go/token"
	"go/types"
	"sort"
	"strings"

	"verif/harness/internal/hx"
)

func init() { registerTable("C19Origin", genC19Origin) }

// ---------------------------------------------------------------- symbolic values

type c19B struct { // boolean expression
	op   string // true false atom not and or
	atom string
	a, b *c19B
}

type c19S struct { // string value
	tok   string // a raw token text
	empty bool   // the empty string literal
	ite   *c19B
	a, b  *c19S
}

type c19It struct {
	name  string
	sargs []*c19S
	bargs []*c19B
}

type c19G struct {
	g  *c19B
	it c19It
}

var (
	c19True  = &c19B{op: "true"}
	c19False = &c19B{op: "false"}
)

func c19Atom(s string) *c19B { return &c19B{op: "atom", atom: s} }
func c19Not(a *c19B) *c19B {
	switch a.op {
	case "true":
		return c19False
	case "false":
		return c19True
	case "not":
		return a.a
	}
	return &c19B{op: "not", a: a}
}
func c19And(a, b *c19B) *c19B {
	if a.op == "true" {
		return b
	}
	if b.op == "true" {
		return a
	}
	if a.op == "false" || b.op == "false" {
		return c19False
	}
	return &c19B{op: "and", a: a, b: b}
}
func c19Or(a, b *c19B) *c19B {
	if a.op == "false" {
		return b
	}
	if b.op == "false" {
		return a
	}
	if a.op == "true" || b.op == "true" {
		return c19True
	}
	return &c19B{op: "or", a: a, b: b}
}

func (b *c19B) key() string {
	switch b.op {
	case "atom":
		return "@" + b.atom
	case "not":
		return "!(" + b.a.key() + ")"
	case "and", "or":
		return "(" + b.a.key() + " " + b.op + " " + b.b.key() + ")"
	}
	return b.op
}

func c19Tok(s string) *c19S { return &c19S{tok: s} }

var c19Empty = &c19S{empty: true}

func (s *c19S) key() string {
	switch {
	case s.empty:
		return `""`
	case s.ite != nil:
		return "ite(" + s.ite.key() + "," + s.a.key() + "," + s.b.key() + ")"
	}
	return s.tok
}

func c19SIte(c *c19B, a, b *c19S) *c19S {
	if a.key() == b.key() {
		return a
	}
	switch c.op {
	case "true":
		return a
	case "false":
		return b
	}
	return &c19S{ite: c, a: a, b: b}
}

func (it c19It) key() string {
	var p []string
	for _, s := range it.sargs {
		p = append(p, s.key())
	}
	for _, b := range it.bargs {
		p = append(p, b.key())
	}
	return it.name + "(" + strings.Join(p, ",") + ")"
}

// ---------------------------------------------------------------- interpreter state

type c19URLBind struct {
	src, errVar string
	seq         int
}

type c19St struct {
	strs  map[string]*c19S
	bools map[string]*c19B
	urls  map[string]c19URLBind
	lists map[string][]c19G
	subst map[string]string // selector root -> replacement text (helper parameters)
	ret   *c19Ret           // value of the last return seen on a live path (helper inlining)
}

type c19Ret struct {
	list []c19G
	b    *c19B
	isB  bool
}

func c19NewSt() *c19St {
	return &c19St{strs: map[string]*c19S{}, bools: map[string]*c19B{}, urls: map[string]c19URLBind{}, lists: map[string][]c19G{}, subst: map[string]string{}}
}

func (s *c19St) clone() *c19St {
	n := c19NewSt()
	for k, v := range s.strs {
		n.strs[k] = v
	}
	for k, v := range s.bools {
		n.bools[k] = v
	}
	for k, v := range s.urls {
		n.urls[k] = v
	}
	for k, v := range s.lists {
		n.lists[k] = append([]c19G(nil), v...)
	}
	for k, v := range s.subst {
		n.subst[k] = v
	}
	n.ret = s.ret
	return n
}

type c19Event struct {
	kind  string // the target call: SetBasicAuth DownloadTo Get return
	guard *c19B
	list  []c19G  // snapshot of the option slice involved
	sargs []*c19S // string arguments of the call
	nopts int     // Get: number of explicit option arguments
	vari  string  // Get: the slice spread into the options ("" = none)
}

type c19Interp struct {
	file    *ast.File
	funcs   map[string]*ast.FuncDecl
	events  []c19Event
	path    []*c19B
	depth   int
	retMode bool // record successful returns as events (ResolveChartVersion)
}

func (in *c19Interp) guard() *c19B {
	g := c19True
	for _, p := range in.path {
		g = c19And(g, p)
	}
	return g
}

// text of an expression with helper-parameter roots substituted
func (in *c19Interp) text(st *c19St, e ast.Expr) string {
	switch v := e.(type) {
	case *ast.Ident:
		if r, ok := st.subst[v.Name]; ok {
			return r
		}
		return v.Name
	case *ast.SelectorExpr:
		return in.text(st, v.X) + "." + v.Sel.Name
	case *ast.ParenExpr:
		return in.text(st, v.X)
	case *ast.BinaryExpr:
		if v.Op == token.ADD {
			return in.strOf(st, v.X).key() + " + " + in.strOf(st, v.Y).key()
		}
	case *ast.CallExpr:
		if len(v.Args) == 0 {
			return in.text(st, v.Fun) + "()"
		}
	}
	return types.ExprString(e)
}

func (in *c19Interp) strOf(st *c19St, e ast.Expr) *c19S {
	switch v := e.(type) {
	case *ast.ParenExpr:
		return in.strOf(st, v.X)
	case *ast.BasicLit:
		if s, ok := strLit(v); ok {
			if s == "" {
				return c19Empty
			}
			return c19Tok("lit:" + s)
		}
	case *ast.Ident:
		if s, ok := st.strs[v.Name]; ok {
			return s
		}
	}
	return c19Tok(in.text(st, e))
}

func isNil(e ast.Expr) bool {
	id, ok := e.(*ast.Ident)
	return ok && id.Name == "nil"
}

func (in *c19Interp) boolOf(st *c19St, e ast.Expr) *c19B {
	switch v := e.(type) {
	case *ast.ParenExpr:
		return in.boolOf(st, v.X)
	case *ast.Ident:
		switch v.Name {
		case "true":
			return c19True
		case "false":
			return c19False
		}
		if b, ok := st.bools[v.Name]; ok {
			return b
		}
		return c19Atom("flag:" + in.text(st, v))
	case *ast.SelectorExpr:
		return c19Atom("flag:" + in.text(st, v))
	case *ast.UnaryExpr:
		if v.Op == token.NOT {
			return c19Not(in.boolOf(st, v.X))
		}
	case *ast.CallExpr:
		if r := in.inline(st, v); r != nil && r.isB {
			return r.b
		}
	case *ast.BinaryExpr:
		switch v.Op {
		case token.LAND:
			return c19And(in.boolOf(st, v.X), in.boolOf(st, v.Y))
		case token.LOR:
			return c19Or(in.boolOf(st, v.X), in.boolOf(st, v.Y))
		case token.EQL, token.NEQ:
			var a *c19B
			x, y := v.X, v.Y
			if _, ok := strLit(x); ok || isNil(x) {
				x, y = y, x
			}
			if s, ok := strLit(y); ok && s == "" {
				if sv := in.strOf(st, x); sv.ite == nil && !sv.empty {
					a = c19Not(c19Atom("nonempty:" + sv.tok)) // x == ""
				}
			} else if isNil(y) {
				if id, ok := x.(*ast.Ident); ok {
					best := -1
					for _, ub := range st.urls { // the most recent url.Parse that assigned this error variable
						if ub.errVar == id.Name && ub.seq > best {
							best = ub.seq
							a = c19Not(c19Atom("parse-error:" + ub.src)) // err == nil
						}
					}
				}
			} else if sx, ok := x.(*ast.SelectorExpr); ok {
				if sy, ok := y.(*ast.SelectorExpr); ok && sx.Sel.Name == sy.Sel.Name && (sx.Sel.Name == "Scheme" || sx.Sel.Name == "Host") {
					ix, ok1 := sx.X.(*ast.Ident)
					iy, ok2 := sy.X.(*ast.Ident)
					if ok1 && ok2 {
						ux, ok3 := st.urls[ix.Name]
						uy, ok4 := st.urls[iy.Name]
						if ok3 && ok4 {
							srcs := []string{ux.src, uy.src}
							sort.Strings(srcs)
							a = c19Atom(strings.ToLower(sx.Sel.Name) + "-eq:" + srcs[0] + "|" + srcs[1])
						}
					}
				}
			}
			if a == nil {
				a = c19Atom("eq:" + in.text(st, v.X) + "|" + in.text(st, v.Y))
			}
			if v.Op == token.NEQ {
				return c19Not(a)
			}
			return a
		}
	}
	return c19Atom("other:" + in.text(st, e))
}

// getter.WithXxx(args) as an option item
func (in *c19Interp) itemOf(st *c19St, e ast.Expr) (c19It, bool) {
	call, ok := e.(*ast.CallExpr)
	if !ok {
		return c19It{}, false
	}
	name := ""
	switch f := call.Fun.(type) {
	case *ast.SelectorExpr:
		name = f.Sel.Name
	case *ast.Ident:
		name = f.Name
	}
	if !strings.HasPrefix(name, "With") {
		return c19It{}, false
	}
	it := c19It{name: name}
	switch name {
	case "WithURL", "WithBasicAuth":
		for _, a := range call.Args {
			it.sargs = append(it.sargs, in.strOf(st, a))
		}
	case "WithPassCredentialsAll":
		for _, a := range call.Args {
			it.bargs = append(it.bargs, in.boolOf(st, a))
		}
	}
	return it, true
}

// the items of a list-valued expression: []getter.Option{...}, a local slice, helper(x)
func (in *c19Interp) listOf(st *c19St, e ast.Expr) ([]c19G, bool) {
	switch v := e.(type) {
	case *ast.CompositeLit:
		var out []c19G
		for _, el := range v.Elts {
			it, ok := in.itemOf(st, el)
			if !ok {
				it = c19It{name: "?" + in.text(st, el)}
			}
			out = append(out, c19G{c19True, it})
		}
		return out, true
	case *ast.Ident:
		if l, ok := st.lists[v.Name]; ok {
			return l, true
		}
		if v.Name == "nil" {
			return nil, true
		}
	case *ast.SelectorExpr:
		if l, ok := st.lists[in.text(st, v)]; ok {
			return l, true
		}
	case *ast.CallExpr:
		if r := in.inline(st, v); r != nil && !r.isB {
			return r.list, true
		}
	}
	return nil, false
}

// call of a function declared in the same file: run its body on the arguments
func (in *c19Interp) inline(st *c19St, call *ast.CallExpr) *c19Ret {
	id, ok := call.Fun.(*ast.Ident)
	if !ok || in.depth > 3 {
		return nil
	}
	fd, ok := in.funcs[id.Name]
	if !ok || fd.Body == nil || fd.Recv != nil {
		return nil
	}
	var params []string
	for _, f := range fd.Type.Params.List {
		for _, n := range f.Names {
			params = append(params, n.Name)
		}
	}
	if len(params) != len(call.Args) {
		return nil
	}
	callee := c19NewSt()
	for i, p := range params {
		a := call.Args[i]
		if aid, ok := a.(*ast.Ident); ok {
			if ub, ok := st.urls[aid.Name]; ok {
				callee.urls[p] = ub
				continue
			}
			if s, ok := st.strs[aid.Name]; ok {
				callee.strs[p] = s
			}
			if b, ok := st.bools[aid.Name]; ok {
				callee.bools[p] = b
			}
			if l, ok := st.lists[aid.Name]; ok {
				callee.lists[p] = l
			}
		}
		callee.subst[p] = in.text(st, a)
	}
	sub := &c19Interp{file: in.file, funcs: in.funcs, depth: in.depth + 1}
	sub.block(callee, fd.Body.List)
	return callee.ret
}

// ---------------------------------------------------------------- statements

func (in *c19Interp) scanCalls(st *c19St, n ast.Node) {
	ast.Inspect(n, func(m ast.Node) bool {
		switch v := m.(type) {
		case *ast.FuncLit, *ast.BlockStmt:
			return false
		case *ast.CallExpr:
			sel, ok := v.Fun.(*ast.SelectorExpr)
			if !ok {
				return true
			}
			switch sel.Sel.Name {
			case "SetBasicAuth":
				ev := c19Event{kind: "SetBasicAuth", guard: in.guard()}
				for _, a := range v.Args {
					ev.sargs = append(ev.sargs, in.strOf(st, a))
				}
				in.events = append(in.events, ev)
			case "DownloadTo":
				key := in.text(st, sel.X) + ".Options"
				in.events = append(in.events, c19Event{kind: "DownloadTo", guard: in.guard(), list: append([]c19G(nil), st.lists[key]...)})
			case "Get":
				if len(v.Args) == 0 {
					return true
				}
				ev := c19Event{kind: "Get", guard: in.guard(), sargs: []*c19S{in.strOf(st, v.Args[0])}}
				for i, a := range v.Args[1:] {
					if v.Ellipsis.IsValid() && i == len(v.Args)-2 {
						ev.vari = in.text(st, a)
						if l, ok := in.listOf(st, a); ok {
							ev.list = append(ev.list, l...)
						}
						continue
					}
					ev.nopts++
					if it, ok := in.itemOf(st, a); ok {
						ev.list = append(ev.list, c19G{c19True, it})
					} else {
						ev.list = append(ev.list, c19G{c19True, c19It{name: "?" + in.text(st, a)}})
					}
				}
				in.events = append(in.events, ev)
			}
		}
		return true
	})
}

func (in *c19Interp) assign(st *c19St, lhs []ast.Expr, rhs []ast.Expr) {
	if len(rhs) == 1 && len(lhs) >= 1 {
		if call, ok := rhs[0].(*ast.CallExpr); ok {
			fn := in.text(st, call.Fun)
			switch {
			case fn == "url.Parse" && len(lhs) == 2 && len(call.Args) == 1:
				if id, ok := lhs[0].(*ast.Ident); ok {
					ev := ""
					if e2, ok := lhs[1].(*ast.Ident); ok {
						ev = e2.Name
					}
					st.urls[id.Name] = c19URLBind{src: in.strOf(st, call.Args[0]).key(), errVar: ev, seq: len(st.urls)}
					return
				}
			case fn == "append" && len(lhs) == 1 && len(call.Args) >= 1:
				key := in.text(st, lhs[0])
				base, ok := in.listOf(st, call.Args[0])
				if !ok {
					base = []c19G{{c19True, c19It{name: "$" + in.text(st, call.Args[0])}}}
				}
				out := append([]c19G(nil), base...)
				for i, a := range call.Args[1:] {
					if call.Ellipsis.IsValid() && i == len(call.Args)-2 {
						if l, ok := in.listOf(st, a); ok {
							out = append(out, l...)
						} else {
							out = append(out, c19G{c19True, c19It{name: "?" + in.text(st, a) + "..."}})
						}
						continue
					}
					if it, ok := in.itemOf(st, a); ok {
						out = append(out, c19G{c19True, it})
					} else {
						out = append(out, c19G{c19True, c19It{name: "?" + in.text(st, a)}})
					}
				}
				st.lists[key] = out
				return
			}
			if len(lhs) > 1 || in.funcs[fn] == nil {
				// results of a call the interpreter does not look into: tokens named after the call
				for i, l := range lhs {
					if id, ok := l.(*ast.Ident); ok && id.Name != "_" {
						t := fmt.Sprintf("call:%s#%d", fn, i)
						st.strs[id.Name] = c19Tok(t)
						st.bools[id.Name] = c19Atom("flag:" + t)
						delete(st.urls, id.Name)
						delete(st.lists, id.Name)
					}
				}
				return
			}
		}
	}
	if len(lhs) != len(rhs) {
		return
	}
	type upd struct {
		name string
		s    *c19S
		b    *c19B
		l    []c19G
		isL  bool
	}
	var ups []upd
	for i, l := range lhs {
		key := ""
		switch lv := l.(type) {
		case *ast.Ident:
			key = lv.Name
		case *ast.SelectorExpr:
			key = in.text(st, lv)
		}
		if key == "" || key == "_" {
			continue
		}
		r := rhs[i]
		if u, ok := r.(*ast.UnaryExpr); ok && u.Op == token.AND {
			r = u.X
		}
		if cl, ok := r.(*ast.CompositeLit); ok {
			if _, isArr := cl.Type.(*ast.ArrayType); isArr {
				ll, _ := in.listOf(st, cl)
				ups = append(ups, upd{name: key, l: ll, isL: true})
				continue
			}
			// a struct literal: its Options field
			for _, el := range cl.Elts {
				if kv, ok := el.(*ast.KeyValueExpr); ok {
					if k, ok := kv.Key.(*ast.Ident); ok && k.Name == "Options" {
						if ll, ok := in.listOf(st, kv.Value); ok {
							ups = append(ups, upd{name: key + ".Options", l: ll, isL: true})
						}
					}
				}
			}
			continue
		}
		if ll, ok := in.listOf(st, r); ok && !isNil(r) {
			ups = append(ups, upd{name: key, l: ll, isL: true})
			continue
		}
		ups = append(ups, upd{name: key, s: in.strOf(st, r), b: in.boolOf(st, r)})
	}
	for _, u := range ups {
		if u.isL {
			st.lists[u.name] = u.l
			continue
		}
		st.strs[u.name], st.bools[u.name] = u.s, u.b
		delete(st.urls, u.name)
	}
}

func c19ListKey(l []c19G) []string {
	out := make([]string, len(l))
	for i, g := range l {
		out[i] = g.g.key() + "=>" + g.it.key()
	}
	return out
}

func c19Merge(c *c19B, a, b *c19St) *c19St {
	out := a.clone()
	for k := range b.strs {
		if _, ok := a.strs[k]; !ok {
			out.strs[k] = b.strs[k]
		}
	}
	for k, va := range a.strs {
		vb, ok := b.strs[k]
		if !ok {
			vb = c19Tok(k)
		}
		out.strs[k] = c19SIte(c, va, vb)
	}
	for k, vb := range b.strs {
		if _, ok := a.strs[k]; !ok {
			out.strs[k] = c19SIte(c, c19Tok(k), vb)
		}
	}
	for k, va := range a.bools {
		vb, ok := b.bools[k]
		if !ok {
			vb = c19Atom("flag:" + k)
		}
		if va.key() != vb.key() {
			out.bools[k] = c19Or(c19And(c, va), c19And(c19Not(c), vb))
		}
	}
	for k, vb := range b.bools {
		if _, ok := a.bools[k]; !ok {
			out.bools[k] = c19Or(c19And(c, c19Atom("flag:"+k)), c19And(c19Not(c), vb))
		}
	}
	for k := range b.urls {
		if _, ok := a.urls[k]; !ok {
			out.urls[k] = b.urls[k]
		}
	}
	keys := map[string]bool{}
	for k := range a.lists {
		keys[k] = true
	}
	for k := range b.lists {
		keys[k] = true
	}
	for k := range keys {
		la, lb := a.lists[k], b.lists[k]
		ka, kb := c19ListKey(la), c19ListKey(lb)
		n := 0
		for n < len(ka) && n < len(kb) && ka[n] == kb[n] {
			n++
		}
		m := append([]c19G(nil), la[:n]...)
		for _, g := range la[n:] {
			m = append(m, c19G{c19And(c, g.g), g.it})
		}
		for _, g := range lb[n:] {
			m = append(m, c19G{c19And(c19Not(c), g.g), g.it})
		}
		out.lists[k] = m
	}
	return out
}

// block runs the statements; the result tells whether every path through them ended
// (return / continue / break)
func (in *c19Interp) block(st *c19St, stmts []ast.Stmt) bool {
	for _, s := range stmts {
		if in.stmt(st, s) {
			return true
		}
	}
	return false
}

func isErrResult(e ast.Expr) bool {
	switch v := e.(type) {
	case *ast.Ident:
		return v.Name == "err"
	case *ast.CallExpr:
		t := types.ExprString(v.Fun)
		return strings.HasPrefix(t, "errors.") || strings.HasPrefix(t, "fmt.Errorf")
	}
	return false
}

func (in *c19Interp) stmt(st *c19St, s ast.Stmt) bool {
	switch v := s.(type) {
	case *ast.AssignStmt:
		in.scanCalls(st, v)
		in.assign(st, v.Lhs, v.Rhs)
	case *ast.ExprStmt:
		in.scanCalls(st, v)
	case *ast.DeclStmt:
		if gd, ok := v.Decl.(*ast.GenDecl); ok && gd.Tok == token.VAR {
			for _, sp := range gd.Specs {
				vs := sp.(*ast.ValueSpec)
				if _, isArr := vs.Type.(*ast.ArrayType); isArr && len(vs.Values) == 0 {
					for _, n := range vs.Names {
						st.lists[n.Name] = nil
					}
				}
				if len(vs.Values) == len(vs.Names) {
					var l, r []ast.Expr
					for i := range vs.Names {
						l, r = append(l, vs.Names[i]), append(r, vs.Values[i])
					}
					in.assign(st, l, r)
				}
			}
		}
	case *ast.BlockStmt:
		return in.block(st, v.List)
	case *ast.ReturnStmt:
		in.scanCalls(st, v)
		r := &c19Ret{}
		if len(v.Results) >= 1 {
			if l, ok := in.listOf(st, v.Results[0]); ok {
				r.list = l
			} else {
				r.b, r.isB = in.boolOf(st, v.Results[0]), true
			}
		}
		st.ret = r
		if in.retMode && len(v.Results) > 0 && !isErrResult(v.Results[len(v.Results)-1]) {
			in.events = append(in.events, c19Event{kind: "return", guard: in.guard(), list: append([]c19G(nil), st.lists["c.Options"]...)})
		}
		return true
	case *ast.BranchStmt:
		return v.Tok == token.CONTINUE || v.Tok == token.BREAK || v.Tok == token.GOTO
	case *ast.IfStmt:
		if v.Init != nil {
			in.stmt(st, v.Init)
		}
		c := in.boolOf(st, v.Cond)
		a, b := st.clone(), st.clone()
		in.path = append(in.path, c)
		ta := in.block(a, v.Body.List)
		in.path[len(in.path)-1] = c19Not(c)
		tb := false
		if v.Else != nil {
			tb = in.stmt(b, v.Else)
		}
		in.path = in.path[:len(in.path)-1]
		switch {
		case ta && tb:
			return true
		case ta:
			*st = *b
		case tb:
			*st = *a
		default:
			*st = *c19Merge(c, a, b)
		}
	case *ast.SwitchStmt:
		if v.Init != nil {
			in.stmt(st, v.Init)
		}
		// tag-less switch = if-chain; with a tag the case conditions are opaque
		var chain func(cases []ast.Stmt) ast.Stmt
		chain = func(cases []ast.Stmt) ast.Stmt {
			if len(cases) == 0 {
				return nil
			}
			cc := cases[0].(*ast.CaseClause)
			if cc.List == nil {
				return &ast.BlockStmt{List: cc.Body}
			}
			var cond ast.Expr
			for _, e := range cc.List {
				x := e
				if v.Tag != nil {
					x = &ast.BinaryExpr{X: v.Tag, Op: token.EQL, Y: e}
				}
				if cond == nil {
					cond = x
				} else {
					cond = &ast.BinaryExpr{X: cond, Op: token.LOR, Y: x}
				}
			}
			is := &ast.IfStmt{Cond: cond, Body: &ast.BlockStmt{List: cc.Body}}
			if rest := chain(cases[1:]); rest != nil {
				is.Else = rest
			}
			return is
		}
		// a default clause anywhere but last is moved to the end
		var cases, def []ast.Stmt
		for _, c := range v.Body.List {
			if c.(*ast.CaseClause).List == nil {
				def = append(def, c)
			} else {
				cases = append(cases, c)
			}
		}
		if s2 := chain(append(cases, def...)); s2 != nil {
			return in.stmt(st, s2)
		}
	case *ast.RangeStmt:
		b := st.clone()
		in.block(b, v.Body.List)
	case *ast.ForStmt:
		b := st.clone()
		in.block(b, v.Body.List)
	case *ast.LabeledStmt:
		return in.stmt(st, v.Stmt)
	}
	return false
}

// ---------------------------------------------------------------- one target function

type c19Target struct {
	file, recv, fn string
	retMode        bool
}

func c19Run(repo string, t c19Target) (*c19Interp, error) {
	f, _, err := parseFile(repo, t.file)
	if err != nil {
		return nil, err
	}
	in := &c19Interp{file: f, funcs: map[string]*ast.FuncDecl{}, retMode: t.retMode}
	var target *ast.FuncDecl
	for _, d := range f.Decls {
		fd, ok := d.(*ast.FuncDecl)
		if !ok {
			continue
		}
		if fd.Recv == nil {
			in.funcs[fd.Name.Name] = fd
		}
		if fd.Name.Name != t.fn || fd.Body == nil {
			continue
		}
		rt := ""
		if fd.Recv != nil && len(fd.Recv.List) == 1 {
			rt = strings.TrimPrefix(types.ExprString(fd.Recv.List[0].Type), "*")
		}
		if rt == t.recv {
			target = fd
		}
	}
	if target == nil {
		return nil, fmt.Errorf("%s: func (%s) %s not found", t.file, t.recv, t.fn)
	}
	// loop bodies (downloadAll) are entered once, on a copy of the state; their events are kept
	in.block(c19NewSt(), target.Body.List)
	return in, nil
}

// ---------------------------------------------------------------- printing

type c19Names struct {
	atoms  map[string]string // raw atom -> Coq atom constructor
	toks   map[string]string // raw token -> Coq tok constructor
	consts map[string]string // raw atom -> CTrue / CFalse (facts the model assumes, e.g. a pointer is not nil after the error check)
}

func (n c19Names) cexp(b *c19B) string {
	switch b.op {
	case "true":
		return "CTrue"
	case "false":
		return "CFalse"
	case "atom":
		if a, ok := n.atoms[b.atom]; ok {
			return "(CAtom " + a + ")"
		}
		if c, ok := n.consts[b.atom]; ok {
			return c
		}
		return "(COther " + hx.CoqStr(b.atom) + ")"
	case "not":
		return "(CNot " + n.cexp(b.a) + ")"
	case "and":
		return "(CAnd " + n.cexp(b.a) + " " + n.cexp(b.b) + ")"
	default:
		return "(COr " + n.cexp(b.a) + " " + n.cexp(b.b) + ")"
	}
}

func (n c19Names) sval(s *c19S) string {
	switch {
	case s.empty:
		return "(SV TEmpty)"
	case s.ite != nil:
		return "(SIte " + n.cexp(s.ite) + " " + n.sval(s.a) + " " + n.sval(s.b) + ")"
	}
	if t, ok := n.toks[s.tok]; ok {
		return "(SV " + t + ")"
	}
	return "(SV (TOtherTok " + hx.CoqStr(s.tok) + "))"
}

func (n c19Names) list(l []c19G) string {
	var it []string
	for _, g := range l {
		var sa, ba []string
		for _, s := range g.it.sargs {
			sa = append(sa, n.sval(s))
		}
		for _, b := range g.it.bargs {
			ba = append(ba, n.cexp(b))
		}
		it = append(it, fmt.Sprintf("(%s, OI %s %s %s)", n.cexp(g.g), hx.CoqStr(g.it.name), hx.CoqList(sa), hx.CoqList(ba)))
	}
	return "[" + strings.Join(it, ";\n   ") + "]"
}

func c19Events(in *c19Interp, kind string) []c19Event {
	var out []c19Event
	for _, e := range in.events {
		if e.kind == kind {
			out = append(out, e)
		}
	}
	return out
}

func genC19Origin(repo string) (string, error) {
	var b strings.Builder
	b.WriteString("From Helm Require Import Misc.CredsSrc.\n\n")

	// ---- HTTPGetter.get
	in, err := c19Run(repo, c19Target{file: "pkg/getter/httpgetter.go", recv: "HTTPGetter", fn: "get"})
	if err != nil {
		return "", err
	}
	gn := c19Names{
		atoms: map[string]string{"flag:g.opts.passCredentialsAll": "APassAll", "nonempty:g.opts.username": "AHasUser", "nonempty:g.opts.password": "AHasPass",
			"scheme-eq:g.opts.url|href": "ASchemeEq", "host-eq:g.opts.url|href": "AHostEq"},
		toks: map[string]string{"g.opts.username": "TUser", "g.opts.password": "TPass"},
	}
	evs := c19Events(in, "SetBasicAuth")
	cond := c19False
	var args [][]string
	for _, e := range evs {
		cond = c19Or(cond, e.guard)
		var a []string
		for _, s := range e.sargs {
			a = append(a, gn.sval(s))
		}
		args = append(args, a)
	}
	b.WriteString("(* pkg/getter/httpgetter.go, HTTPGetter.get: the condition under which req.SetBasicAuth is called\n   (u1 = url.Parse(g.opts.url), u2 = url.Parse(href)) and the arguments it is given *)\n")
	fmt.Fprintf(&b, "Definition getter_attach_src : cexp :=\n  %s.\n", gn.cexp(cond))
	var al []string
	for _, a := range args {
		al = append(al, hx.CoqList(a))
	}
	fmt.Fprintf(&b, "Definition getter_attach_args_src : list (list sval) := %s.\n\n", hx.CoqList(al))

	// ---- callers that hand a ChartDownloader its options
	type caller struct {
		name, comment string
		t             c19Target
		n             c19Names
	}
	cli := func(r string) c19Names {
		pair := []string{r + ".RepoURL", "call:repo.FindChartInRepoURL#0"}
		sort.Strings(pair)
		return c19Names{
			atoms: map[string]string{"flag:" + r + ".PassCredentialsAll": "APassAll", "nonempty:" + r + ".RepoURL": "ARepoSet",
				"scheme-eq:" + pair[0] + "|" + pair[1]: "ASchemeEq", "host-eq:" + pair[0] + "|" + pair[1]: "AHostEq"},
			toks: map[string]string{r + ".Username": "TUser", r + ".Password": "TPass"},
		}
	}
	callers := []caller{
		{"locate_chart_options_src", "pkg/action/install.go, ChartPathOptions.LocateChart: dl.Options at dl.DownloadTo",
			c19Target{file: "pkg/action/install.go", recv: "ChartPathOptions", fn: "LocateChart"}, cli("c")},
		{"pull_run_options_src", "pkg/action/pull.go, Pull.Run: c.Options at c.DownloadTo",
			c19Target{file: "pkg/action/pull.go", recv: "Pull", fn: "Run"}, cli("p")},
		{"manager_download_all_options_src", "pkg/downloader/manager.go, Manager.downloadAll: dl.Options at dl.DownloadTo (churl, username, password, ..., passcredentialsall = m.findChartURL(...))",
			c19Target{file: "pkg/downloader/manager.go", recv: "Manager", fn: "downloadAll"},
			c19Names{
				atoms: map[string]string{"flag:call:m.findChartURL#4": "APassAll", "nonempty:call:m.findChartURL#1": "AHasUser", "nonempty:call:m.findChartURL#2": "AHasPass",
					"scheme-eq:call:m.findChartURL#0|dep.Repository": "ASchemeEq", "host-eq:call:m.findChartURL#0|dep.Repository": "AHostEq",
					"parse-error:dep.Repository": "AErr1", "parse-error:call:m.findChartURL#0": "AErr2"},
				toks: map[string]string{"call:m.findChartURL#1": "TUser", "call:m.findChartURL#2": "TPass"},
			}},
	}
	for _, c := range callers {
		in, err := c19Run(repo, c.t)
		if err != nil {
			return "", err
		}
		evs := c19Events(in, "DownloadTo")
		if len(evs) != 1 {
			return "", fmt.Errorf("%s: %d DownloadTo calls, want 1", c.t.fn, len(evs))
		}
		fmt.Fprintf(&b, "(* %s *)\nDefinition %s : list (cexp * oitem) :=\n  %s.\n\n", c.comment, c.name, c.n.list(evs[0].list))
	}

	// ---- ResolveChartVersion: what each successful return has appended
	in, err = c19Run(repo, c19Target{file: "pkg/downloader/chart_downloader.go", recv: "ChartDownloader", fn: "ResolveChartVersion", retMode: true})
	if err != nil {
		return "", err
	}
	// r, err := repo.NewChartRepository(rc, ...) followed by the error check: r and r.Config (= rc) are not nil
	rn := c19Names{atoms: map[string]string{}, toks: map[string]string{"ref": "TRef"}, consts: map[string]string{"eq:r|nil": "CFalse", "eq:r.Config|nil": "CFalse"}}
	for _, r := range []string{"rc", "r.Config"} {
		rn.atoms["flag:"+r+".PassCredentialsAll"] = "APassAll"
		rn.atoms["nonempty:"+r+".Username"] = "AHasUser"
		rn.atoms["nonempty:"+r+".Password"] = "AHasPass"
		rn.toks[r+".URL"], rn.toks[r+".Username"], rn.toks[r+".Password"] = "TRepoUrl", "TUser", "TPass"
	}
	var rets []string
	for _, e := range c19Events(in, "return") {
		// the guards of the path are part of the item guards already; conditions on the entry's
		// own fields stay, the rest of the path condition is not printed
		rets = append(rets, rn.list(e.list))
	}
	b.WriteString("(* pkg/downloader/chart_downloader.go, ChartDownloader.ResolveChartVersion: c.Options at every return that\n   does not return an error, in source order (OCI reference; absolute URL without owner repository;\n   absolute URL owned by repository rc; repo/chart reference) *)\n")
	fmt.Fprintf(&b, "Definition resolve_returns_src : list (list (cexp * oitem)) :=\n  [%s].\n\n", strings.Join(rets, ";\n\n   "))

	// ---- DownloadTo: the Get calls
	in, err = c19Run(repo, c19Target{file: "pkg/downloader/chart_downloader.go", recv: "ChartDownloader", fn: "DownloadTo"})
	if err != nil {
		return "", err
	}
	var gets []string
	for _, e := range c19Events(in, "Get") {
		gets = append(gets, fmt.Sprintf("(%s, %d, %s)", hx.CoqStr(e.sargs[0].key()), e.nopts, hx.CoqStr(e.vari)))
	}
	b.WriteString("(* ChartDownloader.DownloadTo: every Get call: (URL argument, number of explicit options, slice spread into the options) *)\n")
	fmt.Fprintf(&b, "Definition download_to_gets_src : list (string * nat * string) := %s.\n\n", hx.CoqList(gets))

	// ---- DownloadIndexFile
	in, err = c19Run(repo, c19Target{file: "pkg/repo/chartrepo.go", recv: "ChartRepository", fn: "DownloadIndexFile"})
	if err != nil {
		return "", err
	}
	evs = c19Events(in, "Get")
	if len(evs) != 1 {
		return "", fmt.Errorf("DownloadIndexFile: %d Get calls, want 1", len(evs))
	}
	xn := c19Names{atoms: map[string]string{"flag:r.Config.PassCredentialsAll": "APassAll"},
		toks: map[string]string{"r.Config.URL": "TRepoUrl", "r.Config.Username": "TUser", "r.Config.Password": "TPass"}}
	b.WriteString("(* pkg/repo/chartrepo.go, ChartRepository.DownloadIndexFile: the options of its Get call *)\n")
	fmt.Fprintf(&b, "Definition download_index_options_src : list (cexp * oitem) :=\n  %s.\n", xn.list(evs[0].list))
	return b.String(), nil
}

package main

// Translator table for C04: the order in which values.Options.MergeValues merges the flag
// families into the accumulated map (pkg/cli/values).
//
// The method body is walked in execution (source) order.  A `for ... range <receiver>.<Field>`
// statement opens the family <Field>; every package-qualified call inside it that receives
// the accumulated map (`base`, or whatever it is called where the statement lives) is
// attributed to the family.  Calls of functions and methods of the same package, of local
// closures and of function literals are FOLLOWED (bounded depth), with the receiver and the
// accumulated map tracked through the parameters — so the table is the order in which the
// merge operations execute, wherever the statements live: moving a loop body (or a loop) into
// a helper function does not change it, while a family that stops being merged into the map,
// is merged with a different function or at a different position does.  The branches of an if /
// switch are alternatives: what they apply to the map is listed in sorted order, so negating a
// test and swapping its branches does not change the table either.

import (
	"fmt"
	"go/ast"
	"go/parser"
	"go/token"
	"os"
	"path/filepath"
	"sort"
	"strings"

	"verif/harness/internal/hx"
)

func init() { registerTable("ValueOrder", genValueOrder) }

const c04MaxInline = 4

type c04Family struct {
	field string
	calls []string
}

type c04Walker struct {
	funcs   map[string]*ast.FuncDecl // same-package functions by name
	methods map[string]*ast.FuncDecl // same-package methods by name (any receiver type)
	fams    []*c04Family
}

// c04Env: what the identifiers of the function being walked stand for.
type c04Env struct {
	recv     map[string]bool         // names bound to the Options receiver
	base     map[string]bool         // names bound to the accumulated map
	closures map[string]*ast.FuncLit // local variables bound to a function literal
	cur      *c04Family
	depth    int
}

func (e *c04Env) child() *c04Env {
	n := &c04Env{recv: map[string]bool{}, base: map[string]bool{}, closures: map[string]*ast.FuncLit{}, cur: e.cur, depth: e.depth + 1}
	return n
}

func c04ParsePkg(repo, rel string) ([]*ast.File, error) {
	dir := filepath.Join(repo, rel)
	ents, err := os.ReadDir(dir)
	if err != nil {
		return nil, err
	}
	fset := token.NewFileSet()
	var out []*ast.File
	for _, e := range ents {
		n := e.Name()
		if e.IsDir() || !strings.HasSuffix(n, ".go") || strings.HasSuffix(n, "_test.go") {
			continue
		}
		f, err := parser.ParseFile(fset, filepath.Join(dir, n), nil, 0)
		if err != nil {
			return nil, err
		}
		out = append(out, f)
	}
	return out, nil
}

func c04IdentName(e ast.Expr) string {
	if id, ok := e.(*ast.Ident); ok {
		return id.Name
	}
	return ""
}

// bind: the environment of a callee from the arguments of the call.
func (w *c04Walker) bind(env *c04Env, params *ast.FieldList, args []ast.Expr, capture bool) *c04Env {
	n := env.child()
	if capture { // a closure sees the enclosing function's names
		for k := range env.recv {
			n.recv[k] = true
		}
		for k := range env.base {
			n.base[k] = true
		}
		for k, v := range env.closures {
			n.closures[k] = v
		}
	}
	if params == nil {
		return n
	}
	i := 0
	for _, f := range params.List {
		names := f.Names
		if len(names) == 0 {
			i++
			continue
		}
		for _, nm := range names {
			if i < len(args) {
				a := c04IdentName(args[i])
				// a parameter shadows a captured name
				delete(n.recv, nm.Name)
				delete(n.base, nm.Name)
				if a != "" && env.recv[a] {
					n.recv[nm.Name] = true
				}
				if a != "" && env.base[a] {
					n.base[nm.Name] = true
				}
			}
			i++
		}
	}
	return n
}

func (w *c04Walker) walkBlock(b *ast.BlockStmt, env *c04Env) {
	if b == nil {
		return
	}
	for _, st := range b.List {
		w.walk(st, env)
	}
}

// walk visits a node in source order.
func (w *c04Walker) walk(n ast.Node, env *c04Env) {
	if n == nil {
		return
	}
	ast.Inspect(n, func(x ast.Node) bool {
		switch v := x.(type) {
		case *ast.FuncLit:
			return false // executed where it is called, not where it is written
		case *ast.AssignStmt:
			// x := <accumulated map> / x := func(...) {...}
			for i, l := range v.Lhs {
				if i >= len(v.Rhs) || len(v.Lhs) != len(v.Rhs) {
					break
				}
				ln := c04IdentName(l)
				if ln == "" {
					continue
				}
				if fl, ok := v.Rhs[i].(*ast.FuncLit); ok {
					env.closures[ln] = fl
				} else if rn := c04IdentName(v.Rhs[i]); rn != "" {
					if env.base[rn] {
						env.base[ln] = true
					}
					if env.recv[rn] {
						env.recv[ln] = true
					}
				}
			}
			for _, r := range v.Rhs {
				w.walk(r, env)
			}
			return false
		case *ast.IfStmt:
			// the branches are alternatives: their merge operations are listed in a canonical
			// (sorted) order, so `if c {A} else {B}` and `if !c {B} else {A}` give the same table
			w.walk(v.Init, env)
			w.walk(v.Cond, env)
			var branches []ast.Node
			branches = append(branches, v.Body)
			if v.Else != nil {
				branches = append(branches, v.Else)
			}
			w.alternatives(branches, env)
			return false
		case *ast.SwitchStmt:
			w.walk(v.Init, env)
			w.walk(v.Tag, env)
			w.alternatives(c04Clauses(v.Body), env)
			return false
		case *ast.TypeSwitchStmt:
			w.walk(v.Init, env)
			w.walk(v.Assign, env)
			w.alternatives(c04Clauses(v.Body), env)
			return false
		case *ast.RangeStmt:
			if sel, ok := v.X.(*ast.SelectorExpr); ok && env.recv[c04IdentName(sel.X)] {
				fam := &c04Family{field: sel.Sel.Name}
				w.fams = append(w.fams, fam)
				saved := env.cur
				env.cur = fam
				w.walkBlock(v.Body, env)
				env.cur = saved
				return false
			}
			return true
		case *ast.CallExpr:
			for _, a := range v.Args { // arguments are evaluated before the call
				w.walk(a, env)
			}
			w.call(v, env)
			return false
		}
		return true
	})
}

func c04Clauses(b *ast.BlockStmt) []ast.Node {
	var out []ast.Node
	if b != nil {
		for _, c := range b.List {
			out = append(out, c)
		}
	}
	return out
}

// alternatives walks the branches of an if / switch.  Inside a family, what each branch applies
// to the accumulated map is collected separately and appended branch by branch in sorted order
// (the branches exclude each other, so their textual order carries no meaning).
func (w *c04Walker) alternatives(branches []ast.Node, env *c04Env) {
	if env.cur == nil {
		for _, b := range branches {
			w.walk(b, env)
		}
		return
	}
	fam := env.cur
	before := append([]string{}, fam.calls...)
	var alts []string
	for _, b := range branches {
		fam.calls = nil
		w.walk(b, env)
		if len(fam.calls) > 0 {
			alts = append(alts, strings.Join(fam.calls, "+"))
		}
	}
	sort.Strings(alts)
	fam.calls = append(before, alts...)
}

func (w *c04Walker) call(ce *ast.CallExpr, env *c04Env) {
	usesBase := false
	for _, a := range ce.Args {
		if env.base[c04IdentName(a)] {
			usesBase = true
		}
	}
	switch f := ce.Fun.(type) {
	case *ast.FuncLit:
		if env.depth < c04MaxInline {
			w.walkBlock(f.Body, w.bind(env, f.Type.Params, ce.Args, true))
		}
	case *ast.Ident:
		if fl, ok := env.closures[f.Name]; ok {
			if env.depth < c04MaxInline {
				sub := w.bind(env, fl.Type.Params, ce.Args, true)
				w.walkBlock(fl.Body, sub)
			}
			return
		}
		if fd, ok := w.funcs[f.Name]; ok && fd.Body != nil && env.depth < c04MaxInline {
			sub := w.bind(env, fd.Type.Params, ce.Args, false)
			if len(sub.base) > 0 || len(sub.recv) > 0 {
				w.walkBlock(fd.Body, sub)
			}
		}
	case *ast.SelectorExpr:
		x := c04IdentName(f.X)
		if x != "" && env.recv[x] {
			// a method of the receiver: follow it
			if fd, ok := w.methods[f.Sel.Name]; ok && fd.Body != nil && env.depth < c04MaxInline {
				sub := w.bind(env, fd.Type.Params, ce.Args, false)
				if fd.Recv != nil && len(fd.Recv.List) == 1 && len(fd.Recv.List[0].Names) == 1 {
					sub.recv[fd.Recv.List[0].Names[0].Name] = true
				}
				w.walkBlock(fd.Body, sub)
			}
			return
		}
		if x != "" && usesBase && env.cur != nil && !env.base[x] {
			env.cur.calls = append(env.cur.calls, x+"."+f.Sel.Name)
		}
	}
}

func genValueOrder(repo string) (string, error) {
	files, err := c04ParsePkg(repo, "pkg/cli/values")
	if err != nil {
		return "", err
	}
	w := &c04Walker{funcs: map[string]*ast.FuncDecl{}, methods: map[string]*ast.FuncDecl{}}
	var root *ast.FuncDecl
	for _, f := range files {
		for _, d := range f.Decls {
			fd, ok := d.(*ast.FuncDecl)
			if !ok {
				continue
			}
			if fd.Recv == nil {
				w.funcs[fd.Name.Name] = fd
				continue
			}
			w.methods[fd.Name.Name] = fd
			if fd.Name.Name == "MergeValues" && fd.Body != nil {
				root = fd
			}
		}
	}
	if root == nil {
		return "", fmt.Errorf("method MergeValues not found in pkg/cli/values")
	}
	env := &c04Env{recv: map[string]bool{}, base: map[string]bool{}, closures: map[string]*ast.FuncLit{}}
	if len(root.Recv.List) == 1 && len(root.Recv.List[0].Names) == 1 {
		env.recv[root.Recv.List[0].Names[0].Name] = true
	}
	// the accumulated map: the local that MergeValues returns as its first result
	for _, st := range root.Body.List {
		if rs, ok := st.(*ast.ReturnStmt); ok && len(rs.Results) >= 1 {
			if n := c04IdentName(rs.Results[0]); n != "" && n != "nil" {
				env.base[n] = true
			}
		}
	}
	if len(env.base) == 0 {
		return "", fmt.Errorf("MergeValues: cannot tell which local is the accumulated map (no top-level `return <ident>, ...`)")
	}
	w.walkBlock(root.Body, env)
	if len(w.fams) == 0 {
		return "", fmt.Errorf("no `range <receiver>.<Field>` statements reached from MergeValues")
	}
	var fields, calls []string
	for _, f := range w.fams {
		fields = append(fields, f.field)
		calls = append(calls, strings.Join(f.calls, "+"))
	}
	return fmt.Sprintf("(* pkg/cli/values, func (opts *Options) MergeValues: the flag families in the order the\n   code ranges over them (lowest precedence first), and the functions each loop applies to the\n   accumulated map, in execution order (same-package helpers, methods and closures followed) *)\nDefinition value_order : list string := %s.\n\nDefinition value_order_calls : list string := %s.\n",
		hx.CoqStrList(fields), hx.CoqStrList(calls)), nil
}

package main

// Translator table for C04: the order in which values.Options.MergeValues ranges over the
// flag families (pkg/cli/values/options.go).  Each `for ... range opts.<Field>` statement
// at the top level of the method body contributes <Field>, in source order, together with
// the functions it calls on the accumulated map (so that a family that stops being merged
// into `base`, or is merged with a different function, changes the table too).

import (
	"fmt"
	"go/ast"
	"strings"

	"verif/harness/internal/hx"
)

func init() { registerTable("ValueOrder", genValueOrder) }

func genValueOrder(repo string) (string, error) {
	f, _, err := parseFile(repo, "pkg/cli/values/options.go")
	if err != nil {
		return "", err
	}
	var fields []string
	var calls []string
	found := false
	for _, d := range f.Decls {
		fd, ok := d.(*ast.FuncDecl)
		if !ok || fd.Name.Name != "MergeValues" || fd.Recv == nil || fd.Body == nil {
			continue
		}
		found = true
		recv := ""
		if len(fd.Recv.List) == 1 && len(fd.Recv.List[0].Names) == 1 {
			recv = fd.Recv.List[0].Names[0].Name
		}
		for _, st := range fd.Body.List {
			rs, ok := st.(*ast.RangeStmt)
			if !ok {
				continue
			}
			sel, ok := rs.X.(*ast.SelectorExpr)
			if !ok {
				continue
			}
			if id, ok := sel.X.(*ast.Ident); !ok || id.Name != recv {
				continue
			}
			fields = append(fields, sel.Sel.Name)
			// package-qualified calls inside the loop body that receive `base`
			var cs []string
			ast.Inspect(rs.Body, func(n ast.Node) bool {
				ce, ok := n.(*ast.CallExpr)
				if !ok {
					return true
				}
				fs, ok := ce.Fun.(*ast.SelectorExpr)
				if !ok {
					return true
				}
				pk, ok := fs.X.(*ast.Ident)
				if !ok {
					return true
				}
				usesBase := false
				for _, a := range ce.Args {
					if id, ok := a.(*ast.Ident); ok && id.Name == "base" {
						usesBase = true
					}
				}
				if usesBase {
					cs = append(cs, pk.Name+"."+fs.Sel.Name)
				}
				return true
			})
			calls = append(calls, strings.Join(cs, "+"))
		}
	}
	if !found {
		return "", fmt.Errorf("method MergeValues not found in pkg/cli/values/options.go")
	}
	if len(fields) == 0 {
		return "", fmt.Errorf("no `range opts.<Field>` statements found in MergeValues")
	}
	return fmt.Sprintf("(* pkg/cli/values/options.go, func (opts *Options) MergeValues: the flag families in the\n   order the source ranges over them (lowest precedence first), and the functions each loop\n   applies to the accumulated map *)\nDefinition value_order : list string := %s.\n\nDefinition value_order_calls : list string := %s.\n",
		hx.CoqStrList(fields), hx.CoqStrList(calls)), nil
}

package main

// gen-tables: the translator.  Reads finite tables out of /repo's Go source with go/ast
// and prints them as Gallina definitions under coq/Gen/.  Files are rewritten only when
// their content changes, so an unchanged tree keeps the Coq build up to date.

import (
	"flag"
	"fmt"
	"go/ast"
	"go/parser"
	"go/token"
	"os"
	"path/filepath"
	"sort"
	"strconv"
	"strings"

	"verif/harness/internal/hx"
)

func init() { hx.RegisterCommand("gen-tables", genTables) }

type tableGen struct {
	File string // coq/Gen/<File>.v
	Fn   func(repo string) (string, error)
}

var tableGens = []tableGen{
	{"Status", genStatus},
	{"SystemLabels", genSystemLabels},
}

// RegisterTable lets other files add tables.
func registerTable(name string, fn func(repo string) (string, error)) {
	tableGens = append(tableGens, tableGen{name, fn})
}

func genTables(args []string) int {
	fs := flag.NewFlagSet("gen-tables", flag.ExitOnError)
	repo := fs.String("repo", "/repo", "helm source tree")
	out := fs.String("out", "", "output directory (coq/Gen)")
	fs.Parse(args)
	if *out == "" {
		fmt.Fprintln(os.Stderr, "--out required")
		return 2
	}
	os.MkdirAll(*out, 0o755)
	rc := 0
	sort.SliceStable(tableGens, func(i, j int) bool { return tableGens[i].File < tableGens[j].File })
	for _, t := range tableGens {
		body, err := t.Fn(*repo)
		if err != nil {
			// an unreadable table is emitted as a file that cannot satisfy its obligation
			fmt.Fprintf(os.Stderr, "gen-tables: %s: %v\n", t.File, err)
			body = fmt.Sprintf("(* translator error: %s *)\nDefinition translator_failed_%s : bool := true.\n", strings.ReplaceAll(err.Error(), "*)", "* )"), t.File)
			rc = 1
		}
		body = "(* GENERATED from /repo by `hx gen-tables` on every check run. Do not edit. *)\n" +
			"From Coq Require Import List String ZArith.\nImport ListNotations.\nLocal Open Scope string_scope.\n\n" + body
		p := filepath.Join(*out, t.File+".v")
		old, _ := os.ReadFile(p)
		if string(old) != body {
			if err := os.WriteFile(p, []byte(body), 0o644); err != nil {
				fmt.Fprintln(os.Stderr, err)
				return 3
			}
			fmt.Println("updated", p)
		}
	}
	return rc
}

func parseFile(repo, rel string) (*ast.File, *token.FileSet, error) {
	fset := token.NewFileSet()
	f, err := parser.ParseFile(fset, filepath.Join(repo, rel), nil, parser.ParseComments)
	return f, fset, err
}

func strLit(e ast.Expr) (string, bool) {
	if bl, ok := e.(*ast.BasicLit); ok && bl.Kind == token.STRING {
		s, err := strconv.Unquote(bl.Value)
		return s, err == nil
	}
	return "", false
}

// constStrings returns name -> value for string constants of the given type in a file,
// in source order.
func constStrings(f *ast.File, typ string) (names, vals []string) {
	for _, d := range f.Decls {
		gd, ok := d.(*ast.GenDecl)
		if !ok || gd.Tok != token.CONST {
			continue
		}
		for _, s := range gd.Specs {
			vs := s.(*ast.ValueSpec)
			if id, ok := vs.Type.(*ast.Ident); !ok || id.Name != typ {
				continue
			}
			for i, n := range vs.Names {
				if i < len(vs.Values) {
					if v, ok := strLit(vs.Values[i]); ok {
						names = append(names, n.Name)
						vals = append(vals, v)
					}
				}
			}
		}
	}
	return
}

// varStringSlice returns the elements of `var name = []string{...}` (or []T{...} of idents).
func varSlice(f *ast.File, name string) ([]string, bool) {
	for _, d := range f.Decls {
		gd, ok := d.(*ast.GenDecl)
		if !ok || gd.Tok != token.VAR {
			continue
		}
		for _, s := range gd.Specs {
			vs := s.(*ast.ValueSpec)
			for i, n := range vs.Names {
				if n.Name != name || i >= len(vs.Values) {
					continue
				}
				cl, ok := vs.Values[i].(*ast.CompositeLit)
				if !ok {
					return nil, false
				}
				var out []string
				for _, e := range cl.Elts {
					if s, ok := strLit(e); ok {
						out = append(out, s)
					} else if id, ok := e.(*ast.Ident); ok {
						out = append(out, id.Name)
					} else {
						return nil, false
					}
				}
				return out, true
			}
		}
	}
	return nil, false
}

func coqPairs(a, b []string) string {
	it := make([]string, len(a))
	for i := range a {
		it[i] = hx.CoqPair(hx.CoqStr(a[i]), hx.CoqStr(b[i]))
	}
	return "[" + strings.Join(it, ";\n   ") + "]"
}

// funcBodyEqConsts: for `func (x T) Name() bool { return x == A || x == B }` returns [A B].
func orEqIdents(e ast.Expr) []string {
	switch v := e.(type) {
	case *ast.BinaryExpr:
		if v.Op == token.LOR {
			return append(orEqIdents(v.X), orEqIdents(v.Y)...)
		}
		if v.Op == token.EQL {
			if id, ok := v.Y.(*ast.Ident); ok {
				return []string{id.Name}
			}
		}
	case *ast.ParenExpr:
		return orEqIdents(v.X)
	}
	return nil
}

func genStatus(repo string) (string, error) {
	f, _, err := parseFile(repo, "pkg/release/v1/status.go")
	if err != nil {
		return "", err
	}
	names, vals := constStrings(f, "Status")
	if len(names) == 0 {
		return "", fmt.Errorf("no Status constants found")
	}
	var pending []string
	for _, d := range f.Decls {
		fd, ok := d.(*ast.FuncDecl)
		if !ok || fd.Name.Name != "IsPending" || fd.Body == nil {
			continue
		}
		for _, st := range fd.Body.List {
			if rs, ok := st.(*ast.ReturnStmt); ok && len(rs.Results) == 1 {
				pending = orEqIdents(rs.Results[0])
			}
		}
	}
	return fmt.Sprintf("(* pkg/release/v1/status.go *)\nDefinition status_table : list (string * string) :=\n  %s.\n\nDefinition pending_statuses : list string := %s.\n",
		coqPairs(names, vals), hx.CoqStrList(pending)), nil
}

func genSystemLabels(repo string) (string, error) {
	f, _, err := parseFile(repo, "pkg/storage/driver/util.go")
	if err != nil {
		return "", err
	}
	l, ok := varSlice(f, "systemLabels")
	if !ok {
		return "", fmt.Errorf("systemLabels not found")
	}
	return fmt.Sprintf("(* pkg/storage/driver/util.go *)\nDefinition system_labels : list string := %s.\n", hx.CoqStrList(l)), nil
}

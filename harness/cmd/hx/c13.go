package main

// C13 — upgrade carries user values forward exactly as the chosen flag says.
// Chains of install / upgrade / rollback are run through the real action.Install,
// action.Upgrade and action.Rollback over the memory storage driver and the printing fake
// cluster; every stored revision's Release.Config and the values its templates saw (a probe
// template rendering `toJson .Values`, read back from Release.Manifest) go to the model
// Values/Reuse.v through Run/RunC13.v.

import (
	"context"
	"encoding/base64"
	"errors"
	"encoding/json"
	"fmt"
	"io"
	"log"
	"log/slog"
	"math/rand"
	"strings"

	"helm.sh/helm/v4/pkg/action"
	chart "helm.sh/helm/v4/pkg/chart/v2"
	chartutil "helm.sh/helm/v4/pkg/chart/v2/util"
	kubefake "helm.sh/helm/v4/pkg/kube/fake"
	"helm.sh/helm/v4/pkg/storage"
	"helm.sh/helm/v4/pkg/storage/driver"

	"verif/harness/internal/hx"
)

func init() {
	hx.Register("c13", func() hx.Property {
		log.SetOutput(io.Discard)
		slog.SetDefault(slog.New(slog.NewTextHandler(io.Discard, nil)))
		return &c13{}
	})
}

type c13 struct{}

type c13Op struct {
	Kind    string    `json:"op"` // install upgrade rollback
	Reset   bool      `json:"reset_values,omitempty"`
	Reuse   bool      `json:"reuse_values,omitempty"`
	RTR     bool      `json:"reset_then_reuse_values,omitempty"`
	Chart   *c04Chart `json:"chart,omitempty"`
	Vals    vtree     `json:"vals"`
	NilVals bool      `json:"nil_vals,omitempty"` // pass a nil map rather than an empty one
	Version int       `json:"version,omitempty"`  // rollback target, 0 = previous
	Fails   bool      `json:"fails,omitempty"`    // the cluster wait fails after the record was created
}

type c13Case struct {
	Ops []c13Op `json:"ops"`
}

type c13Rev struct {
	Version  int    `json:"version"`
	Config   vtree  `json:"config"`
	Rendered vtree  `json:"rendered"`
	Status   string `json:"status"`
}

type c13Step struct {
	OK  bool   `json:"ok"`
	Err string `json:"err,omitempty"` // error text, for the replay file only (never compared)
	// snapshots for the oracle
	ValsMutated bool `json:"vals_mutated,omitempty"`
	// the status of every stored revision right after this step (index = revision - 1)
	Statuses []string `json:"statuses,omitempty"`
}

type c13Obs struct {
	Steps []c13Step `json:"steps"`
	Revs  []c13Rev  `json:"revs"`
	Panic string    `json:"panic,omitempty"`
	Bad   string    `json:"bad,omitempty"` // the probe could not be read back
}

func (*c13) ID() string { return "C13" }
func (*c13) CoqImport() string {
	return "From Helm Require Import Values.Tree Values.Coalesce Values.Reuse Run.RunC13."
}
func (*c13) Rule() string {
	return "chains: install followed by 1-5 upgrades/rollbacks (2-6 steps) through the real actions; per upgrade a random combination of " +
		"ResetValues/ReuseValues/ResetThenReuseValues (single flags and none most often, also combinations), values that are a mutation of an " +
		"earlier step's values (nulls, table<->scalar changes, dropped keys), empty or nil in 1/4 of the steps; the chart's defaults change between " +
		"versions in half of the upgrades (mutated, or type-flipped: tables become scalars/lists and back); a third of the chains use a chart with 1-2 levels " +
		"of subcharts (defaults of every level change, subcharts come and go, user sections for subcharts, scalars on subchart keys, globals); " +
		"a quarter of the upgrades, 1/8 of the rollbacks and 1/15 of the installs FAIL after their record was created (injected wait error: the revision is stored as failed); rollbacks to the previous, an explicit earlier or a non-existent revision; " +
		"non-trivial = at least two revisions stored and at least one upgrade with a reuse flag or a rollback succeeded; distinct = hash of (case, observation)"
}

func c13Chart(name string, vals vtree) *c04Chart { return &c04Chart{Name: name, Values: vals} }

func (*c13) Corpus() []any {
	d1 := vtree{"a": int64(1), "t": vtree{"x": "d", "y": "d"}, "n": "dflt"}
	d2 := vtree{"a": int64(2), "t": vtree{"x": "D", "z": "D"}, "m": "new-default"}
	var out []any
	for _, f := range [][3]bool{{false, false, false}, {true, false, false}, {false, true, false}, {false, false, true}, {true, true, true}, {false, true, true}} {
		out = append(out, c13Case{Ops: []c13Op{
			{Kind: "install", Chart: c13Chart("c", d1), Vals: vtree{"a": int64(10), "t": vtree{"x": "u"}, "u": "keep"}},
			{Kind: "upgrade", Reset: f[0], Reuse: f[1], RTR: f[2], Chart: c13Chart("c", d2), Vals: vtree{"t": vtree{"y": "u2"}, "n": nil, "u": nil}},
			{Kind: "upgrade", Reset: f[0], Reuse: f[1], RTR: f[2], Chart: c13Chart("c", d2), Vals: vtree{}},
			{Kind: "rollback", Version: 1},
			{Kind: "upgrade", Reset: f[0], Reuse: f[1], RTR: f[2], Chart: c13Chart("c", d1), Vals: nil, NilVals: true},
			{Kind: "rollback"},
		}})
	}
	// the newest revision is a FAILED upgrade with other values and another chart version: the next
	// upgrade carries forward from the deployed revision 1 (seeded C13-5), for each flag choice
	for _, f := range [][3]bool{{false, true, false}, {false, false, true}, {false, false, false}} {
		nv := vtree{"t": vtree{"y": "u3"}}
		if !f[1] && !f[2] {
			nv = vtree{}
		}
		out = append(out, c13Case{Ops: []c13Op{
			{Kind: "install", Chart: c13Chart("c", d1), Vals: vtree{"a": int64(10), "u": "keep"}},
			{Kind: "upgrade", Chart: c13Chart("c", d2), Vals: vtree{"a": int64(99), "bad": "x"}, Fails: true},
			{Kind: "upgrade", Reuse: f[1], RTR: f[2], Chart: c13Chart("c", d2), Vals: nv},
			{Kind: "rollback", Version: 2},
			{Kind: "upgrade", Reuse: f[1], RTR: f[2], Chart: c13Chart("c", d1), Vals: nv, Fails: true},
			{Kind: "upgrade", Reuse: f[1], RTR: f[2], Chart: c13Chart("c", d1), Vals: nv},
		}})
	}
	out = append(out, c13Case{Ops: []c13Op{
		{Kind: "install", Chart: c13Chart("c", d1), Vals: vtree{"a": int64(1)}, Fails: true},
		{Kind: "upgrade", Reuse: true, Chart: c13Chart("c", d2), Vals: vtree{"b": int64(2)}},
		{Kind: "rollback", Version: 1, Fails: true},
		{Kind: "upgrade", RTR: true, Chart: c13Chart("c", d2), Vals: vtree{"c": int64(3)}},
	}})
	out = append(out, c13Case{Ops: []c13Op{
		{Kind: "install", Chart: c13Chart("c", d1), Vals: vtree{}},
		{Kind: "rollback", Version: 0},
		{Kind: "rollback", Version: 7},
		{Kind: "upgrade", Reuse: true, Chart: c13Chart("c", d2), Vals: vtree{"a": vtree{"now": "table"}}},
		{Kind: "upgrade", Reuse: true, Chart: c13Chart("c", d1), Vals: vtree{"a": nil}},
	}})
	return out
}

func (*c13) Exhaustive(string) []any { return nil }

// vtFlipTypes: the same keys, but tables become scalars/lists and non-tables become tables
// for about a third of them (a chart whose defaults changed type between versions).
func vtFlipTypes(r *rand.Rand, t vtree, d int) vtree {
	out := vtree{}
	for k, v := range t {
		m, isTable := v.(vtree)
		switch {
		case r.Intn(3) > 0:
			if isTable && d > 0 {
				out[k] = vtFlipTypes(r, m, d-1)
			} else {
				out[k] = v
			}
		case isTable:
			if r.Intn(3) == 0 {
				out[k] = []interface{}{vtScalar(r)}
			} else {
				out[k] = vtScalar(r)
			}
		default:
			out[k] = vtGenMap(r, 1, 1+r.Intn(2))
		}
	}
	return out
}

func c13CopyChart(c *c04Chart) *c04Chart {
	n := &c04Chart{Name: c.Name, Values: vtCopyMap(c.Values)}
	for _, d := range c.Deps {
		n.Deps = append(n.Deps, c13CopyChart(d))
	}
	return n
}

// c13NextVersion: the next version of a chart: defaults mutated or type-flipped at some
// levels, now and then a subchart dropped or added.
func c13NextVersion(r *rand.Rand, c *c04Chart, top bool) *c04Chart {
	n := &c04Chart{Name: c.Name, Values: vtCopyMap(c.Values)}
	if r.Intn(2) == 0 || top {
		v := n.Values
		if v == nil {
			v = vtree{}
		}
		if r.Intn(3) == 0 {
			n.Values = vtFlipTypes(r, v, 2)
		} else {
			n.Values = vtMutate(r, v, 3)
		}
	}
	for _, d := range c.Deps {
		if r.Intn(10) == 0 {
			continue
		}
		n.Deps = append(n.Deps, c13NextVersion(r, d, false))
	}
	if top && len(n.Deps) < 2 && r.Intn(10) == 0 {
		n.Deps = append(n.Deps, &c04Chart{Name: "extra", Values: vtGenMap(r, 2, 2)})
	}
	// keep the parent's own section for a subchart a table (a scalar there fails every operation)
	for _, d := range n.Deps {
		if x, ok := n.Values[d.Name]; ok && !vtIsTable(x) && r.Intn(6) > 0 {
			delete(n.Values, d.Name)
		}
	}
	return n
}

func (*c13) Generate(r *rand.Rand, _ int) any {
	base := vtGenMap(r, 3, 2+r.Intn(3))
	var ch *c04Chart
	withDeps := r.Intn(3) == 0
	if withDeps {
		ch = c04GenChart(r, "c", 1+r.Intn(2), base)
		if ch.Values == nil {
			ch.Values = vtree{}
		}
		for _, d := range ch.Deps {
			if x, ok := ch.Values[d.Name]; ok && !vtIsTable(x) {
				delete(ch.Values, d.Name)
			}
		}
	} else {
		ch = c13Chart("c", vtMutate(r, base, 3))
	}
	// user values: sections for the subcharts are tables (mostly), globals now and then
	userVals := func(from vtree) vtree {
		v := vtMutate(r, from, 3)
		for _, d := range ch.Deps {
			switch k := r.Intn(10); {
			case k < 5:
				dv := d.Values
				if dv == nil {
					dv = vtree{}
				}
				v[d.Name] = vtMutate(r, dv, 2)
			case k < 6:
				v[d.Name] = vtScalar(r)
			default:
				if x, ok := v[d.Name]; ok && !vtIsTable(x) {
					delete(v, d.Name)
				}
			}
		}
		if withDeps && r.Intn(3) == 0 {
			v["global"] = vtGenMap(r, 2, 1+r.Intn(2))
		}
		return v
	}
	vals := userVals(base)
	c := c13Case{Ops: []c13Op{{Kind: "install", Chart: c13CopyChart(ch), Vals: vals, Fails: r.Intn(15) == 0}}}
	hist := []vtree{vals}
	n := 1 + r.Intn(5)
	revs := 1
	for i := 0; i < n; i++ {
		if r.Intn(5) == 0 {
			v := 0
			switch r.Intn(4) {
			case 0:
				v = 1 + r.Intn(revs)
			case 1:
				v = revs + 1 + r.Intn(2)
			}
			c.Ops = append(c.Ops, c13Op{Kind: "rollback", Version: v, Fails: r.Intn(8) == 0})
			if v <= revs && (v > 0 || revs > 1) {
				revs++
			}
			continue
		}
		op := c13Op{Kind: "upgrade", Fails: r.Intn(4) == 0}
		switch k := r.Intn(12); {
		case k < 3:
		case k < 5:
			op.Reset = true
		case k < 8:
			op.Reuse = true
		case k < 10:
			op.RTR = true
		default:
			op.Reset, op.Reuse, op.RTR = r.Intn(2) == 0, r.Intn(2) == 0, r.Intn(2) == 0
		}
		if r.Intn(2) == 0 {
			ch = c13NextVersion(r, ch, true)
		}
		op.Chart = c13CopyChart(ch)
		switch k := r.Intn(8); {
		case k == 0:
			op.Vals, op.NilVals = nil, true
		case k == 1:
			op.Vals = vtree{}
		case k < 4:
			op.Vals = userVals(base)
		default:
			op.Vals = userVals(hist[r.Intn(len(hist))])
		}
		if op.Vals != nil {
			hist = append(hist, op.Vals)
		}
		c.Ops = append(c.Ops, op)
		revs++
	}
	return c
}

func (*c13) Decode(raw json.RawMessage) (any, error) {
	var c c13Case
	if err := vtDecode(raw, &c); err != nil {
		return nil, err
	}
	for i := range c.Ops {
		c.Ops[i].Vals = c04NormMap(c.Ops[i].Vals)
		c04NormChart(c.Ops[i].Chart)
	}
	return c, nil
}

const c13Probe = "apiVersion: v1\nkind: ConfigMap\nmetadata:\n  name: probe\ndata:\n  values: {{ toJson .Values | b64enc }}\n"

func c13Build(c *c04Chart) *chart.Chart {
	ch := c.build()
	ch.Templates = []*chart.File{{Name: "templates/probe.yaml", Data: []byte(c13Probe)}}
	return ch
}

func c13ReadProbe(manifest string) (vtree, error) {
	i := strings.Index(manifest, "  values: ")
	if i < 0 {
		return nil, fmt.Errorf("probe not found in manifest")
	}
	rest := manifest[i+len("  values: "):]
	if j := strings.IndexAny(rest, "\r\n"); j >= 0 {
		rest = rest[:j]
	}
	raw, err := base64.StdEncoding.DecodeString(strings.TrimSpace(rest))
	if err != nil {
		return nil, err
	}
	var v interface{}
	if err := vtDecode(raw, &v); err != nil {
		return nil, err
	}
	m, ok := vtNorm(v).(vtree)
	if !ok {
		if v == nil {
			return vtree{}, nil
		}
		return nil, fmt.Errorf("probe is %T", v)
	}
	return m, nil
}

const c13Name = "rel"

func (*c13) Execute(ci any) (res any) {
	c := ci.(c13Case)
	obs := c13Obs{}
	defer func() {
		if p := recover(); p != nil {
			obs.Panic = fmt.Sprint(p)
			res = obs
		}
	}()
	cfg := &action.Configuration{
		Releases:     storage.Init(driver.NewMemory()),
		Capabilities: chartutil.DefaultCapabilities,
	}
	// the printing fake with a waiter that can be told to fail: the operation then fails after
	// its record was created, and the new revision is stored as failed
	kc := &kubefake.FailingKubeClient{PrintingKubeClient: kubefake.PrintingKubeClient{Out: io.Discard}}
	cfg.KubeClient = kc
	for _, o := range c.Ops {
		kc.WaitError = nil
		if o.Fails {
			kc.WaitError = errors.New("injected wait failure")
		}
		st := c13Step{}
		var vals map[string]interface{}
		if !o.NilVals {
			vals = vtCopyMap(o.Vals)
			if vals == nil {
				vals = map[string]interface{}{}
			}
		}
		var err error
		switch o.Kind {
		case "install":
			in := action.NewInstall(cfg)
			in.Namespace, in.ReleaseName = "default", c13Name
			_, err = in.RunWithContext(context.Background(), c13Build(o.Chart), vals)
		case "upgrade":
			up := action.NewUpgrade(cfg)
			up.Namespace = "default"
			up.ResetValues, up.ReuseValues, up.ResetThenReuseValues = o.Reset, o.Reuse, o.RTR
			_, err = up.RunWithContext(context.Background(), c13Name, c13Build(o.Chart), vals)
		case "rollback":
			rb := action.NewRollback(cfg)
			rb.Version = o.Version
			err = rb.Run(c13Name)
		default:
			obs.Panic = "unknown op " + o.Kind
			return obs
		}
		st.OK = err == nil
		if err != nil {
			st.Err = err.Error()
			if len(st.Err) > 200 {
				st.Err = st.Err[:200]
			}
		}
		if o.Kind != "rollback" && !vtEqual(vals, o.Vals) {
			st.ValsMutated = true
		}
		if rels, err := cfg.Releases.History(c13Name); err == nil {
			byv := map[int]string{}
			mx := 0
			for _, rl := range rels {
				byv[rl.Version] = rl.Info.Status.String()
				if rl.Version > mx {
					mx = rl.Version
				}
			}
			for v := 1; v <= mx; v++ {
				st.Statuses = append(st.Statuses, byv[v])
			}
		}
		obs.Steps = append(obs.Steps, st)
	}
	kc.WaitError = nil
	// read every stored revision at the end (so that a later operation that disturbed an
	// earlier record shows)
	rels, err := cfg.Releases.History(c13Name)
	if err != nil && len(rels) > 0 {
		obs.Bad = "history: " + err.Error()
	}
	byVer := map[int]c13Rev{}
	maxv := 0
	for _, rl := range rels {
		rv := c13Rev{Version: rl.Version, Config: vtree{}, Status: rl.Info.Status.String()}
		if rl.Config != nil {
			rv.Config = vtNorm(vtree(rl.Config)).(vtree)
		}
		m, err := c13ReadProbe(rl.Manifest)
		if err != nil {
			obs.Bad = fmt.Sprintf("revision %d: %v", rl.Version, err)
		}
		rv.Rendered = m
		byVer[rl.Version] = rv
		if rl.Version > maxv {
			maxv = rl.Version
		}
	}
	for v := 1; v <= maxv; v++ {
		rv, ok := byVer[v]
		if !ok {
			obs.Bad = fmt.Sprintf("revision %d missing from history", v)
			continue
		}
		obs.Revs = append(obs.Revs, rv)
	}
	return obs
}

func c13CoqOp(o c13Op) string {
	switch o.Kind {
	case "install":
		return fmt.Sprintf("OInstall %s %s %s", c04CoqChart(o.Chart), hx.CoqValMap(o.Vals), hx.CoqBool(o.Fails))
	case "upgrade":
		return fmt.Sprintf("OUpgrade (mkFlags %s %s %s) %s %s %s", hx.CoqBool(o.Reset), hx.CoqBool(o.Reuse), hx.CoqBool(o.RTR),
			c04CoqChart(o.Chart), hx.CoqValMap(o.Vals), hx.CoqBool(o.Fails))
	}
	return fmt.Sprintf("ORollback %d %s", o.Version, hx.CoqBool(o.Fails))
}

func (*c13) CoqCase(ci, oi any) string {
	c, obs := ci.(c13Case), oi.(c13Obs)
	ops := make([]string, len(c.Ops))
	for i, o := range c.Ops {
		ops[i] = c13CoqOp(o)
	}
	oks := make([]string, len(obs.Steps))
	for i, s := range obs.Steps {
		oks[i] = hx.CoqBool(s.OK)
	}
	if obs.Panic != "" || obs.Bad != "" {
		// cannot agree with any model output: a panic or an unreadable probe is reported as a mismatch too
		oks = append(oks, "false", "false", "false", "false", "false", "false", "false", "false")
	}
	revs := make([]string, len(obs.Revs))
	for i, r := range obs.Revs {
		st, known := map[string]string{"deployed": "SDeployed", "superseded": "SSuperseded", "failed": "SFailed"}[r.Status]
		if !known {
			st = "SFailed"
			oks = append(oks, "false", "false", "false", "false", "false", "false", "false", "false") // a status outside the model: mismatch
		}
		revs[i] = fmt.Sprintf("mkObs %s %s %s", hx.CoqValMap(r.Config), hx.CoqValMap(r.Rendered), st)
	}
	return fmt.Sprintf("mkCase %s %s %s", hx.CoqList(ops), hx.CoqList(oks), hx.CoqList(revs))
}

func (*c13) Class(ci, oi any) string {
	c := ci.(c13Case)
	flags := map[string]bool{}
	for _, o := range c.Ops {
		switch {
		case o.Kind == "rollback":
			flags["rollback"] = true
		case o.Kind != "upgrade":
		case o.Reset:
			flags["reset"] = true
		case o.Reuse:
			flags["reuse"] = true
		case o.RTR:
			flags["reset-then-reuse"] = true
		default:
			flags["plain"] = true
		}
	}
	var ks []string
	for _, k := range []string{"plain", "reset", "reuse", "reset-then-reuse", "rollback"} {
		if flags[k] {
			ks = append(ks, k)
		}
	}
	lbl := strings.Join(ks, "+")
	for _, o := range c.Ops {
		if o.Chart != nil && len(o.Chart.Deps) > 0 {
			return "subcharts:" + lbl
		}
	}
	return lbl
}

func (*c13) NonTrivial(ci, oi any) bool {
	c, obs := ci.(c13Case), oi.(c13Obs)
	if obs.Panic != "" || len(obs.Revs) < 2 {
		return false
	}
	for i, o := range c.Ops {
		if i < len(obs.Steps) && obs.Steps[i].OK && (o.Kind == "rollback" || (o.Kind == "upgrade" && !o.Reset && (o.Reuse || o.RTR))) {
			return true
		}
	}
	return false
}

package main

// C13 — upgrade carries user values forward exactly as the chosen flag says.
// Chains of install / upgrade / rollback are run through the real action.Install,
// action.Upgrade and action.Rollback over the memory storage driver and the printing fake
// cluster; every stored revision's Release.Config and the values its templates saw (a probe
// template rendering `toJson .Values`, read back from Release.Manifest) go to the model
// Values/Reuse.v through Run/RunC13.v.

import (
	"context"
	"encoding/base64"
	"encoding/json"
	"errors"
	"fmt"
	"io"
	"log"
	"log/slog"
	"math/rand"
	"strings"

	"helm.sh/helm/v4/pkg/action"
	chart "helm.sh/helm/v4/pkg/chart/v2"
	chartutil "helm.sh/helm/v4/pkg/chart/v2/util"
	kubefake "helm.sh/helm/v4/pkg/kube/fake"
	"helm.sh/helm/v4/pkg/storage"
	"helm.sh/helm/v4/pkg/storage/driver"

	"verif/harness/internal/hx"
)

func init() {
	hx.Register("c13", func() hx.Property {
		log.SetOutput(io.Discard)
		slog.SetDefault(slog.New(slog.NewTextHandler(io.Discard, nil)))
		return &c13{}
	})
}

type c13 struct{}

type c13Op struct {
	Kind    string    `json:"op"` // install upgrade rollback
	Reset   bool      `json:"reset_values,omitempty"`
	Reuse   bool      `json:"reuse_values,omitempty"`
	RTR     bool      `json:"reset_then_reuse_values,omitempty"`
	Chart   *c04Chart `json:"chart,omitempty"`
	Vals    vtree     `json:"vals"`
	NilVals bool      `json:"nil_vals,omitempty"` // pass a nil map rather than an empty one
	Version int       `json:"version,omitempty"`  // rollback target, 0 = previous
	Fails   bool      `json:"fails,omitempty"`    // the cluster wait fails after the record was created
	// Rel: which release the operation is about (0 = "rel", 1 = "rel2", 2 = "rel3"); releases share
	// nothing but the storage and — when Share says so — the values map OBJECT the caller hands in.
	Rel int `json:"rel,omitempty"`
	// Share > 0: the values handed to this operation are the map object number Share of the case
	// (c13Case.Shared[Share-1]): ONE Go map that the harness builds once and passes to every
	// operation naming it, as an SDK caller does that parses its overrides once.  Vals then
	// repeats the original content of that map (what model and oracle compute with).
	Share int `json:"share,omitempty"`
	// RFail (c13_rfail.go): the n-th (0-based) read this operation makes on the release store returns an injected error, once
	RFail *int `json:"rfail,omitempty"`
}

type c13Case struct {
	Ops    []c13Op `json:"ops"`
	Shared []vtree `json:"shared,omitempty"` // original content of the shared map objects
}

// c13NRel: release names of a case
var c13Names = []string{"rel", "rel2", "rel3"}

// vals: the ORIGINAL content of the values the caller supplies to operation o
func (c c13Case) vals(o c13Op) vtree {
	if o.Share > 0 && o.Share <= len(c.Shared) {
		if c.Shared[o.Share-1] == nil {
			return vtree{}
		}
		return c.Shared[o.Share-1]
	}
	return o.Vals
}

// nrel: number of releases the case talks about
func (c c13Case) nrel() int {
	n := 1
	for _, o := range c.Ops {
		if o.Rel+1 > n {
			n = o.Rel + 1
		}
	}
	return n
}

type c13Rev struct {
	Version  int    `json:"version"`
	Config   vtree  `json:"config"`
	Rendered vtree  `json:"rendered"`
	Status   string `json:"status"`
}

type c13Step struct {
	OK  bool   `json:"ok"`
	Err string `json:"err,omitempty"` // error text, for the replay file only (never compared)
	// snapshots for the oracle
	ValsMutated bool `json:"vals_mutated,omitempty"` // the supplied map is not deep-equal to its snapshot taken right before the call
	// ValsIn: the content of the supplied map right before the call when that is no longer the
	// original content (an earlier call wrote into the shared object); ValsOut: its content
	// right after the call when the call changed it
	ValsIn  vtree `json:"vals_in,omitempty"`
	ValsOut vtree `json:"vals_out,omitempty"`
	// NewConfig: Release.Config of the revision this step stored, copied right after the step
	// (the final read-back shows whether a later operation disturbed it)
	NewConfig vtree `json:"new_config,omitempty"`
	Stored    bool  `json:"stored,omitempty"`
	// the status of every stored revision right after this step (index = revision - 1)
	Statuses []string `json:"statuses,omitempty"`
	// the injected read fault was met (c13_rfail.go)
	RFailHit bool `json:"rfail_hit,omitempty"`
}

type c13Obs struct {
	Steps []c13Step  `json:"steps"`
	Revs  [][]c13Rev `json:"revs"` // per release, in revision order
	Panic string     `json:"panic,omitempty"`
	Bad   string     `json:"bad,omitempty"` // the probe could not be read back
}

func (*c13) ID() string { return "C13" }
func (*c13) CoqImport() string {
	return "From Helm Require Import Values.Tree Values.Coalesce Values.Reuse Run.RunC13."
}
func (*c13) Rule() string {
	return "chains: install followed by 1-5 upgrades/rollbacks (2-6 steps) through the real actions; per upgrade a random combination of " +
		"ResetValues/ReuseValues/ResetThenReuseValues (single flags and none most often, also combinations), values that are a mutation of an " +
		"earlier step's values (nulls, table<->scalar changes, dropped keys), empty or nil in 1/4 of the steps; the chart's defaults change between " +
		"versions in half of the upgrades (mutated, or type-flipped: tables become scalars/lists and back); a third of the chains use a chart with 1-2 levels " +
		"of subcharts (defaults of every level change, subcharts come and go, user sections for subcharts, scalars on subchart keys, globals); " +
		"a quarter of the upgrades, 1/8 of the rollbacks and 1/15 of the installs FAIL after their record was created (injected wait error: the revision is stored as failed); rollbacks to the previous, an explicit earlier or a non-existent revision; " +
		"a quarter of the chains hand ONE values map object (a shared overrides map with tables where the installed values have tables) to two or more of their operations, half of those chains over two releases; " +
		"1/8 of the chains give one upgrade / rollback a storage READ fault (the n-th read of the operation on the release store returns an error, n < 3), preferably an upgrade whose " +
		"predecessor failed (the newest revision is then not the deployed one and prepareUpgrade looks the deployed one up); the corpus has that shape for every flag mode x both read positions, " +
		"and a rollback with each of its four reads failing; an operation refused before it stored anything is left out of the model's chain, one that failed after its record was created is the model's 'fails'; " +
		"non-trivial = at least two revisions stored and at least one upgrade with a reuse flag or a rollback succeeded; distinct = hash of (case, observation)"
}

func c13Chart(name string, vals vtree) *c04Chart { return &c04Chart{Name: name, Values: vals} }

func (*c13) Corpus() []any {
	d1 := vtree{"a": int64(1), "t": vtree{"x": "d", "y": "d"}, "n": "dflt"}
	d2 := vtree{"a": int64(2), "t": vtree{"x": "D", "z": "D"}, "m": "new-default"}
	var out []any
	for _, f := range [][3]bool{{false, false, false}, {true, false, false}, {false, true, false}, {false, false, true}, {true, true, true}, {false, true, true}} {
		out = append(out, c13Case{Ops: []c13Op{
			{Kind: "install", Chart: c13Chart("c", d1), Vals: vtree{"a": int64(10), "t": vtree{"x": "u"}, "u": "keep"}},
			{Kind: "upgrade", Reset: f[0], Reuse: f[1], RTR: f[2], Chart: c13Chart("c", d2), Vals: vtree{"t": vtree{"y": "u2"}, "n": nil, "u": nil}},
			{Kind: "upgrade", Reset: f[0], Reuse: f[1], RTR: f[2], Chart: c13Chart("c", d2), Vals: vtree{}},
			{Kind: "rollback", Version: 1},
			{Kind: "upgrade", Reset: f[0], Reuse: f[1], RTR: f[2], Chart: c13Chart("c", d1), Vals: nil, NilVals: true},
			{Kind: "rollback"},
		}})
	}
	// the newest revision is a FAILED upgrade with other values and another chart version: the next
	// upgrade carries forward from the deployed revision 1 (seeded C13-5), for each flag choice
	for _, f := range [][3]bool{{false, true, false}, {false, false, true}, {false, false, false}} {
		nv := vtree{"t": vtree{"y": "u3"}}
		if !f[1] && !f[2] {
			nv = vtree{}
		}
		out = append(out, c13Case{Ops: []c13Op{
			{Kind: "install", Chart: c13Chart("c", d1), Vals: vtree{"a": int64(10), "u": "keep"}},
			{Kind: "upgrade", Chart: c13Chart("c", d2), Vals: vtree{"a": int64(99), "bad": "x"}, Fails: true},
			{Kind: "upgrade", Reuse: f[1], RTR: f[2], Chart: c13Chart("c", d2), Vals: nv},
			{Kind: "rollback", Version: 2},
			{Kind: "upgrade", Reuse: f[1], RTR: f[2], Chart: c13Chart("c", d1), Vals: nv, Fails: true},
			{Kind: "upgrade", Reuse: f[1], RTR: f[2], Chart: c13Chart("c", d1), Vals: nv},
		}})
	}
	out = append(out, c13Case{Ops: []c13Op{
		{Kind: "install", Chart: c13Chart("c", d1), Vals: vtree{"a": int64(1)}, Fails: true},
		{Kind: "upgrade", Reuse: true, Chart: c13Chart("c", d2), Vals: vtree{"b": int64(2)}},
		{Kind: "rollback", Version: 1, Fails: true},
		{Kind: "upgrade", RTR: true, Chart: c13Chart("c", d2), Vals: vtree{"c": int64(3)}},
	}})
	out = append(out, c13Case{Ops: []c13Op{
		{Kind: "install", Chart: c13Chart("c", d1), Vals: vtree{}},
		{Kind: "rollback", Version: 0},
		{Kind: "rollback", Version: 7},
		{Kind: "upgrade", Reuse: true, Chart: c13Chart("c", d2), Vals: vtree{"a": vtree{"now": "table"}}},
		{Kind: "upgrade", Reuse: true, Chart: c13Chart("c", d1), Vals: vtree{"a": nil}},
	}})
	out = append(out, c13SharedCorpus()...)
	out = append(out, c13RollbackCorpus()...)
	out = append(out, c13RFailCorpus()...)
	return out
}

// c13SharedCorpus: ONE parsed overrides map handed to several upgrades — of the same release
// and of a second one — with tables on both sides, in every flag mode (seeded C13-7: a
// reuseValues that overlays onto a top-level copy only writes the deployed revision's nested
// keys into the caller's nested tables; every later operation given that object then records
// values that are neither the new ones nor its own release's).
func c13SharedCorpus() []any {
	d1 := vtree{"a": int64(1), "image": vtree{"tag": "0", "pullPolicy": "IfNotPresent"}, "t": vtree{"x": "d"}}
	d2 := vtree{"a": int64(2), "image": vtree{"tag": "0", "repo": "r"}, "m": "new-default"}
	over := func() vtree {
		return vtree{"image": vtree{"tag": "2.0"}, "t": vtree{"y": "s", "deep": vtree{"k": "s"}}, "n": nil}
	}
	alpha := vtree{"image": vtree{"tag": "1.0", "pullPolicy": "Always"}, "replicas": int64(2), "t": vtree{"x": "u", "deep": vtree{"j": "alpha"}}, "n": "set"}
	beta := vtree{"image": vtree{"tag": "0.9"}, "t": vtree{"z": "beta"}}
	var out []any
	up := func(rel int, f [3]bool, ch vtree) c13Op {
		return c13Op{Kind: "upgrade", Rel: rel, Reset: f[0], Reuse: f[1], RTR: f[2], Chart: c13Chart("c", ch), Vals: over(), Share: 1}
	}
	for _, f := range [][3]bool{{false, true, false}, {false, false, true}, {false, true, true}, {true, true, false}, {true, false, true}, {true, true, true}, {true, false, false}, {false, false, false}} {
		// two releases; the shared overrides go to alpha with flags f, to beta with reuse-values,
		// to alpha again with reset-values / without flags, after a rollback with f again, and to
		// beta with reset-then-reuse-values
		out = append(out, c13Case{Shared: []vtree{over()}, Ops: []c13Op{
			{Kind: "install", Rel: 0, Chart: c13Chart("c", d1), Vals: vtCopyMap(alpha)},
			{Kind: "install", Rel: 1, Chart: c13Chart("c", d1), Vals: vtCopyMap(beta)},
			up(0, f, d2),
			up(1, [3]bool{false, true, false}, d2),
			up(0, [3]bool{true, false, false}, d2),
			up(0, [3]bool{false, false, false}, d1),
			{Kind: "rollback", Rel: 0, Version: 1},
			up(0, f, d1),
			up(1, [3]bool{false, false, true}, d1),
		}})
		// one release only: flags f, then the same object with reset-values (the new values alone)
		out = append(out, c13Case{Shared: []vtree{over()}, Ops: []c13Op{
			{Kind: "install", Chart: c13Chart("c", d1), Vals: vtCopyMap(alpha)},
			up(0, f, d2),
			up(0, [3]bool{true, false, false}, d2),
		}})
	}
	// the install itself is given the shared object (its record IS that map in the memory
	// driver); a failing reuse-values upgrade in between; two shared objects
	out = append(out, c13Case{Shared: []vtree{over(), {"t": vtree{"x": "second"}, "image": vtree{}}}, Ops: []c13Op{
		{Kind: "install", Rel: 0, Chart: c13Chart("c", d1), Vals: over(), Share: 1},
		{Kind: "install", Rel: 1, Chart: c13Chart("c", d2), Vals: vtCopyMap(alpha)},
		{Kind: "upgrade", Rel: 1, Reuse: true, Chart: c13Chart("c", d2), Vals: over(), Share: 1, Fails: true},
		{Kind: "upgrade", Rel: 1, RTR: true, Chart: c13Chart("c", d2), Vals: vtree{"t": vtree{"x": "second"}, "image": vtree{}}, Share: 2},
		{Kind: "upgrade", Rel: 0, Reuse: true, Chart: c13Chart("c", d2), Vals: vtree{"t": vtree{"x": "second"}, "image": vtree{}}, Share: 2},
		{Kind: "upgrade", Rel: 0, Chart: c13Chart("c", d2), Vals: over(), Share: 1},
		{Kind: "upgrade", Rel: 1, Reset: true, Chart: c13Chart("c", d1), Vals: vtree{"t": vtree{"x": "second"}, "image": vtree{}}, Share: 2},
	}})
	return out
}

// c13RollbackCorpus: rollbacks to a revision whose chart differs from the deployed one, followed
// by reuse-values upgrades (the defaults in force are now the ROLLBACK's, i.e. the target's);
// failed rollbacks and failed upgrades in between (the deployed revision stays the older one);
// every combination of the three flags after a rollback.
func c13RollbackCorpus() []any {
	d1 := vtree{"a": int64(1), "t": vtree{"x": "d1", "y": "d1"}, "only1": "d1"}
	d2 := vtree{"a": int64(2), "t": vtree{"x": "d2", "z": "d2"}, "only2": "d2"}
	d3 := vtree{"a": int64(3), "t": "scalar-now", "only3": "d3"}
	var out []any
	for _, f := range [][3]bool{{false, true, false}, {false, false, true}, {false, true, true}, {true, true, false}, {true, false, true}, {true, true, true}, {true, false, false}, {false, false, false}} {
		out = append(out, c13Case{Ops: []c13Op{
			{Kind: "install", Chart: c13Chart("c", d1), Vals: vtree{"a": int64(10), "t": vtree{"x": "u1"}}},
			{Kind: "upgrade", Chart: c13Chart("c", d2), Vals: vtree{"a": int64(20), "t": vtree{"z": "u2"}, "k": "two"}},
			{Kind: "upgrade", Chart: c13Chart("c", d3), Vals: vtree{"a": int64(30)}, Fails: true},
			{Kind: "rollback", Version: 1}, // revision 4 = revision 1 (chart d1), deployed
			{Kind: "upgrade", Reset: f[0], Reuse: f[1], RTR: f[2], Chart: c13Chart("c", d2), Vals: vtree{"t": vtree{"y": "u5"}}},
			{Kind: "rollback", Version: 2, Fails: true}, // revision 6 = revision 2, failed: 5 stays deployed
			{Kind: "upgrade", Reset: f[0], Reuse: f[1], RTR: f[2], Chart: c13Chart("c", d3), Vals: vtree{"k": nil, "extra": "e"}, Fails: true},
			{Kind: "upgrade", Reset: f[0], Reuse: f[1], RTR: f[2], Chart: c13Chart("c", d2), Vals: vtree{}},
			{Kind: "rollback", Version: 3}, // to the FAILED revision 3 (chart d3, while a revision with chart d2 is deployed)
			{Kind: "upgrade", Reuse: true, Chart: c13Chart("c", d1), Vals: vtree{"b": int64(1)}},
		}})
	}
	return out
}

// Exhaustive (thorough tier): every pair of flag combinations (8 x 8) for two consecutive
// upgrades that are handed the same values map object — the second one on the same release or
// on a second release —, each followed by a reset-values upgrade with that object (which must
// record the new values alone) and, for the failure paths, with the first upgrade failing or not.
func (*c13) Exhaustive(tier string) []any {
	if tier != "thorough" {
		return nil
	}
	d1 := vtree{"a": int64(1), "t": vtree{"x": "d", "deep": vtree{"d": "d"}}}
	d2 := vtree{"a": int64(2), "t": vtree{"x": "D", "z": "D"}, "m": "new-default"}
	over := func() vtree { return vtree{"t": vtree{"y": "s", "deep": vtree{"k": "s"}}, "n": nil} }
	alpha := vtree{"t": vtree{"x": "u", "deep": vtree{"j": "alpha"}}, "n": "set", "only": "alpha"}
	beta := vtree{"t": vtree{"z": "beta", "deep": "scalar-here"}}
	var out []any
	fl := func(i int) (bool, bool, bool) { return i&4 != 0, i&2 != 0, i&1 != 0 }
	for f1 := 0; f1 < 8; f1++ {
		for f2 := 0; f2 < 8; f2++ {
			for v := 0; v < 4; v++ {
				rel2, fails := v&1, v&2 != 0
				a1, b1, c1 := fl(f1)
				a2, b2, c2 := fl(f2)
				out = append(out, c13Case{Shared: []vtree{over()}, Ops: []c13Op{
					{Kind: "install", Rel: 0, Chart: c13Chart("c", d1), Vals: vtCopyMap(alpha)},
					{Kind: "install", Rel: 1, Chart: c13Chart("c", d1), Vals: vtCopyMap(beta)},
					{Kind: "upgrade", Rel: 0, Reset: a1, Reuse: b1, RTR: c1, Chart: c13Chart("c", d2), Vals: over(), Share: 1, Fails: fails},
					{Kind: "upgrade", Rel: rel2, Reset: a2, Reuse: b2, RTR: c2, Chart: c13Chart("c", d2), Vals: over(), Share: 1},
					{Kind: "upgrade", Rel: 0, Reset: true, Chart: c13Chart("c", d1), Vals: over(), Share: 1},
				}})
			}
		}
	}
	return out
}

// vtFlipTypes: the same keys, but tables become scalars/lists and non-tables become tables
// for about a third of them (a chart whose defaults changed type between versions).
func vtFlipTypes(r *rand.Rand, t vtree, d int) vtree {
	out := vtree{}
	for k, v := range t {
		m, isTable := v.(vtree)
		switch {
		case r.Intn(3) > 0:
			if isTable && d > 0 {
				out[k] = vtFlipTypes(r, m, d-1)
			} else {
				out[k] = v
			}
		case isTable:
			if r.Intn(3) == 0 {
				out[k] = []interface{}{vtScalar(r)}
			} else {
				out[k] = vtScalar(r)
			}
		default:
			out[k] = vtGenMap(r, 1, 1+r.Intn(2))
		}
	}
	return out
}

func c13CopyChart(c *c04Chart) *c04Chart {
	n := &c04Chart{Name: c.Name, Values: vtCopyMap(c.Values)}
	for _, d := range c.Deps {
		n.Deps = append(n.Deps, c13CopyChart(d))
	}
	return n
}

// c13NextVersion: the next version of a chart: defaults mutated or type-flipped at some
// levels, now and then a subchart dropped or added.
func c13NextVersion(r *rand.Rand, c *c04Chart, top bool) *c04Chart {
	n := &c04Chart{Name: c.Name, Values: vtCopyMap(c.Values)}
	if r.Intn(2) == 0 || top {
		v := n.Values
		if v == nil {
			v = vtree{}
		}
		if r.Intn(3) == 0 {
			n.Values = vtFlipTypes(r, v, 2)
		} else {
			n.Values = vtMutate(r, v, 3)
		}
	}
	for _, d := range c.Deps {
		if r.Intn(10) == 0 {
			continue
		}
		n.Deps = append(n.Deps, c13NextVersion(r, d, false))
	}
	if top && len(n.Deps) < 2 && r.Intn(10) == 0 {
		n.Deps = append(n.Deps, &c04Chart{Name: "extra", Values: vtGenMap(r, 2, 2)})
	}
	// keep the parent's own section for a subchart a table (a scalar there fails every operation)
	for _, d := range n.Deps {
		if x, ok := n.Values[d.Name]; ok && !vtIsTable(x) && r.Intn(6) > 0 {
			delete(n.Values, d.Name)
		}
	}
	return n
}

func (*c13) Generate(r *rand.Rand, _ int) any {
	base := vtGenMap(r, 3, 2+r.Intn(3))
	var ch *c04Chart
	withDeps := r.Intn(3) == 0
	if withDeps {
		ch = c04GenChart(r, "c", 1+r.Intn(2), base)
		if ch.Values == nil {
			ch.Values = vtree{}
		}
		for _, d := range ch.Deps {
			if x, ok := ch.Values[d.Name]; ok && !vtIsTable(x) {
				delete(ch.Values, d.Name)
			}
		}
	} else {
		ch = c13Chart("c", vtMutate(r, base, 3))
	}
	// user values: sections for the subcharts are tables (mostly), globals now and then
	userVals := func(from vtree) vtree {
		v := vtMutate(r, from, 3)
		for _, d := range ch.Deps {
			switch k := r.Intn(10); {
			case k < 5:
				dv := d.Values
				if dv == nil {
					dv = vtree{}
				}
				v[d.Name] = vtMutate(r, dv, 2)
			case k < 6:
				v[d.Name] = vtScalar(r)
			default:
				if x, ok := v[d.Name]; ok && !vtIsTable(x) {
					delete(v, d.Name)
				}
			}
		}
		if withDeps && r.Intn(3) == 0 {
			v["global"] = vtGenMap(r, 2, 1+r.Intn(2))
		}
		return v
	}
	vals := userVals(base)
	c := c13Case{Ops: []c13Op{{Kind: "install", Chart: c13CopyChart(ch), Vals: vals, Fails: r.Intn(15) == 0}}}
	hist := []vtree{vals}
	n := 1 + r.Intn(5)
	revs := 1
	for i := 0; i < n; i++ {
		if r.Intn(5) == 0 {
			v := 0
			switch r.Intn(4) {
			case 0:
				v = 1 + r.Intn(revs)
			case 1:
				v = revs + 1 + r.Intn(2)
			}
			c.Ops = append(c.Ops, c13Op{Kind: "rollback", Version: v, Fails: r.Intn(8) == 0})
			if v <= revs && (v > 0 || revs > 1) {
				revs++
			}
			continue
		}
		op := c13Op{Kind: "upgrade", Fails: r.Intn(4) == 0}
		switch k := r.Intn(12); {
		case k < 3:
		case k < 5:
			op.Reset = true
		case k < 8:
			op.Reuse = true
		case k < 10:
			op.RTR = true
		default:
			op.Reset, op.Reuse, op.RTR = r.Intn(2) == 0, r.Intn(2) == 0, r.Intn(2) == 0
		}
		if r.Intn(2) == 0 {
			ch = c13NextVersion(r, ch, true)
		}
		op.Chart = c13CopyChart(ch)
		switch k := r.Intn(8); {
		case k == 0:
			op.Vals, op.NilVals = nil, true
		case k == 1:
			op.Vals = vtree{}
		case k < 4:
			op.Vals = userVals(base)
		default:
			op.Vals = userVals(hist[r.Intn(len(hist))])
		}
		if op.Vals != nil {
			hist = append(hist, op.Vals)
		}
		c.Ops = append(c.Ops, op)
		revs++
	}
	if r.Intn(4) == 0 {
		c13Shareify(r, &c, userVals(base))
	}
	if r.Intn(8) == 0 {
		c13AddRFail(r, &c)
	}
	return c
}

// c13Shareify turns a chain into one whose caller parses its overrides once and hands the SAME
// map object to several operations: a shared map (the values of one of the steps, or fresh
// ones — made to have tables where the installed values have tables), at least two operations
// given it, and in half of the cases a second release (installed somewhere before its first
// operation, with values of its own) to which some of the later operations are redirected.
func c13Shareify(r *rand.Rand, c *c13Case, fresh vtree) {
	s := fresh
	var cands []int
	for i, o := range c.Ops {
		if o.Kind != "rollback" && !o.NilVals && o.Vals != nil {
			cands = append(cands, i)
		}
	}
	if len(cands) > 0 && r.Intn(2) == 0 {
		s = vtCopyMap(c.Ops[cands[r.Intn(len(cands))]].Vals)
	}
	inst := c.Ops[0].Vals
	// tables on both sides: for the tables of the installed values, a table with other keys in s
	for k, v := range inst {
		if m, ok := v.(vtree); ok && r.Intn(2) == 0 {
			if _, ok := s[k].(vtree); !ok {
				s[k] = vtMutate(r, m, 2)
			}
		}
	}
	if len(s) == 0 || r.Intn(3) == 0 {
		s[vtKey(r)] = vtGenMap(r, 1, 1+r.Intn(2))
	}
	c.Shared = []vtree{s}
	second := r.Intn(2) == 0
	if second {
		// the second release is installed right after the first one, from the same chart,
		// with values that overlap the shared map's
		ins := c13Op{Kind: "install", Rel: 1, Chart: c13CopyChart(c.Ops[0].Chart), Vals: vtMutate(r, s, 3)}
		for k, v := range s {
			if m, ok := v.(vtree); ok && r.Intn(2) == 0 {
				ins.Vals[k] = vtMutate(r, m, 2)
			}
		}
		c.Ops = append([]c13Op{c.Ops[0], ins}, c.Ops[1:]...)
	}
	shared := 0
	for i := range c.Ops {
		o := &c.Ops[i]
		if second && i >= 2 && r.Intn(3) == 0 {
			o.Rel = 1
			if o.Kind == "rollback" && o.Version > 1 {
				o.Version = 1
			}
		}
		if o.Kind == "rollback" || (o.Kind == "install" && (i > 0 || r.Intn(4) > 0)) {
			continue
		}
		if r.Intn(3) > 0 {
			o.Share, o.NilVals, o.Vals = 1, false, vtCopyMap(s)
			shared++
		}
	}
	// at least two operations are given the object
	for i := len(c.Ops) - 1; i >= 0 && shared < 2; i-- {
		if o := &c.Ops[i]; o.Kind == "upgrade" && o.Share == 0 {
			o.Share, o.NilVals, o.Vals = 1, false, vtCopyMap(s)
			shared++
		}
	}
	if shared < 2 {
		ch := c.Ops[0].Chart
		for ; shared < 2; shared++ {
			c.Ops = append(c.Ops, c13Op{Kind: "upgrade", Reuse: shared == 0, RTR: shared == 1, Chart: c13CopyChart(ch), Vals: vtCopyMap(s), Share: 1})
		}
		c.Ops = append(c.Ops, c13Op{Kind: "upgrade", Reset: true, Chart: c13CopyChart(ch), Vals: vtCopyMap(s), Share: 1})
	}
}

func (*c13) Decode(raw json.RawMessage) (any, error) {
	var c c13Case
	if err := vtDecode(raw, &c); err != nil {
		return nil, err
	}
	for i := range c.Ops {
		c.Ops[i].Vals = c04NormMap(c.Ops[i].Vals)
		c04NormChart(c.Ops[i].Chart)
		if c.Ops[i].Rel < 0 || c.Ops[i].Rel >= len(c13Names) {
			return nil, fmt.Errorf("op %d: release index %d out of range", i, c.Ops[i].Rel)
		}
		if c.Ops[i].Share < 0 || c.Ops[i].Share > len(c.Shared) {
			return nil, fmt.Errorf("op %d: shared map %d does not exist", i, c.Ops[i].Share)
		}
	}
	for i := range c.Shared {
		c.Shared[i] = c04NormMap(c.Shared[i])
	}
	return c, nil
}

const c13Probe = "apiVersion: v1\nkind: ConfigMap\nmetadata:\n  name: probe\ndata:\n  values: {{ toJson .Values | b64enc }}\n"

func c13Build(c *c04Chart) *chart.Chart {
	ch := c.build()
	ch.Templates = []*chart.File{{Name: "templates/probe.yaml", Data: []byte(c13Probe)}}
	return ch
}

func c13ReadProbe(manifest string) (vtree, error) {
	i := strings.Index(manifest, "  values: ")
	if i < 0 {
		return nil, fmt.Errorf("probe not found in manifest")
	}
	rest := manifest[i+len("  values: "):]
	if j := strings.IndexAny(rest, "\r\n"); j >= 0 {
		rest = rest[:j]
	}
	raw, err := base64.StdEncoding.DecodeString(strings.TrimSpace(rest))
	if err != nil {
		return nil, err
	}
	var v interface{}
	if err := vtDecode(raw, &v); err != nil {
		return nil, err
	}
	m, ok := vtNorm(v).(vtree)
	if !ok {
		if v == nil {
			return vtree{}, nil
		}
		return nil, fmt.Errorf("probe is %T", v)
	}
	return m, nil
}

// c13History: the stored revisions of one release by version, and the highest version
func c13History(cfg *action.Configuration, name string) (map[int]*c13RelPtr, int, error) {
	rels, err := cfg.Releases.History(name)
	byv := map[int]*c13RelPtr{}
	mx := 0
	for _, rl := range rels {
		byv[rl.Version] = &c13RelPtr{Status: rl.Info.Status.String(), Config: rl.Config, Manifest: rl.Manifest}
		if rl.Version > mx {
			mx = rl.Version
		}
	}
	if err != nil && len(rels) > 0 {
		return byv, mx, err
	}
	return byv, mx, nil
}

type c13RelPtr struct {
	Status   string
	Config   map[string]interface{}
	Manifest string
}

func (*c13) Execute(ci any) (res any) {
	c := ci.(c13Case)
	obs := c13Obs{}
	defer func() {
		if p := recover(); p != nil {
			obs.Panic = fmt.Sprint(p)
			res = obs
		}
	}()
	rdrv := &c13Drv{inner: driver.NewMemory(), at: -1} // read faults, off unless an operation asks for one
	cfg := &action.Configuration{
		Releases:     storage.Init(rdrv),
		Capabilities: chartutil.DefaultCapabilities,
	}
	// the printing fake with a waiter that can be told to fail: the operation then fails after
	// its record was created, and the new revision is stored as failed
	kc := &kubefake.FailingKubeClient{PrintingKubeClient: kubefake.PrintingKubeClient{Out: io.Discard}}
	cfg.KubeClient = kc
	// the shared map objects: built ONCE per case, handed to every operation that names them
	shared := make([]map[string]interface{}, len(c.Shared))
	for i, m := range c.Shared {
		shared[i] = vtCopyMap(m)
		if shared[i] == nil {
			shared[i] = map[string]interface{}{}
		}
	}
	stored := make([]int, c.nrel()) // revisions stored so far, per release
	for _, o := range c.Ops {
		if o.Rel < 0 || o.Rel >= len(c13Names) {
			obs.Panic = fmt.Sprintf("release index %d out of range", o.Rel)
			return obs
		}
		name := c13Names[o.Rel]
		kc.WaitError = nil
		if o.Fails {
			kc.WaitError = errors.New("injected wait failure")
		}
		st := c13Step{}
		orig := c.vals(o)
		var vals map[string]interface{}
		switch {
		case o.Share > 0 && o.Share <= len(shared):
			vals = shared[o.Share-1]
		case !o.NilVals:
			vals = vtCopyMap(o.Vals)
			if vals == nil {
				vals = map[string]interface{}{}
			}
		}
		before := vtCopyMap(vals) // deep snapshot of the caller's map right before the call
		var err error
		rdrv.arm(o.RFail)
		switch o.Kind {
		case "install":
			in := action.NewInstall(cfg)
			in.Namespace, in.ReleaseName = "default", name
			_, err = in.RunWithContext(context.Background(), c13Build(o.Chart), vals)
		case "upgrade":
			up := action.NewUpgrade(cfg)
			up.Namespace = "default"
			up.ResetValues, up.ReuseValues, up.ResetThenReuseValues = o.Reset, o.Reuse, o.RTR
			_, err = up.RunWithContext(context.Background(), name, c13Build(o.Chart), vals)
		case "rollback":
			rb := action.NewRollback(cfg)
			rb.Version = o.Version
			err = rb.Run(name)
		default:
			obs.Panic = "unknown op " + o.Kind
			return obs
		}
		st.RFailHit = rdrv.hit
		rdrv.arm(nil)
		st.OK = err == nil
		if err != nil {
			st.Err = err.Error()
			if len(st.Err) > 200 {
				st.Err = st.Err[:200]
			}
		}
		if o.Kind != "rollback" {
			if !vtEqual(vals, before) {
				st.ValsMutated = true
				st.ValsOut = vtCopyMap(vals)
			}
			if !vtEqual(before, orig) {
				st.ValsIn = before
				if st.ValsIn == nil {
					st.ValsIn = vtree{}
				}
			}
		}
		byv, mx, _ := c13History(cfg, name)
		for v := 1; v <= mx; v++ {
			s := ""
			if r := byv[v]; r != nil {
				s = r.Status
			}
			st.Statuses = append(st.Statuses, s)
		}
		if mx == stored[o.Rel]+1 && byv[mx] != nil {
			st.Stored = true
			st.NewConfig = vtree{}
			if byv[mx].Config != nil {
				st.NewConfig = vtNorm(vtCopyMap(byv[mx].Config)).(vtree)
			}
		}
		stored[o.Rel] = mx
		obs.Steps = append(obs.Steps, st)
	}
	kc.WaitError = nil
	// read every stored revision at the end (so that a later operation that disturbed an
	// earlier record shows)
	for k := 0; k < c.nrel(); k++ {
		byv, maxv, err := c13History(cfg, c13Names[k])
		if err != nil {
			obs.Bad = "history: " + err.Error()
		}
		revs := []c13Rev{}
		for v := 1; v <= maxv; v++ {
			rl, ok := byv[v]
			if !ok {
				obs.Bad = fmt.Sprintf("%s: revision %d missing from history", c13Names[k], v)
				continue
			}
			rv := c13Rev{Version: v, Config: vtree{}, Status: rl.Status}
			if rl.Config != nil {
				rv.Config = vtNorm(vtree(rl.Config)).(vtree)
			}
			m, err := c13ReadProbe(rl.Manifest)
			if err != nil {
				obs.Bad = fmt.Sprintf("%s: revision %d: %v", c13Names[k], v, err)
			}
			rv.Rendered = m
			revs = append(revs, rv)
		}
		obs.Revs = append(obs.Revs, revs)
	}
	return obs
}

func c13CoqOp(o c13Op) string {
	switch o.Kind {
	case "install":
		return fmt.Sprintf("OInstall %s %s %s", c04CoqChart(o.Chart), hx.CoqValMap(o.Vals), hx.CoqBool(o.Fails))
	case "upgrade":
		return fmt.Sprintf("OUpgrade (mkFlags %s %s %s) %s %s %s", hx.CoqBool(o.Reset), hx.CoqBool(o.Reuse), hx.CoqBool(o.RTR),
			c04CoqChart(o.Chart), hx.CoqValMap(o.Vals), hx.CoqBool(o.Fails))
	}
	return fmt.Sprintf("ORollback %d %s", o.Version, hx.CoqBool(o.Fails))
}

// c13Project: the operations of the chain that are about release k — each with the ORIGINAL
// content of the values the caller supplied (a shared map object is resolved to what it held
// when the case began: that is what the property text, the oracle and the value-semantic model
// compute with) —, their steps, and their positions in the chain.
func c13Project(c c13Case, obs c13Obs, k int) (ops []c13Op, steps []c13Step, idx []int) {
	for i, o := range c.Ops {
		if o.Rel != k {
			continue
		}
		o.Vals = c.vals(o)
		ops = append(ops, o)
		if i < len(obs.Steps) {
			steps = append(steps, obs.Steps[i])
		}
		idx = append(idx, i)
	}
	return
}

func (*c13) CoqCase(ci, oi any) string {
	c, obs := ci.(c13Case), oi.(c13Obs)
	var rels []string
	for k := 0; k < c.nrel(); k++ {
		pops, psteps, _ := c13Project(c, obs, k)
		pops, psteps = c13CoqView(pops, psteps) // read faults: what the fault-free value model is asked about
		ops := make([]string, len(pops))
		for i, o := range pops {
			ops[i] = c13CoqOp(o)
		}
		oks := make([]string, len(psteps))
		for i, s := range psteps {
			oks[i] = hx.CoqBool(s.OK)
		}
		if obs.Panic != "" || obs.Bad != "" {
			// cannot agree with any model output: a panic or an unreadable probe is reported as a mismatch too
			oks = append(oks, "false", "false", "false", "false", "false", "false", "false", "false")
		}
		var orevs []c13Rev
		if k < len(obs.Revs) {
			orevs = obs.Revs[k]
		}
		revs := make([]string, len(orevs))
		for i, r := range orevs {
			st, known := map[string]string{"deployed": "SDeployed", "superseded": "SSuperseded", "failed": "SFailed"}[r.Status]
			if !known {
				st = "SFailed"
				oks = append(oks, "false", "false", "false", "false", "false", "false", "false", "false") // a status outside the model: mismatch
			}
			revs[i] = fmt.Sprintf("mkObs %s %s %s", hx.CoqValMap(r.Config), hx.CoqValMap(r.Rendered), st)
		}
		rels = append(rels, fmt.Sprintf("%s %s %s", hx.CoqList(ops), hx.CoqList(oks), hx.CoqList(revs)))
	}
	if len(rels) == 1 {
		return "mkCase " + rels[0]
	}
	// several releases: one (operations, results, stored revisions) triple per release; the
	// model runs each release's operations on its own history (releases share nothing there)
	for i := range rels {
		rels[i] = "mkRel " + rels[i]
	}
	return "mkMulti " + hx.CoqList(rels)
}

func (*c13) Class(ci, oi any) string {
	c := ci.(c13Case)
	flags := map[string]bool{}
	for _, o := range c.Ops {
		switch {
		case o.Kind == "rollback":
			flags["rollback"] = true
		case o.Kind != "upgrade":
		case o.Reset:
			flags["reset"] = true
		case o.Reuse:
			flags["reuse"] = true
		case o.RTR:
			flags["reset-then-reuse"] = true
		default:
			flags["plain"] = true
		}
	}
	var ks []string
	for _, k := range []string{"plain", "reset", "reuse", "reset-then-reuse", "rollback"} {
		if flags[k] {
			ks = append(ks, k)
		}
	}
	lbl := strings.Join(ks, "+")
	sub := false
	for _, o := range c.Ops {
		if o.Chart != nil && len(o.Chart.Deps) > 0 {
			sub = true
			break
		}
	}
	if len(c.Shared) > 0 {
		// one values map object handed to several operations: by number of releases and by
		// whether an overlaying upgrade (the one that could write into it) is among them
		lbl = "shared-map"
		if c.nrel() > 1 {
			lbl += ",2-releases"
		}
		if flags["reuse"] || flags["reset-then-reuse"] {
			lbl += ":overlay"
		}
	}
	if sub {
		return "subcharts:" + lbl
	}
	return lbl
}

func (*c13) NonTrivial(ci, oi any) bool {
	c, obs := ci.(c13Case), oi.(c13Obs)
	if obs.Panic != "" || len(obs.Revs) == 0 {
		return false
	}
	for k := range obs.Revs {
		if len(obs.Revs[k]) < 2 {
			continue
		}
		for i, o := range c.Ops {
			if o.Rel == k && i < len(obs.Steps) && obs.Steps[i].OK && (o.Kind == "rollback" || (o.Kind == "upgrade" && !o.Reset && (o.Reuse || o.RTR))) {
				return true
			}
		}
	}
	return false
}

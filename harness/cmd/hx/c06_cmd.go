package main

// C06 — the command layer: helm install / upgrade / upgrade --install / rollback / uninstall run
// through the real root command (hook pkg/cmd/zz_verif_runcmd.go) with the recording
// configuration of c06_rich.go, with every way of writing --dry-run: the bare flag, the five
// documented values, case variants, surrounding spaces, "1", "yes", the empty value.
// Oracle (c06.go): a command line that REQUESTS a dry run - the flag is there and its value is not
// a way to say "no" - sends no mutating request and writes nothing to the release storage,
// whether the command accepts the value or refuses it.  Model: x_cmd (Engine/DryOps.v).

import (
	"fmt"
	"io"
	"log/slog"
	"os"
	"path/filepath"
	"strings"

	chartutil "helm.sh/helm/v4/pkg/chart/v2/util"
	helmcmd "helm.sh/helm/v4/pkg/cmd"

	"verif/harness/internal/eng"
	"verif/harness/internal/hx"
)

type c06Cmd struct {
	Sub   string   `json:"sub"`             // install upgrade upgrade-install rollback uninstall
	Dry   string   `json:"dry,omitempty"`   // the --dry-run argument exactly as typed ("" = absent)
	Extra []string `json:"extra,omitempty"` // further flags
}

// c06CmdDryValue: (flag present, has a value, the value)
func c06CmdDryValue(arg string) (bool, bool, string) {
	if arg == "" {
		return false, false, ""
	}
	if i := strings.Index(arg, "="); i >= 0 {
		return true, true, arg[i+1:]
	}
	return true, false, ""
}

// c06CmdDryRequest: the command line asks for a dry run.  Not a request: no flag; a value that
// says "no" - none / false / the empty value (the code comment of addInstallFlags: "none is equal
// to ”") for the string flag of install / upgrade; what strconv.ParseBool reads as false for the
// boolean flag of rollback / uninstall.  Written from the documentation, not from isDryRun.
func c06CmdDryRequest(cm *c06Cmd) bool {
	present, hasVal, v := c06CmdDryValue(cm.Dry)
	if !present {
		return false
	}
	if !hasVal {
		return true
	}
	switch cm.Sub {
	case "rollback", "uninstall":
		switch v {
		case "0", "f", "F", "false", "FALSE", "False":
			return false
		}
		return true
	}
	return !(v == "" || v == "none" || v == "false")
}

func c06RunCmd(r *eng.Runner, op *eng.Op, w *c06Wide, cm *c06Cmd) (so eng.StepObs, ro *c06RichObs) {
	env := c06NewEnv(r, w)
	var err error
	func() {
		defer func() {
			if x := recover(); x != nil {
				so.Panic = fmt.Sprint(x)
			}
		}()
		defer slog.SetDefault(slog.New(slog.NewTextHandler(io.Discard, nil))) // the root command installs its own logger
		dir, derr := os.MkdirTemp("", "c06-cmd-")
		if derr != nil {
			err = derr
			return
		}
		defer os.RemoveAll(dir)
		for _, e := range []string{"HELM_CACHE_HOME", "HELM_CONFIG_HOME", "HELM_DATA_HOME"} {
			old, had := os.LookupEnv(e)
			os.Setenv(e, filepath.Join(dir, "helmhome"))
			defer func(e, old string, had bool) {
				if had {
					os.Setenv(e, old)
				} else {
					os.Unsetenv(e)
				}
			}(e, old, had)
		}
		ch := c06Chart(op, w)
		if err = chartutil.SaveDir(ch, dir); err != nil {
			return
		}
		cdir := filepath.Join(dir, ch.Name())
		var args []string
		switch cm.Sub {
		case "install":
			args = []string{"install", eng.RelName, cdir, "--set", fmt.Sprintf("v=%d", op.ValsID)}
		case "upgrade":
			args = []string{"upgrade", eng.RelName, cdir, "--set", fmt.Sprintf("v=%d", op.ValsID)}
		case "upgrade-install":
			args = []string{"upgrade", "--install", eng.RelName, cdir, "--set", fmt.Sprintf("v=%d", op.ValsID)}
		case "rollback":
			args = []string{"rollback", eng.RelName}
		default:
			args = []string{"uninstall", eng.RelName}
		}
		if cm.Dry != "" {
			args = append(args, cm.Dry)
		}
		args = append(args, cm.Extra...)
		_, err = helmcmd.VerifRunCmd(args, env.cfg)
	}()
	so.Outcome = c06Classify(err)
	if err != nil {
		so.ErrText = err.Error()
	}
	env.finish(&so)
	ro = env.rich(err, so.Panic != "")
	ro.Rendered, ro.RHooks = c06RenderWide(op, w)
	return
}

// further command-line flags the printer knows (beyond c06TemplateFlag)
var c06CmdFlag = map[string]string{"--cleanup-on-fail": "CleanupOnFail", "--keep-history": "KeepHistory", "--ignore-not-found": "IgnoreNotFound",
	"--skip-schema-validation": "SkipSchemaValidation", "--dependency-update": "DependencyUpdate", "--devel": "Devel",
	"--reset-values": "ResetValues", "--reuse-values": "ReuseValues", "--reset-then-reuse-values": "ResetThenReuseValues", "--hide-secret": "HideSecret"}

func c06CmdFlagName(a string) (string, bool) {
	if n, ok := c06TemplateFlag[a]; ok {
		return n, true
	}
	if n, ok := c06CmdFlag[a]; ok {
		return n, true
	}
	switch {
	case strings.HasPrefix(a, "--description="):
		return "Description", true
	case strings.HasPrefix(a, "--labels="):
		return "Labels", true
	case strings.HasPrefix(a, "--timeout="):
		return "Timeout", true
	case strings.HasPrefix(a, "--history-max="):
		return "", true
	}
	return "", false
}

func c06CmdInDomain(cm *c06Cmd) bool {
	for _, a := range cm.Extra {
		if _, ok := c06CmdFlagName(a); !ok {
			return false
		}
	}
	return true
}

// the xop term of a command case
func c06CoqCmd(c c06Case, cfg string, ro *c06RichObs) string {
	cm := c.Cmd
	kind := map[string]string{"install": "CInstall", "upgrade": "CUpgrade", "upgrade-install": "CUpgradeInstall",
		"rollback": "CRollback", "uninstall": "CUninstall"}[cm.Sub]
	arg := "None"
	if present, hasVal, v := c06CmdDryValue(cm.Dry); present {
		arg = "(Some None)"
		if hasVal {
			arg = "(Some (Some " + hx.CoqStr(v) + "))"
		}
	}
	var on []string
	maxHistory := 0
	for _, a := range cm.Extra {
		if n, _ := c06CmdFlagName(a); n != "" {
			on = append(on, n)
		}
		if strings.HasPrefix(a, "--history-max=") {
			fmt.Sscanf(strings.TrimPrefix(a, "--history-max="), "%d", &maxHistory)
		}
	}
	if cm.Sub == "upgrade" || cm.Sub == "upgrade-install" || cm.Sub == "rollback" {
		if maxHistory == 0 && !strings.Contains(strings.Join(cm.Extra, " "), "--history-max=") {
			maxHistory = 10 // the command's default of --history-max
		}
	}
	return fmt.Sprintf("XCmd %s %s %s %s\n   %s", cfg, kind, arg, c06CoqXFlags(on, "", maxHistory, 0), c06CoqChart(c.Op, c.Wide, ro))
}

// ---- corpus: every way of writing --dry-run ----

var c06DryArgsString = []string{"", "--dry-run", "--dry-run=client", "--dry-run=server", "--dry-run=true", "--dry-run=none", "--dry-run=false",
	"--dry-run=True", "--dry-run=TRUE", "--dry-run=Server", "--dry-run=CLIENT", "--dry-run= true", "--dry-run=true ", "--dry-run=1", "--dry-run=yes", "--dry-run="}
var c06DryArgsBool = []string{"", "--dry-run", "--dry-run=true", "--dry-run=True", "--dry-run=TRUE", "--dry-run=1", "--dry-run=t",
	"--dry-run=false", "--dry-run=0", "--dry-run=yes", "--dry-run=client", "--dry-run= true", "--dry-run="}

func c06CmdCases(tier string) []any {
	var out []any
	mk := func(sub, dry string, populated bool, extra ...string) {
		kind := map[string]string{"install": "install", "upgrade": "upgrade", "upgrade-install": "upgrade", "rollback": "rollback", "uninstall": "uninstall"}[sub]
		op := c06Mk(kind, 7, eng.Flags{}, "a", "c")
		if kind == "install" || kind == "upgrade" {
			op.Hooks = c06AllEventHooks()
		} else {
			op.Manifest = nil
		}
		c := c06Case{Backend: "secret", Shape: "empty", Op: op, Wide: &c06Wide{CRDs: kind == "install" || sub == "upgrade-install", Getter: true},
			Cmd: &c06Cmd{Sub: sub, Dry: dry, Extra: extra}}
		if populated {
			c.Setup, c.Shape = c06CorpusSetup(), "deployed3"
		}
		out = append(out, c)
	}
	thorough := tier == "thorough"
	for i, d := range c06DryArgsString {
		mk("install", d, false, "--create-namespace")
		mk("upgrade", d, true)
		if thorough || i%2 == 1 {
			mk("upgrade-install", d, false)
			mk("upgrade-install", d, true)
		}
		if thorough {
			mk("install", d, false, "--description=why", "--atomic")
			mk("upgrade", d, true, "--atomic", "--cleanup-on-fail")
		}
	}
	for _, d := range c06DryArgsBool {
		mk("rollback", d, true)
		mk("uninstall", d, true)
	}
	// the options the code reads before the bail-out, with a dry-run request
	for _, d := range []string{"--dry-run", "--dry-run=server"} {
		mk("upgrade", d, true, "--description=trying out the new chart")
		mk("install", d, false, "--description=first try", "--labels=team=a")
		mk("upgrade-install", d, true, "--description=again", "--force", "--reset-values")
	}
	return out
}

package main

// C12 — hook metadata as ANNOTATION STRINGS.
//
// A "raw" hook (eng.Hook.Raw) carries its helm.sh/hook* annotations as strings chosen by the
// generator in Res.Fields; the chart document has exactly those.  This file holds
//   - the oracle's own reading of such strings (hookSem): written from the documentation of the
//     annotations (comma separated, surrounding white space and letter case do not matter; the
//     weight is a decimal integer), without strconv and without Helm's code or the Coq model;
//     where the documentation says nothing (a weight that is no decimal integer, an event list
//     with an unknown name) it makes NO claim and takes what Helm parsed;
//   - the matching of Helm's hook list with the declared documents;
//   - the printers of the Coq case (documents, never parsed values).

import (
	"fmt"
	"math/big"
	"sort"
	"strings"

	"verif/harness/internal/eng"
	"verif/harness/internal/hx"
)

const (
	fHook   = "a:helm.sh/hook"
	fWeight = "a:helm.sh/hook-weight"
	fDelete = "a:helm.sh/hook-delete-policy"
	fLog    = "a:helm.sh/hook-output-log-policy"
)

var c12KnownEvents = map[string]string{
	"pre-install": "pre-install", "post-install": "post-install", "pre-delete": "pre-delete", "post-delete": "post-delete",
	"pre-upgrade": "pre-upgrade", "post-upgrade": "post-upgrade", "pre-rollback": "pre-rollback", "post-rollback": "post-rollback",
	"test": "test", "test-success": "test",
}
var c12KnownPolicies = map[string]bool{"before-hook-creation": true, "hook-succeeded": true, "hook-failed": true}

// decWeight: an optionally signed run of decimal digits that fits an int.  ok=false: not a decimal integer.
func decWeight(s string) (int, bool) {
	i, neg := 0, false
	if len(s) > 0 && (s[0] == '+' || s[0] == '-') {
		neg, i = s[0] == '-', 1
	}
	if i == len(s) {
		return 0, false
	}
	v, ten := new(big.Int), big.NewInt(10)
	for ; i < len(s); i++ {
		c := s[i]
		if c < '0' || c > '9' {
			return 0, false
		}
		v.Mul(v, ten)
		v.Add(v, big.NewInt(int64(c-'0')))
	}
	if neg {
		v.Neg(v)
	}
	if !v.IsInt64() {
		return 0, false
	}
	return int(v.Int64()), true
}

// annTokens: the comma separated values, white space around each removed, ASCII letters lower-cased
func annTokens(s string) []string {
	var out []string
	cur := []byte{}
	flush := func() {
		a, b := 0, len(cur)
		sp := func(c byte) bool { return c == ' ' || c == '\t' || c == '\n' || c == '\r' || c == '\v' || c == '\f' }
		for a < b && sp(cur[a]) {
			a++
		}
		for b > a && sp(cur[b-1]) {
			b--
		}
		t := make([]byte, 0, b-a)
		for _, c := range cur[a:b] {
			if c >= 'A' && c <= 'Z' {
				c += 'a' - 'A'
			}
			t = append(t, c)
		}
		out = append(out, string(t))
		cur = cur[:0]
	}
	for i := 0; i < len(s); i++ {
		if s[i] == ',' {
			flush()
		} else {
			cur = append(cur, s[i])
		}
	}
	flush()
	return out
}

// hookSem: what a hook document declares, as far as the documentation defines it
type hookSem struct {
	Events      []string
	EventsKnown bool // every name of the helm.sh/hook annotation is a hook event
	Weight      int
	WeightKnown bool     // no weight annotation (0) or a decimal integer
	Policies    []string // nil: no delete-policy annotation (the default applies); else every token
	Log         []string
}

func c12Sem(h eng.Hook) hookSem {
	if !h.Raw {
		return hookSem{Events: h.Events, EventsKnown: true, Weight: h.Weight, WeightKnown: true, Policies: h.Policies}
	}
	var s hookSem
	f := h.Res.Fields
	s.EventsKnown = true
	for _, t := range annTokens(f[fHook]) {
		e, ok := c12KnownEvents[t]
		if !ok {
			s.EventsKnown = false
			break
		}
		s.Events = append(s.Events, e)
	}
	if !s.EventsKnown {
		s.Events = nil
	}
	if w, ok := f[fWeight]; !ok {
		s.WeightKnown = true
	} else {
		s.Weight, s.WeightKnown = decWeight(w)
	}
	if p, ok := f[fDelete]; ok {
		s.Policies = annTokens(p)
	}
	if p, ok := f[fLog]; ok {
		s.Log = annTokens(p)
	}
	return s
}

// policyExpressible: the delete-policy annotation is absent or names at least one of the three policies
// (otherwise the engine model's hook record cannot say "no default, no policy": Engine/HookMeta.v)
func policyExpressible(pol []string) bool {
	if len(pol) == 0 {
		return true
	}
	for _, p := range pol {
		if c12KnownPolicies[p] {
			return true
		}
	}
	return false
}

// rawHk builds a raw ConfigMap hook: ev = the helm.sh/hook annotation; kv = pairs of ("w"|"d"|"l", value) for
// the weight / delete-policy / output-log-policy annotations (absent when not given).
func rawHk(name, ev string, kv ...string) eng.Hook {
	return rawHookOf(cm(name, "d:h", name), ev, kv...)
}

func rawHookOf(res eng.Res, ev string, kv ...string) eng.Hook {
	f := map[string]string{}
	for k, v := range res.Fields {
		f[k] = v
	}
	f[fHook] = ev
	for i := 0; i+1 < len(kv); i += 2 {
		switch kv[i] {
		case "w":
			f[fWeight] = kv[i+1]
		case "d":
			f[fDelete] = kv[i+1]
		case "l":
			f[fLog] = kv[i+1]
		}
	}
	res.Fields = f
	h := eng.Hook{Res: res, Raw: true}
	s := c12Sem(h) // for the reader of a replay file and for the generator's choice of faults; the oracle recomputes it
	h.Events, h.Weight, h.Policies = s.Events, s.Weight, s.Policies
	return h
}

// declaredDoc: the hook document as eng.BuildChart renders it
func declaredDoc(d eng.Hook) eng.Res {
	if d.Raw {
		return d.Res
	}
	r := d.Res
	f := map[string]string{}
	for k, v := range d.Res.Fields {
		f[k] = v
	}
	f[fHook] = strings.Join(d.Events, ",")
	f[fWeight] = fmt.Sprint(d.Weight)
	if len(d.Policies) > 0 {
		f[fDelete] = strings.Join(d.Policies, ",")
	}
	r.Fields = f
	return r
}

func sameFields(a, b map[string]string) bool {
	if len(a) != len(b) {
		return false
	}
	for k, v := range a {
		if w, ok := b[k]; !ok || w != v {
			return false
		}
	}
	return true
}

// matchDeclared: for every hook of Helm's list the index of the declared document it was made of (-1: none).
// A document is identified by its key and its rendered fields (two identical documents are interchangeable);
// when no declared document has the same fields, the first unused one with the key is taken.
func matchDeclared(src, declared []eng.Hook) []int {
	used := make([]bool, len(declared))
	out := make([]int, len(src))
	for i, h := range src {
		out[i] = -1
		for pass := 0; pass < 2 && out[i] < 0; pass++ {
			for k, d := range declared {
				if used[k] || d.Res.Key() != h.Res.Key() {
					continue
				}
				if pass == 0 && !sameFields(declaredDoc(d).Fields, h.Res.Fields) {
					continue
				}
				out[i], used[k] = k, true
				break
			}
		}
	}
	return out
}

// c12Docs: the hook documents of a rendered chart for the model: in Helm's order, then the declared documents Helm
// did not turn into a hook
func c12Docs(src, declared []eng.Hook) []eng.Res {
	var docs []eng.Res
	m := matchDeclared(src, declared)
	used := map[int]bool{}
	for i, h := range src {
		docs = append(docs, h.Res)
		if m[i] >= 0 {
			used[m[i]] = true
		}
	}
	for k, d := range declared {
		if !used[k] {
			docs = append(docs, declaredDoc(d))
		}
	}
	return docs
}

func coqParsed(h eng.Hook) string {
	return fmt.Sprintf("(mkParsed %s %s %s %s %s %s)", hx.CoqStr(h.Res.ModelKind()), hx.CoqStr(h.Res.Name), hx.CoqStrList(h.Events),
		hx.CoqZ(int64(h.Weight)), hx.CoqStrList(h.Policies), hx.CoqStrList(h.LogPolicies))
}

// c12CoqCase: mkC12 (engine case with hooks_of_docs) [parse observations of every install / upgrade]
func c12CoqCase(h eng.History, o eng.Obs) string {
	var parse, lets []string
	terms := map[int]string{}
	for i, s := range h.Steps {
		if i >= len(o.Steps) || s.Op == nil || (s.Op.Kind != "install" && s.Op.Kind != "upgrade") {
			continue
		}
		docs := c12Docs(o.Steps[i].RHooks, s.Op.Hooks)
		dn := fmt.Sprintf("d%d", i) // the documents are printed once per step and shared by the three comparisons
		lets = append(lets, fmt.Sprintf("let %s := %s in", dn, eng.CoqResList(docs)))
		terms[i] = "(hooks_of_docs " + dn + ")"
		ps := make([]string, len(o.Steps[i].RHooks))
		for k, x := range o.Steps[i].RHooks {
			ps[k] = coqParsed(x)
		}
		parse = append(parse, fmt.Sprintf("(mkParseObs %s %s)", dn, hx.CoqList(ps)))
	}
	var logs []string
	for i, s := range h.Steps {
		if i < len(o.Steps) && c12LogEligible(s.Op, o.Steps[i]) {
			ev := c12Events[s.Op.Kind]
			logs = append(logs, fmt.Sprintf("(mkLogObs d%d %s %s %s)", i, eventCtor12[ev[0]], eventCtor12[ev[1]], hx.CoqList(c12Levs(o.Steps[i]))))
		}
	}
	return fmt.Sprintf("(%s\n mkC12 (%s)\n  %s\n  %s)", strings.Join(lets, "\n "), eng.CoqCaseExt(h, o, func(i int) string { return terms[i] }, c12StepTerm, "mkCase12"), hx.CoqList(parse), hx.CoqList(logs))
}

var eventCtor12 = map[string]string{"pre-install": "PreInstall", "post-install": "PostInstall", "pre-upgrade": "PreUpgrade", "post-upgrade": "PostUpgrade"}

// c12LogEligible: the watch / log-fetch sequence of the step is compared with the model's (Engine/HookMeta.v op_levs):
// a non-atomic install / upgrade with hooks enabled and no rejected request (the model of that sequence knows the two
// events of the operation's own chart; a rejected DELETE would cut the final loop of execHook short)
func c12LogEligible(op *eng.Op, so eng.StepObs) bool {
	return op != nil && (op.Kind == "install" || op.Kind == "upgrade") && !op.Flags.Atomic && !op.Flags.NoHooks && !op.Flags.IsDry() &&
		op.KFault == nil && op.WFail == nil && op.Crash == nil && so.Panic == ""
}

// c12Levs: the hook watches (with outcome) and the InterfaceLogs calls of a step, in the order they happened
func c12Levs(so eng.StepObs) []string {
	var out []string
	k := 0
	emit := func(upto int) {
		for k < len(so.LogCalls) && so.LogCalls[k].At <= upto {
			c := so.LogCalls[k]
			switch {
			case c.Output:
				out = append(out, "LOut")
			case c.Label != "":
				out = append(out, "LFetch (LogByLabel "+hx.CoqStr(c.Label)+")")
			default:
				out = append(out, "LFetch (LogByField "+hx.CoqStr(c.Field)+")")
			}
			k++
		}
	}
	for i, e := range so.Trace {
		emit(i)
		if e.Call == "hookwatch" {
			out = append(out, fmt.Sprintf("LWatch %s %s", hx.CoqStr(e.Hook), hx.CoqBool(!e.Failed)))
		}
	}
	emit(len(so.Trace))
	return out
}

// weightFamily: a label for Class()
func weightFamily(h eng.Hook) string {
	if !h.Raw {
		return "int"
	}
	w, ok := h.Res.Fields[fWeight]
	switch {
	case !ok:
		return "absent"
	case w == "":
		return "empty"
	}
	if _, dec := decWeight(w); dec {
		body := strings.TrimLeft(w, "+-")
		switch {
		case len(body) > 1 && body[0] == '0':
			return "padded"
		case w[0] == '+':
			return "plus"
		}
		return "decimal"
	}
	if strings.TrimSpace(w) != w {
		return "spaced"
	}
	l := strings.ToLower(strings.TrimLeft(w, "+-"))
	if strings.HasPrefix(l, "0x") || strings.HasPrefix(l, "0o") || strings.HasPrefix(l, "0b") || strings.Contains(l, "_") {
		return "prefixed"
	}
	if len(l) > 0 && l[0] >= '0' && l[0] <= '9' {
		return "out-of-range-or-not-integer"
	}
	return "non-numeric"
}

// c12Families: the weight-string families of a history, most exotic first (for Class())
func c12Families(h eng.History) string {
	rank := []string{"prefixed", "padded", "spaced", "out-of-range-or-not-integer", "non-numeric", "empty", "absent", "plus", "decimal", "int"}
	seen := map[string]bool{}
	for _, s := range h.Steps {
		if s.Op != nil {
			for _, x := range s.Op.Hooks {
				seen[weightFamily(x)] = true
			}
		}
	}
	for _, r := range rank {
		if seen[r] {
			return r
		}
	}
	return "nohooks"
}

var _ = sort.Strings

// c12StepTerm: the steps of a C12 case are Engine/HookTest.v h12 terms: the engine's step, or helm test
func c12StepTerm(_ int, s eng.Step, def string) string {
	if s.Op != nil && s.Op.Kind == "test" {
		return fmt.Sprintf("HTest %s %s %s", hx.CoqStrList(s.Op.TestInclude), hx.CoqStrList(s.Op.TestExclude), eng.CoqFaults(s.Op))
	}
	return "HBase (" + def + ")"
}

// declaredHooks: the hooks a stored revision must have - Helm's stored list (its order) read through the chart's
// declaration, followed by the hook documents the chart declares (with known event names) that the stored revision
// no longer has.  What an operation is expected to run is computed from this, not from what storage holds.
func declaredHooks(stored, declared []eng.Hook) (all []eng.Hook, lost []eng.Hook) {
	all = withDeclared(stored, declared)
	m := matchDeclared(stored, declared)
	got := map[int]bool{}
	for _, d := range m {
		if d >= 0 {
			got[d] = true
		}
	}
	for k, d := range declared {
		if s := c12Sem(d); !got[k] && s.EventsKnown {
			x := eng.Hook{Res: declaredDoc(d), Events: s.Events, Weight: s.Weight, Policies: s.Policies}
			all, lost = append(all, x), append(lost, x)
		}
	}
	return
}

package main

// Value-tree utilities shared by the C04 and C13 harnesses: generator, deep copy,
// deep equality, JSON normalisation, path walks.

import (
	"encoding/json"
	"fmt"
	"math"
	"math/rand"
	"reflect"
	"sort"
	"strings"
)

type vtree = map[string]interface{}

var vtKeys = []string{"a", "b", "c", "d", "e"}
var vtOddKeys = []string{"x.y", "k-1", "Key", "a b", "né", "0", "true", "global"}

func vtKey(r *rand.Rand) string {
	if r.Intn(12) == 0 {
		return vtOddKeys[r.Intn(len(vtOddKeys))]
	}
	return vtKeys[r.Intn(len(vtKeys))]
}

var vtStrings = []string{"", "x", "text", "true", "null", "0", "007", "1.5", "héllo", "a,b", "a=b", "{x}", "line\nbreak", "日本"}

func vtScalar(r *rand.Rand) interface{} {
	switch r.Intn(9) {
	case 0, 1:
		return nil
	case 2:
		return r.Intn(2) == 0
	case 3:
		return int64(r.Intn(7) - 2)
	case 4:
		return int64(r.Int63n(1<<40)) - (1 << 39)
	case 5:
		return float64(r.Intn(40)-20) + 0.5
	default:
		return vtStrings[r.Intn(len(vtStrings))]
	}
}

// vtGenVal: a value of depth <= d; tables and lists get rarer with depth.
func vtGenVal(r *rand.Rand, d int) interface{} {
	if d <= 0 {
		return vtScalar(r)
	}
	switch k := r.Intn(10); {
	case k < 4:
		return vtGenMap(r, d-1, 1+r.Intn(3))
	case k < 5:
		n := r.Intn(3)
		l := make([]interface{}, n)
		for i := range l {
			l[i] = vtGenVal(r, d-1)
		}
		return l
	case k < 6 && r.Intn(3) == 0:
		return vtree{}
	default:
		return vtScalar(r)
	}
}

func vtGenMap(r *rand.Rand, d, n int) vtree {
	m := vtree{}
	for i := 0; i < n; i++ {
		m[vtKey(r)] = vtGenVal(r, d)
	}
	return m
}

// vtMutate returns a variation of t: same shape for most keys, some leaves changed, some
// tables replaced by scalars and the other way round, some keys set to null, some dropped.
// Used to make sources that overlap (precedence and type clashes are the point).
func vtMutate(r *rand.Rand, t vtree, d int) vtree {
	out := vtree{}
	for k, v := range t {
		switch x := r.Intn(10); {
		case x < 3:
			// drop
		case x < 4:
			out[k] = nil
		case x < 6:
			out[k] = vtGenVal(r, d)
		default:
			if m, ok := v.(vtree); ok && d > 0 {
				out[k] = vtMutate(r, m, d-1)
			} else if ok {
				out[k] = vtScalar(r)
			} else if r.Intn(4) == 0 && d > 0 {
				out[k] = vtGenMap(r, d-1, 1+r.Intn(2))
			} else {
				out[k] = vtScalar(r)
			}
		}
	}
	for i := r.Intn(2); i > 0; i-- {
		out[vtKey(r)] = vtGenVal(r, d)
	}
	return out
}

func vtCopy(v interface{}) interface{} {
	switch x := v.(type) {
	case vtree:
		if x == nil {
			return vtree(nil)
		}
		m := make(vtree, len(x))
		for k, e := range x {
			m[k] = vtCopy(e)
		}
		return m
	case []interface{}:
		if x == nil {
			return []interface{}(nil)
		}
		l := make([]interface{}, len(x))
		for i, e := range x {
			l[i] = vtCopy(e)
		}
		return l
	}
	return v
}

func vtCopyMap(m vtree) vtree {
	if m == nil {
		return nil
	}
	return vtCopy(m).(vtree)
}

// vtNum normalises the numeric types that can come out of YAML/JSON decoding or the
// generator to int64 (integral, |x| < 2^53) or float64.
func vtNum(v interface{}) (interface{}, bool) {
	switch x := v.(type) {
	case int:
		return int64(x), true
	case int64:
		return x, true
	case int32:
		return int64(x), true
	case uint64:
		return int64(x), true
	case float64:
		if x == math.Trunc(x) && math.Abs(x) < 1e15 {
			return int64(x), true
		}
		return x, true
	case json.Number:
		if i, err := x.Int64(); err == nil {
			return i, true
		}
		f, _ := x.Float64()
		return vtNumF(f), true
	}
	return nil, false
}

func vtNumF(f float64) interface{} {
	if f == math.Trunc(f) && math.Abs(f) < 1e15 {
		return int64(f)
	}
	return f
}

// vtNorm: canonical form for comparison inside the harness (numbers normalised, nil map
// and empty map alike, nil list and empty list alike).
func vtNorm(v interface{}) interface{} {
	if n, ok := vtNum(v); ok {
		return n
	}
	switch x := v.(type) {
	case vtree:
		m := make(vtree, len(x))
		for k, e := range x {
			m[k] = vtNorm(e)
		}
		return m
	case map[interface{}]interface{}:
		m := vtree{}
		for k, e := range x {
			m[fmt.Sprint(k)] = vtNorm(e)
		}
		return m
	case []interface{}:
		l := make([]interface{}, len(x))
		for i, e := range x {
			l[i] = vtNorm(e)
		}
		return l
	}
	return v
}

func vtEqual(a, b interface{}) bool { return reflect.DeepEqual(vtNorm(a), vtNorm(b)) }

// vtDecode parses JSON into a tree with normalised numbers.
func vtDecode(raw []byte, into interface{}) error {
	d := json.NewDecoder(strings.NewReader(string(raw)))
	d.UseNumber()
	return d.Decode(into)
}

func vtIsTable(v interface{}) bool { _, ok := v.(vtree); return ok }

// vtLookup walks a key path through tables.
func vtLookup(p []string, v interface{}) (interface{}, bool) {
	for _, k := range p {
		m, ok := v.(vtree)
		if !ok {
			return nil, false
		}
		v, ok = m[k]
		if !ok {
			return nil, false
		}
	}
	return v, true
}

// vtPaths lists every key path of t (tables and leaves), parents before children.
func vtPaths(t vtree) [][]string {
	var out [][]string
	var walk func(p []string, m vtree)
	walk = func(p []string, m vtree) {
		keys := make([]string, 0, len(m))
		for k := range m {
			keys = append(keys, k)
		}
		sort.Strings(keys)
		for _, k := range keys {
			q := append(append([]string{}, p...), k)
			out = append(out, q)
			if sub, ok := m[k].(vtree); ok {
				walk(q, sub)
			}
		}
	}
	walk(nil, t)
	return out
}

func vtDepth(v interface{}) int {
	d := 0
	switch x := v.(type) {
	case vtree:
		for _, e := range x {
			if k := 1 + vtDepth(e); k > d {
				d = k
			}
		}
	case []interface{}:
		for _, e := range x {
			if k := 1 + vtDepth(e); k > d {
				d = k
			}
		}
	}
	return d
}

func vtHasNull(v interface{}) bool {
	switch x := v.(type) {
	case nil:
		return true
	case vtree:
		for _, e := range x {
			if vtHasNull(e) {
				return true
			}
		}
	case []interface{}:
		for _, e := range x {
			if vtHasNull(e) {
				return true
			}
		}
	}
	return false
}

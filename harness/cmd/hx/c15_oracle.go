package main

// C15: tables of third-party answers (YAML/JSON codecs, semver, tar+gzip, .helmignore
// matching) for every query the Coq model can make on a case, and the Gallina printers.

import (
	"archive/tar"
	"bytes"
	"compress/gzip"
	"encoding/json"
	"fmt"
	"io"
	"path"
	"path/filepath"
	"sort"
	"strings"

	"github.com/Masterminds/semver/v3"
	"sigs.k8s.io/yaml"

	chart "helm.sh/helm/v4/pkg/chart/v2"
	"helm.sh/helm/v4/pkg/chart/v2/loader"

	"verif/harness/internal/chartx"
	"verif/harness/internal/hx"
)

// c15Interner prints every distinct byte string of a case once, as a let-bound variable:
// Coq elaborates a literal in time proportional to its length, and the same content
// occurs in the oracle tables, the input, the saved entries and both reloaded charts.
type c15Interner struct {
	ids  map[string]int
	defs []string
}

var c15In = &c15Interner{ids: map[string]int{}}

func c15S(s string) string {
	if len(s) < 16 {
		return chartx.CoqStr(s)
	}
	if id, ok := c15In.ids[s]; ok {
		return fmt.Sprintf("b%d", id)
	}
	id := len(c15In.defs)
	c15In.ids[s] = id
	c15In.defs = append(c15In.defs, chartx.CoqStr(s))
	return fmt.Sprintf("b%d", id)
}

func (in *c15Interner) wrap(term string) string {
	var b strings.Builder
	b.WriteString("(")
	for i, d := range in.defs {
		fmt.Fprintf(&b, "let b%d := %s in\n", i, d)
	}
	b.WriteString(term)
	b.WriteString(")")
	return b.String()
}

func c15YamlUnmarshal(data []byte, into any) error { return yaml.Unmarshal(data, into) }

func c15YamlLen(v any) int64 {
	b, err := yaml.Marshal(v)
	if err != nil {
		return 0
	}
	return int64(len(b))
}

type c15Oracle struct {
	chartDatas map[string]bool // contents of Chart.yaml / requirements.yaml files
	metas      map[string]*chart.Metadata
	locks      map[string]*chart.Lock
	lockDatas  map[string]bool
	valDatas   map[string]bool
	jsonDatas  map[string]bool
	tgzDatas   map[string]bool
	semvers    map[string]bool
	ign        []string // printed (pattern, name) pairs filepath.Match accepts
	matchErr   []string // printed patterns filepath.Match rejects
	ignSeen    map[string]bool

	chains       []c15Chain // per chart level: the Chart.yaml / requirements.yaml contents in file order
	ignoredFiles []string
	validIgnored []string // rules file with a rejected line: what its valid rules exclude
	term         string
	in           *c15Interner
}

type c15Chain struct{ chartYamls, reqYamls []string }

// addLevel registers the files one call of LoadFiles will see (names as LoadFiles gets them,
// data BOM-trimmed) and, recursively, the levels of its subcharts, so that the metadata
// merges can be tabulated in exactly the order LoadFiles performs them.
func (o *c15Oracle) addLevel(files []c15File, depth int) {
	if depth > 6 {
		return
	}
	var ch c15Chain
	subs := map[string][]c15File{}
	var order []string
	for _, f := range files {
		o.addFile(f.Name, f.Data)
		switch {
		case f.Name == "Chart.yaml":
			ch.chartYamls = append(ch.chartYamls, string(f.Data))
		case f.Name == "requirements.yaml":
			ch.reqYamls = append(ch.reqYamls, string(f.Data))
		case strings.HasPrefix(f.Name, "charts/"):
			fname := strings.TrimPrefix(f.Name, "charts/")
			cname := strings.SplitN(fname, "/", 2)[0]
			if _, ok := subs[cname]; !ok {
				order = append(order, cname)
			}
			subs[cname] = append(subs[cname], c15File{Name: fname, Data: f.Data})
		}
	}
	o.chains = append(o.chains, ch)
	for _, cname := range order {
		fs := subs[cname]
		if path.Ext(cname) == ".tgz" {
			if afs, err := loader.LoadArchiveFiles(bytes.NewReader(fs[0].Data)); err == nil {
				var lvl []c15File
				for _, af := range afs {
					lvl = append(lvl, c15File{Name: af.Name, Data: af.Data})
				}
				o.addLevel(lvl, depth+1)
			}
			continue
		}
		var lvl []c15File
		for _, f := range fs {
			parts := strings.SplitN(f.Name, "/", 2)
			if len(parts) == 2 {
				lvl = append(lvl, c15File{Name: parts[1], Data: f.Data})
			}
		}
		o.addLevel(lvl, depth+1)
	}
}

func c15Trimmed(files []c15File) []c15File {
	out := make([]c15File, len(files))
	for i, f := range files {
		out[i] = c15File{Name: f.Name, Data: bytes.TrimPrefix(f.Data, c15Bom)}
	}
	return out
}

func newC15Oracle() *c15Oracle {
	c15In = &c15Interner{ids: map[string]int{}}
	return &c15Oracle{in: c15In, chartDatas: map[string]bool{}, metas: map[string]*chart.Metadata{}, locks: map[string]*chart.Lock{},
		lockDatas: map[string]bool{}, valDatas: map[string]bool{}, jsonDatas: map[string]bool{}, tgzDatas: map[string]bool{},
		semvers: map[string]bool{}, ignSeen: map[string]bool{}}
}

func (o *c15Oracle) addMeta(m *chart.Metadata) {
	if m == nil {
		return
	}
	o.metas[c15CoqMeta(m)] = c15CopyMeta(m)
}

func (o *c15Oracle) semverQ(v string) { o.semvers[v] = true }

func (o *c15Oracle) addLock(l *chart.Lock) {
	if l != nil {
		o.locks[c15LockID(l)] = c15CopyLock(l)
	}
}

func (o *c15Oracle) addSpec(s *c15Chart) {
	o.addMeta(s.Meta)
	o.addLock(s.Lock)
	if s.HasValues {
		o.addFile("values.yaml", s.Values)
	}
	if s.HasSchema {
		o.jsonDatas[string(s.Schema)] = true
	}
	for _, f := range s.Templates {
		o.addFile(f.Name, f.Data)
	}
	for _, f := range s.Files {
		o.addFile(f.Name, f.Data)
	}
	for _, d := range s.Deps {
		o.addSpec(d)
	}
}

func (o *c15Oracle) addChart(c *chart.Chart) {
	if c == nil {
		return
	}
	o.addMeta(c.Metadata)
	o.addLock(c.Lock)
	if c.Schema != nil {
		o.jsonDatas[string(c.Schema)] = true
	}
	for _, d := range c.Dependencies() {
		o.addChart(d)
	}
}

// addFile registers a file by the last element of its name; both the content as given and
// with a leading BOM removed (the loaders trim it before LoadFiles sees the data).
func (o *c15Oracle) addFile(name string, data []byte) {
	base := name
	if i := strings.LastIndexAny(name, "/\\"); i >= 0 {
		base = name[i+1:]
	}
	for _, d := range [][]byte{data, bytes.TrimPrefix(data, c15Bom)} {
		s := string(d)
		switch {
		case base == "Chart.yaml" || base == "requirements.yaml":
			o.chartDatas[s] = true
		case base == "Chart.lock" || base == "requirements.lock":
			o.lockDatas[s] = true
		case base == "values.yaml":
			o.valDatas[s] = true
		case base == "values.schema.json":
			o.jsonDatas[s] = true
		case path.Ext(base) == ".tgz":
			if !o.tgzDatas[s] {
				o.tgzDatas[s] = true
				ents, _, _ := c15ScanFull(d)
				for _, e := range ents {
					o.addFile(e.Name, e.Data)
				}
			}
		}
	}
}

// ---- .helmignore, evaluated independently of pkg/ignore (that package is part of what is
// checked): the documented rule syntax, with filepath.Match as the only borrowed piece.

type c15Rule struct {
	pat      string
	negate   bool
	mustDir  bool
	rooted   bool
	hasSlash bool
}

// c15ParseIgnore returns the rules of a .helmignore text (nil text = no file) followed by
// the built-in rule for dot files in templates/; ok=false when a line is not a valid rule.
func c15ParseIgnore(text []byte, present bool) (rules []c15Rule, badPatterns []string, ok bool) {
	return c15ParseIgnoreMode(text, present, false)
}

// c15ParseIgnoreMode with lenient=true skips the lines parseRule rejects and returns the VALID rules
// (ok=false still reports that there was such a line)
func c15ParseIgnoreMode(text []byte, present bool, lenient bool) (rules []c15Rule, badPatterns []string, ok bool) {
	ok = true
	var lines []string
	if present {
		lines = strings.Split(string(bytes.TrimPrefix(text, c15Bom)), "\n")
		if n := len(lines); n > 0 && lines[n-1] == "" {
			lines = lines[:n-1]
		}
	}
	lines = append(lines, "templates/.?*")
	for _, l := range lines {
		r := strings.TrimSpace(l)
		if r == "" || r[0] == '#' {
			continue
		}
		if strings.Contains(r, "**") {
			if lenient {
				ok = false
				continue
			}
			return nil, badPatterns, false
		}
		if _, err := filepath.Match(r, "abc"); err != nil {
			badPatterns = append(badPatterns, r)
			if lenient {
				ok = false
				continue
			}
			return nil, badPatterns, false
		}
		var ru c15Rule
		if r[0] == '!' {
			ru.negate, r = true, r[1:]
		}
		if strings.HasSuffix(r, "/") {
			ru.mustDir, r = true, r[:len(r)-1]
		}
		if strings.HasPrefix(r, "/") {
			ru.rooted, r = true, r[1:]
		} else if strings.Contains(r, "/") {
			ru.hasSlash = true
		}
		ru.pat = r
		rules = append(rules, ru)
	}
	return rules, badPatterns, true
}

func (ru c15Rule) matches(n string) (string, string, bool) {
	name := n
	if !ru.rooted && !ru.hasSlash {
		name = path.Base(n)
	}
	m, _ := filepath.Match(ru.pat, name)
	return ru.pat, name, m
}

// c15RuleSaysIgnore: rules in order; a plain rule that matches excludes the path; a negated
// rule excludes every path it does NOT match (and every non-directory when it is a
// directory rule); a directory rule is skipped for files.
func c15RuleSaysIgnore(rules []c15Rule, n string, isDir bool, seen func(p, name string)) bool {
	for _, ru := range rules {
		p, name, m := ru.matches(n)
		if m {
			seen(p, name)
		}
		if ru.negate {
			if (ru.mustDir && !isDir) || !m {
				return true
			}
			continue
		}
		if ru.mustDir && !isDir {
			continue
		}
		if m {
			return true
		}
	}
	return false
}

// addIgnore evaluates the rules of the tree's .helmignore for every file and ancestor
// directory (independently of pkg/ignore), records which files the walk must skip and the
// filepath.Match facts the model needs; returns true when the rules file is invalid.
func (o *c15Oracle) addIgnore(root string, tree []c15File) bool {
	var text []byte
	present := false
	for _, f := range tree {
		if f.Name == ".helmignore" {
			text, present = f.Data, true
		}
	}
	rules, bad, ok := c15ParseIgnore(text, present)
	for _, b := range bad {
		o.matchErr = append(o.matchErr, chartx.CoqStr(b))
	}
	if !ok {
		// the rules file has a line parseRule rejects: loading must fail.  Should it succeed all the
		// same, the VALID plain rules of the file still say what may not be loaded or packaged
		// (files with a negated rule among the valid ones are left alone: a negation excludes what
		// it does not match, so dropping a neighbour line could change its meaning)
		valid, _, _ := c15ParseIgnoreMode(text, present, true)
		for _, ru := range valid {
			if ru.negate {
				return true
			}
		}
		nop := func(p, name string) {}
		for _, f := range tree {
			parts := strings.Split(f.Name, "/")
			ig := c15RuleSaysIgnore(valid, f.Name, false, nop)
			for i := 1; i < len(parts); i++ {
				if c15RuleSaysIgnore(valid, strings.Join(parts[:i], "/"), true, nop) {
					ig = true
				}
			}
			if ig {
				o.validIgnored = append(o.validIgnored, f.Name)
			}
		}
		return true
	}
	seen := func(p, name string) {
		k := fmt.Sprintf("(%s, %s)", chartx.CoqStr(p), chartx.CoqStr(name))
		if !o.ignSeen[k] {
			o.ignSeen[k] = true
			o.ign = append(o.ign, k)
		}
	}
	// every match fact the model may ask for, not only those on the evaluation path
	for _, f := range tree {
		parts := strings.Split(f.Name, "/")
		for i := 1; i <= len(parts); i++ {
			n := strings.Join(parts[:i], "/")
			for _, ru := range rules {
				if p, name, m := ru.matches(n); m {
					seen(p, name)
				}
			}
		}
	}
	for _, f := range tree {
		parts := strings.Split(f.Name, "/")
		ig := false
		for i := 1; i < len(parts); i++ {
			if c15RuleSaysIgnore(rules, strings.Join(parts[:i], "/"), true, seen) {
				ig = true
			}
		}
		if c15RuleSaysIgnore(rules, f.Name, false, seen) {
			ig = true
		}
		if ig {
			o.ignoredFiles = append(o.ignoredFiles, f.Name)
		}
	}
	return false
}

func c15Merge(m *chart.Metadata, data []byte) *chart.Metadata {
	c := c15CopyMeta(m)
	if err := yaml.Unmarshal(data, c); err != nil {
		return nil
	}
	return c
}

func c15RestValid(m *chart.Metadata) bool {
	c := c15CopyMeta(m)
	c.Validate() // sanitise first, as the real pass does
	c.Name, c.Version, c.APIVersion, c.Type = "x", "1.0.0", "v2", ""
	return c.Validate() == nil
}

func sortedKeys[V any](m map[string]V) []string {
	ks := make([]string, 0, len(m))
	for k := range m {
		ks = append(ks, k)
	}
	sort.Strings(ks)
	return ks
}

// close computes the tables and prints the oracle term.  Metadata values are printed once
// and referred to by position.
func (o *c15Oracle) close() {
	empty := new(chart.Metadata)
	o.addMeta(empty)
	datas := sortedKeys(o.chartDatas)
	type mergeRec struct {
		from, data string
		to         string // "" = error
	}
	var mergeRecs []mergeRec
	// merges the model can ask for (yaml.Unmarshal onto the Metadata built so far)
	done := map[string]bool{}
	addRec := func(m *chart.Metadata, d string) *chart.Metadata {
		mk := c15CoqMeta(m)
		o.addMeta(m)
		key := mk + "\x00" + d
		r := c15Merge(m, []byte(d))
		if !done[key] {
			done[key] = true
			if r == nil {
				mergeRecs = append(mergeRecs, mergeRec{mk, d, ""})
			} else {
				mergeRecs = append(mergeRecs, mergeRec{mk, d, c15CoqMeta(r)})
			}
		}
		if r != nil {
			o.addMeta(r)
			o.addMeta(c15DefaultAPI(r))
		}
		return r
	}
	// every content onto the empty value (a safety net for single-file levels) ...
	for _, d := range datas {
		addRec(empty, d)
	}
	// ... and the exact merge chain of every chart level the loaders will see
	for _, chain := range o.chains {
		m := empty
		for _, d := range chain.chartYamls {
			r := addRec(m, d)
			if r == nil {
				m = nil
				break
			}
			m = c15DefaultAPI(r)
		}
		if m == nil {
			continue
		}
		for _, d := range chain.reqYamls {
			r := addRec(m, d)
			if r == nil {
				break
			}
			m = r
		}
	}
	// sanitised and dependency-stripped variants
	sanOf := map[string]string{}
	for _, mk := range sortedKeys(o.metas) {
		s := c15Sanitized(o.metas[mk])
		sanOf[mk] = c15CoqMeta(s)
		if _, ok := o.metas[c15CoqMeta(s)]; !ok {
			o.metas[c15CoqMeta(s)] = s
			sanOf[c15CoqMeta(s)] = c15CoqMeta(c15Sanitized(s))
		}
	}
	for _, mk := range sortedKeys(o.metas) {
		st := c15CopyMeta(o.metas[mk])
		st.Dependencies = nil
		if _, ok := o.metas[c15CoqMeta(st)]; !ok {
			o.metas[c15CoqMeta(st)] = st
		}
	}
	keys := sortedKeys(o.metas)
	idx := map[string]int{}
	for i, k := range keys {
		idx[k] = i
	}
	var merges, encs, sans, rests, depnames []string
	for _, r := range mergeRecs {
		to := "None"
		if r.to != "" {
			to = fmt.Sprintf("(Some %d)", idx[r.to])
		}
		merges = append(merges, fmt.Sprintf("((%d, %s), %s)", idx[r.from], c15S(r.data), to))
	}
	for _, mk := range keys {
		m := o.metas[mk]
		i := idx[mk]
		if t, ok := sanOf[mk]; ok {
			if j, ok := idx[t]; ok {
				sans = append(sans, fmt.Sprintf("(%d, %d)", i, j))
			}
		} else if j, ok := idx[c15CoqMeta(c15Sanitized(m))]; ok {
			sans = append(sans, fmt.Sprintf("(%d, %d)", i, j))
		}
		o.semvers[m.Version] = true
		rests = append(rests, fmt.Sprintf("(%d, %s)", i, hx.CoqBool(c15RestValid(m))))
		if b, err := yaml.Marshal(m); err == nil {
			encs = append(encs, fmt.Sprintf("(%d, %s)", i, c15S(string(b))))
		}
		var ns []string
		for _, d := range m.Dependencies {
			if d != nil {
				ns = append(ns, c15S(d.Name))
			}
		}
		depnames = append(depnames, fmt.Sprintf("(%d, %s)", i, hx.CoqList(ns)))
	}
	var semv []string
	for _, v := range sortedKeys(o.semvers) {
		_, err := semver.NewVersion(v)
		semv = append(semv, fmt.Sprintf("(%s, %s)", c15S(v), hx.CoqBool(err == nil)))
	}
	var lockdec, lockenc, vals, untar, jsons []string
	for _, d := range sortedKeys(o.lockDatas) {
		l := new(chart.Lock)
		if err := yaml.Unmarshal([]byte(d), &l); err != nil {
			lockdec = append(lockdec, fmt.Sprintf("(%s, None)", c15S(d)))
		} else if l == nil {
			lockdec = append(lockdec, fmt.Sprintf("(%s, Some None)", c15S(d)))
		} else {
			lockdec = append(lockdec, fmt.Sprintf("(%s, Some (Some %s))", c15S(d), c15S(c15LockID(l))))
			o.addLock(l)
		}
	}
	for _, k := range sortedKeys(o.locks) {
		b, err := yaml.Marshal(o.locks[k])
		if err == nil {
			lockenc = append(lockenc, fmt.Sprintf("(%s, %s)", c15S(k), c15S(string(b))))
		}
	}
	for _, d := range sortedKeys(o.valDatas) {
		v, err := loader.LoadValues(strings.NewReader(d))
		if err != nil {
			vals = append(vals, fmt.Sprintf("(%s, None)", c15S(d)))
		} else {
			vals = append(vals, fmt.Sprintf("(%s, Some %s)", c15S(d), hx.CoqVal(v)))
		}
	}
	for _, d := range sortedKeys(o.tgzDatas) {
		ents, gzerr, serr := c15ScanFull([]byte(d))
		untar = append(untar, fmt.Sprintf("(%s, %s)", c15S(d), c15CoqStream(ents, gzerr, serr)))
	}
	for _, d := range sortedKeys(o.jsonDatas) {
		jsons = append(jsons, fmt.Sprintf("(%s, %s)", c15S(d), hx.CoqBool(json.Valid([]byte(d)))))
	}
	maxfile := "None"
	if c15MaxFile > 0 {
		maxfile = "(Some " + hx.CoqZ(c15MaxFile) + ")"
	}
	o.term = "(mkOr " + strings.Join([]string{hx.CoqList(keys), hx.CoqList(merges), hx.CoqList(encs), hx.CoqList(lockdec), hx.CoqList(lockenc), hx.CoqList(vals),
		hx.CoqList(untar), hx.CoqList(jsons), hx.CoqList(sans), hx.CoqList(semv), hx.CoqList(rests), hx.CoqList(o.ign), hx.CoqList(o.matchErr), hx.CoqList(depnames), maxfile}, "\n  ") + ")"
}

func c15DefaultAPI(m *chart.Metadata) *chart.Metadata {
	c := c15CopyMeta(m)
	if c.APIVersion == "" {
		c.APIVersion = chart.APIVersionV1
	}
	return c
}

type c15FullEnt struct {
	c15Ent
	RErr bool
}

func c15ScanFull(gz []byte) (ents []c15FullEnt, gzerr, serr bool) {
	zr, err := gzip.NewReader(bytes.NewReader(gz))
	if err != nil {
		return nil, true, false
	}
	tr := tar.NewReader(zr)
	for {
		hd, err := tr.Next()
		if err == io.EOF {
			return ents, false, false
		}
		if err != nil {
			return ents, false, true
		}
		data, rerr := io.ReadAll(tr)
		ents = append(ents, c15FullEnt{c15Ent{Name: hd.Name, Type: hd.Typeflag, Mode: hd.Mode, Size: hd.Size, Data: data}, rerr != nil})
		if rerr != nil {
			return ents, false, false
		}
	}
}

// ---------------------------------------------------------------- printers

func c15CoqMeta(m *chart.Metadata) string {
	deps := ""
	if len(m.Dependencies) > 0 {
		b, _ := json.Marshal(m.Dependencies)
		deps = string(b)
	}
	r := c15CopyMeta(m)
	r.APIVersion, r.Name, r.Version, r.Type, r.Dependencies = "", "", "", "", nil
	rest, _ := json.Marshal(r)
	return fmt.Sprintf("(mkMeta %s %s %s %s %s %s)", c15S(m.APIVersion), c15S(m.Name), c15S(m.Version), c15S(m.Type),
		c15S(deps), c15S(string(rest)))
}

func c15LockID(l *chart.Lock) string {
	b, _ := json.Marshal(l)
	return string(b)
}

func c15CoqFiles(fs []c15File) string {
	it := make([]string, len(fs))
	for i, f := range fs {
		it[i] = fmt.Sprintf("mkFile %s %s", c15S(f.Name), c15S(string(f.Data)))
	}
	return hx.CoqList(it)
}

func c15CoqChart(p *c15PChart) string {
	lock := "None"
	if p.Lock != nil {
		lock = "(Some " + c15S(c15LockID(p.Lock)) + ")"
	}
	vals := "None"
	if !p.ValuesNil {
		vals = "(Some " + hx.CoqVal(p.Values) + ")"
	}
	schema := "None"
	if !p.SchemaNil {
		schema = "(Some " + c15S(string(p.Schema)) + ")"
	}
	deps := make([]string, len(p.Deps))
	for i, d := range p.Deps {
		deps[i] = c15CoqChart(d)
	}
	meta := "empty_meta"
	if p.Meta != nil {
		meta = c15CoqMeta(p.Meta)
	}
	// Raw: only the values.yaml documents are compared (the rest repeats templates/files)
	var rawv []c15File
	for _, f := range p.Raw {
		if f.Name == "values.yaml" {
			rawv = append(rawv, f)
		}
	}
	return fmt.Sprintf("(Chart %s %s %s %s %s %s %s %s)", meta, lock, c15CoqFiles(rawv), vals, schema,
		c15CoqFiles(p.Templates), c15CoqFiles(p.Files), hx.CoqList(deps))
}

func c15CoqEnts(es []c15Ent) string {
	it := make([]string, len(es))
	for i, e := range es {
		it[i] = fmt.Sprintf("mkTE %s %s %s %s %s false", c15S(e.Name), hx.CoqZ(int64(e.Type)), hx.CoqZ(e.Mode), hx.CoqZ(e.Size), c15S(string(e.Data)))
	}
	return hx.CoqList(it)
}

func c15CoqStream(es []c15FullEnt, gzerr, serr bool) string {
	it := make([]string, len(es))
	for i, e := range es {
		it[i] = fmt.Sprintf("mkTE %s %s %s %s %s %s", c15S(e.Name), hx.CoqZ(int64(e.Type)), hx.CoqZ(e.Mode), hx.CoqZ(e.Size), c15S(string(e.Data)), hx.CoqBool(e.RErr))
	}
	return fmt.Sprintf("(mkTS %s %s %s)", hx.CoqBool(gzerr), hx.CoqList(it), hx.CoqBool(serr))
}

func c15CoqLRes(errClass string, p *c15PChart) string {
	if errClass == "" && p != nil {
		return "(inr " + c15CoqChart(p) + ")"
	}
	if strings.HasPrefix(errClass, "archive:") {
		return "(inl (LArchive EStream))"
	}
	m := map[string]string{"meta": "LMeta", "lock": "LLock", "values": "LValues", "req": "LReq", "missing": "LMissing", "invalid": "LInvalid",
		"sub": "LSub", "dirtoobig": "LDirTooBig", "ignore": "LIgnore"}
	if t, ok := m[errClass]; ok {
		return "(inl " + t + ")"
	}
	return "(inl LFuel)" // an error class the model does not have: reported as a mismatch
}

func (p *c15) CoqCase(ci, oi any) string {
	c, obs := ci.(c15Case), oi.(c15Obs)
	if obs.Panic == "" && (c.Kind == "match" || c.Kind == "matchex") {
		return c15CoqMatchCase(c, obs)
	}
	if obs.Panic != "" || obs.Oracle == nil {
		return "CPanic"
	}
	c15In = obs.Oracle.in
	return c15In.wrap(p.coqCase(c, obs))
}

func (p *c15) coqCase(c c15Case, obs c15Obs) string {
	switch c.Kind {
	case "rt":
		saved := "None"
		if obs.SaveErr == "" {
			saved = "(Some " + c15CoqEnts(obs.Saved) + ")"
		}
		tree := "None"
		if obs.SaveDirErr == "" {
			tree = "(Some " + c15CoqFiles(obs.Tree) + ")"
		}
		spec := c15CoqChart(c15Project(c15Build(c.Chart)))
		return fmt.Sprintf("CRt %s\n %s\n %s\n %s\n %s\n %s", obs.Oracle.term, spec, saved, c15CoqLRes(obs.LoadErr, obs.Loaded), tree, c15CoqLRes(obs.DirErr, obs.DirLoaded))
	case "files":
		return fmt.Sprintf("CFiles %s\n %s\n %s", obs.Oracle.term, c15CoqFiles(c.Files), c15CoqLRes(obs.LoadErr, obs.Loaded))
	case "dir":
		pk := "None"
		if obs.PkgErr == "" {
			pk = "(Some " + c15CoqEnts(obs.Packaged) + ")"
		}
		return fmt.Sprintf("CDir %s %s %s\n %s\n %s\n %s", obs.Oracle.term, hx.CoqBool(obs.IgnoreErr), c15S(c.PkgVersion), c15CoqFiles(obs.Tree), c15CoqLRes(obs.DirErr, obs.DirLoaded), pk)
	}
	return "COracleOnly"
}

package main

// C07 — generators: ownership placements, scenarios, bystanders.

import (
	"fmt"
	"math/rand"

	"verif/harness/internal/eng"
)

var c07Placements = []string{"absent", "foreign", "other-release", "other-namespace", "partial", "owned"}

const (
	c07L  = "l:app.kubernetes.io/managed-by"
	c07AN = "a:meta.helm.sh/release-name"
	c07AS = "a:meta.helm.sh/release-namespace"
)

var c07Pool = []struct{ Kind, Name string }{
	{"ConfigMap", "a"}, {"ConfigMap", "b"}, {"Secret", "s"}, {"ServiceAccount", "sa"}, {"ConfigMap", "c"},
}

// the chart's version of a resource
func c07ChartRes(kind, name string, variant int) eng.Res {
	f := map[string]string{}
	switch kind {
	case "ConfigMap":
		f["d:k"] = fmt.Sprintf("v%d", variant)
	case "Secret":
		f["d:p"] = []string{"YQ==", "Yg==", "Yw=="}[variant%3]
	}
	if variant%2 == 0 {
		f["l:tier"] = "web"
	}
	return eng.Res{Kind: kind, Name: name, Fields: f}
}

// the pre-existing object for a placement (nil: absent); variant picks among the partial forms
func c07Place(kind, name, placement string, variant int) *eng.Res {
	f := map[string]string{}
	switch kind {
	case "ConfigMap":
		f["d:k"] = "live"
		f["d:extra"] = "1"
	case "Secret":
		f["d:p"] = "bGl2ZQ=="
	}
	switch placement {
	case "absent":
		return nil
	case "foreign":
		if variant%2 == 0 {
			f["l:owner"] = "someone"
		}
	case "other-release":
		f[c07L], f[c07AN], f[c07AS] = "Helm", "other", eng.RelNS
	case "other-namespace":
		f[c07L], f[c07AN], f[c07AS] = "Helm", eng.RelName, "elsewhere"
	case "partial":
		switch variant % 5 {
		case 0: // label only
			f[c07L] = "Helm"
		case 1: // label + name annotation
			f[c07L], f[c07AN] = "Helm", eng.RelName
		case 2: // label + namespace annotation
			f[c07L], f[c07AS] = "Helm", eng.RelNS
		case 3: // both annotations, no label
			f[c07AN], f[c07AS] = eng.RelName, eng.RelNS
		case 4: // everything, but the label value in the wrong case
			f[c07L], f[c07AN], f[c07AS] = "helm", eng.RelName, eng.RelNS
		}
	case "owned":
		f[c07L], f[c07AN], f[c07AS] = "Helm", eng.RelName, eng.RelNS
	}
	return &eng.Res{Kind: kind, Name: name, Fields: f}
}

// a resource of a DIFFERENT kind with the same name (same apiVersion v1, same namespace)
func c07Twin(kind, name string) eng.Res {
	switch kind {
	case "ConfigMap":
		return eng.Res{Kind: "Secret", Name: name, Fields: map[string]string{"d:p": "dHdpbg=="}}
	case "Secret":
		return eng.Res{Kind: "ServiceAccount", Name: name, Fields: map[string]string{"l:twin": "1"}}
	}
	return eng.Res{Kind: "ConfigMap", Name: name, Fields: map[string]string{"d:k": "twin"}}
}

func c07Bystanders() []eng.Res {
	return []eng.Res{
		{Kind: "ConfigMap", Name: "bystander", Fields: map[string]string{"d:k": "mine"}},
		{Kind: "ConfigMap", Name: "bystander-other", Fields: map[string]string{"d:k": "x", c07L: "Helm", c07AN: "other", c07AS: eng.RelNS}},
		// labelled as this release's, but in no manifest: Helm must not touch it either
		{Kind: "Secret", Name: "bystander-labelled", Fields: map[string]string{"d:p": "eA==", c07L: "Helm", c07AN: eng.RelName, c07AS: eng.RelNS}},
	}
}

// what the chart ITSELF renders for the three ownership keys of a resource (setMetadataVisitor must
// force its own values over them), plus a label and an annotation that must survive stamping
var c07Metas = []string{"none", "right", "wrong-label", "stale", "empty", "label-only", "name-only", "ns-only", "wrong-all", "case"}

func c07OwnMeta(f map[string]string, meta string) {
	switch meta {
	case "", "none":
		return
	case "right": // what Helm would write anyway
		f[c07L], f[c07AN], f[c07AS] = "Helm", eng.RelName, eng.RelNS
	case "wrong-label": // a chart migrated from another tool
		f[c07L] = "kustomize"
	case "stale": // copied from a live object of ANOTHER release
		f[c07L], f[c07AN], f[c07AS] = "Helm", "other", "elsewhere"
	case "empty":
		f[c07L], f[c07AN], f[c07AS] = "", "", ""
	case "label-only":
		f[c07L] = "Tiller"
	case "name-only":
		f[c07AN] = "old-name"
	case "ns-only":
		f[c07AS] = "old-ns"
	case "wrong-all":
		f[c07L], f[c07AN], f[c07AS] = "kustomize", "old-name", "old-ns"
	case "case": // right values, wrong case of the label value
		f[c07L], f[c07AN], f[c07AS] = "helm", eng.RelName, eng.RelNS
	}
	f["l:app.kubernetes.io/name"] = "keep"
	f["a:example.com/note"] = "keep me"
}

// c07Spec describes one case: the new resources (indices into c07Pool), for each the placement of a
// pre-existing object, the ownership metadata its template renders (Metas), its namespace (NS, ""
// = the release namespace), and the scenario around them.
type c07Spec struct {
	Backend, Scenario string
	Idx               []int
	Place             []string
	Metas             []string // per new resource; nil = none
	BaseMeta          string   // rendered by the second version of the always-present resource "base"
	NS                []string // per new resource; nil = release namespace
	Twins             bool     // a same-named object of ANOTHER release in namespace "third" for every new resource
	Variant           int
	Take              bool
	Fl                eng.Flags
	Hooks             []eng.Hook
	// Intr: another actor creates an object in the MIDDLE of the operation under test, at the key of
	// the first new resource (IntrHook: of a hook "racehook" the chart gets for the operation's pre-event):
	// "get404" = right after the IntrNth-th GET of the key that was answered 404 (0 = the last GET
	// before Helm's POST: 1 for install and rollback, 2 for upgrade), "post" = just before the POST.
	// IntrOwner: "" unlabelled, "other" = owned by another release.
	Intr      string
	IntrNth   int
	IntrHook  bool
	IntrOwner string
}

func c07Build(backend, scenario string, idx []int, place []string, variant int, take bool, fl eng.Flags, hooks []eng.Hook) c07Case {
	return c07BuildSpec(c07Spec{Backend: backend, Scenario: scenario, Idx: idx, Place: place, Variant: variant, Take: take, Fl: fl, Hooks: hooks})
}

// c07BuildSpec assembles the history of a scenario for the given new resources and placements.
func c07BuildSpec(sp c07Spec) c07Case {
	backend, scenario, idx, place, variant, take, fl, hooks := sp.Backend, sp.Scenario, sp.Idx, sp.Place, sp.Variant, sp.Take, sp.Fl, sp.Hooks
	c := c07Case{Scenario: scenario, Place: place, Metas: sp.Metas, NS: sp.NS}
	if sp.BaseMeta != "" && sp.BaseMeta != "none" {
		c.Metas = append(append([]string{}, sp.Metas...), "base:"+sp.BaseMeta)
	}
	h := eng.History{Backend: backend, Init: c07Bystanders()}
	var newRes []eng.Res
	var placed []eng.Res
	if scenario == "upgrade-add-nstwin" { // every added resource lives in the second namespace
		sp.NS = make([]string, len(idx))
		for i := range sp.NS {
			sp.NS[i] = "other"
		}
		c.NS = sp.NS
	}
	for i, ix := range idx {
		p := c07Pool[ix%len(c07Pool)]
		r := c07ChartRes(p.Kind, p.Name, variant+i)
		if i < len(sp.Metas) {
			c07OwnMeta(r.Fields, sp.Metas[i])
		}
		ns := ""
		if i < len(sp.NS) {
			ns = sp.NS[i]
		}
		r.Namespace = ns
		newRes = append(newRes, r)
		if o := c07Place(p.Kind, p.Name, place[i], variant+i); o != nil {
			o.Namespace = ns
			placed = append(placed, *o)
		}
		if sp.Twins {
			// same kind and name, another namespace, owned by another release: neither a conflict nor Helm's to touch
			h.Init = append(h.Init, eng.Res{Kind: p.Kind, Name: p.Name, Namespace: "third",
				Fields: map[string]string{"d:k": "twin", c07L: "Helm", c07AN: "other", c07AS: "third"}})
		}
	}
	base := eng.Res{Kind: "ConfigMap", Name: "base", Fields: map[string]string{"d:k": "b1"}}
	base2 := eng.Res{Kind: "ConfigMap", Name: "base", Fields: map[string]string{"d:k": "b2"}}
	c07OwnMeta(base2.Fields, sp.BaseMeta)
	fl.TakeOwnership = take
	edits := func() {
		for i := range placed {
			h.Steps = append(h.Steps, eng.Step{Edit: &eng.Edit{Set: &placed[i]}})
		}
	}
	switch scenario {
	case "install":
		h.Init = append(h.Init, placed...)
		h.Steps = []eng.Step{{Op: &eng.Op{Kind: "install", Flags: fl, ChartID: 1, ValsID: 1, Manifest: newRes, Hooks: hooks}}}
	case "upgrade-add":
		h.Init = append(h.Init, placed...)
		h.Steps = []eng.Step{
			{Op: &eng.Op{Kind: "install", ChartID: 1, ValsID: 1, Manifest: []eng.Res{base}}},
			{Op: &eng.Op{Kind: "upgrade", Flags: fl, ChartID: 2, ValsID: 1, Manifest: append([]eng.Res{base2}, newRes...), Hooks: hooks}}}
	case "upgrade-add-twin":
		// the release already owns, for every added resource, a resource of another kind with the
		// SAME name (seeded defect C07-2: the to-be-created diff must compare kinds too)
		var twins []eng.Res
		for _, ix := range idx {
			p := c07Pool[ix%len(c07Pool)]
			twins = append(twins, c07Twin(p.Kind, p.Name))
		}
		h.Init = append(h.Init, placed...)
		h.Steps = []eng.Step{
			{Op: &eng.Op{Kind: "install", ChartID: 1, ValsID: 1, Manifest: append([]eng.Res{base}, twins...)}},
			{Op: &eng.Op{Kind: "upgrade", Flags: fl, ChartID: 2, ValsID: 1, Manifest: append(append([]eng.Res{base2}, twins...), newRes...), Hooks: hooks}}}
	case "upgrade-add-nstwin":
		// the release already owns, for every added resource, a resource of the SAME kind and name in
		// the release namespace; the upgrade adds its namesake in namespace "other" (the to-be-created
		// diff and the look-up must compare and use the namespace)
		var twins []eng.Res
		for _, ix := range idx {
			p := c07Pool[ix%len(c07Pool)]
			twins = append(twins, c07ChartRes(p.Kind, p.Name, variant+7))
		}
		h.Init = append(h.Init, placed...)
		h.Steps = []eng.Step{
			{Op: &eng.Op{Kind: "install", ChartID: 1, ValsID: 1, Manifest: append([]eng.Res{base}, twins...)}},
			{Op: &eng.Op{Kind: "upgrade", Flags: fl, ChartID: 2, ValsID: 1, Manifest: append(append([]eng.Res{base2}, twins...), newRes...), Hooks: hooks}}}
	case "upgrade-retry":
		// revision 1 {base} deployed; the upgrade to {base, new...} FAILS in its pre-upgrade hook, before
		// anything is created (revision 2 failed, naming the new resources); objects appear at the new
		// keys; the upgrade is retried.  The resources to be created are still those absent from the
		// DEPLOYED revision (seeded defect C07-5: diffing against the failed revision skips the check).
		gate := eng.Hook{Res: eng.Res{Kind: "ConfigMap", Name: "gate", Fields: map[string]string{"d:h": "g"}}, Events: []string{"pre-upgrade"}}
		failing := &eng.Op{Kind: "upgrade", ChartID: 2, ValsID: 1, Manifest: append([]eng.Res{base2}, newRes...), Hooks: []eng.Hook{gate},
			HFault: &eng.HFault{Name: "gate", Nth: 0}}
		h.Steps = []eng.Step{
			{Op: &eng.Op{Kind: "install", ChartID: 1, ValsID: 1, Manifest: []eng.Res{base}}},
			{Op: failing}}
		edits()
		h.Steps = append(h.Steps, eng.Step{Op: &eng.Op{Kind: "upgrade", Flags: fl, ChartID: 3, ValsID: 1,
			Manifest: append([]eng.Res{base2}, newRes...), Hooks: append([]eng.Hook{gate}, hooks...)}})
	case "replace":
		fl.Replace = true
		h.Steps = []eng.Step{
			{Op: &eng.Op{Kind: "install", ChartID: 1, ValsID: 1, Manifest: append([]eng.Res{base}, newRes...)}},
			{Op: &eng.Op{Kind: "uninstall", Flags: eng.Flags{KeepHistory: true}}}}
		edits()
		h.Steps = append(h.Steps, eng.Step{Op: &eng.Op{Kind: "install", Flags: fl, ChartID: 2, ValsID: 1, Manifest: append([]eng.Res{base2}, newRes...), Hooks: hooks}})
	case "rollback-recreate":
		// revision 1 has the resources, revision 2 drops them, then someone puts objects there, rollback to 1
		h.Steps = []eng.Step{
			{Op: &eng.Op{Kind: "install", ChartID: 1, ValsID: 1, Manifest: append([]eng.Res{base}, newRes...), Hooks: hooks}},
			{Op: &eng.Op{Kind: "upgrade", ChartID: 2, ValsID: 1, Manifest: []eng.Res{base2}, Hooks: hooks}}}
		edits()
		rf := eng.Flags{Cleanup: fl.Cleanup, NoHooks: fl.NoHooks}
		h.Steps = append(h.Steps, eng.Step{Op: &eng.Op{Kind: "rollback", Flags: rf}})
	}
	c.H = h
	c.Test = len(h.Steps) - 1
	if sp.Intr != "" && len(newRes) > 0 {
		op := h.Steps[c.Test].Op
		obj := eng.Res{Kind: newRes[0].Kind, Name: newRes[0].Name, Namespace: newRes[0].Namespace, Fields: map[string]string{"d:k": "intruder"}}
		if sp.IntrHook {
			ev := map[string]string{"install": "pre-install", "upgrade": "pre-upgrade", "rollback": "pre-rollback"}[op.Kind]
			hk := eng.Hook{Res: eng.Res{Kind: "ConfigMap", Name: "racehook", Fields: map[string]string{"d:h": "r"}}, Events: []string{ev}}
			if op.Kind == "rollback" { // the hooks of a rollback are those of the revision rolled back to
				h.Steps[0].Op.Hooks = append(h.Steps[0].Op.Hooks, hk)
			} else {
				op.Hooks = append(op.Hooks, hk)
			}
			obj = eng.Res{Kind: "ConfigMap", Name: "racehook", Fields: map[string]string{"d:k": "intruder"}}
		}
		if sp.IntrOwner == "other" {
			obj.Fields[c07L], obj.Fields[c07AN], obj.Fields[c07AS] = "Helm", "other", eng.RelNS
		}
		nth := sp.IntrNth
		if nth == 0 {
			nth = 1
			if op.Kind == "upgrade" {
				nth = 2
			}
		}
		op.Intr = &eng.Intruder{When: sp.Intr, Nth: nth, Obj: obj}
		c.Intr = sp.Intr
		if sp.IntrHook {
			c.Intr += "-hook"
		}
		c.H = h
	}
	return c
}

// c07GetFault: the API server rejects (403) the GET of the idx-th new resource during the
// operation under test - the ownership look-up of that resource fails (seeded defect C07-3:
// a Forbidden look-up treated like "does not exist")
func c07GetFault(c c07Case, idx []int, i int) c07Case {
	p := c07Pool[idx[i%len(idx)]%len(c07Pool)]
	op := c.H.Steps[c.Test].Op
	key := p.Kind + "/" + p.Name
	for _, m := range op.Manifest {
		if m.Kind == p.Kind && m.Name == p.Name {
			key = m.Key() // <namespace>/Kind/name outside the release namespace
		}
	}
	op.KFault = &eng.KFault{Verb: "get", Key: key}
	c.Scenario += "+getfault"
	return c
}

var c07Scenarios = []string{"install", "upgrade-add", "replace", "rollback-recreate", "upgrade-add-twin", "upgrade-retry", "upgrade-add-nstwin"}

func c07Gen(r *rand.Rand) c07Case {
	k := r.Intn(10)
	sc := "install"
	switch {
	case k < 3:
	case k < 4:
		sc = "upgrade-add"
	case k < 5:
		sc = "upgrade-retry"
	case k < 6:
		sc = "upgrade-add-twin"
		if r.Intn(2) == 0 {
			sc = "upgrade-add-nstwin"
		}
	case k < 8:
		sc = "replace"
	default:
		sc = "rollback-recreate"
	}
	n := 1 + r.Intn(4)
	idx := r.Perm(len(c07Pool))[:n]
	place := make([]string, n)
	for i := range place {
		place[i] = c07Placements[r.Intn(len(c07Placements))]
	}
	fl := eng.Flags{Atomic: r.Intn(3) == 0, Cleanup: r.Intn(3) == 0, NoHooks: r.Intn(4) == 0}
	if sc == "upgrade-add" && r.Intn(3) == 0 {
		fl.MaxHistory = 1 + r.Intn(2)
	}
	sp := c07Spec{Backend: []string{"secret", "memory", "configmap"}[r.Intn(3)], Scenario: sc, Idx: idx, Place: place,
		Variant: 1 + r.Intn(6), Take: r.Intn(2) == 0, Fl: fl, Hooks: eng.GenHooks(r, 2)}
	// 45%: templates that render their own (right, wrong, stale, empty, partial) ownership metadata
	if r.Intn(100) < 45 {
		sp.Metas = make([]string, n)
		for i := range sp.Metas {
			sp.Metas[i] = c07Metas[r.Intn(len(c07Metas))]
		}
		if r.Intn(3) == 0 {
			sp.BaseMeta = c07Metas[1+r.Intn(len(c07Metas)-1)]
		}
	}
	// 20%: some of the new resources live in a second namespace; same-named objects of another
	// release in a third namespace
	if r.Intn(100) < 20 {
		sp.NS = make([]string, n)
		for i := range sp.NS {
			if r.Intn(2) == 0 {
				sp.NS[i] = "other"
			}
		}
		sp.Twins = r.Intn(4) != 0
	}
	// 10%: a check-to-create race on the first new resource (or on a hook of the operation)
	raced := false
	if r.Intn(100) < 10 {
		sp.Place[0] = "absent"
		sp.Intr = []string{"get404", "post"}[r.Intn(2)]
		sp.IntrHook = r.Intn(4) == 0
		if sp.IntrHook {
			sp.Intr = "post"
		}
		sp.IntrOwner = []string{"", "other"}[r.Intn(2)]
		if r.Intn(4) == 0 {
			sp.IntrNth = 1
		}
		raced = true
	}
	c := c07BuildSpec(sp)
	if raced {
		return c
	}
	if sc != "rollback-recreate" && r.Intn(100) < 15 {
		c = c07GetFault(c, idx, r.Intn(n))
	}
	return c
}

func (*c07) Corpus() []any {
	var out []any
	// one witness per placement and scenario, take-ownership off, plus the adopting runs
	for _, sc := range c07Scenarios {
		for i, p := range c07Placements {
			out = append(out, c07Build("secret", sc, []int{0, 2}, []string{p, "absent"}, 1+i, false, eng.Flags{}, nil))
		}
		out = append(out, c07Build("memory", sc, []int{0, 3}, []string{"foreign", "other-namespace"}, 3, true, eng.Flags{}, nil))
	}
	// retried upgrade after a failed one: every placement of the object that appeared, adopting runs too
	for i, p := range c07Placements {
		out = append(out, c07Build("memory", "upgrade-retry", []int{0, 2}, []string{p, "absent"}, 1+i, true, eng.Flags{}, nil))
		out = append(out, c07Build("configmap", "upgrade-retry", []int{1}, []string{p}, 2+i, false, eng.Flags{Atomic: true}, nil))
	}
	// the ownership look-up of the pre-existing object is rejected: every placement x
	// {install, install --atomic, upgrade adding it, same-name upgrade} x take-ownership off/on
	for i, p := range c07Placements {
		for _, take := range []bool{false, true} {
			idx := []int{0, 2}
			pl := []string{p, "absent"}
			out = append(out, c07GetFault(c07Build("secret", "install", idx, pl, 1+i, take, eng.Flags{}, nil), idx, 0))
			out = append(out, c07GetFault(c07Build("secret", "install", idx, pl, 1+i, take, eng.Flags{Atomic: true}, nil), idx, 0))
			out = append(out, c07GetFault(c07Build("secret", "upgrade-add", idx, pl, 1+i, take, eng.Flags{}, nil), idx, 0))
			out = append(out, c07GetFault(c07Build("secret", "upgrade-add", idx, pl, 1+i, take, eng.Flags{Atomic: true, Cleanup: true}, nil), idx, 0))
			out = append(out, c07GetFault(c07Build("secret", "upgrade-add-twin", idx, pl, 1+i, take, eng.Flags{}, nil), idx, 0))
		}
	}
	// templates that render their own ownership metadata (seeded defect C07-8: mergeLabels with its
	// arguments swapped lets the rendered label win): every variant x {created by install, created by an
	// upgrade, created by install --replace, re-created by a rollback, adopted over a foreign / an owned
	// object, rendered by the UPDATED resource of an upgrade}
	for i, m := range c07Metas[1:] {
		metas := []string{m, "none"}
		for _, sc := range []string{"install", "upgrade-add", "replace", "rollback-recreate"} {
			out = append(out, c07BuildSpec(c07Spec{Backend: "secret", Scenario: sc, Idx: []int{0, 2}, Place: []string{"absent", "absent"}, Metas: metas, Variant: 1 + i}))
		}
		out = append(out, c07BuildSpec(c07Spec{Backend: "memory", Scenario: "install", Idx: []int{1, 3}, Place: []string{"foreign", "owned"}, Metas: []string{m, m}, Variant: 2 + i, Take: true}))
		out = append(out, c07BuildSpec(c07Spec{Backend: "memory", Scenario: "upgrade-add", Idx: []int{1}, Place: []string{"owned"}, Metas: []string{m}, BaseMeta: m, Variant: 2 + i}))
		out = append(out, c07BuildSpec(c07Spec{Backend: "configmap", Scenario: "upgrade-retry", Idx: []int{4}, Place: []string{"absent"}, Metas: []string{"none"}, BaseMeta: m, Variant: 1 + i}))
	}
	// two namespaces: the manifest has resources in the release namespace and in "other"; the
	// pre-existing object sits in "other"; a same-named object of another release in "third" is
	// neither a conflict nor touched
	for i, p := range c07Placements {
		for _, sc := range []string{"install", "upgrade-add", "replace", "rollback-recreate"} {
			out = append(out, c07BuildSpec(c07Spec{Backend: "secret", Scenario: sc, Idx: []int{0, 2}, Place: []string{p, "absent"}, NS: []string{"other", ""}, Twins: true, Variant: 1 + i}))
		}
		out = append(out, c07BuildSpec(c07Spec{Backend: "memory", Scenario: "install", Idx: []int{0, 1}, Place: []string{"absent", p}, NS: []string{"other", "other"}, Twins: true, Variant: 2 + i, Take: true,
			Metas: []string{"stale", "wrong-label"}}))
	}
	// check-to-create races (seeded defect C07-10: createResource treating AlreadyExists as success):
	// another actor creates the object between Helm's last look-up and Helm's POST
	for i, sc := range []string{"install", "upgrade-add", "rollback-recreate", "replace"} {
		for _, owner := range []string{"", "other"} {
			for _, when := range []string{"get404", "post"} {
				out = append(out, c07BuildSpec(c07Spec{Backend: "secret", Scenario: sc, Idx: []int{0, 2}, Place: []string{"absent", "absent"}, Variant: 1 + i, Intr: when, IntrOwner: owner}))
			}
			out = append(out, c07BuildSpec(c07Spec{Backend: "memory", Scenario: sc, Idx: []int{1}, Place: []string{"absent"}, Variant: 2 + i, Intr: "post", IntrHook: true, IntrOwner: owner}))
		}
		// right after the PRE-FLIGHT look-up (an upgrade then meets it in Client.update's own GET)
		out = append(out, c07BuildSpec(c07Spec{Backend: "secret", Scenario: sc, Idx: []int{0}, Place: []string{"absent"}, Variant: 3 + i, Intr: "get404", IntrNth: 1}))
		// with the flags that clean up after a failure, with take-ownership, next to an adopted resource, in a second namespace
		out = append(out, c07BuildSpec(c07Spec{Backend: "secret", Scenario: sc, Idx: []int{0, 2}, Place: []string{"absent", "absent"}, Variant: 1 + i, Intr: "get404", Fl: eng.Flags{Atomic: true}}))
		out = append(out, c07BuildSpec(c07Spec{Backend: "secret", Scenario: sc, Idx: []int{0, 2}, Place: []string{"absent", "absent"}, Variant: 1 + i, Intr: "post", Fl: eng.Flags{Cleanup: true}}))
		out = append(out, c07BuildSpec(c07Spec{Backend: "memory", Scenario: sc, Idx: []int{0, 2}, Place: []string{"absent", "owned"}, Variant: 1 + i, Intr: "get404", Take: true}))
		out = append(out, c07BuildSpec(c07Spec{Backend: "memory", Scenario: sc, Idx: []int{0, 2}, Place: []string{"absent", "absent"}, NS: []string{"other", ""}, Variant: 1 + i, Intr: "post"}))
	}
	// the SAME kind and name in both namespaces of one manifest: two resources, two ownership checks
	for i, p := range c07Placements {
		out = append(out, c07BuildSpec(c07Spec{Backend: "secret", Scenario: "install", Idx: []int{0, 0}, Place: []string{p, "absent"}, NS: []string{"other", ""}, Variant: 1 + i}))
		out = append(out, c07BuildSpec(c07Spec{Backend: "secret", Scenario: "upgrade-add", Idx: []int{0, 0}, Place: []string{"absent", p}, NS: []string{"other", ""}, Variant: 1 + i}))
	}
	return out
}

// Exhaustive: all 6^n placements of n resources x {install, upgrade-add, replace} x take on/off
// (n = 2 quick, n = 3 thorough), and the rollback scenario for n = 1 (quick) / 2 (thorough).
func (*c07) Exhaustive(tier string) []any {
	var out []any
	n := 2
	if tier == "thorough" {
		n = 3
	}
	var rec func(place []string)
	emit := func(place []string, scs []string) {
		idx := make([]int, len(place))
		for i := range idx {
			idx[i] = i
		}
		variant := 0
		for _, p := range place {
			variant = variant*7 + len(p)
		}
		for _, sc := range scs {
			for _, take := range []bool{false, true} {
				if sc == "rollback-recreate" && take {
					continue
				}
				out = append(out, c07Build("secret", sc, idx, append([]string{}, place...), variant%11, take, eng.Flags{}, nil))
			}
		}
	}
	rec = func(place []string) {
		if len(place) == n {
			emit(place, c07Scenarios[:3])
			return
		}
		if len(place) == n-1 {
			emit(place, c07Scenarios[3:]) // rollback-recreate, upgrade-add-twin, upgrade-retry
		}
		for _, p := range c07Placements {
			rec(append(place, p))
		}
	}
	rec(nil)
	if tier == "thorough" {
		// every rendered-metadata variant x every placement x {created/adopted by install, by an upgrade} x take on/off,
		// and every placement in a second namespace x scenario x take on/off
		for i, m := range c07Metas[1:] {
			for j, p := range c07Placements {
				for _, sc := range []string{"install", "upgrade-add"} {
					for _, take := range []bool{false, true} {
						out = append(out, c07BuildSpec(c07Spec{Backend: "secret", Scenario: sc, Idx: []int{j % len(c07Pool)}, Place: []string{p}, Metas: []string{m}, BaseMeta: m, Variant: i + j, Take: take}))
					}
				}
			}
		}
		for j, p := range c07Placements {
			for _, sc := range c07Scenarios {
				for _, take := range []bool{false, true} {
					if sc == "rollback-recreate" && take {
						continue
					}
					out = append(out, c07BuildSpec(c07Spec{Backend: "secret", Scenario: sc, Idx: []int{j % len(c07Pool), (j%len(c07Pool) + 2) % len(c07Pool)}, Place: []string{p, "absent"}, NS: []string{"other", "other"}, Twins: true, Variant: j, Take: take}))
				}
			}
		}
	}
	return out
}

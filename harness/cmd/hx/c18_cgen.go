package main

// C18 — the structured generator of version constraints, and the small-scope enumerations of
// constraint strings.  What is generated here is given to the real semver.NewConstraint /
// Constraints.Check and to the model Misc/Constraint.v (cvalid / sat); a part of it is also
// used as version argument of Get / tag matching / Resolve.

import (
	"fmt"
	"math/rand"
	"strings"
)

var c18COps = []string{"", "=", "!=", ">", "<", ">=", "=>", "<=", "=<", "~", "~>", "^"}
var c18CPre = []string{"alpha", "alpha.1", "beta.2", "rc.1", "0", "1", "a-b", "-", "alpha.beta", "10"}
var c18CWild = []string{"x", "X", "*"}
var c18CGap = []string{"", "", "", " ", " ", "  ", "\t"}
var c18CAndSep = []string{" ", " ", ",", ", ", " , ", "  ", " ,"}
var c18COrSep = []string{"||", " || ", " || ", "|| ", " ||"}

// one operand: the version text of a constraint and the numbers it was made of
type c18CTerm struct {
	Text string
	N    [3]int
	Pre  string
}

func c18CVersionPart(r *rand.Rand) c18CTerm {
	t := c18CTerm{N: [3]int{r.Intn(4), r.Intn(4), r.Intn(4)}}
	if r.Intn(15) == 0 {
		t.N[r.Intn(3)] = 10
	}
	segs := []string{fmt.Sprint(t.N[0]), fmt.Sprint(t.N[1]), fmt.Sprint(t.N[2])}
	depth := 3
	switch k := r.Intn(100); {
	case k < 14:
		depth = 1
	case k < 34:
		depth = 2
	}
	if r.Intn(100) < 28 {
		pos := r.Intn(depth)
		w := c18CWild[r.Intn(3)]
		if r.Intn(6) == 0 {
			segs[pos] = w // a wildcard in front of numbers: 1.x.3, x.2.3
		} else {
			for i := pos; i < depth; i++ {
				segs[i] = w
				if r.Intn(4) == 0 {
					w = c18CWild[r.Intn(3)]
				}
			}
		}
	}
	s := strings.Join(segs[:depth], ".")
	if r.Intn(9) == 0 {
		s = "v" + s
	}
	if r.Intn(100) < 30 {
		t.Pre = c18CPre[r.Intn(len(c18CPre))]
		s += "-" + t.Pre
	}
	if r.Intn(10) == 0 {
		s += "+" + c18Meta[r.Intn(len(c18Meta))]
	}
	t.Text = s
	return t
}

// c18CStructured: OR-groups of AND-lists of operator+version, or hyphen ranges, with the white
// space variants the regular expressions of the library allow.  Returns the operands too.
func c18CStructured(r *rand.Rand) (string, []c18CTerm) {
	var terms []c18CTerm
	nor := 1
	switch k := r.Intn(100); {
	case k < 18:
		nor = 2
	case k < 22:
		nor = 3
	}
	var ors []string
	for i := 0; i < nor; i++ {
		nand := 1
		switch k := r.Intn(100); {
		case k < 30:
			nand = 2
		case k < 36:
			nand = 3
		}
		var ands []string
		for j := 0; j < nand; j++ {
			if r.Intn(100) < 14 {
				a, b := c18CVersionPart(r), c18CVersionPart(r)
				terms = append(terms, a, b)
				sep := []string{" - ", " - ", "  -  ", " -\t"}[r.Intn(4)]
				ands = append(ands, a.Text+sep+b.Text)
				continue
			}
			t := c18CVersionPart(r)
			terms = append(terms, t)
			ands = append(ands, c18COps[r.Intn(len(c18COps))]+c18CGap[r.Intn(len(c18CGap))]+t.Text)
		}
		g := ""
		for j, a := range ands {
			if j > 0 {
				g += c18CAndSep[r.Intn(len(c18CAndSep))]
			}
			g += a
		}
		if r.Intn(12) == 0 {
			g = " " + g
		}
		if r.Intn(12) == 0 {
			g += " "
		}
		ors = append(ors, g)
	}
	s := ""
	for i, g := range ors {
		if i > 0 {
			s += c18COrSep[r.Intn(len(c18COrSep))]
		}
		s += g
	}
	return s, terms
}

var c18CQuirks = []string{"1|2", "1||2 - 3", ">=1.2.3 - 2", "1 - 2 - 3", "1.2.3 - 2 || 1 - 2", "1 - 2 1 - 2", "==1.2.3", "1x", "**", "x1.2",
	"1.xx", "1.2.3-x", "*-alpha", "x-0", "1.x-alpha", "1.2.x-alpha", "!=*", "<=*", ">*", "<*", ">=*", "~*", "^*", "!=1.x", "!=1.2.x", "!=1.2.x-alpha",
	">1.x", ">1.2.x", "<=1.2.x", "<=1.x", "~0.0.0", "~0.0", "~0", "^0.0.0", "^0.0", "^0", "^0.0.3", "^0.2.3", "^0.x", "~0.0.x", "^0.0.x",
	"1.2.3 4", "1.2.3,4", "1.2.3, 4", "1.2.3 ,4", ",1", "1,", "1 ,", "1 || ", " || 1", "1 |||| 2", "1 ||| 2", "|1", "1|", "1 | 2", "||", "|",
	"1.2.3-alpha - 2", "1 - 2.0.0-alpha", "1-2", "1 -2", "1- 2", "1 - 2-", "v1 - v2", "x - 2", "1 - x", "* - *", "1.2 - 1.4.5", "1.2.3 - 1.4",
	">= 1.2.3", ">=\t1.2.3", ">\n1", "~ >1", "> =1", "=> 1", "=<1", "<>1", "=!1", "!1", "!==1", "^~1", "~^1", ">>1", ">=>1", "=1", "= 1", "v1", "V1", "vv1", "v", "v.1",
	"01.2.3", "1.02", "1.2.3-01", ">=1.2.3-0", "1.2.3-0.0", "1.2.3-00", "1.2.3+001", "1.2.3+", "1.2.3-", "1.2.3-a..b", "1.2.3-a.", "1..2", ".1", "1.", "1.2.", "1.2.3.", "1.2.3.4",
	"18446744073709551615", "18446744073709551616", "1.18446744073709551616", ">1.2.3-alpha", "<1.2.3-alpha", "!=1.2.3-alpha", "^1.2.3-alpha", "~1.2.3-alpha", "=1.2.3-alpha", "1.2.3-alpha",
	"^1.2.3+b1", "1.2.3+b1", "1.x+b1", ">=1 <2, <3 || 4", "1 2 3", "1,2,3", "*,*", "* *", "* || 1", "x.x.x", "X.X", "*.*.*", "1.*.3", "x.2", "*.2.3", "1.X.x",
	"ä1", "1ä", "1.2.3 ", " ", "", "\t", "latest", "^", "~", ">", ">=", "-", " - ", "1 - ", " - 1"}

func c18CMutate(r *rand.Rand, s string) string {
	const alpha = "=!<>~^ ,|-.xX*v0123+a\t"
	b := []byte(s)
	for k := 0; k < 1+r.Intn(2); k++ {
		switch r.Intn(4) {
		case 0: // insert
			i := r.Intn(len(b) + 1)
			b = append(b[:i], append([]byte{alpha[r.Intn(len(alpha))]}, b[i:]...)...)
		case 1: // delete
			if len(b) > 0 {
				i := r.Intn(len(b))
				b = append(b[:i], b[i+1:]...)
			}
		case 2: // replace
			if len(b) > 0 {
				b[r.Intn(len(b))] = alpha[r.Intn(len(alpha))]
			}
		default: // duplicate a byte
			if len(b) > 0 {
				i := r.Intn(len(b))
				b = append(b[:i+1], b[i:]...)
			}
		}
	}
	return string(b)
}

// c18CNear: versions around the numbers of an operand (the boundaries of ^ ~ x ranges)
func c18CNear(r *rand.Rand, t c18CTerm) string {
	n := t.N
	switch r.Intn(9) {
	case 0:
	case 1:
		n[2]++
	case 2:
		n[1]++
		if r.Intn(2) == 0 {
			n[2] = 0
		}
	case 3:
		n[0]++
		if r.Intn(2) == 0 {
			n[1], n[2] = 0, 0
		}
	case 4:
		if n[2] > 0 {
			n[2]--
		}
	case 5:
		if n[1] > 0 {
			n[1]--
		}
		n[2] = r.Intn(4)
	case 6:
		if n[0] > 0 {
			n[0]--
		}
		n[1] = r.Intn(4)
	case 7:
		n[1], n[2] = 0, 0
	default:
		n[2] = 0
	}
	s := fmt.Sprintf("%d.%d.%d", n[0], n[1], n[2])
	switch k := r.Intn(100); {
	case k < 22 && t.Pre != "":
		s += "-" + t.Pre
	case k < 40:
		s += "-" + c18CPre[r.Intn(len(c18CPre))]
	}
	if r.Intn(12) == 0 {
		s += "+b1"
	}
	return s
}

func c18CRandVersion(r *rand.Rand) string {
	s := fmt.Sprintf("%d.%d.%d", r.Intn(4), r.Intn(4), r.Intn(4))
	switch r.Intn(14) {
	case 0:
		s = fmt.Sprintf("%d.%d", r.Intn(4), r.Intn(4))
	case 1:
		s = fmt.Sprintf("v%d", r.Intn(12))
	}
	if r.Intn(4) == 0 {
		s += "-" + c18CPre[r.Intn(len(c18CPre))]
	}
	return s
}

// c18CPairGen: one constraint string with the versions it is checked against
func c18CPairGen(r *rand.Rand) c18CPair {
	var s string
	var terms []c18CTerm
	switch k := r.Intn(100); {
	case k < 70:
		s, terms = c18CStructured(r)
	case k < 82:
		s, terms = c18CStructured(r)
		s = c18CMutate(r, s) // the malformed stream (some stay well-formed)
	case k < 92:
		s = c18CQuirks[r.Intn(len(c18CQuirks))]
	case k < 96:
		s = c18Constraints[r.Intn(len(c18Constraints))]
	default:
		s = c18BadConstraints[r.Intn(len(c18BadConstraints))]
	}
	p := c18CPair{Constraint: s}
	n := 6 + r.Intn(5)
	for i := 0; i < n; i++ {
		if len(terms) > 0 && r.Intn(4) > 0 {
			p.Versions = append(p.Versions, c18CNear(r, terms[r.Intn(len(terms))]))
		} else {
			p.Versions = append(p.Versions, c18CRandVersion(r))
		}
	}
	return p
}

// the fixed version set of the small-scope enumerations
var c18CFixedVersions = []string{"0.0.0", "0.0.1", "0.1.0", "0.1.1", "1.0.0", "1.0.1", "1.1.0", "1.1.1", "1.2.0", "2.0.0", "2.1.1", "10.0.0",
	"0.0.0-a", "0.0.1-a", "0.1.0-a", "1.0.0-a", "1.0.0-0", "1.0.1-a", "1.1.0-a", "1.1.1-a.1", "2.0.0-a", "1.0.0-b", "v1.1", "1.0.0+a"}

// c18CEnumChars: every string over the alphabet up to the length bound
func c18CEnumChars(alpha string, maxLen int) []string {
	out := []string{""}
	level := []string{""}
	for l := 1; l <= maxLen; l++ {
		var next []string
		for _, p := range level {
			for i := 0; i < len(alpha); i++ {
				next = append(next, p+alpha[i:i+1])
			}
		}
		out = append(out, next...)
		level = next
	}
	return out
}

// c18CEnumTokens: every concatenation of up to maxTok tokens
func c18CEnumTokens(tokens []string, maxTok int) []string {
	seen := map[string]bool{}
	var out []string
	level := []string{""}
	for l := 1; l <= maxTok; l++ {
		var next []string
		for _, p := range level {
			for _, t := range tokens {
				s := p + t
				next = append(next, s)
				if !seen[s] {
					seen[s] = true
					out = append(out, s)
				}
			}
		}
		level = next
	}
	return out
}

// c18CExhaustive: the constraint strings of the thorough tier, packed into cases that carry
// nothing else (an empty index file).
func c18CExhaustive() []any {
	var all []string
	all = append(all, c18CEnumChars("01.x*^~><=! ,|-a", 4)...)
	all = append(all, c18CEnumTokens([]string{"1", "0", "1.1", "1.x", "*", "1.0.0", "0.0.1", "1.0.0-a", "^", "~", ">", "<", ">=", "<=", "=", "!=", " ", ",", "||", " - "}, 3)...)
	all = append(all, c18CEnumTokens([]string{"1", "1.1", "1.0.0-a", "x", "^", "<=", "!=", " ", "||", " - "}, 4)...)
	all = append(all, c18CQuirks...)
	seen := map[string]bool{}
	var out []any
	cur := c18Case{File: c18File{Mode: "empty"}, CVers: c18CFixedVersions}
	for _, s := range all {
		if seen[s] {
			continue
		}
		seen[s] = true
		cur.CPairs = append(cur.CPairs, c18CPair{Constraint: s})
		if len(cur.CPairs) == 250 {
			out = append(out, cur)
			cur = c18Case{File: c18File{Mode: "empty"}, CVers: c18CFixedVersions}
		}
	}
	if len(cur.CPairs) > 0 {
		out = append(out, cur)
	}
	return out
}

// c18CClass: the shape of a constraint string, for the distribution table
func c18CShape(s string, valid bool) string {
	if !valid {
		return "c:invalid"
	}
	switch {
	case strings.Contains(s, "||"):
		return "c:or"
	case strings.Contains(s, " - "):
		return "c:hyphen"
	case strings.ContainsAny(s, "xX*"):
		return "c:wildcard"
	case strings.ContainsAny(strings.TrimSpace(s), " ,\t"):
		return "c:and"
	case strings.Contains(s, "-"):
		return "c:pre"
	case strings.HasPrefix(strings.TrimSpace(s), "^"):
		return "c:caret"
	case strings.HasPrefix(strings.TrimSpace(s), "~"):
		return "c:tilde"
	}
	return "c:cmp"
}

package main

// C02 runtime oracle for the rich object domain: the property's sentences evaluated on the field
// trees of the objects the simulated API server held before and after each successful call.
// Written from the property text, not from the Coq model.

import (
	"fmt"
	"strings"

	"verif/harness/internal/hx"
)

type osnap = map[string]otree

func objSnap(m map[string]map[string]interface{}) osnap {
	s := osnap{}
	for k, o := range m {
		s[k] = objTree(kindOfKey(k), o)
	}
	return s
}

func treeEq(a, b otree) bool { return a.coq() == b.coq() }

// tget follows a path of map fields / keyed-list element keys.
func (t otree) at(p []string) (otree, bool) {
	cur := t
	for _, k := range p {
		if cur.K != 'm' && cur.K != 'k' {
			return otree{}, false
		}
		c, ok := cur.get(k)
		if !ok {
			return otree{}, false
		}
		cur = c
	}
	return cur, true
}

// leaves: every path to a scalar, an atomic list or an EMPTY container.
func (t otree) leaves(prefix []string, f func(p []string, v otree)) {
	if (t.K == 'm' || t.K == 'k') && len(t.M) > 0 {
		for _, e := range t.M {
			e.V.leaves(append(append([]string{}, prefix...), e.Key), f)
		}
		return
	}
	f(prefix, t)
}

func leafMatches(want, got otree) bool {
	if want.K == 'm' || want.K == 'k' { // an empty container: a container of that kind is there
		return got.K == want.K
	}
	return treeEq(want, got)
}

func objLiveKeep(t otree, ok bool) bool {
	if !ok {
		return false
	}
	v, found := t.at([]string{"metadata", "annotations", "helm.sh/resource-policy"})
	return found && v.K == 's' && v.S == `"keep"`
}

func objUntouched(before, after osnap, key string) bool {
	b, okb := before[key]
	a, oka := after[key]
	if okb != oka {
		return false
	}
	return !okb || treeEq(a, b)
}

func objOracle(c *objCase, o *objObs) []hx.Violation {
	var vs []hx.Violation
	add := func(sig, what string) { vs = append(vs, hx.Violation{Sig: sig, What: what}) }
	before := objSnap(o.Before)
	for i, s := range c.Steps {
		if i >= len(o.Steps) {
			break
		}
		so := o.Steps[i]
		after := objSnap(so.Objs)
		if so.Panic != "" {
			add("C02:panic", fmt.Sprintf("step %d: kube.Client.%s panicked: %s", i, s.Verb, so.Panic))
		}
		if s.Verb != "edit" && so.Ok && so.Panic == "" {
			touched := map[string]bool{}
			for _, t := range s.Tgt {
				touched[t.Key()] = true
			}
			switch s.Verb {
			case "create":
				for _, t := range s.Tgt {
					if live, ok := after[t.Key()]; !ok || !treeEq(live, objTree(t.Kind, objFull(t))) {
						add("C02:kube-create-content", fmt.Sprintf("step %d: Create succeeded but %s is not the posted object", i, t.Key()))
					}
				}
			case "delete":
				for _, t := range s.Tgt {
					if _, ok := after[t.Key()]; ok {
						add("C02:kube-delete-left-object", fmt.Sprintf("step %d: Delete succeeded but %s still exists", i, t.Key()))
					}
				}
			case "update":
				origBy := map[string]otree{}
				for _, r := range s.Orig {
					origBy[r.Key()] = objTree(r.Kind, objFull(r))
					touched[r.Key()] = true
				}
				uniq := map[string]bool{}
				for _, t := range s.Tgt {
					uniq[t.Key()] = true
				}
				if len(uniq) == len(s.Tgt) {
					for _, t := range s.Tgt {
						vs = append(vs, objTargetOracle(i, s, t, origBy, before, after)...)
					}
				}
				for _, r := range s.Orig {
					if uniq[r.Key()] {
						continue
					}
					b, had := before[r.Key()]
					if objLiveKeep(b, had) {
						if !objUntouched(before, after, r.Key()) {
							add("C02:kube-update-kept-object-touched", fmt.Sprintf("step %d: %s carries the keep policy on the live object but was changed or deleted", i, r.Key()))
						}
					} else if _, ok := after[r.Key()]; ok {
						add("C02:kube-update-removed-not-deleted", fmt.Sprintf("step %d: %s was dropped from the manifest, has no live keep policy, and still exists", i, r.Key()))
					}
				}
			}
			for _, k := range allKeys2(before, after) {
				if !touched[k] && !objUntouched(before, after, k) {
					add("C02:kube-frame", fmt.Sprintf("step %d: kube.Client %s: object %s outside the given manifests was created, changed or deleted", i, s.Verb, k))
				}
			}
		}
		before = after
	}
	return vs
}

func allKeys2(ss ...osnap) []string {
	m := map[string]map[string]string{}
	for _, s := range ss {
		for k := range s {
			m[k] = nil
		}
	}
	return allKeys(m)
}

func objTargetOracle(i int, s objStep, t objRes, origBy map[string]otree, before, after osnap) []hx.Violation {
	var vs []hx.Violation
	add := func(sig, what string) { vs = append(vs, hx.Violation{Sig: sig, What: what}) }
	key := t.Key()
	tt := objTree(t.Kind, objFull(t))
	live, ok := after[key]
	if !ok {
		add("C02:kube-update-field-not-applied", fmt.Sprintf("step %d: Update succeeded but %s is in the manifest and not in the cluster", i, key))
		return vs
	}
	b, had := before[key]
	ot, hadOrig := origBy[key]
	// every field the manifest specifies
	tt.leaves(nil, func(p []string, want otree) {
		got, found := live.at(p)
		if found && leafMatches(want, got) {
			return
		}
		sig := "C02:kube-update-field-not-applied"
		// known finding K8-C02: a custom (unstructured) kind updated through Client.Update gets the TWO-way JSON
		// merge patch old manifest -> new manifest; a field both manifests give the same value is not in the patch,
		// so an out-of-band change of it on the live object is not corrected
		if objUnstructured(t.Kind) && !s.Force && !s.ThreeWay && had && hadOrig {
			if ov, ofound := ot.at(p); ofound && leafMatches(want, ov) && (want.K == 's' || want.K == 'a' || treeEq(want, ov)) {
				if bv, bfound := b.at(p); !bfound || !leafMatches(want, bv) {
					sig = "C02:unstructured-two-way-patch-leaves-drifted-field"
				}
			}
		}
		add(sig, fmt.Sprintf("step %d: Update succeeded but %s: manifest says %s = %s, cluster has %s (present=%v)",
			i, key, strings.Join(p, "."), want.coq(), got.coq(), found))
	})
	// foreign fields: on the live object before, named by neither manifest, inside containers the new manifest
	// still has (a replace --force makes no such promise)
	if had && !s.Force {
		b.leaves(nil, func(p []string, was otree) {
			// the longest prefix of p the target has
			n := 0
			for n < len(p) {
				if _, found := tt.at(p[:n+1]); !found {
					break
				}
				n++
			}
			if n == len(p) {
				return // specified
			}
			for j := 0; j <= n; j++ { // the merge descends only through containers of the same kind on both sides
				tv, _ := tt.at(p[:j])
				bv, _ := b.at(p[:j])
				if tv.K != bv.K || (tv.K != 'm' && tv.K != 'k') {
					return
				}
			}
			if hadOrig {
				if _, inOrig := ot.at(p[:n+1]); inOrig {
					return // named by the old manifest: dropped, not foreign
				}
			}
			if got, found := live.at(p); !found || !treeEq(got, was) {
				add("C02:kube-update-foreign-field-changed", fmt.Sprintf("step %d: %s: %s = %s is named by neither manifest and became %s (present=%v)",
					i, key, strings.Join(p, "."), was.coq(), got.coq(), found))
			}
		})
	}
	return vs
}

package main

// C07 — stamping: direct runs of the REAL setMetadataVisitor / checkOwnership
// (pkg/action/validate.go, through the add-only hook zz_verif_stamp.go) on the label and
// annotation maps of the objects of a case, printed for Engine/Stamp.v; and oracle clause 5
// (every manifest resource a successful install / upgrade / rollback created or updated carries
// exactly the three ownership values).

import (
	"encoding/json"
	"fmt"
	"reflect"
	"sort"
	"strings"

	"k8s.io/apimachinery/pkg/apis/meta/v1/unstructured"

	"helm.sh/helm/v4/pkg/action"
	rspb "helm.sh/helm/v4/pkg/release/v1"
	"helm.sh/helm/v4/pkg/storage/driver"

	"verif/harness/internal/eng"
	"verif/harness/internal/hx"
	"verif/harness/internal/sim"
)

func c07SplitMeta(f map[string]string) (l, a map[string]string) {
	l, a = map[string]string{}, map[string]string{}
	for k, v := range f {
		switch {
		case strings.HasPrefix(k, "l:"):
			l[k[2:]] = v
		case strings.HasPrefix(k, "a:"):
			a[k[2:]] = v
		}
	}
	return
}

func c07StrMap(m map[string]interface{}) map[string]string {
	out := map[string]string{}
	for k, v := range m {
		out[k] = fmt.Sprint(v)
	}
	return out
}

// one run of the real code on a fresh object built from the flattened fields
func c07StampOne(r eng.Res, rn, ns string, force bool) c07Stamp {
	st := c07Stamp{RN: rn, NS: ns, Force: force}
	st.Labels, st.Annots = c07SplitMeta(r.Fields)
	mk := func() *unstructured.Unstructured {
		return &unstructured.Unstructured{Object: sim.Object(r.Kind, r.Name, r.Fields)}
	}
	st.Owned = action.VerifCheckOwnership(mk(), rn, ns) == nil
	u := mk()
	if err := action.VerifSetMetadata(u, r.Kind, r.Name, "default", rn, ns, force); err != nil {
		st.Err = true
		return st
	}
	st.OutL, st.OutA = map[string]string{}, map[string]string{}
	if md, ok := u.Object["metadata"].(map[string]interface{}); ok {
		if l, ok := md["labels"].(map[string]interface{}); ok {
			st.OutL = c07StrMap(l)
		}
		if a, ok := md["annotations"].(map[string]interface{}); ok {
			st.OutA = c07StrMap(a)
		}
	}
	return st
}

// c07RunStamps: the manifest resources of the operation under test that render ownership
// metadata of their own and the pre-existing objects of the case (at most 2 objects), each
// stamped for this release with and without force; the first one also for another release.
func c07RunStamps(c c07Case) (out []c07Stamp) {
	defer func() {
		if x := recover(); x != nil {
			out = append(out, c07Stamp{RN: "panic: " + fmt.Sprint(x), Err: true})
		}
	}()
	var objs []eng.Res
	seen := map[string]bool{}
	add := func(r eng.Res) {
		l, a := c07SplitMeta(r.Fields)
		if len(l)+len(a) == 0 {
			return
		}
		b, _ := json.Marshal([]any{l, a})
		if !seen[string(b)] && len(objs) < 2 {
			seen[string(b)] = true
			objs = append(objs, r)
		}
	}
	if c.Test < len(c.H.Steps) && c.H.Steps[c.Test].Op != nil {
		for _, m := range c.H.Steps[c.Test].Op.Manifest {
			add(m)
		}
	}
	for _, s := range c.H.Steps {
		if s.Edit != nil && s.Edit.Set != nil {
			add(*s.Edit.Set)
		}
		if s.Op != nil && s.Op.Kind != "uninstall" {
			for _, m := range s.Op.Manifest {
				add(m)
			}
		}
	}
	for i := len(c.H.Init) - 1; i >= 0; i-- { // placed objects come after the bystanders
		add(c.H.Init[i])
	}
	for i, r := range objs {
		out = append(out, c07StampOne(r, eng.RelName, eng.RelNS, true), c07StampOne(r, eng.RelName, eng.RelNS, false))
		if i == 0 {
			out = append(out, c07StampOne(r, "other", "elsewhere", false), c07StampOne(r, "other", "elsewhere", true))
		}
	}
	return out
}

// clause 5 of the oracle, for EVERY operation of the history (not only the step under test):
// after a successful install / upgrade / rollback every resource of the manifest now deployed that
// the operation created or changed is stored with managed-by=Helm and this release's name and
// namespace — whatever the chart rendered for those keys.  Independently of the model: raw stored
// objects before and after, the release record's manifest.
func c07StampOracle(c c07Case, o c07Obs, add func(sig, what string)) {
	for i, s := range c.H.Steps {
		if s.Op == nil || i >= len(o.Obs.Steps) || i >= len(o.Pre) {
			continue
		}
		op, t := s.Op, o.Obs.Steps[i]
		if t.Outcome != "ok" || op.Flags.IsDry() || op.Kind == "uninstall" {
			continue
		}
		var mani []eng.Res
		hookKeys := map[string]bool{} // hook objects are not stamped and replace by key (see clause 2)
		for j := len(t.Ledger) - 1; j >= 0; j-- {
			if t.Ledger[j].Status == "deployed" && mani == nil {
				mani = t.Ledger[j].Manifest
			}
			for _, h := range t.Ledger[j].Hooks {
				hookKeys[h.Res.Key()] = true
			}
		}
		for _, m := range mani {
			k := m.Key()
			after, ok := t.Objs[k]
			if !ok || hookKeys[k] {
				continue // not there (e.g. removed by a hook with the same key): not "created or updated"
			}
			if before, had := o.Pre[i][k]; had && reflect.DeepEqual(before, after) {
				continue // untouched by this operation
			}
			var bad []string
			for _, kv := range [][2]string{{c07L, "Helm"}, {c07AN, eng.RelName}, {c07AS, eng.RelNS}} {
				if v, ok := after[kv[0]]; !ok || v != kv[1] {
					bad = append(bad, fmt.Sprintf("%s=%q (want %q, present=%v, the chart rendered %q)", kv[0][2:], v, kv[1], ok, m.Fields[kv[0]]))
				}
			}
			if len(bad) > 0 {
				sort.Strings(bad)
				add("C07:stored-without-forced-ownership-values", fmt.Sprintf("step %d (%s, scenario %s): %s was created or updated but is stored with %s",
					i, op.Kind, c.Scenario, k, strings.Join(bad, "; ")))
			}
		}
	}
	for _, st := range o.Stamps {
		if strings.HasPrefix(st.RN, "panic: ") {
			add("C07:panic", "setMetadataVisitor/checkOwnership panicked: "+st.RN)
			continue
		}
		// the property text on the function itself: a stamped object carries the three values
		if !st.Err && (st.OutL["app.kubernetes.io/managed-by"] != "Helm" || st.OutA["meta.helm.sh/release-name"] != st.RN ||
			st.OutA["meta.helm.sh/release-namespace"] != st.NS) {
			add("C07:stamp-does-not-force-ownership-values", fmt.Sprintf("setMetadataVisitor(%q, %q, force=%v) on labels %v annotations %v left labels %v annotations %v",
				st.RN, st.NS, st.Force, st.Labels, st.Annots, st.OutL, st.OutA))
		}
		if st.Force && st.Err {
			add("C07:forced-stamp-fails", fmt.Sprintf("setMetadataVisitor(%q, %q, force=true) failed on labels %v annotations %v", st.RN, st.NS, st.Labels, st.Annots))
		}
	}
}

func c07CoqStrMap(m map[string]string) string {
	keys := make([]string, 0, len(m))
	for k := range m {
		keys = append(keys, k)
	}
	sort.Strings(keys)
	return hx.CoqStrMap(keys, m)
}

func c07CoqStamps(sts []c07Stamp) string {
	var it []string
	for _, s := range sts {
		res := "None"
		if !s.Err {
			res = fmt.Sprintf("(Some (%s, %s))", c07CoqStrMap(s.OutL), c07CoqStrMap(s.OutA))
		}
		it = append(it, fmt.Sprintf("mkSO %s %s %s %s %s %s %s", hx.CoqStr(s.RN), hx.CoqStr(s.NS), hx.CoqBool(s.Force),
			c07CoqStrMap(s.Labels), c07CoqStrMap(s.Annots), hx.CoqBool(s.Owned), res))
	}
	return hx.CoqList(it)
}

var c07VerbCtor = map[string]string{"GET": "VGet", "POST": "VCreate", "PATCH": "VPatch", "PUT": "VPatch", "DELETE": "VDelete"}

// c07CoqLogs: per step, the first (manifest resources + 1) requests of an install / upgrade as
// they arrived at the server ([] for other steps) - what Run/RunC07.v compares with the model's
// pre-flight GETs.
func c07CoqLogs(c c07Case, o c07Obs) string {
	var it []string
	for i, s := range c.H.Steps {
		var rq []string
		if s.Op != nil && (s.Op.Kind == "install" || s.Op.Kind == "upgrade") && i < len(o.Log) {
			for j, q := range o.Log[i] {
				if j > len(s.Op.Manifest) {
					break
				}
				rq = append(rq, fmt.Sprintf("(%s, %s)", c07VerbCtor[q.Method], hx.CoqStr(q.Key)))
			}
		}
		it = append(it, hx.CoqList(rq))
	}
	return hx.CoqList(it)
}

// clause 6 of the oracle (request level): before the first request that creates, changes or
// deletes anything, install and upgrade have looked up (GET) every resource they would newly
// create - otherwise they cannot have refused "before creating, changing or deleting any
// resource".  Every install / upgrade without take-ownership of the history that sent a mutating request.
func c07PreflightOracle(c c07Case, o c07Obs, add func(sig, what string)) {
	for i, s := range c.H.Steps {
		if s.Op == nil || i >= len(o.Log) || i >= len(o.Obs.Steps) || (s.Op.Kind != "install" && s.Op.Kind != "upgrade") {
			continue
		}
		if s.Op.Flags.TakeOwnership {
			continue // no refusal is owed, so the text does not order the look-up before the writes
		}
		first := -1
		for j, q := range o.Log[i] {
			if q.Method != "GET" {
				first = j
				break
			}
		}
		if first < 0 {
			continue
		}
		// keys the operation would newly create: not in the manifest of the revision it starts from
		cur := map[string]bool{}
		if s.Op.Kind == "upgrade" {
			var prev []eng.LedgerRow
			for j := i - 1; j >= 0; j-- {
				if c.H.Steps[j].Op != nil {
					prev = o.Obs.Steps[j].Ledger
					break
				}
			}
			for j := len(prev) - 1; j >= 0; j-- {
				if prev[j].Status == "deployed" {
					cur = c07Keys(prev[j].Manifest)
					break
				}
			}
			if len(cur) == 0 && len(prev) > 0 {
				cur = c07Keys(prev[len(prev)-1].Manifest)
			}
		}
		for _, m := range s.Op.Manifest {
			k := m.Key()
			if cur[k] {
				continue
			}
			seen := false
			for _, q := range o.Log[i][:first] {
				if q.Method == "GET" && q.Key == k {
					seen = true
				}
			}
			if !seen {
				add("C07:mutation-before-ownership-lookup", fmt.Sprintf("step %d (%s, scenario %s): %s %s was sent before any GET of %s, which the operation would newly create",
					i, s.Op.Kind, c.Scenario, o.Log[i][first].Method, o.Log[i][first].Key, k))
			}
		}
	}
}

// c07Ledger: the stored revisions as eng prints them (own copy: the C07 binary is built from the
// c07*.go files only)
func c07Ledger(inner driver.Driver) []eng.LedgerRow {
	rs, _ := inner.List(func(*rspb.Release) bool { return true })
	var out []eng.LedgerRow
	for _, x := range rs {
		row := eng.LedgerRow{Rev: x.Version, Manifest: eng.ParseManifest(x.Manifest), Hooks: eng.ParseHooks(x.Hooks)}
		if x.Info != nil {
			row.Status = string(x.Info.Status)
		}
		if x.Chart != nil && x.Chart.Metadata != nil {
			fmt.Sscanf(x.Chart.Metadata.Version, "0.%d.0", &row.ChartID)
		}
		if v, ok := x.Config["v"]; ok {
			switch n := v.(type) {
			case float64:
				row.ValsID = int(n)
			case int:
				row.ValsID = n
			case int64:
				row.ValsID = int(n)
			}
		}
		out = append(out, row)
	}
	sort.Slice(out, func(i, j int) bool { return out[i].Rev < out[j].Rev })
	return out
}

// c07CoqIntr: per step, the intruder of the operation (Engine/OwnershipRace.v)
func c07CoqIntr(c c07Case) string {
	var it []string
	for _, s := range c.H.Steps {
		if s.Op == nil || s.Op.Intr == nil {
			it = append(it, "None")
			continue
		}
		when := "IPost"
		if s.Op.Intr.When == "get404" {
			when = fmt.Sprintf("(IGet404 %d)", s.Op.Intr.Nth)
		}
		it = append(it, fmt.Sprintf("(Some (mkIntr %s %s %s))", hx.CoqStr(s.Op.Intr.Obj.Key()), when, c07CoqStrMap(s.Op.Intr.Obj.Fields)))
	}
	return hx.CoqList(it)
}

// clause 7 of the oracle.  "Helm never takes over ... a resource ... that already exists and is not
// labelled as belonging to this release, unless take-ownership": when another actor created an
// object at a key the operation was about to create (after Helm's look-up answered "not found",
// before Helm's POST), the operation must not report success without take-ownership, and the
// foreign object must be left exactly as the other actor made it (with take-ownership: or be adopted,
// i.e. carry this release's ownership metadata).  And, for every operation of the history: after a
// reported success every object at a key of the deployed revision's manifest carries the metadata.
func c07RaceOracle(c c07Case, o c07Obs, add func(sig, what string)) {
	for i, s := range c.H.Steps {
		if s.Op == nil || i >= len(o.Obs.Steps) {
			continue
		}
		op, t := s.Op, o.Obs.Steps[i]
		if t.Outcome == "ok" && !op.Flags.IsDry() && op.Kind != "uninstall" {
			hookKeys := map[string]bool{}
			var mani []eng.Res
			for j := len(t.Ledger) - 1; j >= 0; j-- {
				if t.Ledger[j].Status == "deployed" && mani == nil {
					mani = t.Ledger[j].Manifest
				}
				for _, h := range t.Ledger[j].Hooks {
					hookKeys[h.Res.Key()] = true
				}
			}
			for _, m := range mani {
				if live, ok := t.Objs[m.Key()]; ok && !hookKeys[m.Key()] && !c07Owned(live) {
					add("C07:deployed-manifest-object-not-owned", fmt.Sprintf("step %d (%s, scenario %s) reported success, but %s of the deployed manifest is %v: not this release's",
						i, op.Kind, c.Scenario, m.Key(), live))
				}
			}
		}
		if op.Intr == nil || !t.IntrFired {
			continue
		}
		k := op.Intr.Obj.Key()
		what := fmt.Sprintf("step %d (%s, scenario %s, %s): another actor created %s %s", i, op.Kind, c.Scenario, c.Intr, k,
			map[string]string{"get404": fmt.Sprintf("after GET #%d of it was answered 404", op.Intr.Nth), "post": "just before Helm's POST"}[op.Intr.When])
		if t.Outcome == "ok" && !op.Flags.TakeOwnership {
			add("C07:raced-create-reported-success", what+"; the operation reported success")
		}
		after, there := t.Objs[k]
		if there && reflect.DeepEqual(after, op.Intr.Obj.Fields) {
			continue // untouched
		}
		if op.Flags.TakeOwnership && there && c07Owned(after) {
			continue // adopted, as requested
		}
		how := "cleanup-on-fail"
		if op.Flags.Atomic {
			how = "atomic"
		}
		if !there {
			add(fmt.Sprintf("C07:raced-foreign-object-deleted-by-failure-cleanup/%s/%s", op.Kind, how), what+"; the operation failed and its clean-up DELETED that object, which Helm neither created nor owns")
		} else {
			add("C07:raced-foreign-object-changed", fmt.Sprintf("%s; afterwards it is %v", what, after))
		}
	}
}

package main

// Translator table for C06: the DRY-RUN FLOW of pkg/action (coq/Gen/DryFlow.v), read with
// go/ast on every run.  Independent of gentables_skel.go (other classification, other use).
//
// Every function of the files listed in flowFiles becomes a flow: a tree of
//   DCall target mode name   a call that reaches (or could reach) the cluster / the release
//                            storage / a local resource: KubeClient.*, Waiter.*, Driver.*,
//                            Helper.*, discovery, REST mapper, Engine.Render (remote / local),
//                            PostRenderer.Run, writeToFile
//   DFn callee args          a call of another function of the table; args: the conditions
//                            bound to its boolean / presence-tested parameters
//   DNested T sets           Run of a freshly constructed action T (NewUninstall, ...) with the
//                            options it is given
//   DSet x c                 a local boolean (x := c; var x bool; x = true)
//   DSwap what               cfg.KubeClient / cfg.Releases / cfg.Capabilities is assigned
//   DIf c th el, DLoop b, DRet
//   DOpaque name             a call that could hide anything: an unknown method of a tracked
//                            value, an untracked function given a tracked value, a closure with
//                            effects in an unknown position, an assignment to an option.  The
//                            analysis in Coq treats it as "may do everything".
// Conditions: options of the action by field name (DcFlag), isDryRun() (DcDry),
// DryRunOption == "lit" (DcOpt), local booleans and parameters (DcVar), cfg.Capabilities != nil
// (DcCaps), cfg.RESTClientGetter != nil (DcGetter), !, &&, ||, literals; everything else DcData
// (goes both ways).
//
// Only the flows reachable from Install.RunWithContext, Upgrade.RunWithContext, Rollback.Run,
// Uninstall.Run are printed (in first-reached order).  The second table is the option plumbing
// of `helm template`: the assignments to the Install action in newTemplateCmd's RunE, and the
// values runInstall accepts for --dry-run.
//
// Trusted: the classification tables below (which methods of which values are effects), the
// class inference by field / type / constructor NAME (no go/types), and that the translator
// prints what it read.

import (
	"fmt"
	"go/ast"
	"go/token"
	"sort"
	"strings"

	"verif/harness/internal/hx"
)

func init() { registerTable("DryFlow", genDryFlow) }

var flowFiles = []string{
	"pkg/action/install.go", "pkg/action/upgrade.go", "pkg/action/rollback.go", "pkg/action/uninstall.go",
	"pkg/action/action.go", "pkg/action/hooks.go", "pkg/action/validate.go", "pkg/action/history.go",
	"pkg/action/resource_policy.go", "pkg/storage/storage.go",
}

var flowEntries = []string{"Install.RunWithContext", "Upgrade.RunWithContext", "Rollback.Run", "Uninstall.Run"}

// receiver / parameter / result type -> class.  Types of this package by bare name, imported
// types by qualified name (kubernetes.Interface is not kube.Interface).
var flowTypeClass = map[string]string{
	"Install": "action", "Upgrade": "action", "Rollback": "action", "Uninstall": "action", "History": "action",
	"Configuration": "cfg", "Storage": "storage", "RESTClientGetter": "getter",
	"kube.Interface": "kube", "kube.Waiter": "waiter", "postrender.PostRenderer": "post",
	"discovery.ServerResourcesInterface": "disc", "discovery.CachedDiscoveryInterface": "disc",
	"discovery.DiscoveryInterface": "disc", "driver.Driver": "driver", "storage.Storage": "storage",
	"action.Configuration": "cfg",
}

// flowQualName: Name for a type of the package itself, pkg.Name for an imported one
func flowQualName(t ast.Expr) string {
	switch v := t.(type) {
	case *ast.StarExpr:
		return flowQualName(v.X)
	case *ast.Ident:
		return v.Name
	case *ast.SelectorExpr:
		if id, ok := v.X.(*ast.Ident); ok {
			return id.Name + "." + v.Sel.Name
		}
	}
	return ""
}

// field name on a value of a class -> class
var flowFieldClass = map[string]string{
	"action.cfg": "cfg", "cfg.KubeClient": "kube", "cfg.Releases": "storage", "cfg.RESTClientGetter": "getter",
	"storage.Driver": "driver", "action.PostRenderer": "post",
}

// constructor -> class of its result
var flowCtorClass = map[string]string{
	"NewUninstall": "nested:Uninstall", "NewRollback": "nested:Rollback", "NewHistory": "nested:History",
	"NewInstall": "nested:Install", "NewUpgrade": "nested:Upgrade",
	"resource.NewHelper": "helper", "engine.New": "rengine", "driver.NewMemory": "memdriver",
}

type flowPrim struct {
	target, mode, name, result string
}

// class.method -> effect
var flowPrims = map[string]flowPrim{
	"kube.IsReachable":                   {"OnKube", "MRead", "KubeClient.IsReachable", ""},
	"kube.Build":                         {"OnKube", "MRead", "KubeClient.Build", ""},
	"kube.BuildTable":                    {"OnKube", "MRead", "KubeClient.Build", ""},
	"kube.Create":                        {"OnKube", "MMut", "KubeClient.Create", ""},
	"kube.Update":                        {"OnKube", "MMut", "KubeClient.Update", ""},
	"kube.UpdateThreeWayMerge":           {"OnKube", "MMut", "KubeClient.Update", ""},
	"kube.Delete":                        {"OnKube", "MMut", "KubeClient.Delete", ""},
	"kube.DeleteWithPropagationPolicy":   {"OnKube", "MMut", "KubeClient.Delete", ""},
	"kube.GetWaiter":                     {"OnKube", "MNone", "KubeClient.GetWaiter", "waiter"},
	"kube.GetPodList":                    {"OnKube", "MRead", "KubeClient.GetPodList", ""},
	"kube.OutputContainerLogsForPodList": {"OnKube", "MRead", "KubeClient.OutputContainerLogsForPodList", ""},
	"kube.WaitAndGetCompletedPodPhase":   {"OnKube", "MRead", "KubeClient.WaitAndGetCompletedPodPhase", ""},
	"waiter.Wait":                        {"OnKube", "MRead", "Waiter.Wait", ""},
	"waiter.WaitWithJobs":                {"OnKube", "MRead", "Waiter.Wait", ""},
	"waiter.WaitForDelete":               {"OnKube", "MRead", "Waiter.WaitForDelete", ""},
	"waiter.WatchUntilReady":             {"OnKube", "MRead", "Waiter.WatchUntilReady", ""},
	"driver.Get":                         {"OnStore", "MRead", "Driver.Get", ""},
	"driver.Query":                       {"OnStore", "MRead", "Driver.Query", ""},
	"driver.List":                        {"OnStore", "MRead", "Driver.List", ""},
	"driver.Create":                      {"OnStore", "MMut", "Driver.Create", ""},
	"driver.Update":                      {"OnStore", "MMut", "Driver.Update", ""},
	"driver.Delete":                      {"OnStore", "MMut", "Driver.Delete", ""},
	"driver.Name":                        {"OnStore", "MNone", "Driver.Name", ""},
	"getter.ToRESTConfig":                {"OnGetter", "MNone", "Getter.ToRESTConfig", "restcfg"},
	"getter.ToDiscoveryClient":           {"OnGetter", "MNone", "Getter.ToDiscoveryClient", "disc"},
	"getter.ToRESTMapper":                {"OnGetter", "MRead", "Getter.ToRESTMapper", "mapper"},
	"disc.Invalidate":                    {"OnGetter", "MNone", "Discovery.Invalidate", ""},
	"disc.ServerVersion":                 {"OnGetter", "MRead", "Discovery.ServerVersion", ""},
	"disc.ServerGroups":                  {"OnGetter", "MRead", "Discovery.ServerGroups", ""},
	"disc.ServerGroupsAndResources":      {"OnGetter", "MRead", "Discovery.ServerGroupsAndResources", ""},
	"mapper.Reset":                       {"OnGetter", "MNone", "Mapper.Reset", ""},
	"rengine.Render":                     {"OnGetter", "MRead", "Engine.Render.remote", ""},
	"lengine.Render":                     {"OnLocal", "MNone", "Engine.Render.local", ""},
	"post.Run":                           {"OnLocal", "MNone", "PostRenderer.Run", ""},
	"helper.Get":                         {"OnKube", "MRead", "Helper.Get", ""},
}

// functions of the table that are effects by themselves (their bodies use only os / io)
var flowFuncPrims = map[string]flowPrim{
	"writeToFile": {"OnLocal", "MNone", "writeToFile", ""},
}

// methods of tracked values that are known to do nothing (sync, plain data)
var flowPure = map[string]bool{
	"action.Lock": true, "cfg.HookOutputFunc": true, "cfg.Capabilities": true, "cfg.RegistryClient": true,
}

type flowNode struct {
	Kind string // Call Fn Nested Set Swap If Loop Ret Opaque
	A, B string
	C    string // condition (Coq term) / target
	Args []string
	Th   []flowNode
	El   []flowNode
}

type flowFn struct {
	key    string
	decl   *ast.FuncDecl
	recv   string // receiver variable
	rclass string
	params []string
	ret    string // type name of the first result
}

type flowCtx struct {
	fns     map[string]*flowFn
	boolFld map[string]map[string]bool // type -> bool fields
	bodies  map[string][]flowNode      // built flows (memo)
	busy    map[string]bool
	retSets map[string][]string // function returning a nested action: the options it set on it
}

type flowScope struct {
	ctx    *flowCtx
	fn     *flowFn
	class  map[string]string            // local / param -> class
	bools  map[string]bool              // local booleans and condition-bound parameters
	nested map[string][]string          // nested action variable -> "Field:cond" settings (ordered)
	ntype  map[string]string            // nested action variable -> type
	vals   map[string]map[string]string // unused
}

func flowTypeName(t ast.Expr) string {
	switch v := t.(type) {
	case *ast.StarExpr:
		return flowTypeName(v.X)
	case *ast.Ident:
		return v.Name
	case *ast.SelectorExpr:
		return v.Sel.Name
	}
	return ""
}

func (s *flowScope) classOf(e ast.Expr) string {
	switch v := e.(type) {
	case *ast.ParenExpr:
		return s.classOf(v.X)
	case *ast.StarExpr:
		return s.classOf(v.X)
	case *ast.UnaryExpr:
		if v.Op == token.AND {
			return s.classOf(v.X)
		}
	case *ast.TypeAssertExpr:
		return s.classOf(v.X)
	case *ast.Ident:
		return s.class[v.Name]
	case *ast.SelectorExpr:
		c := s.classOf(v.X)
		if c == "" {
			return ""
		}
		if strings.HasPrefix(c, "nested:") {
			return ""
		}
		if fc, ok := flowFieldClass[c+"."+v.Sel.Name]; ok {
			return fc
		}
		return ""
	case *ast.CallExpr:
		name := flowCallName(v.Fun)
		if c, ok := flowCtorClass[name]; ok {
			return c
		}
		if sel, ok := v.Fun.(*ast.SelectorExpr); ok {
			if p, ok := flowPrims[s.classOf(sel.X)+"."+sel.Sel.Name]; ok {
				return p.result
			}
		}
		// a function of the table: the class of its declared result
		if key := s.calleeKey(v); key != "" {
			ret := s.ctx.fns[key].ret
			if flowTypeClass[ret] == "action" {
				return "nested:" + ret
			}
			return flowTypeClass[ret]
		}
	}
	return ""
}

// calleeKey: the table function a call goes to ("" when it is none)
func (s *flowScope) calleeKey(c *ast.CallExpr) string {
	switch f := c.Fun.(type) {
	case *ast.Ident:
		if _, ok := s.ctx.fns[f.Name]; ok {
			return f.Name
		}
	case *ast.SelectorExpr:
		typ := ""
		switch s.classOf(f.X) {
		case "action":
			if s.isRecv(f.X) {
				typ = s.recvType()
			}
		case "cfg":
			typ = "Configuration"
		case "storage":
			typ = "Storage"
		}
		if typ != "" {
			if _, ok := s.ctx.fns[typ+"."+f.Sel.Name]; ok {
				return typ + "." + f.Sel.Name
			}
		}
	}
	return ""
}

func flowCallName(f ast.Expr) string {
	switch v := f.(type) {
	case *ast.Ident:
		return v.Name
	case *ast.SelectorExpr:
		if id, ok := v.X.(*ast.Ident); ok {
			return id.Name + "." + v.Sel.Name
		}
		return v.Sel.Name
	}
	return ""
}

// ---- conditions ----

func (s *flowScope) isRecv(e ast.Expr) bool {
	id, ok := e.(*ast.Ident)
	return ok && s.fn.recv != "" && id.Name == s.fn.recv && s.fn.rclass == "action"
}

func (s *flowScope) recvType() string {
	if s.fn.decl.Recv == nil {
		return ""
	}
	return flowTypeName(s.fn.decl.Recv.List[0].Type)
}

func flowIsNil(e ast.Expr) bool { id, ok := e.(*ast.Ident); return ok && id.Name == "nil" }

func (s *flowScope) cond(e ast.Expr) string {
	switch v := e.(type) {
	case *ast.ParenExpr:
		return s.cond(v.X)
	case *ast.Ident:
		switch v.Name {
		case "true":
			return "DcTrue"
		case "false":
			return "DcFalse"
		}
		if s.bools[v.Name] {
			return "(DcVar " + hx.CoqStr(v.Name) + ")"
		}
	case *ast.UnaryExpr:
		if v.Op == token.NOT {
			return "(DcNot " + s.cond(v.X) + ")"
		}
	case *ast.BinaryExpr:
		switch v.Op {
		case token.LAND:
			return "(DcAnd " + s.cond(v.X) + " " + s.cond(v.Y) + ")"
		case token.LOR:
			return "(DcOr " + s.cond(v.X) + " " + s.cond(v.Y) + ")"
		case token.EQL, token.NEQ:
			c := s.eqCond(v.X, v.Y)
			if c == "" {
				c = s.eqCond(v.Y, v.X)
			}
			if c != "" {
				if v.Op == token.NEQ {
					return "(DcNot " + c + ")"
				}
				return c
			}
		}
	case *ast.SelectorExpr:
		if s.isRecv(v.X) && s.ctx.boolFld[s.recvType()][v.Sel.Name] {
			return "(DcFlag " + hx.CoqStr(v.Sel.Name) + ")"
		}
	case *ast.CallExpr:
		if sel, ok := v.Fun.(*ast.SelectorExpr); ok && s.isRecv(sel.X) && sel.Sel.Name == "isDryRun" && len(v.Args) == 0 {
			return "DcDry"
		}
	}
	return "DcData"
}

// x == y where the pair has a meaning: DryRunOption == "lit", Capabilities == nil, getter == nil,
// presence-tested parameter == nil / == ""
func (s *flowScope) eqCond(x, y ast.Expr) string {
	if sel, ok := x.(*ast.SelectorExpr); ok {
		if s.isRecv(sel.X) && sel.Sel.Name == "DryRunOption" {
			if lit, ok := strLit(y); ok {
				return "(DcOpt " + hx.CoqStr(lit) + ")"
			}
		}
		if s.classOf(sel.X) == "cfg" && flowIsNil(y) {
			switch sel.Sel.Name {
			case "Capabilities":
				return "(DcNot DcCaps)"
			case "RESTClientGetter":
				return "(DcNot DcGetter)"
			}
		}
	}
	if id, ok := x.(*ast.Ident); ok && s.bools[id.Name] {
		if flowIsNil(y) {
			return "(DcNot (DcVar " + hx.CoqStr(id.Name) + "))"
		}
		if lit, ok := strLit(y); ok && lit == "" {
			return "(DcNot (DcVar " + hx.CoqStr(id.Name) + "))"
		}
	}
	return ""
}

// the condition an argument binds to a presence-tested / boolean parameter
func (s *flowScope) argCond(e ast.Expr, ptype string) string {
	if ptype == "bool" {
		return s.cond(e)
	}
	if flowIsNil(e) {
		return "DcFalse"
	}
	if lit, ok := strLit(e); ok {
		if lit == "" {
			return "DcFalse"
		}
		return "DcTrue"
	}
	if sel, ok := e.(*ast.SelectorExpr); ok && s.isRecv(sel.X) {
		return "(DcFlag " + hx.CoqStr(sel.Sel.Name) + ")"
	}
	if id, ok := e.(*ast.Ident); ok && s.bools[id.Name] {
		return "(DcVar " + hx.CoqStr(id.Name) + ")"
	}
	return "DcData"
}

// ---- expressions: effects in evaluation order ----

func opaque(format string, a ...interface{}) flowNode {
	return flowNode{Kind: "Opaque", A: fmt.Sprintf(format, a...)}
}

func (s *flowScope) exprs(es []ast.Expr) []flowNode {
	var out []flowNode
	for _, e := range es {
		out = append(out, s.expr(e)...)
	}
	return out
}

func (s *flowScope) expr(e ast.Expr) []flowNode {
	switch v := e.(type) {
	case nil:
		return nil
	case *ast.CallExpr:
		return s.call(v)
	case *ast.ParenExpr:
		return s.expr(v.X)
	case *ast.StarExpr:
		return s.expr(v.X)
	case *ast.UnaryExpr:
		return s.expr(v.X)
	case *ast.BinaryExpr:
		return append(s.expr(v.X), s.expr(v.Y)...)
	case *ast.SelectorExpr:
		// a method of a tracked value used as a value (not called here) could be called anywhere
		if cls := s.classOf(v.X); cls != "" && !strings.HasPrefix(cls, "nested:") {
			if _, ok := flowPrims[cls+"."+v.Sel.Name]; ok {
				return append(s.expr(v.X), opaque("method value %s.%s", cls, v.Sel.Name))
			}
			for _, t := range []string{"Install", "Upgrade", "Rollback", "Uninstall", "History", "Configuration", "Storage"} {
				if flowTypeClass[t] == cls {
					if _, ok := s.ctx.fns[t+"."+v.Sel.Name]; ok && !(cls == "action" && t != s.recvType()) {
						return append(s.expr(v.X), opaque("method value %s.%s", t, v.Sel.Name))
					}
				}
			}
		}
		return s.expr(v.X)
	case *ast.IndexExpr:
		return append(s.expr(v.X), s.expr(v.Index)...)
	case *ast.SliceExpr:
		return append(append(append(s.expr(v.X), s.expr(v.Low)...), s.expr(v.High)...), s.expr(v.Max)...)
	case *ast.TypeAssertExpr:
		return s.expr(v.X)
	case *ast.KeyValueExpr:
		return append(s.expr(v.Key), s.expr(v.Value)...)
	case *ast.CompositeLit:
		out := s.exprs(v.Elts)
		if flowTypeClass[flowQualName(v.Type)] == "action" {
			return out // an action struct keeps its configuration: followed through the field class action.cfg
		}
		for _, el := range v.Elts {
			val := el
			if kv, ok := el.(*ast.KeyValueExpr); ok {
				val = kv.Value
			}
			if c := s.classOf(val); c != "" && c != "restcfg" && c != "memdriver" {
				out = append(out, opaque("tracked value (%s) stored in a composite literal", c))
			}
		}
		return out
	case *ast.FuncLit:
		// a closure that is not called on the spot: it may run any number of times from here on
		// (dropped later when its body turns out to be free of effects)
		return []flowNode{{Kind: "Loop", Th: flowLoopBody(s.block(v.Body.List))}}
	}
	return nil
}

func flowHasEffect(l []flowNode) bool {
	for _, n := range l {
		switch n.Kind {
		case "Call", "Fn", "Nested", "Swap", "Opaque":
			return true
		case "If", "Loop":
			if flowHasEffect(n.Th) || flowHasEffect(n.El) {
				return true
			}
		}
	}
	return false
}

func (s *flowScope) tracksArg(args []ast.Expr) bool {
	for _, a := range args {
		if c := s.classOf(a); c != "" && c != "restcfg" && c != "memdriver" {
			return true
		}
	}
	return false
}

func (s *flowScope) fnCall(key string, args []ast.Expr) flowNode {
	callee := s.ctx.fns[key]
	n := flowNode{Kind: "Fn", A: key}
	types := flowParamTypes(callee.decl)
	for i, p := range callee.params {
		if i >= len(args) {
			break
		}
		t := types[i]
		if t == "bool" || t == "string" || t == "PostRenderer" {
			n.Args = append(n.Args, "("+hx.CoqStr(p)+", "+s.argCond(args[i], t)+")")
		}
	}
	return n
}

func flowParamTypes(fd *ast.FuncDecl) []string { return flowParamTypesBy(fd, flowTypeName) }

func flowParamTypesBy(fd *ast.FuncDecl, name func(ast.Expr) string) []string {
	var out []string
	for _, f := range fd.Type.Params.List {
		t := name(f.Type)
		if _, ok := f.Type.(*ast.Ellipsis); ok {
			t = "..."
		}
		n := len(f.Names)
		if n == 0 {
			n = 1
		}
		for i := 0; i < n; i++ {
			out = append(out, t)
		}
	}
	return out
}

func (s *flowScope) call(c *ast.CallExpr) []flowNode {
	var out []flowNode
	// receiver expression, then arguments, then the call
	if sel, ok := c.Fun.(*ast.SelectorExpr); ok {
		out = append(out, s.expr(sel.X)...)
	}
	// Visit(func ...) : the closure runs once per element
	if sel, ok := c.Fun.(*ast.SelectorExpr); ok && sel.Sel.Name == "Visit" && len(c.Args) == 1 {
		if fl, ok := c.Args[0].(*ast.FuncLit); ok {
			body := s.block(fl.Body.List)
			if flowHasEffect(body) {
				out = append(out, flowNode{Kind: "Loop", Th: flowLoopBody(body)})
			}
			return out
		}
	}
	for _, a := range c.Args {
		if fl, ok := a.(*ast.FuncLit); ok {
			body := s.block(fl.Body.List)
			if flowHasEffect(body) {
				out = append(out, opaque("closure with effects passed to %s", flowCallName(c.Fun)))
			}
			continue
		}
		out = append(out, s.expr(a)...)
	}
	switch f := c.Fun.(type) {
	case *ast.FuncLit: // func(){...}()
		return append(out, s.block(f.Body.List)...)
	case *ast.Ident:
		if p, ok := flowFuncPrims[f.Name]; ok {
			return append(out, flowNode{Kind: "Call", C: p.target, B: p.mode, A: p.name})
		}
		if _, ok := s.ctx.fns[f.Name]; ok {
			return append(out, s.fnCall(f.Name, c.Args))
		}
		if _, ok := flowCtorClass[f.Name]; ok {
			return out
		}
		if s.tracksArg(c.Args) {
			return append(out, opaque("%s given a tracked value", f.Name))
		}
		return out
	case *ast.SelectorExpr:
		cls := s.classOf(f.X)
		m := f.Sel.Name
		switch {
		case cls == "":
			name := flowCallName(f)
			if _, ok := flowCtorClass[name]; ok {
				return out
			}
			if s.tracksArg(c.Args) && name != "errors.Wrap" && name != "errors.Wrapf" {
				return append(out, opaque("%s given a tracked value", name))
			}
			return out
		case strings.HasPrefix(cls, "nested:"):
			typ := strings.TrimPrefix(cls, "nested:")
			id, _ := f.X.(*ast.Ident)
			if m == "Run" && id != nil {
				return append(out, flowNode{Kind: "Nested", A: typ + ".Run", Args: s.nested[id.Name]})
			}
			return append(out, opaque("method %s of a nested %s", m, typ))
		case cls == "action" || cls == "cfg" || cls == "storage":
			typ := ""
			switch cls {
			case "action":
				if s.isRecv(f.X) {
					typ = s.recvType()
				}
			case "cfg":
				typ = "Configuration"
			case "storage":
				typ = "Storage"
			}
			if typ != "" {
				if cls == "action" && m == "isDryRun" {
					return out
				}
				if _, ok := s.ctx.fns[typ+"."+m]; ok {
					return append(out, s.fnCall(typ+"."+m, c.Args))
				}
			}
			if cls == "storage" {
				if p, ok := flowPrims["driver."+m]; ok { // promoted from the embedded driver
					return append(out, flowNode{Kind: "Call", C: p.target, B: p.mode, A: p.name})
				}
			}
			if flowPure[cls+"."+m] {
				return out
			}
			return append(out, opaque("unknown method %s.%s", cls, m))
		case cls == "memdriver":
			return out
		default:
			if p, ok := flowPrims[cls+"."+m]; ok {
				return append(out, flowNode{Kind: "Call", C: p.target, B: p.mode, A: p.name})
			}
			if cls == "restcfg" {
				return out
			}
			return append(out, opaque("unknown method %s.%s", cls, m))
		}
	}
	return out
}

// inside a loop body a return ends the iteration, not the function
func flowLoopBody(l []flowNode) []flowNode {
	var out []flowNode
	for _, n := range l {
		switch n.Kind {
		case "Ret":
			out = append(out, flowNode{Kind: "Break"})
		case "If":
			n.Th, n.El = flowLoopBody(n.Th), flowLoopBody(n.El)
			out = append(out, n)
		default:
			out = append(out, n)
		}
	}
	return out
}

// ---- statements ----

func (s *flowScope) block(l []ast.Stmt) []flowNode {
	var out []flowNode
	for _, st := range l {
		out = append(out, s.stmt(st)...)
	}
	return out
}

func (s *flowScope) assign(lhs, rhs []ast.Expr, define bool) []flowNode {
	out := s.exprs(rhs)
	for i, l := range lhs {
		var r ast.Expr
		if len(rhs) == len(lhs) {
			r = rhs[i]
		} else if len(rhs) == 1 && i == 0 {
			r = rhs[0]
		}
		switch lv := l.(type) {
		case *ast.Ident:
			if lv.Name == "_" || r == nil {
				continue
			}
			if c := s.classOf(r); c != "" {
				s.class[lv.Name] = c
				if strings.HasPrefix(c, "nested:") {
					s.ntype[lv.Name] = strings.TrimPrefix(c, "nested:")
					s.nested[lv.Name] = nil
					if ce, isCall := r.(*ast.CallExpr); isCall && flowCtorClass[flowCallName(ce.Fun)] == "" {
						if key := s.calleeKey(ce); key != "" {
							// built by a helper of the table: the options the helper set, as far as
							// they are stated in terms of the same receiver; otherwise all unknown
							s.ctx.build(key)
							sets, known := s.ctx.retSets[key]
							if !known || s.ctx.fns[key].rclass != "action" || flowTypeName(s.ctx.fns[key].decl.Recv.List[0].Type) != s.recvType() {
								sets = []string{`("*", DcData)`}
							}
							s.nested[lv.Name] = append([]string{}, sets...)
						}
					}
				}
				continue
			}
			if c := s.cond(r); c != "DcData" || flowIsBoolExpr(r) || s.bools[lv.Name] {
				s.bools[lv.Name] = true
				out = append(out, flowNode{Kind: "Set", A: lv.Name, C: c})
			}
		case *ast.SelectorExpr:
			// option of a nested action
			if id, ok := lv.X.(*ast.Ident); ok && s.ntype[id.Name] != "" {
				if s.ctx.boolFld[s.ntype[id.Name]][lv.Sel.Name] && r != nil {
					s.nested[id.Name] = append(s.nested[id.Name], "("+hx.CoqStr(lv.Sel.Name)+", "+s.cond(r)+")")
				}
				continue
			}
			cls := s.classOf(lv.X)
			if rc := s.classOf(r); r != nil && rc != "" && rc != "restcfg" && rc != "memdriver" && !(cls == "cfg") {
				out = append(out, opaque("tracked value (%s) stored in a field", rc))
				continue
			}
			switch {
			case cls == "cfg" && (lv.Sel.Name == "KubeClient" || lv.Sel.Name == "Releases" || lv.Sel.Name == "Capabilities" || lv.Sel.Name == "RESTClientGetter"):
				// the client may only become the printing fake, the store only a fresh memory store
				ok := lv.Sel.Name == "Capabilities" && r != nil && !flowIsNil(r)
				if lv.Sel.Name == "KubeClient" && r != nil {
					if u, isU := r.(*ast.UnaryExpr); isU && u.Op == token.AND {
						if cl, isC := u.X.(*ast.CompositeLit); isC && flowCallName(cl.Type) == "kubefake.PrintingKubeClient" {
							ok = true
						}
					}
				}
				if lv.Sel.Name == "Releases" && r != nil {
					if ce, isC := r.(*ast.CallExpr); isC && flowCallName(ce.Fun) == "storage.Init" && len(ce.Args) == 1 {
						if id, isI := ce.Args[0].(*ast.Ident); isI && s.class[id.Name] == "memdriver" {
							ok = true
						}
					}
				}
				if ok {
					out = append(out, flowNode{Kind: "Swap", A: lv.Sel.Name})
				} else {
					out = append(out, opaque("assignment to cfg.%s", lv.Sel.Name))
				}
			case s.isRecv(lv.X) && (s.ctx.boolFld[s.recvType()][lv.Sel.Name] || lv.Sel.Name == "DryRunOption" || lv.Sel.Name == "cfg"):
				out = append(out, opaque("assignment to the option %s", lv.Sel.Name))
			}
		}
	}
	return out
}

func flowIsBoolExpr(e ast.Expr) bool {
	switch v := e.(type) {
	case *ast.ParenExpr:
		return flowIsBoolExpr(v.X)
	case *ast.Ident:
		return v.Name == "true" || v.Name == "false"
	case *ast.UnaryExpr:
		return v.Op == token.NOT
	case *ast.BinaryExpr:
		switch v.Op {
		case token.LAND, token.LOR, token.EQL, token.NEQ, token.LSS, token.GTR, token.LEQ, token.GEQ:
			return true
		}
	}
	return false
}

func (s *flowScope) stmt(st ast.Stmt) []flowNode {
	switch v := st.(type) {
	case nil, *ast.EmptyStmt, *ast.BranchStmt, *ast.IncDecStmt:
		if b, ok := st.(*ast.BranchStmt); ok && (b.Tok == token.BREAK || b.Tok == token.CONTINUE) {
			return []flowNode{{Kind: "Break"}}
		}
		return nil
	case *ast.ExprStmt:
		return s.expr(v.X)
	case *ast.AssignStmt:
		return s.assign(v.Lhs, v.Rhs, v.Tok == token.DEFINE)
	case *ast.DeclStmt:
		var out []flowNode
		if gd, ok := v.Decl.(*ast.GenDecl); ok {
			for _, sp := range gd.Specs {
				vs, ok := sp.(*ast.ValueSpec)
				if !ok {
					continue
				}
				tn := flowTypeName(vs.Type)
				qn := flowQualName(vs.Type)
				for i, n := range vs.Names {
					if len(vs.Values) > i {
						out = append(out, s.assign([]ast.Expr{n}, []ast.Expr{vs.Values[i]}, true)...)
						continue
					}
					switch {
					case tn == "bool":
						s.bools[n.Name] = true
						out = append(out, flowNode{Kind: "Set", A: n.Name, C: "DcFalse"})
					case qn == "engine.Engine":
						s.class[n.Name] = "lengine"
					case flowTypeClass[qn] != "":
						s.class[n.Name] = flowTypeClass[qn]
					}
				}
			}
		}
		return out
	case *ast.ReturnStmt:
		if len(v.Results) > 0 {
			if id, ok := v.Results[0].(*ast.Ident); ok && s.ntype[id.Name] != "" {
				var sets []string
				for _, x := range s.nested[id.Name] {
					if strings.Contains(x, "DcVar") { // a parameter / local of this function: unknown to the caller
						x = x[:strings.Index(x, ", ")] + ", DcData)"
					}
					sets = append(sets, x)
				}
				if old, seen := s.ctx.retSets[s.fn.key]; seen && strings.Join(old, ";") != strings.Join(sets, ";") {
					sets = []string{`("*", DcData)`}
				}
				s.ctx.retSets[s.fn.key] = sets
			}
		}
		return append(s.exprs(v.Results), flowNode{Kind: "Ret"})
	case *ast.BlockStmt:
		return s.block(v.List)
	case *ast.IfStmt:
		out := s.stmt(v.Init)
		out = append(out, s.expr(v.Cond)...)
		n := flowNode{Kind: "If", C: s.cond(v.Cond), Th: s.block(v.Body.List)}
		if v.Else != nil {
			n.El = s.stmt(v.Else)
		}
		return append(out, n)
	case *ast.ForStmt:
		out := s.stmt(v.Init)
		body := append(s.expr(v.Cond), s.block(v.Body.List)...)
		body = append(body, s.stmt(v.Post)...)
		return append(out, flowNode{Kind: "Loop", Th: body})
	case *ast.RangeStmt:
		out := s.expr(v.X)
		return append(out, flowNode{Kind: "Loop", Th: s.block(v.Body.List)})
	case *ast.SwitchStmt:
		out := s.stmt(v.Init)
		out = append(out, s.expr(v.Tag)...)
		return append(out, s.clauses(v.Body.List, v.Tag == nil)...)
	case *ast.TypeSwitchStmt:
		out := s.stmt(v.Init)
		out = append(out, s.stmt(v.Assign)...)
		return append(out, s.clauses(v.Body.List, false)...)
	case *ast.SelectStmt:
		return s.clauses(v.Body.List, false)
	case *ast.GoStmt:
		return s.call(v.Call)
	case *ast.DeferStmt:
		n := s.call(v.Call)
		if flowHasEffect(n) {
			return []flowNode{opaque("deferred call with effects")}
		}
		return nil
	case *ast.LabeledStmt:
		return s.stmt(v.Stmt)
	case *ast.SendStmt:
		return append(s.expr(v.Chan), s.expr(v.Value)...)
	}
	return []flowNode{opaque("statement %T", st)}
}

// switch / select: a chain of alternatives; the condition of a tag-less `case c:` is kept
func (s *flowScope) clauses(l []ast.Stmt, condCases bool) []flowNode {
	type alt struct {
		cond string
		body []flowNode
	}
	var alts []alt
	for _, cl := range l {
		var body []ast.Stmt
		cond := "DcData"
		var pre []flowNode
		switch c := cl.(type) {
		case *ast.CaseClause:
			body = c.Body
			if condCases && len(c.List) == 1 {
				cond = s.cond(c.List[0])
			}
			pre = s.exprs(c.List)
			if c.List == nil {
				cond = "DcTrue"
			}
		case *ast.CommClause:
			body = c.Body
			pre = s.stmt(c.Comm)
		}
		b := s.block(body)
		// a break inside a switch leaves the switch only
		for k := range b {
			if b[k].Kind == "Break" {
				b[k] = flowNode{Kind: "Skip"}
			}
		}
		alts = append(alts, alt{cond, append(pre, b...)})
	}
	var chain []flowNode
	for i := len(alts) - 1; i >= 0; i-- {
		chain = []flowNode{{Kind: "If", C: alts[i].cond, Th: alts[i].body, El: chain}}
	}
	return chain
}

// ---- simplification and printing ----

func flowSimplify(l []flowNode) []flowNode {
	var out []flowNode
	for _, n := range l {
		switch n.Kind {
		case "Skip":
			continue
		case "If":
			n.Th, n.El = flowSimplify(n.Th), flowSimplify(n.El)
			if len(n.Th) == 0 && len(n.El) == 0 {
				continue
			}
		case "Loop":
			n.Th = flowSimplify(n.Th)
			if !flowHasEffect(n.Th) && !flowHasSet(n.Th) {
				continue
			}
		}
		out = append(out, n)
	}
	return out
}

func flowHasSet(l []flowNode) bool {
	for _, n := range l {
		if n.Kind == "Set" || n.Kind == "Ret" {
			return true
		}
		if flowHasSet(n.Th) || flowHasSet(n.El) {
			return true
		}
	}
	return false
}

func flowPrintBlock(b *strings.Builder, l []flowNode, ind string) {
	if len(l) == 0 {
		b.WriteString("BNil")
		return
	}
	for _, n := range l {
		b.WriteString("(BCons ")
		flowPrintNode(b, n, ind)
		b.WriteString("\n" + ind)
	}
	b.WriteString("BNil")
	b.WriteString(strings.Repeat(")", len(l)))
}

func flowPrintNode(b *strings.Builder, n flowNode, ind string) {
	switch n.Kind {
	case "Call":
		fmt.Fprintf(b, "(DCall %s %s %s)", n.C, n.B, hx.CoqStr(n.A))
	case "Fn":
		fmt.Fprintf(b, "(DFn %s %s)", hx.CoqStr(n.A), hx.CoqList(n.Args))
	case "Nested":
		fmt.Fprintf(b, "(DNested %s %s)", hx.CoqStr(n.A), hx.CoqList(n.Args))
	case "Set":
		fmt.Fprintf(b, "(DSet %s %s)", hx.CoqStr(n.A), n.C)
	case "Swap":
		fmt.Fprintf(b, "(DSwap %s)", hx.CoqStr(n.A))
	case "Ret":
		b.WriteString("DRet")
	case "Break":
		b.WriteString("DBreak")
	case "Opaque":
		fmt.Fprintf(b, "(DOpaque %s)", hx.CoqStr(n.A))
	case "If":
		fmt.Fprintf(b, "(DIf %s\n%s  ", n.C, ind)
		flowPrintBlock(b, n.Th, ind+"  ")
		fmt.Fprintf(b, "\n%s  ", ind)
		flowPrintBlock(b, n.El, ind+"  ")
		b.WriteString(")")
	case "Loop":
		fmt.Fprintf(b, "(DLoop\n%s  ", ind)
		flowPrintBlock(b, n.Th, ind+"  ")
		b.WriteString(")")
	}
}

func flowImpure(l []flowNode, pure map[string]bool) bool {
	for _, n := range l {
		switch n.Kind {
		case "Call", "Nested", "Swap", "Opaque":
			return true
		case "Fn":
			if !pure[n.A] {
				return true
			}
		}
		if flowImpure(n.Th, pure) || flowImpure(n.El, pure) {
			return true
		}
	}
	return false
}

func flowDropPure(l []flowNode, pure map[string]bool) []flowNode {
	var out []flowNode
	for _, n := range l {
		if n.Kind == "Fn" && pure[n.A] {
			continue
		}
		n.Th, n.El = flowDropPure(n.Th, pure), flowDropPure(n.El, pure)
		out = append(out, n)
	}
	return out
}

func flowCallees(l []flowNode, out *[]string) {
	for _, n := range l {
		if n.Kind == "Fn" || n.Kind == "Nested" {
			*out = append(*out, n.A)
		}
		flowCallees(n.Th, out)
		flowCallees(n.El, out)
	}
}

// boolean fields of the action structs (and the presence-tested non-boolean ones by name)
func flowBoolFields(f *ast.File, into map[string]map[string]bool) {
	for _, d := range f.Decls {
		gd, ok := d.(*ast.GenDecl)
		if !ok || gd.Tok != token.TYPE {
			continue
		}
		for _, sp := range gd.Specs {
			ts := sp.(*ast.TypeSpec)
			st, ok := ts.Type.(*ast.StructType)
			if !ok || flowTypeClass[ts.Name.Name] != "action" {
				continue
			}
			m := map[string]bool{}
			for _, fld := range st.Fields.List {
				if id, ok := fld.Type.(*ast.Ident); ok && id.Name == "bool" {
					for _, n := range fld.Names {
						m[n.Name] = true
					}
				}
			}
			into[ts.Name.Name] = m
		}
	}
}

// build: the flow of one function (memoised; a function that is being built is not entered again)
func (ctx *flowCtx) build(key string) []flowNode {
	if b, ok := ctx.bodies[key]; ok {
		return b
	}
	if ctx.busy[key] {
		return nil
	}
	ctx.busy[key] = true
	fn := ctx.fns[key]
	sc := &flowScope{ctx: ctx, fn: fn, class: map[string]string{}, bools: map[string]bool{}, nested: map[string][]string{}, ntype: map[string]string{}}
	if fn.recv != "" {
		sc.class[fn.recv] = fn.rclass
	}
	types := flowParamTypes(fn.decl)
	qtypes := flowParamTypesBy(fn.decl, flowQualName)
	for i, p := range fn.params {
		t := types[i]
		if c := flowTypeClass[qtypes[i]]; c != "" && c != "action" {
			sc.class[p] = c
		}
		if t == "bool" || t == "string" || t == "PostRenderer" {
			sc.bools[p] = true
		}
	}
	b := flowSimplify(sc.block(fn.decl.Body.List))
	ctx.bodies[key] = b
	delete(ctx.busy, key)
	return b
}

func genDryFlow(repo string) (string, error) {
	ctx := &flowCtx{fns: map[string]*flowFn{}, boolFld: map[string]map[string]bool{}, bodies: map[string][]flowNode{},
		busy: map[string]bool{}, retSets: map[string][]string{}}
	for _, rel := range flowFiles {
		f, _, err := parseFile(repo, rel)
		if err != nil {
			return "", err
		}
		flowBoolFields(f, ctx.boolFld)
		for _, d := range f.Decls {
			fd, ok := d.(*ast.FuncDecl)
			if !ok || fd.Body == nil {
				continue
			}
			fn := &flowFn{decl: fd, key: fd.Name.Name}
			if fd.Recv != nil && len(fd.Recv.List) == 1 {
				tn := flowTypeName(fd.Recv.List[0].Type)
				if flowTypeClass[tn] == "" {
					continue // a method of an untracked type
				}
				fn.key = tn + "." + fd.Name.Name
				fn.rclass = flowTypeClass[tn]
				if len(fd.Recv.List[0].Names) == 1 {
					fn.recv = fd.Recv.List[0].Names[0].Name
				}
			}
			if fd.Type.Results != nil && len(fd.Type.Results.List) > 0 {
				fn.ret = flowQualName(fd.Type.Results.List[0].Type)
			}
			for _, p := range fd.Type.Params.List {
				if len(p.Names) == 0 {
					fn.params = append(fn.params, "_")
				}
				for _, n := range p.Names {
					fn.params = append(fn.params, n.Name)
				}
			}
			ctx.fns[fn.key] = fn
		}
	}
	bodies := ctx.bodies
	build := ctx.build
	var order []string
	seen := map[string]bool{}
	todo := append([]string{}, flowEntries...)
	for len(todo) > 0 {
		k := todo[0]
		todo = todo[1:]
		if seen[k] {
			continue
		}
		seen[k] = true
		if ctx.fns[k] == nil {
			return "", fmt.Errorf("function %s not found in %v", k, flowFiles)
		}
		order = append(order, k)
		build(k)
		var cs []string
		flowCallees(bodies[k], &cs)
		todo = append(todo, cs...)
	}
	// functions without effects (transitively) are dropped, and the calls to them
	pure := map[string]bool{}
	for _, k := range order {
		pure[k] = true
	}
	for changed := true; changed; {
		changed = false
		for _, k := range order {
			if pure[k] && flowImpure(bodies[k], pure) {
				pure[k] = false
				changed = true
			}
		}
	}
	var kept []string
	for _, k := range order {
		if !pure[k] {
			bodies[k] = flowSimplify(flowDropPure(bodies[k], pure))
			kept = append(kept, k)
		}
	}
	order = kept
	var b strings.Builder
	b.WriteString("From Helm Require Import Engine.DryFlow.\n\n")
	b.WriteString("(* the flows reachable from " + strings.Join(flowEntries, ", ") + " *)\n")
	b.WriteString("Definition flow : dtable := [\n")
	for i, k := range order {
		fn := ctx.fns[k]
		var ps []string
		types := flowParamTypes(fn.decl)
		for j, p := range fn.params {
			if t := types[j]; t == "bool" || t == "string" || t == "PostRenderer" {
				ps = append(ps, p)
			}
		}
		fmt.Fprintf(&b, " (%s, (%s,\n  ", hx.CoqStr(k), hx.CoqStrList(ps))
		flowPrintBlock(&b, bodies[k], "  ")
		b.WriteString("))")
		if i < len(order)-1 {
			b.WriteString(";")
		}
		b.WriteString("\n")
	}
	b.WriteString("].\n\n")
	// boolean options of the action structs
	var tn []string
	for t := range ctx.boolFld {
		tn = append(tn, t)
	}
	sort.Strings(tn)
	b.WriteString("(* the boolean options of the action structs *)\nDefinition flow_options : list (string * list string) := [\n")
	for i, t := range tn {
		var fs []string
		for f := range ctx.boolFld[t] {
			fs = append(fs, f)
		}
		sort.Strings(fs)
		fmt.Fprintf(&b, " (%s, %s)", hx.CoqStr(t), hx.CoqStrList(fs))
		if i < len(tn)-1 {
			b.WriteString(";")
		}
		b.WriteString("\n")
	}
	b.WriteString("].\n\n")
	tp, err := genTemplatePlumbing(repo)
	if err != nil {
		return "", err
	}
	b.WriteString(tp)
	return b.String(), nil
}

// ---- helm template: the assignments to the Install action in newTemplateCmd's RunE ----

func genTemplatePlumbing(repo string) (string, error) {
	f, _, err := parseFile(repo, "pkg/cmd/template.go")
	if err != nil {
		return "", err
	}
	var runE *ast.FuncLit
	client := ""
	bound := map[string]string{} // local flag variable -> command-line flag
	for _, d := range f.Decls {
		fd, ok := d.(*ast.FuncDecl)
		if !ok || fd.Name.Name != "newTemplateCmd" {
			continue
		}
		ast.Inspect(fd.Body, func(n ast.Node) bool {
			switch v := n.(type) {
			case *ast.AssignStmt:
				if len(v.Lhs) == 1 && len(v.Rhs) == 1 {
					if id, ok := v.Lhs[0].(*ast.Ident); ok {
						if ce, ok := v.Rhs[0].(*ast.CallExpr); ok && flowCallName(ce.Fun) == "action.NewInstall" {
							client = id.Name
						}
					}
				}
			case *ast.KeyValueExpr:
				if id, ok := v.Key.(*ast.Ident); ok && id.Name == "RunE" {
					if fl, ok := v.Value.(*ast.FuncLit); ok {
						runE = fl
					}
				}
			case *ast.CallExpr:
				// f.BoolVar(&validate, "validate", ...)
				if sel, ok := v.Fun.(*ast.SelectorExpr); ok && sel.Sel.Name == "BoolVar" && len(v.Args) >= 2 {
					if u, ok := v.Args[0].(*ast.UnaryExpr); ok && u.Op == token.AND {
						if id, ok := u.X.(*ast.Ident); ok {
							if name, ok := strLit(v.Args[1]); ok {
								bound[id.Name] = name
							}
						}
					}
				}
			}
			return true
		})
	}
	if runE == nil || client == "" {
		return "", fmt.Errorf("pkg/cmd/template.go: newTemplateCmd: RunE or the Install action not found")
	}
	texpr := func(e ast.Expr) string {
		switch v := e.(type) {
		case *ast.Ident:
			switch v.Name {
			case "true":
				return "TTrue"
			case "false":
				return "TFalse"
			}
			if fl, ok := bound[v.Name]; ok {
				return "(TCli " + hx.CoqStr(fl) + ")"
			}
		case *ast.UnaryExpr:
			if id, ok := v.X.(*ast.Ident); ok && v.Op == token.NOT {
				if fl, ok := bound[id.Name]; ok {
					return "(TNotCli " + hx.CoqStr(fl) + ")"
				}
			}
		case *ast.BasicLit:
			if s, ok := strLit(v); ok {
				return "(TStr " + hx.CoqStr(s) + ")"
			}
		}
		return "TOther"
	}
	var items []string
	var walk func(l []ast.Stmt, guard string) bool
	sawRun := false
	walk = func(l []ast.Stmt, guard string) bool {
		for _, st := range l {
			switch v := st.(type) {
			case *ast.AssignStmt:
				for i, lh := range v.Lhs {
					sel, ok := lh.(*ast.SelectorExpr)
					if !ok {
						continue
					}
					if id, ok := sel.X.(*ast.Ident); !ok || id.Name != client {
						continue
					}
					if i < len(v.Rhs) && !sawRun {
						items = append(items, fmt.Sprintf("(%s, %s, %s)", hx.CoqStr(sel.Sel.Name), guard, texpr(v.Rhs[i])))
					}
				}
				for _, r := range v.Rhs {
					if ce, ok := r.(*ast.CallExpr); ok && flowCallName(ce.Fun) == "runInstall" {
						sawRun = true
					}
				}
			case *ast.IfStmt:
				g := "GOther"
				if be, ok := v.Cond.(*ast.BinaryExpr); ok && be.Op == token.EQL {
					if sel, ok := be.X.(*ast.SelectorExpr); ok {
						if id, ok := sel.X.(*ast.Ident); ok && id.Name == client && sel.Sel.Name == "DryRunOption" {
							if s, ok := strLit(be.Y); ok && s == "" {
								g = "GOptEmpty"
							}
						}
					}
				}
				if guard != "GAlways" {
					g = "GOther"
				}
				if !sawRun {
					walk(v.Body.List, g)
				}
			}
		}
		return true
	}
	walk(runE.Body.List, "GAlways")
	if !sawRun {
		return "", fmt.Errorf("pkg/cmd/template.go: the call of runInstall was not found in RunE")
	}
	// runInstall: allowedDryRunValues of validateDryRunOptionFlag, and whether it is called before RunWithContext
	fi, _, err := parseFile(repo, "pkg/cmd/install.go")
	if err != nil {
		return "", err
	}
	var allowed []string
	validated := false
	for _, d := range fi.Decls {
		fd, ok := d.(*ast.FuncDecl)
		if !ok || fd.Body == nil {
			continue
		}
		switch fd.Name.Name {
		case "validateDryRunOptionFlag":
			ast.Inspect(fd.Body, func(n ast.Node) bool {
				if cl, ok := n.(*ast.CompositeLit); ok && len(allowed) == 0 {
					for _, e := range cl.Elts {
						if s, ok := strLit(e); ok {
							allowed = append(allowed, s)
						}
					}
				}
				return true
			})
		case "runInstall":
			pos := token.NoPos
			ast.Inspect(fd.Body, func(n ast.Node) bool {
				if ce, ok := n.(*ast.CallExpr); ok {
					switch flowCallName(ce.Fun) {
					case "validateDryRunOptionFlag":
						pos = ce.Pos()
					case "client.RunWithContext", "client.Run":
						if pos != token.NoPos && pos < ce.Pos() {
							validated = true
						}
					}
				}
				return true
			})
		}
	}
	var b strings.Builder
	b.WriteString("(* pkg/cmd/template.go newTemplateCmd RunE: assignments to the Install action before runInstall *)\n")
	fmt.Fprintf(&b, "Definition template_assigns : list (string * tguard * texpr) := %s.\n", hx.CoqList(items))
	b.WriteString("(* pkg/cmd/install.go: values validateDryRunOptionFlag accepts; is it called before RunWithContext *)\n")
	fmt.Fprintf(&b, "Definition template_allowed_dry_run : list string := %s.\n", hx.CoqStrList(allowed))
	fmt.Fprintf(&b, "Definition template_validates_dry_run : bool := %s.\n", hx.CoqBool(validated))
	return b.String(), nil
}

package main

// C20 thorough tier: explore cases run in a child process (`hx c20-worker`, this binary
// re-executed), so that what recover() cannot catch — stack exhaustion, "concurrent map
// writes", out of memory, a spinning goroutine — kills only the worker.  The parent sends
// one case per line and reads one observation per line; the case in flight when the worker
// dies or stops answering is the failing input (no bisection needed: one case at a time).

import (
	"bufio"
	"bytes"
	"encoding/json"
	"fmt"
	"io"
	"os"
	"os/exec"
	"runtime/debug"
	"syscall"
	"time"

	"verif/harness/internal/hx"
)

func init() { hx.RegisterCommand("c20-worker", c20WorkerMain) }

var c20Tier = "quick"

func c20UseWorker() bool {
	return c20Tier == "thorough" || os.Getenv("C20_WORKER") == "1"
}

func c20WorkerMain(_ []string) int {
	debug.SetMemoryLimit(3 << 30)
	// hard cap on the address space: an allocation bomb kills the worker, not the machine
	lim := syscall.Rlimit{Cur: 12 << 30, Max: 12 << 30}
	syscall.Setrlimit(syscall.RLIMIT_AS, &lim)
	in := bufio.NewReaderSize(os.Stdin, 1<<20)
	// the answers go to a private copy of the standard output; descriptor 1 itself is pointed at
	// /dev/null, so that nothing the code under test prints (the helm root command installs a
	// logger that writes there) can get between the answer lines
	proto := os.Stdout
	if fd, err := syscall.Dup(1); err == nil {
		if null, err := os.OpenFile(os.DevNull, os.O_WRONLY, 0); err == nil {
			if syscall.Dup2(int(null.Fd()), 1) == nil {
				proto = os.NewFile(uintptr(fd), "answers")
				os.Stdout = null
			}
		}
	}
	out := bufio.NewWriter(proto)
	for {
		line, err := in.ReadBytes('\n')
		if len(line) > 0 {
			var e c20ExploreC
			if jerr := json.Unmarshal(line, &e); jerr != nil {
				fmt.Fprintln(out, `{"class":"err","where":"worker: bad case"}`)
				out.Flush()
			} else {
				obs := c20ExecExplore(&e)
				b, _ := json.Marshal(obs)
				out.Write(b)
				out.WriteByte('\n')
				out.Flush()
				if obs.Class == "hang" {
					return 3 // the stuck goroutine cannot be stopped: start afresh
				}
			}
		}
		if err != nil {
			if d := os.Getenv("C20_WORKER_TMP"); d != "" {
				os.RemoveAll(d)
			}
			return 0
		}
	}
}

type c20WorkerProc struct {
	cmd    *exec.Cmd
	in     io.WriteCloser
	out    *bufio.Reader
	stderr *bytes.Buffer
	lines  chan []byte
	tmp    string // the worker's own TMPDIR: whatever a dying worker leaves behind goes with it
}

var c20W *c20WorkerProc

func c20StartWorker() (*c20WorkerProc, error) {
	exe, err := os.Executable()
	if err != nil {
		exe = os.Args[0]
	}
	cmd := exec.Command(exe, "c20-worker")
	cmd.Env = append(os.Environ(), "GOTRACEBACK=single")
	tmp, terr := os.MkdirTemp("", "c20worker")
	if terr == nil {
		cmd.Env = append(cmd.Env, "TMPDIR="+tmp, "C20_WORKER_TMP="+tmp)
	}
	in, err := cmd.StdinPipe()
	if err != nil {
		return nil, err
	}
	outp, err := cmd.StdoutPipe()
	if err != nil {
		return nil, err
	}
	w := &c20WorkerProc{cmd: cmd, in: in, out: bufio.NewReaderSize(outp, 1<<20), stderr: &bytes.Buffer{}, lines: make(chan []byte, 1), tmp: tmp}
	cmd.Stderr = w.stderr
	if err := cmd.Start(); err != nil {
		return nil, err
	}
	go func() {
		for {
			l, err := w.out.ReadBytes('\n')
			if len(l) > 0 {
				w.lines <- l
			}
			if err != nil {
				close(w.lines)
				return
			}
		}
	}()
	return w, nil
}

func (w *c20WorkerProc) kill() {
	w.in.Close()
	if w.cmd.Process != nil {
		w.cmd.Process.Kill()
	}
	w.cmd.Wait()
	if w.tmp != "" {
		os.RemoveAll(w.tmp)
	}
}

// c20ViaWorker runs one explore case in the worker process.
func c20ViaWorker(e *c20ExploreC) c20Obs {
	if c20W == nil {
		w, err := c20StartWorker()
		if err != nil {
			return c20ExecExplore(e) // cannot start a child: run in-process
		}
		c20W = w
	}
	w := c20W
	b, _ := json.Marshal(e)
	b = append(b, '\n')
	if _, err := w.in.Write(b); err != nil {
		w.kill()
		c20W = nil
		return c20ExecExplore(e)
	}
	select {
	case l, ok := <-w.lines:
		if !ok {
			// the worker died while this case was in flight
			w.cmd.Wait()
			if w.tmp != "" {
				os.RemoveAll(w.tmp)
			}
			first := w.stderr.String()
			if len(first) > 400 {
				first = first[:400]
			}
			c20W = nil
			where := e.Target
			if e.Note == c20KnownStackWitness {
				where += " " + e.Note // the replay of the known finding K10 has a signature of its own
			}
			return c20Obs{Class: "panic", Where: where + " (worker died)", Panic: "fatal error in the worker process: " + first}
		}
		var obs c20Obs
		if err := json.Unmarshal(l, &obs); err != nil {
			return c20Obs{Class: "err", Where: "worker: unreadable answer"}
		}
		if obs.Class == "hang" {
			w.kill()
			c20W = nil
		}
		return obs
	case <-time.After(c20Timeout + 20*time.Second):
		w.kill()
		c20W = nil
		return c20Obs{Class: "hang", Where: e.Target + " (worker unresponsive)", Panic: "no answer from the worker process"}
	}
}

package main

// Runtime oracle of C04: the property text evaluated directly on what the real functions
// returned.  Written against the property statement (paths, "last source that defines it",
// "null removes a default", "never modifies"), not against the Coq model.

import (
	"fmt"
	"strings"

	"verif/harness/internal/hx"
)

// orDefines: walking p in t reaches the end of p or a non-table before the end.
func orDefines(p []string, t interface{}) bool {
	v := t
	for _, k := range p {
		m, ok := v.(vtree)
		if !ok {
			return true
		}
		v, ok = m[k]
		if !ok {
			return false
		}
	}
	return true
}

// orLeaf: the non-table value at p, if there is one.
func orLeaf(p []string, t interface{}) (interface{}, bool) {
	v, ok := vtLookup(p, t)
	if !ok || vtIsTable(v) {
		return nil, false
	}
	return v, true
}

func orAllPaths(ts ...vtree) [][]string {
	seen := map[string]bool{}
	var out [][]string
	for _, t := range ts {
		for _, p := range vtPaths(t) {
			k := strings.Join(p, "\x00")
			if !seen[k] {
				seen[k] = true
				out = append(out, p)
			}
		}
	}
	return out
}

// orRelated: one path is a prefix of the other (or they are equal).
func orRelated(p, q []string) bool {
	n := len(p)
	if len(q) < n {
		n = len(q)
	}
	for i := 0; i < n; i++ {
		if p[i] != q[i] {
			return false
		}
	}
	return true
}

// orKeyPrefix: the table keys of a --set path up to and including the first indexed segment.
func orKeyPrefix(p []c04Seg) []string {
	var out []string
	for _, s := range p {
		out = append(out, s.Key)
		if len(s.Idx) > 0 {
			break
		}
	}
	return out
}

// orWalk follows keys and list indexes.
func orWalk(p []c04Seg, t interface{}) (interface{}, bool) {
	v := t
	for _, s := range p {
		m, ok := v.(vtree)
		if !ok {
			return nil, false
		}
		v, ok = m[s.Key]
		if !ok {
			return nil, false
		}
		for _, i := range s.Idx {
			l, ok := v.([]interface{})
			if !ok || i >= len(l) {
				return nil, false
			}
			v = l[i]
		}
	}
	return v, true
}

// ---- deep paths: table keys and list indexes ----

type orStep struct {
	Key string
	Idx int
	Is  bool // index step
}

func orStepsOf(p []c04Seg) []orStep {
	var out []orStep
	for _, s := range p {
		out = append(out, orStep{Key: s.Key})
		for _, i := range s.Idx {
			out = append(out, orStep{Idx: i, Is: true})
		}
	}
	return out
}

// orDeepLeaves: every leaf of t with its step path: scalars, nulls, empty tables and empty
// lists; list elements by index.
func orDeepLeaves(t interface{}) (paths [][]orStep, vals []interface{}) {
	var walk func(p []orStep, v interface{})
	walk = func(p []orStep, v interface{}) {
		switch x := v.(type) {
		case vtree:
			if len(x) == 0 {
				break
			}
			for _, k := range c04SortedKeys(x) {
				walk(append(append([]orStep{}, p...), orStep{Key: k}), x[k])
			}
			return
		case []interface{}:
			if len(x) == 0 {
				break
			}
			for i, e := range x {
				walk(append(append([]orStep{}, p...), orStep{Idx: i, Is: true}), e)
			}
			return
		}
		paths = append(paths, p)
		vals = append(vals, v)
	}
	walk(nil, t)
	return
}

func orDeepLookup(p []orStep, t interface{}) (interface{}, bool) {
	v := t
	for _, s := range p {
		if s.Is {
			l, ok := v.([]interface{})
			if !ok || s.Idx >= len(l) {
				return nil, false
			}
			v = l[s.Idx]
		} else {
			m, ok := v.(vtree)
			if !ok {
				return nil, false
			}
			v, ok = m[s.Key]
			if !ok {
				return nil, false
			}
		}
	}
	return v, true
}

// orStepsRelated: p (a leaf of the earlier result) is above, below or equal to the named
// path q — or the two part at a point where p goes on with a list index and q with a table
// key (or the other way round): the container there is then of the wrong kind for q, and
// setting q replaces it as a whole (strvals: "indices out of order. Initialize empty value"
// turns a list element that is not a table into one), so what was below it is not "another path".
func orStepsRelated(p, q []orStep) bool {
	n := len(p)
	if len(q) < n {
		n = len(q)
	}
	for i := 0; i < n; i++ {
		if p[i] != q[i] {
			return p[i].Is != q[i].Is
		}
	}
	return true
}

func orShowSteps(p []orStep) string {
	var b strings.Builder
	for i, s := range p {
		if s.Is {
			fmt.Fprintf(&b, "[%d]", s.Idx)
		} else {
			if i > 0 {
				b.WriteByte('.')
			}
			b.WriteString(s.Key)
		}
	}
	return b.String()
}

// orGlobalSources: may the path p (below "global") of a chart's view come from one of these
// trees' "global" tables?
func orGlobalHas(p []string, srcs ...vtree) bool {
	for _, s := range srcs {
		if s == nil {
			continue
		}
		if g, ok := s["global"].(vtree); ok {
			if _, ok := vtLookup(p, g); ok {
				return true
			}
		}
	}
	return false
}

func orSection(t vtree, name string) vtree {
	if t == nil {
		return nil
	}
	m, _ := t[name].(vtree)
	return m
}

// orGlobalIsolation: every key below "global" in a chart's view comes from the view of its
// parent (globals flow down), from the chart's own defaults, or from a section addressed to
// this chart (by the user or by an ancestor's values.yaml) — never from a sibling or a child.
func orGlobalIsolation(ch *c04Chart, view vtree, parentView vtree, sections []vtree, where string, report func(path, where string)) {
	if view == nil {
		return
	}
	if g, ok := view["global"].(vtree); ok {
		srcs := append([]vtree{parentView, ch.Values}, sections...)
		for _, p := range vtPaths(g) {
			if !orGlobalHas(p, srcs...) {
				report(strings.Join(p, "."), where)
			}
		}
	}
	for _, d := range ch.Deps {
		if d.Name == "global" {
			continue
		}
		sub := orSection(view, d.Name)
		var secs []vtree
		for _, s := range append([]vtree{ch.Values}, sections...) {
			if x := orSection(s, d.Name); x != nil {
				secs = append(secs, x)
			}
		}
		orGlobalIsolation(d, sub, view, secs, where+d.Name+"/", report)
	}
}

func orHasKey(p []string, k string) bool {
	for _, x := range p {
		if x == k {
			return true
		}
	}
	return false
}

func orAsTree(v interface{}) (vtree, bool) {
	switch x := v.(type) {
	case nil:
		return vtree{}, true
	case vtree:
		return vtNorm(x).(vtree), true
	}
	if m, ok := vtNorm(v).(vtree); ok {
		return m, true
	}
	// chartutil.Values and friends
	n := vtNorm(hxToPlain(v))
	m, ok := n.(vtree)
	return m, ok
}

// hxToPlain converts named map types (chartutil.Values) to plain trees.
func hxToPlain(v interface{}) interface{} {
	type mapper interface{ AsMap() map[string]interface{} }
	if m, ok := v.(mapper); ok {
		return vtree(m.AsMap())
	}
	return v
}

func (*c04) Oracle(ci, oi any) []hx.Violation {
	c, obs := ci.(c04Case), oi.(c04Obs)
	var vs []hx.Violation
	add := func(sig, what string) {
		for _, v := range vs {
			if v.Sig == sig {
				return
			}
		}
		vs = append(vs, hx.Violation{Sig: "C04:" + sig, What: what})
	}
	if obs.Panic != "" {
		add("panic", c.Kind+" panicked: "+obs.Panic)
		return vs
	}
	for _, m := range obs.Mutated {
		kind := strings.SplitN(m, ":", 2)[0]
		add("modifies-"+kind, fmt.Sprintf("%s (%s) modified its input: %s", c.Kind, c.API, m))
	}
	// round 4: index boundaries observed through deep paths: an index 0..MaxIndex is allowed
	// (nil padding below it), a negative one or one above MaxIndex is an error
	if c.Kind == "parse" && len(c.Parse.ProbeWant) > 0 {
		if (obs.Err != "") != c.Parse.WantErr {
			add("set-index-bound", fmt.Sprintf("%s(%q): error=%v, the documented index range 0..MaxIndex says error=%v", c.Parse.Fn, c.Parse.S, obs.Err != "", c.Parse.WantErr))
		} else if obs.Err == "" {
			for i, w := range c.Parse.ProbeWant {
				if i >= len(obs.Probed) || obs.Probed[i].Found != w.Found || (w.Found && !vtEqual(obs.Probed[i].Val, w.Val)) {
					add("set-index-bound", fmt.Sprintf("%s(%q): path %s should be %#v (present=%v), observed %#v", c.Parse.Fn, c.Parse.S, orShowSteps(c.Parse.Probes[i]), w.Val, w.Found, obs.Probed))
				}
			}
		}
		return vs
	}
	if obs.Err != "" {
		// a failing --set expression may have stored something under the keys it names, but
		// it must leave every other top-level key of the destination alone
		if c.Kind == "parse" && len(c.Parse.Pairs) > 0 {
			named := map[string]bool{}
			for _, pr := range c.Parse.Pairs {
				named[pr.Path[0].Key] = true
			}
			after, _ := orAsTree(obs.Out)
			before := c.Parse.Dest
			if before == nil {
				before = vtree{}
			}
			for _, t := range []vtree{before, after} {
				for k := range t {
					if named[k] {
						continue
					}
					b, bok := before[k]
					a, aok := after[k]
					if bok != aok || !vtEqual(a, b) {
						add("set-error-changes-other-key", fmt.Sprintf("%s(%q) failed and changed key %q, which it does not name, from %#v (%v) to %#v (%v)", c.Parse.Fn, c.Parse.S, k, b, bok, a, aok))
					}
				}
			}
		}
		return vs
	}
	pstr := func(p []string) string { return strings.Join(p, ".") }
	out, ok := orAsTree(obs.Out)
	if !ok {
		add("result-not-a-table", fmt.Sprintf("%s returned %T", c.Kind, obs.Out))
		return vs
	}
	switch c.Kind {
	case "opts":
		// frame: a single-path value flag laid over the lower sources leaves every leaf of the
		// lower result that is neither above nor below a path it names as it was — list
		// elements at other indexes included
		for i := 1; i < len(obs.Steps); i++ {
			before, after := obs.Steps[i-1], obs.Steps[i]
			named := c.Opts.Named[after.Flag]
			if before.Err || after.Err || len(named) == 0 {
				continue
			}
			var ns [][]orStep
			for _, n := range named {
				ns = append(ns, orStepsOf(n))
			}
			paths, vals := orDeepLeaves(before.Out)
			for j, p := range paths {
				rel := false
				for _, n := range ns {
					if orStepsRelated(p, n) {
						rel = true
					}
				}
				if rel {
					continue
				}
				got, ok := orDeepLookup(p, after.Out)
				if !ok || !vtEqual(got, vals[j]) {
					add("flag-frame", fmt.Sprintf("Options.MergeValues: flag %s names %s but changed %s from %#v to %#v (present=%v)",
						after.Flag, c04ShowPathLiteral(named[0]), orShowSteps(p), vals[j], got, ok))
				}
			}
		}
		// the documented order: c.Opts.Assign lists what each source sets, lowest precedence
		// first; the last source that touches a path (or anything above or below it) decides.
		as := c.Opts.Assign
		for i, a := range as {
			last := true
			for _, b := range as[i+1:] {
				if orRelated(a.Path, b.Path) {
					last = false
					break
				}
			}
			if !last || !a.Exact {
				continue
			}
			got, ok := vtLookup(a.Path, out)
			if !ok || !vtEqual(got, a.Val) {
				add("flag-precedence", fmt.Sprintf("Options.MergeValues: path %s: the highest-precedence source sets %v, result has %v (%v)", pstr(a.Path), a.Val, got, ok))
			}
		}
	case "parse":
		before := c.Parse.Dest
		if before == nil {
			before = vtree{}
		}
		var roots [][]string
		for _, pr := range c.Parse.Pairs {
			roots = append(roots, orKeyPrefix(pr.Path))
		}
		if len(c.Parse.Pairs) > 0 {
			// (1) the named path holds the typed value
			for i, pr := range c.Parse.Pairs {
				later := false
				for _, q := range roots[i+1:] {
					if orRelated(roots[i], q) {
						later = true
					}
				}
				if later {
					continue
				}
				got, ok := orWalk(pr.Path, out)
				if !ok || !vtEqual(got, pr.Val) {
					add("set-names-path", fmt.Sprintf("%s(%q): path %s should hold %#v, result has %#v (%v)", c.Parse.Fn, c.Parse.S, c04ShowPathLiteral(pr.Path), pr.Val, got, ok))
				}
			}
			// (2) nothing else changed
			for _, q := range orAllPaths(before, out) {
				rel := false
				for _, r := range roots {
					if orRelated(q, r) {
						rel = true
					}
				}
				if rel {
					continue
				}
				b, bok := vtLookup(q, before)
				a, aok := vtLookup(q, out)
				if bok != aok || (bok && !vtEqual(a, b)) {
					add("set-changes-other-path", fmt.Sprintf("%s(%q): path %s is not named by the expression but changed from %#v (%v) to %#v (%v)", c.Parse.Fn, c.Parse.S, pstr(q), b, bok, a, aok))
				}
			}
			// (3) round 4: the same on deep paths (list indexes nested to any depth), and the padding
			if c.Parse.V2 {
				c04DeepFrame(c.Parse, before, out, add)
			}
		}
	case "files", "mergemaps":
		srcs := c.Files
		if c.Kind == "mergemaps" {
			srcs = []vtree{c.A, c.B}
		}
		all := append(append([]vtree{}, srcs...), out)
		for _, p := range orAllPaths(all...) {
			var want interface{}
			have := false
			for i := len(srcs) - 1; i >= 0; i-- {
				if orDefines(p, srcs[i]) {
					want, have = orLeaf(p, srcs[i])
					break
				}
			}
			got, ok := orLeaf(p, out)
			if ok != have || (ok && !vtEqual(got, want)) {
				add("merge-precedence", fmt.Sprintf("%s: path %s: result has %v (leaf=%v) but the last source defining it has %v (leaf=%v)", c.Kind, pstr(p), got, ok, want, have))
			}
			if _, inOut := vtLookup(p, out); inOut {
				anySrc := false
				for _, s := range srcs {
					if _, ok := vtLookup(p, s); ok {
						anySrc = true
					}
				}
				if !anySrc {
					add("merge-invents-path", fmt.Sprintf("%s: path %s is in the result but in no source", c.Kind, pstr(p)))
				}
			}
		}
	case "upgrade":
		// overlay: a non-null new leaf wins, a path the new values say nothing about carries forward
		newv, old := c.Upgrade.Vals2, c.Upgrade.Vals1
		if newv == nil {
			newv = vtree{}
		}
		if old == nil {
			old = vtree{}
		}
		for _, p := range orAllPaths(newv, old, out) {
			if x, ok := orLeaf(p, newv); ok && x != nil {
				if got, ok := orLeaf(p, out); !ok || !vtEqual(got, x) {
					add("tables-dst-wins", fmt.Sprintf("upgrade overlay: path %s: new value %v, recorded %v (%v)", pstr(p), x, got, ok))
				}
			}
			if !orDefines(p, newv) {
				want, wok := vtLookup(p, old)
				got, gok := vtLookup(p, out)
				if wok != gok || (wok && !vtEqual(want, got)) {
					add("tables-src-fills", fmt.Sprintf("upgrade overlay: path %s not set now: deployed %v (%v), recorded %v (%v)", pstr(p), want, wok, got, gok))
				}
			}
		}
	case "tables":
		dst, src := c.A, c.B
		if dst == nil {
			dst = vtree{}
		}
		if src == nil {
			src = vtree{}
		}
		for _, p := range orAllPaths(dst, src, out) {
			if x, ok := orLeaf(p, dst); ok && x != nil {
				if got, ok := orLeaf(p, out); !ok || !vtEqual(got, x) {
					add("tables-dst-wins", fmt.Sprintf("tables(merge=%v): path %s: destination has %v, result has %v (leaf=%v)", c.Merge, pstr(p), x, got, ok))
				}
			}
			if !orDefines(p, dst) {
				want, wok := vtLookup(p, src)
				got, gok := vtLookup(p, out)
				if wok != gok || (wok && !vtEqual(want, got)) {
					add("tables-src-fills", fmt.Sprintf("tables(merge=%v): path %s not defined by the destination: source has %v (%v), result has %v (%v)", c.Merge, pstr(p), want, wok, got, gok))
				}
			}
			if x, ok := vtLookup(p, dst); ok && x == nil {
				_, inSrc := vtLookup(p, src)
				got, gok := vtLookup(p, out)
				if c.Merge && (!gok || got != nil) {
					add("tables-merge-keeps-null", fmt.Sprintf("MergeTables: path %s: null in the destination did not survive (result %v, %v)", pstr(p), got, gok))
				}
				if !c.Merge && inSrc && gok {
					add("tables-null-removes", fmt.Sprintf("CoalesceTables: path %s: null in the destination and a source value, but the result still has %v", pstr(p), got))
				}
			}
		}
	case "coalesce":
		user := c.Vals
		if user == nil {
			user = vtree{}
		}
		dflt := c.Chart.Values
		if dflt == nil {
			dflt = vtree{}
		}
		sub := map[string]*c04Chart{}
		for _, d := range c.Chart.Deps {
			sub[d.Name] = d
		}
		orGlobalIsolation(c.Chart, out, nil, []vtree{user}, "", func(path, where string) {
			add("global-leaks", fmt.Sprintf("%s: global.%s is visible in the view of chart /%s but comes from none of: its parent's view, its own defaults, a section addressed to it (a subchart's global leaked up or sideways)", c.API, path, where))
		})
		merge := c.API == "MergeValues"
		for _, p := range orAllPaths(user, dflt, out) {
			if orHasKey(p, "global") {
				continue // globals flow top-down by design (C11)
			}
			// (1) a user value wins
			if x, ok := orLeaf(p, user); ok && x != nil {
				if got, ok := orLeaf(p, out); !ok || !vtEqual(got, x) {
					add("coalesce-user-wins", fmt.Sprintf("%s: path %s: user value %v, result %v (leaf=%v)", c.API, pstr(p), x, got, ok))
				}
			}
			inSub := sub[p[0]] != nil
			// (2) a path the user says nothing about shows the chart's default
			if !inSub && !orDefines(p, user) {
				want, wok := vtLookup(p, dflt)
				got, gok := vtLookup(p, out)
				if wok != gok || (wok && !vtEqual(want, got)) {
					add("coalesce-default-fills", fmt.Sprintf("%s: path %s not defined by the user: default %v (%v), result %v (%v)", c.API, pstr(p), want, wok, got, gok))
				}
			}
			// (3) an explicit null removes a default (coalescing) / survives (MergeValues)
			if x, ok := vtLookup(p, user); ok && x == nil {
				_, inD := vtLookup(p, dflt)
				got, gok := vtLookup(p, out)
				if !merge && !inSub && inD && gok {
					add("coalesce-null-removes", fmt.Sprintf("%s: path %s: user null over a default, result still has %v", c.API, pstr(p), got))
				}
				if merge && len(p) > 0 && (!gok || got != nil) && !(inSub && len(p) == 1) {
					add("merge-keeps-null", fmt.Sprintf("MergeValues: path %s: user null did not survive (result %v, %v)", pstr(p), got, gok))
				}
			}
		}
		// (4) subchart scope: parent's section > subchart default, where the user is silent
		for name, d := range sub {
			if name == "global" || d.Values == nil {
				continue
			}
			for _, p := range vtPaths(d.Values) {
				if orHasKey(p, "global") {
					continue
				}
				full := append([]string{name}, p...)
				if orDefines(full, user) {
					continue
				}
				got, gok := vtLookup(full, out)
				if x, ok := orLeaf(full, dflt); ok && x != nil {
					if !gok || !vtEqual(got, x) {
						add("coalesce-parent-section-wins", fmt.Sprintf("%s: path %s: parent chart's section has %v, result %v (%v)", c.API, pstr(full), x, got, gok))
					}
					continue
				}
				if !orDefines(full, dflt) {
					// deeper dependency sections of the subchart can add keys below a table, so compare leaves only
					if x, ok := orLeaf(p, d.Values); ok && len(d.Deps) == 0 {
						if !gok || !vtEqual(got, x) {
							add("coalesce-subchart-default", fmt.Sprintf("%s: path %s: subchart default %v, result %v (%v)", c.API, pstr(full), x, got, gok))
						}
					}
				}
			}
		}
	}
	return vs
}

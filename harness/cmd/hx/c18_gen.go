package main

// C18 — corpus, small-scope enumeration and the random generator.

import (
	"fmt"
	"math/rand"
	"sort"

	"github.com/Masterminds/semver/v3"
)

var c18Pre = []string{"alpha", "alpha.1", "alpha.beta", "beta", "beta.2", "beta.11", "rc.1", "0", "1", "2", "10",
	"x-y", "-", "0.3.7", "x.7.z.92", "99999999999999999999", "100000000000000000000", "18446744073709551615", "rc.1.0"}
var c18Meta = []string{"b1", "b2", "001", "exp.sha.5114f85", "20130313144700", "-"}
var c18Invalid = []string{"", "latest", "1.2.3.4", "1.2.3-01", "1..2", "1.2.3-", "1.2.3+", "v", "18446744073709551616.0.0",
	"1.2.3-a_b", " 1.2.3", "1.2.3 ", "1.2.x", "V1.2.3", "1.2.3-a..b", "1.2.3+a+b", "-1.2.3", "1.-2.3", "vv1.2.3", "1.2.3-ä"}
var c18Odd = []string{"01.2.3", "1.02.3", "1.2.03", "18446744073709551615.0.0", "0", "v0", "0.0.0", "00", "1.2.3-0", "1.2.3--", "1.2.3+-"}

var c18Constraints = []string{"*", "^1", "^1.2", "^0.2.3", "^0.0.2", "~1.2", "~1.2.3", "~1", ">=1.2 <2", ">=1.0.0, <2.0.0", "1.x", "1.2.x",
	"x", ">0.0.0-0", ">=1.0.0-0", ">=0.0.0-0", "1.0.0 - 2.0.0", "1 - 2", "0.1 - 1.2.3-beta", "^1.0.0-alpha", "~1.2.3-beta.2", ">1.0.0-alpha.1",
	"<2", "<2.0.0-0", "!=1.2.3", "<=1.x", ">1", ">1.2", "=1.2.3", "1.2.3 || 2.x", "^2 || ^0.1", ">=2.0.0-alpha <2.0.0", ">= 1, < 3",
	"~>1.2", "=>1.1", "=<1.1", "v1.2.3", "^v1", "1", "1.2", "2.*", "^0", "~0", ">=1.0.0-beta.2 <1.0.0-rc.1", "*-0", "!=1.x", "<0.1"}
var c18BadConstraints = []string{"latest", ">a1", "1.2.3.4", "^^1", " ", ">=", "1.2.3-", "~~1", "1.2.3 |", "<>1", ">=1.2 <", "1.2.3-01"}

func c18RandVersion(r *rand.Rand) string {
	switch k := r.Intn(100); {
	case k < 8:
		return c18Invalid[r.Intn(len(c18Invalid))]
	case k < 13:
		return c18Odd[r.Intn(len(c18Odd))]
	}
	ma, mi, pa := r.Intn(3), r.Intn(3), r.Intn(3)
	if r.Intn(12) == 0 {
		ma = []int{10, 9, 11, 100}[r.Intn(4)]
	}
	s := ""
	switch k := r.Intn(10); {
	case k == 0:
		s = fmt.Sprintf("%d", ma)
	case k == 1:
		s = fmt.Sprintf("%d.%d", ma, mi)
	default:
		s = fmt.Sprintf("%d.%d.%d", ma, mi, pa)
	}
	if r.Intn(7) == 0 {
		s = "v" + s
	}
	if r.Intn(3) == 0 {
		s += "-" + c18Pre[r.Intn(len(c18Pre))]
	}
	if r.Intn(5) == 0 {
		s += "+" + c18Meta[r.Intn(len(c18Meta))]
	}
	return s
}

// a different spelling of the same precedence class (or nearly)
func c18Respell(r *rand.Rand, s string) string {
	v, err := semver.NewVersion(s)
	if err != nil {
		return s
	}
	base := fmt.Sprintf("%d.%d.%d", v.Major(), v.Minor(), v.Patch())
	if v.Patch() == 0 && v.Prerelease() == "" && r.Intn(3) == 0 {
		base = fmt.Sprintf("%d.%d", v.Major(), v.Minor())
	}
	if r.Intn(3) == 0 {
		base = "v" + base
	}
	if v.Prerelease() != "" {
		base += "-" + v.Prerelease()
	}
	if r.Intn(2) == 0 {
		base += "+" + c18Meta[r.Intn(len(c18Meta))]
	}
	return base
}

func c18RandConstraint(r *rand.Rand, known []string) string {
	switch k := r.Intn(100); {
	case k < 25 && len(known) > 0:
		return known[r.Intn(len(known))]
	case k < 35 && len(known) > 0:
		return c18Respell(r, known[r.Intn(len(known))])
	case k < 45 && len(known) > 0:
		// an operator in front of a listed version
		op := []string{"^", "~", ">=", ">", "<", "<=", "=", "!="}[r.Intn(8)]
		return op + known[r.Intn(len(known))]
	case k < 53:
		return c18BadConstraints[r.Intn(len(c18BadConstraints))]
	case k < 58:
		return c18RandVersion(r)
	case k < 80:
		// the structured generator of c18_cgen.go: operators, wildcards, partial versions,
		// hyphen ranges, pre-releases, white space variants, AND / OR combinations
		s, _ := c18CStructured(r)
		return s
	case k < 83:
		return c18CQuirks[r.Intn(len(c18CQuirks))]
	}
	return c18Constraints[r.Intn(len(c18Constraints))]
}

var c18Keys = []string{"alpha", "beta", "gamma", "a b", "z.chart"}
var c18BadNames = []string{"", "a/b", "/", "a\tb", "a\x01b", ".", "\x01", "x/", "..", "nginx ingress"}

func c18RandFile(r *rand.Rand, digest *int) c18File {
	f := c18File{Mode: "yaml", API: "v1"}
	switch k := r.Intn(40); {
	case k == 0:
		f.Mode = "empty"
		return f
	case k == 1:
		f.Mode = "bad"
		f.Bad = []string{"entries: \"x\"\napiVersion: v1\n", "{{", "apiVersion: v1\nentries:\n  a:\n  - name: a\n    version: 1.2\n",
			"apiVersion: v1\nentries:\n  a:\n  - name: a\n    bogusField: 1\n", "apiVersion: v1\napiVersion: v1\nentries: {}\n", "[1,2]"}[r.Intn(6)]
		return f
	case k < 6:
		f.API = ""
	case k < 8:
		f.API = "v2"
	}
	if r.Intn(4) == 0 {
		f.Mode = "json"
	}
	perm := r.Perm(len(c18Keys))
	nch := 1 + r.Intn(3)
	if r.Intn(25) == 0 {
		nch = 0
	}
	for i := 0; i < nch; i++ {
		ch := c18Chart{Key: c18Keys[perm[i]], Entries: []c18Entry{}}
		n := r.Intn(10)
		var used []string
		for j := 0; j < n; j++ {
			*digest++
			e := c18Entry{Name: ch.Key, API: "v1", Digest: fmt.Sprintf("d%d", *digest)}
			switch k := r.Intn(100); {
			case k < 9:
				e = c18Entry{Null: true}
				ch.Entries = append(ch.Entries, e)
				continue
			case k < 15:
				e = c18Entry{NoMeta: true, Digest: e.Digest}
			}
			if r.Intn(5) > 0 {
				e.URLs = []string{fmt.Sprintf("http://example.com/charts/%s-%d.tgz", ch.Key, *digest)}
				if r.Intn(4) == 0 {
					e.URLs = append(e.URLs, "https://mirror.example.com/x.tgz")
				}
			} else if r.Intn(2) == 0 {
				e.URLs = []string{}
			}
			if e.NoMeta {
				ch.Entries = append(ch.Entries, e)
				continue
			}
			switch k := r.Intn(100); {
			case k < 12 && len(used) > 0:
				e.Version = used[r.Intn(len(used))] // duplicated version string
			case k < 30 && len(used) > 0:
				e.Version = c18Respell(r, used[r.Intn(len(used))]) // same precedence, other spelling
			default:
				e.Version = c18RandVersion(r)
			}
			used = append(used, e.Version)
			switch k := r.Intn(100); {
			case k < 6:
				e.Name = c18BadNames[r.Intn(len(c18BadNames))]
			case k < 10:
				e.Name = "other"
			}
			switch k := r.Intn(100); {
			case k < 10:
				e.API = ""
			case k < 15:
				e.API = "v2"
			case k < 17:
				e.API = "weird"
			}
			switch k := r.Intn(100); {
			case k < 8:
				e.Type = "application"
			case k < 14:
				e.Type = "library"
			case k < 18:
				e.Type = "bogus"
			}
			ch.Entries = append(ch.Entries, e)
		}
		f.Charts = append(f.Charts, ch)
	}
	sort.Slice(f.Charts, func(i, j int) bool { return f.Charts[i].Key < f.Charts[j].Key })
	return f
}

func c18FileVersions(f c18File) []string {
	var out []string
	for _, ch := range f.Charts {
		for _, e := range ch.Entries {
			if !e.Null && !e.NoMeta {
				out = append(out, e.Version)
			}
		}
	}
	return out
}

// c18SortedTags: the parsable tags in descending order (real library), unparsable ones
// sprinkled anywhere.
func c18SortedTags(r *rand.Rand, raw []string) []string {
	var vs []*semver.Version
	var bad []string
	for _, s := range raw {
		if v, err := semver.NewVersion(s); err == nil {
			vs = append(vs, v)
		} else {
			bad = append(bad, s)
		}
	}
	sort.Sort(sort.Reverse(semver.Collection(vs)))
	out := []string{}
	for _, v := range vs {
		out = append(out, v.Original())
	}
	for _, s := range bad {
		i := r.Intn(len(out) + 1)
		out = append(out[:i], append([]string{s}, out[i:]...)...)
	}
	return out
}

func (*c18) Generate(r *rand.Rand, i int) any {
	digest := 0
	c := c18Case{File: c18RandFile(r, &digest)}
	known := c18FileVersions(c.File)
	names := []string{"missing"}
	for _, ch := range c.File.Charts {
		names = append(names, ch.Key, ch.Key, ch.Key)
	}
	for k := 0; k < 3+r.Intn(4); k++ {
		g := c18Get{Name: names[r.Intn(len(names))]}
		if r.Intn(4) > 0 {
			g.Version = c18RandConstraint(r, known)
		}
		c.Gets = append(c.Gets, g)
	}
	for k := 0; k < 1+r.Intn(2); k++ {
		n := r.Intn(9)
		raw := []string{}
		for j := 0; j < n; j++ {
			if len(raw) > 0 && r.Intn(5) == 0 {
				raw = append(raw, c18Respell(r, raw[r.Intn(len(raw))]))
			} else {
				raw = append(raw, c18RandVersion(r))
			}
		}
		q := c18TagQ{Sorted: r.Intn(10) < 7}
		if q.Sorted {
			q.Tags = c18SortedTags(r, raw)
		} else {
			q.Tags = raw
		}
		if r.Intn(4) > 0 {
			q.Version = c18RandConstraint(r, q.Tags)
		}
		c.Tags = append(c.Tags, q)
	}
	for k := 0; k < 1+r.Intn(2); k++ {
		ds := []c18Dep{}
		for j := 0; j < 1+r.Intn(3); j++ {
			d := c18Dep{Name: names[r.Intn(len(names))], Constraint: c18RandConstraint(r, known)}
			if r.Intn(30) == 0 {
				d.Constraint = ""
			}
			ds = append(ds, d)
		}
		if r.Intn(40) == 0 {
			ds = []c18Dep{}
		}
		c.Res = append(c.Res, ds)
	}
	for k := 0; k < 5; k++ {
		a := c18RandVersion(r)
		b := c18RandVersion(r)
		switch r.Intn(4) {
		case 0:
			b = c18Respell(r, a)
		case 1:
			// same numbers, two pre-release strings built from random identifiers
			a = "1.0.0-" + c18RandPre(r)
			b = "1.0.0-" + c18RandPre(r)
		}
		c.Cmps = append(c.Cmps, [2]string{a, b})
	}
	for k := 0; k < 8; k++ {
		c.CPairs = append(c.CPairs, c18CPairGen(r))
	}
	c.OCI = append(c.OCI, c18OCIGen(r))
	return c
}

func c18RandPre(r *rand.Rand) string {
	ids := []string{"0", "1", "2", "10", "9", "a", "A", "b", "a1", "1a", "-", "-1", "alpha", "beta", "rc", "x-y", "00a", "0a",
		"18446744073709551615", "18446744073709551616", "99999999999999999999", "01", "Z", "z"}
	n := 1 + r.Intn(4)
	s := ""
	for i := 0; i < n; i++ {
		if i > 0 {
			s += "."
		}
		s += ids[r.Intn(len(ids))]
	}
	return s
}

// ---- corpus ----

func c18Simple(key string, versions ...string) c18Chart {
	ch := c18Chart{Key: key, Entries: []c18Entry{}}
	for i, v := range versions {
		if v == "<null>" {
			ch.Entries = append(ch.Entries, c18Entry{Null: true})
			continue
		}
		ch.Entries = append(ch.Entries, c18Entry{Name: key, Version: v, API: "v1",
			URLs: []string{fmt.Sprintf("http://example.com/%s-%d.tgz", key, i)}, Digest: fmt.Sprintf("%s%d", key, i)})
	}
	return ch
}

func (*c18) Corpus() []any {
	var out []any
	// F3 witness (fixed by 161cdc1): a null entry in front of real ones
	out = append(out, c18Case{
		File: c18File{Mode: "yaml", API: "v1", Charts: []c18Chart{c18Simple("a", "<null>", "1.0.0", "2.0.0")}},
		Gets: []c18Get{{"a", ""}, {"a", "1.0.0"}, {"a", "^1"}},
		Res:  [][]c18Dep{{{"a", ">=1"}}},
	})
	out = append(out, c18Case{
		File: c18File{Mode: "json", API: "v1", Charts: []c18Chart{c18Simple("a", "1.0.0", "<null>", "<null>", "0.1.0", "<null>")}},
		Gets: []c18Get{{"a", ""}},
	})
	// the precedence chain of the semver specification, shuffled
	out = append(out, c18Case{
		File: c18File{Mode: "yaml", API: "v1", Charts: []c18Chart{c18Simple("s", "1.0.0-beta.11", "1.0.0", "1.0.0-alpha.beta",
			"1.0.0-rc.1", "1.0.0-alpha", "1.0.0-beta.2", "1.0.0-alpha.1", "1.0.0-beta")}},
		Gets: []c18Get{{"s", ""}, {"s", ">0.0.0-0"}, {"s", "<1.0.0-0"}, {"s", "1.0.0-beta.2"}, {"s", "<1.0.0-beta.11"}, {"s", ">=1.0.0-alpha <1.0.0-beta"}},
		Tags: []c18TagQ{{Tags: []string{"1.0.0", "1.0.0-rc.1", "1.0.0-beta.11", "1.0.0-beta.2", "1.0.0-beta", "1.0.0-alpha.beta", "1.0.0-alpha.1", "1.0.0-alpha"},
			Version: "<1.0.0-beta.11", Sorted: true}},
		Cmps: [][2]string{{"1.0.0-alpha", "1.0.0-alpha.1"}, {"1.0.0-alpha.1", "1.0.0-alpha.beta"}, {"1.0.0-beta.2", "1.0.0-beta.11"},
			{"1.0.0-rc.1", "1.0.0"}, {"1.0.0-99999999999999999999", "1.0.0-100000000000000000000"}, {"1.0.0-18446744073709551615", "1.0.0-18446744073709551616"}},
	})
	// one precedence class in three spellings, and only pre-releases with an empty version
	out = append(out, c18Case{
		File: c18File{Mode: "yaml", API: "v1", Charts: []c18Chart{
			c18Simple("eq", "v1.1.0+b2", "1.1.0+b1", "1.1", "1.0.9", "1.1.0+b2"),
			c18Simple("pre", "2.0.0-rc.1", "2.0.0-alpha"),
		}},
		Gets: []c18Get{{"eq", ""}, {"eq", "1.1.0+b1"}, {"eq", "1.1"}, {"eq", "1.1.0"}, {"eq", "1.1.0+zzz"}, {"pre", ""}, {"pre", "*"},
			{"pre", ">0.0.0-0"}, {"pre", "2.0.0-alpha"}, {"none", ""}, {"eq", "latest"}},
		Res: [][]c18Dep{{{"eq", "^1"}, {"pre", ">=2.0.0-0"}}, {{"pre", "*"}}, {{"eq", "latest"}}, {{"none", "1"}}},
	})
	// TestLoadUnorderedIndex-like, entries without URLs in front, no apiVersion, empty, undecodable
	un := c18Simple("nginx", "0.1.0", "0.3.0", "0.2.0", "1.0.0-rc.1")
	un.Entries[1].URLs = nil
	out = append(out, c18Case{
		File: c18File{Mode: "yaml", API: "v1", Charts: []c18Chart{un}},
		Gets: []c18Get{{"nginx", ""}, {"nginx", ">0.1.0"}},
		Res:  [][]c18Dep{{{"nginx", ">0.1.0"}}, {{"nginx", "0.3.x"}}},
	})
	out = append(out, c18Case{File: c18File{Mode: "yaml", API: "", Charts: []c18Chart{c18Simple("a", "1.0.0")}}, Res: [][]c18Dep{{{"a", "1"}}}})
	out = append(out, c18Case{File: c18File{Mode: "empty"}})
	out = append(out, c18Case{File: c18File{Mode: "bad", Bad: "entries: 3\n"}})
	// the constraint language: the quirk list and the fixed constraint shapes against the fixed version set
	q := c18Case{File: c18File{Mode: "empty"}, CVers: c18CFixedVersions}
	for _, l := range [][]string{c18CQuirks, c18Constraints, c18BadConstraints} {
		for _, s := range l {
			q.CPairs = append(q.CPairs, c18CPair{Constraint: s})
		}
	}
	out = append(out, q)
	// paged OCI tag listings (first: the witness of seeded change C18-7)
	out = append(out, c18Case{File: c18File{Mode: "empty"}, OCI: c18OCICorpus()})
	return out
}

// Exhaustive: every ordering of every 3-element selection from a pool that mixes releases,
// pre-releases, spellings of one class and an invalid string, queried with a fixed battery.
func (*c18) Exhaustive(tier string) []any {
	if tier != "thorough" {
		return c18OCISplits(false)
	}
	pool := []string{"1.0.0", "v1.0", "1.0.0+b", "1.0.0-rc.1", "1.0.0-beta.11", "1.0.0-beta.2", "1.1.0", "0.9", "2.0.0-alpha", "latest", "<null>"}
	qs := []string{"", "1.0.0", "^1", "~1.0", ">=1.0.0-0", "<1.0.0", "*", "2.x", ">=1.0.0-beta.2 <1.0.0"}
	var out []any
	for i := range pool {
		for j := range pool {
			for k := range pool {
				if i == j || j == k || i == k {
					continue
				}
				c := c18Case{File: c18File{Mode: "yaml", API: "v1", Charts: []c18Chart{c18Simple("x", pool[i], pool[j], pool[k])}}}
				for _, q := range qs {
					c.Gets = append(c.Gets, c18Get{"x", q})
				}
				c.Res = [][]c18Dep{{{"x", "^1"}}, {{"x", ">=1.0.0-0"}}}
				out = append(out, c)
			}
		}
	}
	out = append(out, c18CExhaustive()...)
	out = append(out, c18OCISplits(true)...)
	return out
}

// Shrink: greedily drop queries, charts and entries while the same violation persists.
func (*c18) Shrink(ci any, fails func(c any) bool) any {
	c := ci.(c18Case)
	clone := func(x c18Case) c18Case {
		y := x
		y.Gets = append([]c18Get{}, x.Gets...)
		y.Tags = append([]c18TagQ{}, x.Tags...)
		y.Res = append([][]c18Dep{}, x.Res...)
		y.Cmps = nil
		y.File.Charts = nil
		for _, ch := range x.File.Charts {
			y.File.Charts = append(y.File.Charts, c18Chart{Key: ch.Key, Entries: append([]c18Entry{}, ch.Entries...)})
		}
		return y
	}
	// fast path: one OCI listing with one version argument reproduces most OCI violations
	for _, q := range c.OCI {
		for _, v := range q.Versions {
			cand := c18Case{File: c18File{Mode: "empty"}, OCI: []c18OCI{{Pages: q.Pages, Versions: []string{v}}}}
			if fails(cand) {
				return cand
			}
		}
	}
	cur := clone(c)
	if !fails(cur) {
		return c
	}
	for i := len(cur.OCI) - 1; i >= 0; i-- {
		cand := clone(cur)
		cand.OCI = append(append([]c18OCI{}, cand.OCI[:i]...), cand.OCI[i+1:]...)
		if fails(cand) {
			cur = cand
		}
	}
	for oi := range cur.OCI { // fewer version arguments
		for i := len(cur.OCI[oi].Versions) - 1; i >= 0; i-- {
			cand := clone(cur)
			cand.OCI = append([]c18OCI{}, cur.OCI...)
			vs := cur.OCI[oi].Versions
			cand.OCI[oi].Versions = append(append([]string{}, vs[:i]...), vs[i+1:]...)
			if fails(cand) {
				cur = cand
			}
		}
	}
	if len(cur.CPairs) > 0 { // the constraint pairs play no part in the oracle
		cand := clone(cur)
		cand.CPairs, cand.CVers = nil, nil
		if fails(cand) {
			cur = cand
		}
	}
	for i := len(cur.Gets) - 1; i >= 0; i-- {
		cand := clone(cur)
		cand.Gets = append(cand.Gets[:i], cand.Gets[i+1:]...)
		if fails(cand) {
			cur = cand
		}
	}
	for i := len(cur.Tags) - 1; i >= 0; i-- {
		cand := clone(cur)
		cand.Tags = append(cand.Tags[:i], cand.Tags[i+1:]...)
		if fails(cand) {
			cur = cand
		}
	}
	for i := len(cur.Res) - 1; i >= 0; i-- {
		cand := clone(cur)
		cand.Res = append(cand.Res[:i], cand.Res[i+1:]...)
		if fails(cand) {
			cur = cand
		}
	}
	for i := len(cur.File.Charts) - 1; i >= 0; i-- {
		cand := clone(cur)
		cand.File.Charts = append(cand.File.Charts[:i], cand.File.Charts[i+1:]...)
		if fails(cand) {
			cur = cand
		}
	}
	for ci := range cur.File.Charts {
		for i := len(cur.File.Charts[ci].Entries) - 1; i >= 0; i-- {
			cand := clone(cur)
			es := cand.File.Charts[ci].Entries
			cand.File.Charts[ci].Entries = append(es[:i], es[i+1:]...)
			if fails(cand) {
				cur = cand
			}
		}
	}
	return cur
}

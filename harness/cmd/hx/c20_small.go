package main

// C20 plugin and message-block streams: two small pieces of glue with index expressions, on the
// real code, compared with coq/Misc/PanicsSmall.v.
//   plugin:  a generated plugin.yaml -> plugin.LoadDir (validatePluginData) -> Plugin.PrepareCommand
//            (getPlatformCommand, PrepareCommands: cmdParts[0], cmdParts[1:]); compared: class, the
//            command and its arguments.
//   provmsg: a generated signed-text body -> provenance.parseMessageBlock (through a verif hook; in
//            Signatory.Verify it sits behind the signature check): parts[0], parts[1]; compared: class.
//            The YAML verdict on every part is data.

import (
	"bytes"
	"fmt"
	"math/rand"
	"os"
	"path/filepath"
	"runtime"
	"strings"

	"sigs.k8s.io/yaml"

	chart "helm.sh/helm/v4/pkg/chart/v2"
	"helm.sh/helm/v4/pkg/plugin"
	"helm.sh/helm/v4/pkg/provenance"

	"verif/harness/internal/hx"
)

// ---------- plugin ----------

type c20PlugCmd struct {
	OS      string   `json:"os"`
	Arch    string   `json:"arch"`
	Command string   `json:"command"`
	Args    []string `json:"args"`
}

type c20PluginC struct {
	NoMeta        bool         `json:"nometa,omitempty"` // plugin.yaml holds no document / null
	Name          string       `json:"name"`
	Command       string       `json:"command"`
	Platform      []c20PlugCmd `json:"platform"`
	IgnoreFlags   bool         `json:"ignoreFlags"`
	Hooks         bool         `json:"hooks"`
	PlatformHooks bool         `json:"platformHooks"`
	Extra         []string     `json:"extra"`
}

func (c *c20PluginC) malformed() bool {
	return c.NoMeta || len(c.Platform) == 0 || c.Command != "" || c.Name == "" || strings.ContainsAny(c.Name, " /.")
}

func c20PluginCorpus() []any {
	var out []any
	add := func(c c20PluginC) { out = append(out, c20Case{Kind: "plugin", Plugin: &c}) }
	add(c20PluginC{NoMeta: true})
	add(c20PluginC{Name: "p"})                                          // no command at all
	add(c20PluginC{Name: "p", Platform: []c20PlugCmd{}})                // empty list
	add(c20PluginC{Name: "p", Platform: []c20PlugCmd{{Command: ""}}})   // cmdParts = [""]
	add(c20PluginC{Name: "p", Platform: []c20PlugCmd{{Command: " x"}}}) // cmdParts = ["", "x"]
	add(c20PluginC{Name: "p", Platform: []c20PlugCmd{{OS: "plan9", Command: "x"}}})
	add(c20PluginC{Name: "p", Platform: []c20PlugCmd{{Arch: runtime.GOARCH, Command: "x"}}})
	add(c20PluginC{Name: "p", Command: "old style -f", Extra: []string{"a", "b"}})
	add(c20PluginC{Name: "p", Command: "c", Platform: []c20PlugCmd{{Command: "x"}}})
	add(c20PluginC{Name: "p", Hooks: true, PlatformHooks: true, Command: "c"})
	add(c20PluginC{Name: "bad name", Command: "c"})
	add(c20PluginC{Name: "p", IgnoreFlags: true, Extra: []string{"--debug"}, Platform: []c20PlugCmd{
		{Command: "default cmd", Args: []string{"d"}}, {OS: strings.ToUpper(runtime.GOOS), Command: "sh -c", Args: []string{"x"}},
		{OS: runtime.GOOS, Arch: strings.ToUpper(runtime.GOARCH), Command: "exact one two"}}})
	return out
}

func c20GenPlugin(r *rand.Rand) *c20PluginC {
	c := &c20PluginC{Name: []string{"p", "my-plug", "a_b", "", "bad name", "x/y", "Z9"}[r.Intn(7)]}
	if r.Intn(12) == 0 {
		c.NoMeta = true
		return c
	}
	oss := []string{"", "", runtime.GOOS, strings.ToUpper(runtime.GOOS), "plan9", "windows"}
	archs := []string{"", "", "", runtime.GOARCH, strings.ToUpper(runtime.GOARCH), "mips"}
	cmds := []string{"x", "sh -c", "a b c", "", " ", " lead", "trail ", "two  spaces", "bin/tool --flag=1"}
	for i := 0; i < r.Intn(5); i++ {
		pc := c20PlugCmd{OS: oss[r.Intn(len(oss))], Arch: archs[r.Intn(len(archs))], Command: cmds[r.Intn(len(cmds))]}
		for j := 0; j < r.Intn(3); j++ {
			pc.Args = append(pc.Args, []string{"-v", "arg", "", "a b"}[r.Intn(4)])
		}
		c.Platform = append(c.Platform, pc)
	}
	if r.Intn(3) == 0 {
		c.Command = cmds[r.Intn(len(cmds))]
	}
	c.IgnoreFlags = r.Intn(4) == 0
	c.Hooks, c.PlatformHooks = r.Intn(5) == 0, r.Intn(5) == 0
	for j := 0; j < r.Intn(3); j++ {
		c.Extra = append(c.Extra, []string{"--debug", "x", ""}[r.Intn(3)])
	}
	return c
}

func c20PluginYAML(c *c20PluginC) []byte {
	if c.NoMeta {
		return []byte("null\n")
	}
	m := map[string]interface{}{"name": c.Name, "version": "0.1.0", "ignoreFlags": c.IgnoreFlags}
	if c.Command != "" {
		m["command"] = c.Command
	}
	if c.Platform != nil {
		var l []interface{}
		for _, p := range c.Platform {
			e := map[string]interface{}{"command": p.Command}
			if p.OS != "" {
				e["os"] = p.OS
			}
			if p.Arch != "" {
				e["arch"] = p.Arch
			}
			if p.Args != nil {
				e["args"] = p.Args
			}
			l = append(l, e)
		}
		if l == nil {
			l = []interface{}{}
		}
		m["platformCommand"] = l
	}
	if c.Hooks {
		m["hooks"] = map[string]interface{}{"install": "echo"}
	}
	if c.PlatformHooks {
		m["platformHooks"] = map[string]interface{}{"install": []interface{}{map[string]interface{}{"command": "echo"}}}
	}
	b, _ := yaml.Marshal(m)
	return b
}

func c20ExecPlugin(c *c20PluginC) c20Obs {
	obs := c20Obs{}
	where := "plugin.LoadDir"
	class, msg := c20Guard("plugin", c20Timeout, func() {
		base, _ := os.MkdirTemp("", "c20plug")
		defer os.RemoveAll(base)
		d := filepath.Join(base, "p1")
		os.MkdirAll(d, 0o755)
		os.WriteFile(filepath.Join(d, "plugin.yaml"), c20PluginYAML(c), 0o644)
		p, err := plugin.LoadDir(d)
		if err != nil {
			obs.Class = "err"
			return
		}
		where = "Plugin.PrepareCommand"
		main, args, err := p.PrepareCommand(c.Extra)
		if err != nil {
			obs.Class = "err"
			return
		}
		obs.Class = "ok"
		as := make([]any, len(args))
		for i, a := range args {
			as[i] = a
		}
		obs.Extra = map[string]any{"main": main, "args": as}
	})
	if class != "" {
		obs.Class, obs.Panic, obs.Where = class, msg, where
	}
	return obs
}

func c20CoqPlugin(c *c20PluginC, obs c20Obs) string {
	md := "None"
	if !c.NoMeta {
		var pcs []string
		for _, p := range c.Platform {
			pcs = append(pcs, fmt.Sprintf("mkPcmd %s %s %s %s", hx.CoqStr(p.OS), hx.CoqStr(p.Arch), hx.CoqStr(p.Command), hx.CoqStrList(p.Args)))
		}
		md = fmt.Sprintf("(Some (mkPmeta %s %s %s %s %d %d))", hx.CoqStr(c.Name), hx.CoqStr(c.Command), hx.CoqList(pcs), hx.CoqBool(c.IgnoreFlags), boolInt(c.Hooks), boolInt(c.PlatformHooks))
	}
	res := "None"
	if obs.Class == "ok" && obs.Extra != nil {
		var args []string
		if l, ok := obs.Extra["args"].([]any); ok {
			for _, a := range l {
				args = append(args, fmt.Sprint(a))
			}
		}
		res = fmt.Sprintf("(Some (%s, %s))", hx.CoqStr(fmt.Sprint(obs.Extra["main"])), hx.CoqStrList(args))
	}
	return fmt.Sprintf("CPlugin %s %s %s %s (%s, %s)", hx.CoqStr(runtime.GOOS), hx.CoqStr(runtime.GOARCH), md, hx.CoqStrList(c.Extra), c20Cls(obs.Class), res)
}

// ---------- provenance message block ----------

type c20ProvMsgC struct {
	Data string `json:"data"`
}

func (c *c20ProvMsgC) malformed() bool {
	return len(bytes.Split([]byte(c.Data), []byte("\n...\n"))) != 2
}

var c20ProvParts = []string{"name: x\nversion: 1.0.0", "files:\n  x-1.0.0.tgz: sha256:abc", "", "a: [", "just text", "- a\n- b", "name: [1]", "files: 5", "null", "..."}
var c20ProvSeps = []string{"\n...\n", "\n...\n", "\n...\n", "\n...", "...\n", "\n....\n", "\r\n...\r\n", "\n...\n...\n", "\n"}

func c20ProvMsgCorpus() []any {
	var out []any
	for _, d := range []string{"", "name: x", "name: x\n...\n", "\n...\n", "name: x\n...\nfiles: {}", "name: x\n...\nfiles: {}\n...\nmore", "a: [\n...\nfiles: {}", "name: x\n...\na: [",
		"name: x\n...\n...\nfiles: {}", "\n...\n...\n", "name: x\n....\nfiles: {}", "...\n...\n"} {
		out = append(out, c20Case{Kind: "provmsg", ProvMsg: &c20ProvMsgC{Data: d}})
	}
	return out
}

func c20GenProvMsg(r *rand.Rand) *c20ProvMsgC {
	var b strings.Builder
	n := r.Intn(5)
	for i := 0; i < n; i++ {
		if i > 0 {
			b.WriteString(c20ProvSeps[r.Intn(len(c20ProvSeps))])
		}
		b.WriteString(c20ProvParts[r.Intn(len(c20ProvParts))])
	}
	if r.Intn(6) == 0 {
		b.WriteString("\n")
	}
	return &c20ProvMsgC{Data: b.String()}
}

func c20ExecProvMsg(c *c20ProvMsgC) c20Obs {
	obs := c20Obs{}
	class, msg := c20Guard("provenance.parseMessageBlock", c20Timeout, func() {
		if err := provenance.VerifParseMessageBlock([]byte(c.Data)); err != nil {
			obs.Class = "err"
		} else {
			obs.Class = "ok"
		}
	})
	if class != "" {
		obs.Class, obs.Panic, obs.Where = class, msg, "provenance.parseMessageBlock"
	}
	return obs
}

// the YAML decoder's verdict on every part, as data for the model (which splits by itself)
func c20CoqProvMsg(c *c20ProvMsgC, obs c20Obs) string {
	seen := map[string]bool{}
	var rows []string
	for _, p := range bytes.Split([]byte(c.Data), []byte("\n...\n")) {
		if seen[string(p)] {
			continue
		}
		seen[string(p)] = true
		ok1 := yaml.Unmarshal(p, &chart.Metadata{}) == nil
		ok2 := yaml.Unmarshal(p, &provenance.SumCollection{}) == nil
		rows = append(rows, fmt.Sprintf("(%s, (%s, %s))", hx.CoqStr(string(p)), hx.CoqBool(ok1), hx.CoqBool(ok2)))
	}
	return fmt.Sprintf("CProvMsg %s %s %s", hx.CoqStr(c.Data), hx.CoqList(rows), c20Cls(obs.Class))
}

package main

// Translator table for C14 (coq/Gen/C14Compiler.v): how ValidateAgainstSingleSchema
// (pkg/chart/v2/util/jsonschema.go) configures the jsonschema compiler - which methods it calls
// on the value returned by jsonschema.NewCompiler(), and with which argument DefaultDraft is
// called, if at all - and which draft the pinned library (go.mod version, source in the module
// cache) takes as its default: `draftLatest` in draft.go and the `defaultDraft:` field of
// newRoots() in roots.go.  Props/C14.v states that the draft a schema WITHOUT "$schema" is
// compiled with is the one Values/Schema2.v models (helm_default_draft = 2020-12), and that no
// other compiler option (AssertFormat, AssertContent, AssertVocabs, custom loaders, ...) is used.

import (
	"fmt"
	"go/ast"
	"go/token"
	"os"
	"path/filepath"
	"regexp"
	"strings"
)

func init() { registerTable("C14Compiler", genC14Compiler) }

func exprString(e ast.Expr) string {
	switch x := e.(type) {
	case *ast.Ident:
		return x.Name
	case *ast.SelectorExpr:
		return exprString(x.X) + "." + x.Sel.Name
	case *ast.BasicLit:
		return x.Value
	case *ast.CallExpr:
		return exprString(x.Fun) + "(...)"
	case *ast.StarExpr:
		return "*" + exprString(x.X)
	case *ast.UnaryExpr:
		return x.Op.String() + exprString(x.X)
	}
	return "?"
}

func coqStrs(xs []string) string {
	o := make([]string, len(xs))
	for i, x := range xs {
		o[i] = `"` + strings.ReplaceAll(x, `"`, `""`) + `"`
	}
	return "[" + strings.Join(o, "; ") + "]"
}

func modCache() string {
	if d := os.Getenv("GOMODCACHE"); d != "" {
		return d
	}
	if d := os.Getenv("GOPATH"); d != "" {
		return filepath.Join(strings.Split(d, string(os.PathListSeparator))[0], "pkg", "mod")
	}
	h, _ := os.UserHomeDir()
	return filepath.Join(h, "go", "pkg", "mod")
}

func genC14Compiler(repo string) (string, error) {
	f, _, err := parseFile(repo, "pkg/chart/v2/util/jsonschema.go")
	if err != nil {
		return "", err
	}
	var body *ast.BlockStmt
	for _, d := range f.Decls {
		if fd, ok := d.(*ast.FuncDecl); ok && fd.Name.Name == "ValidateAgainstSingleSchema" {
			body = fd.Body
		}
	}
	if body == nil {
		return "", fmt.Errorf("ValidateAgainstSingleSchema not found")
	}
	// the variable(s) holding jsonschema.NewCompiler()
	compilers := map[string]bool{}
	ast.Inspect(body, func(n ast.Node) bool {
		as, ok := n.(*ast.AssignStmt)
		if !ok {
			return true
		}
		for i, r := range as.Rhs {
			if c, ok := r.(*ast.CallExpr); ok && exprString(c.Fun) == "jsonschema.NewCompiler" && i < len(as.Lhs) {
				if id, ok := as.Lhs[i].(*ast.Ident); ok {
					compilers[id.Name] = true
				}
			}
		}
		return true
	})
	if len(compilers) != 1 {
		return "", fmt.Errorf("expected one variable assigned from jsonschema.NewCompiler(), found %d", len(compilers))
	}
	var methods, draftArgs []string
	escapes := false
	ast.Inspect(body, func(n ast.Node) bool {
		switch x := n.(type) {
		case *ast.CallExpr:
			if sel, ok := x.Fun.(*ast.SelectorExpr); ok {
				if id, ok := sel.X.(*ast.Ident); ok && compilers[id.Name] {
					methods = append(methods, sel.Sel.Name)
					if sel.Sel.Name == "DefaultDraft" {
						for _, a := range x.Args {
							draftArgs = append(draftArgs, exprString(a))
						}
					}
					return true
				}
			}
			// the compiler handed to another function could be configured there
			for _, a := range x.Args {
				if id, ok := a.(*ast.Ident); ok && compilers[id.Name] {
					escapes = true
				}
			}
		}
		return true
	})
	call := "None"
	if len(draftArgs) == 1 {
		call = `(Some "` + draftArgs[0] + `")`
	} else if len(draftArgs) > 1 {
		return "", fmt.Errorf("DefaultDraft called more than once or with several arguments: %v", draftArgs)
	}

	// the pinned library
	gm, err := os.ReadFile(filepath.Join(repo, "go.mod"))
	if err != nil {
		return "", err
	}
	m := regexp.MustCompile(`(?m)^\s*github\.com/santhosh-tekuri/jsonschema/v6\s+(v[^\s]+)`).FindSubmatch(gm)
	if m == nil {
		return "", fmt.Errorf("go.mod does not require github.com/santhosh-tekuri/jsonschema/v6")
	}
	ver := string(m[1])
	lib := filepath.Join(modCache(), "github.com", "santhosh-tekuri", "jsonschema", "v6@"+ver)
	df, _, err := parseFile(lib, "draft.go")
	if err != nil {
		return "", err
	}
	latest := ""
	for _, d := range df.Decls {
		gd, ok := d.(*ast.GenDecl)
		if !ok || gd.Tok != token.VAR {
			continue
		}
		for _, s := range gd.Specs {
			vs := s.(*ast.ValueSpec)
			for i, n := range vs.Names {
				if n.Name == "draftLatest" && i < len(vs.Values) {
					latest = exprString(vs.Values[i])
				}
			}
		}
	}
	if latest == "" {
		return "", fmt.Errorf("draftLatest not found in %s/draft.go", lib)
	}
	rf, _, err := parseFile(lib, "roots.go")
	if err != nil {
		return "", err
	}
	rootsDefault := ""
	for _, d := range rf.Decls {
		fd, ok := d.(*ast.FuncDecl)
		if !ok || fd.Name.Name != "newRoots" {
			continue
		}
		ast.Inspect(fd.Body, func(n ast.Node) bool {
			if kv, ok := n.(*ast.KeyValueExpr); ok && exprString(kv.Key) == "defaultDraft" {
				rootsDefault = exprString(kv.Value)
			}
			return true
		})
	}
	if rootsDefault == "" {
		return "", fmt.Errorf("newRoots() does not set defaultDraft in %s/roots.go", lib)
	}
	var b strings.Builder
	fmt.Fprintf(&b, "(* pkg/chart/v2/util/jsonschema.go, ValidateAgainstSingleSchema *)\n")
	fmt.Fprintf(&b, "Definition compiler_methods : list string := %s.\n", coqStrs(methods))
	fmt.Fprintf(&b, "Definition default_draft_call : option string := %s.\n", call)
	fmt.Fprintf(&b, "Definition compiler_escapes : bool := %v.\n", escapes)
	fmt.Fprintf(&b, "(* go.mod / module cache: github.com/santhosh-tekuri/jsonschema/v6 *)\n")
	fmt.Fprintf(&b, "Definition library_version : string := \"%s\".\n", ver)
	fmt.Fprintf(&b, "Definition library_draft_latest : string := \"%s\".      (* draft.go: draftLatest = ... *)\n", latest)
	fmt.Fprintf(&b, "Definition library_roots_default : string := \"%s\".  (* roots.go: newRoots() defaultDraft: ... *)\n", rootsDefault)
	return b.String(), nil
}

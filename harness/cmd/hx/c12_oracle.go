package main

// Runtime oracle of C12, written against the property text, not against the Coq model: a
// checker automaton that walks the ordered request log of the simulated API server
// (requests on hook keys vs. requests on manifest keys) and the ordered eng trace
// (create / hookwatch alternation).

import (
	"fmt"
	"sort"
	"strings"

	"verif/harness/internal/eng"
	"verif/harness/internal/hx"
	"verif/harness/internal/sim"
)

type hreq struct {
	idx         int
	method, key string
	code        int
}

func effPolicies(h eng.Hook) map[string]bool {
	m := map[string]bool{}
	for _, p := range h.Policies {
		m[p] = true
	}
	if len(h.Policies) == 0 {
		m["before-hook-creation"] = true
	}
	return m
}

// expectedRuns: every hook once per occurrence of the event, ascending (weight, name), ties in input order
func expectedRuns(src []eng.Hook, ev string) []eng.Hook {
	var out []eng.Hook
	for _, h := range src {
		for _, e := range h.Events {
			if e == ev {
				out = append(out, h)
			}
		}
	}
	sort.SliceStable(out, func(i, j int) bool {
		if out[i].Weight != out[j].Weight {
			return out[i].Weight < out[j].Weight
		}
		return out[i].Res.Name < out[j].Res.Name
	})
	return out
}

// withDeclared: Helm's hook list (order, kind, name as Helm parsed and stored them) with what the CHART declares
// (matched document by document: matchDeclared; read by the oracle's own parser: c12Sem): the delete policies,
// the weight when the annotation is absent or a decimal integer, the events when every name is a hook event - so that
// what the oracle expects does not depend on how Helm parsed the helm.sh/hook* annotations.  Where the documentation
// defines nothing (a weight that is no decimal integer, an unknown event name) Helm's reading is kept.
func withDeclared(src, declared []eng.Hook) []eng.Hook {
	out := make([]eng.Hook, len(src))
	m := matchDeclared(src, declared)
	for i, h := range src {
		out[i] = h
		if m[i] < 0 {
			continue
		}
		s := c12Sem(declared[m[i]])
		out[i].Policies = s.Policies
		if s.WeightKnown {
			out[i].Weight = s.Weight
		}
		if s.EventsKnown {
			out[i].Events = s.Events
		}
	}
	return out
}

func samePolicySet(a, b eng.Hook) bool {
	x, y := effPolicies(a), effPolicies(b)
	if len(x) != len(y) {
		return false
	}
	for p := range x {
		if !y[p] {
			return false
		}
	}
	return true
}

// hookSource: the hooks the operation is to run, in the order Helm stored them, with the declared policies
func hookSource(op *eng.Op, so eng.StepObs, prev []eng.LedgerRow, decl func(chartID int) []eng.Hook) []eng.Hook {
	switch op.Kind {
	case "install", "upgrade":
		return withDeclared(so.RHooks, op.Hooks)
	case "rollback":
		if len(prev) == 0 {
			return nil
		}
		tv := op.Flags.Version
		if tv == 0 {
			tv = prev[len(prev)-1].Rev - 1
		}
		for _, r := range prev {
			if r.Rev == tv {
				all, _ := expectedHooks(r.Hooks, r.ChartID, decl)
				return all
			}
		}
	case "uninstall":
		// a release that is already uninstalled has nothing left to delete: only its history is removed
		if len(prev) > 0 && prev[len(prev)-1].Status != "uninstalled" {
			last := prev[len(prev)-1]
			all, _ := expectedHooks(last.Hooks, last.ChartID, decl)
			return all
		}
	case "test":
		// helm test runs the test hooks of the last revision that the name filters select
		if len(prev) == 0 {
			return nil
		}
		last := prev[len(prev)-1]
		all, _ := expectedHooks(last.Hooks, last.ChartID, decl)
		in := func(l []string, n string) bool {
			for _, x := range l {
				if x == n {
					return true
				}
			}
			return false
		}
		var out []eng.Hook
		for _, h := range all {
			if in(op.TestExclude, h.Res.Name) || (len(op.TestInclude) > 0 && !in(op.TestInclude, h.Res.Name)) {
				continue
			}
			out = append(out, h)
		}
		return out
	}
	return nil
}

type c12Walk struct {
	reqs   []hreq
	pos    int
	arm    *eng.HFault
	vs     *[]hx.Violation
	step   int
	broken bool // a mismatch was reported: stop interpreting this step
}

func (w *c12Walk) add(sig, what string) {
	*w.vs = append(*w.vs, hx.Violation{Sig: sig, What: fmt.Sprintf("step %d: %s", w.step, what)})
}

func (w *c12Walk) peek() *hreq {
	if w.pos < len(w.reqs) {
		return &w.reqs[w.pos]
	}
	return nil
}

func (w *c12Walk) show() string {
	if q := w.peek(); q != nil {
		return fmt.Sprintf("%s %s (%d)", q.method, q.key, q.code)
	}
	return "no further request on a hook resource"
}

// expect the next hook-key request to be method key; on mismatch report sig
func (w *c12Walk) expect(method, key, sig, why string) *hreq {
	q := w.peek()
	if q == nil || q.method != method || q.key != key {
		switch {
		case q == nil:
		case q.key != key:
			sig = "C12:order" // another hook is handled than the one whose turn it is
		case q.method == "DELETE" && method == "POST":
			sig = "C12:unexpected-hook-deletion"
		}
		w.add(sig, fmt.Sprintf("expected %s %s (%s), observed %s", method, key, why, w.show()))
		w.broken = true
		return nil
	}
	w.pos++
	return q
}

// watchFails consumes the scripted one-shot failure
func (w *c12Walk) watchFails(name string) bool {
	if w.arm == nil || w.arm.Name != name {
		return false
	}
	if w.arm.Nth == 0 {
		w.arm = nil
		return true
	}
	a := *w.arm
	a.Nth--
	w.arm = &a
	return false
}

// phase walks one event.  Returns ok (every hook of the event completed and the
// hook-succeeded deletions were done), and the index range of the requests it consumed.
func (w *c12Walk) phase(src []eng.Hook, ev string) (ok bool, first, last int) {
	runs := expectedRuns(src, ev)
	first, last = -1, -1
	mark := func(q *hreq) {
		if q != nil {
			if first < 0 {
				first = q.idx
			}
			last = q.idx
		}
	}
	delOK := func(q *hreq) bool { return q.code == 200 || q.code == 404 }
	for i, h := range runs {
		key := h.Res.Key()
		pol := effPolicies(h)
		if pol["before-hook-creation"] {
			q := w.expect("DELETE", key, "C12:before-hook-creation-not-deleted", fmt.Sprintf("%s hook #%d has before-hook-creation", ev, i))
			if q == nil {
				return false, first, last
			}
			mark(q)
			if !delOK(q) {
				return false, first, last // a rejected deletion aborts the event
			}
		}
		q := w.expect("POST", key, "C12:order", fmt.Sprintf("%s hook #%d in (weight,name) order is %s weight %d", ev, i, key, h.Weight))
		if q == nil {
			return false, first, last
		}
		mark(q)
		if q.code != 201 {
			// the creation was refused: the hook failed.  By the property text the earlier, successful hooks with
			// hook-succeeded are deleted also when a later hook of the event fails.
			for j := 0; j < i; j++ {
				if effPolicies(runs[j])["hook-succeeded"] {
					n := w.peek()
					if n == nil || n.method != "DELETE" || n.key != runs[j].Res.Key() {
						w.add("C12:succeeded-hooks-kept-when-later-hook-creation-refused",
							fmt.Sprintf("creation of %s hook %s was refused (%d); the earlier successful hook %s has hook-succeeded but is not deleted (observed %s)",
								ev, key, q.code, runs[j].Res.Key(), w.show()))
						return false, first, last
					}
					w.pos++
					mark(n)
				}
			}
			return false, first, last
		}
		if w.watchFails(h.Res.Name) {
			if pol["hook-failed"] {
				d := w.expect("DELETE", key, "C12:hook-failed-not-deleted", fmt.Sprintf("%s hook %s failed and has hook-failed", ev, key))
				if d == nil {
					return false, first, last
				}
				mark(d)
			}
			for j := 0; j < i; j++ {
				if effPolicies(runs[j])["hook-succeeded"] {
					d := w.expect("DELETE", runs[j].Res.Key(), "C12:hook-succeeded-not-deleted",
						fmt.Sprintf("%s hook %s succeeded before %s failed and has hook-succeeded", ev, runs[j].Res.Key(), key))
					if d == nil {
						return false, first, last
					}
					mark(d)
					if !delOK(d) {
						return false, first, last
					}
				}
			}
			return false, first, last
		}
	}
	for i := len(runs) - 1; i >= 0; i-- {
		if effPolicies(runs[i])["hook-succeeded"] {
			d := w.expect("DELETE", runs[i].Res.Key(), "C12:hook-succeeded-not-deleted",
				fmt.Sprintf("every %s hook succeeded and %s has hook-succeeded", ev, runs[i].Res.Key()))
			if d == nil {
				return false, first, last
			}
			mark(d)
			if !delOK(d) {
				return false, first, last
			}
		}
	}
	return true, first, last
}

// k13Charts: chart ids whose stored hooks were reduced by the known finding K13 (the final Releases.Update of a filtered
// helm test failed): for revisions of these charts the oracle keeps to what storage holds (package level: one history
// is judged at a time, reset by Oracle)
var k13Charts = map[int]bool{}

func expectedHooks(stored []eng.Hook, chartID int, decl func(int) []eng.Hook) (all, lost []eng.Hook) {
	if k13Charts[chartID] {
		return withDeclared(stored, decl(chartID)), nil
	}
	return declaredHooks(stored, decl(chartID))
}

func c12OracleStep(i int, op *eng.Op, so eng.StepObs, reqs []sim.Req, prev []eng.LedgerRow, decl func(int) []eng.Hook, vs *[]hx.Violation) {
	add := func(sig, what string) {
		*vs = append(*vs, hx.Violation{Sig: sig, What: fmt.Sprintf("step %d (%s): %s", i, op.Kind, what)})
	}
	if so.Panic != "" {
		add("C12:panic", so.Panic)
		return
	}
	if op.Flags.IsDry() {
		return
	}
	var hreqs []hreq
	var mmuts []int
	for k, q := range reqs {
		if q.Method == "GET" {
			continue
		}
		if isHookKeyName(q.Key) {
			hreqs = append(hreqs, hreq{k, q.Method, q.Key, q.Code})
		} else {
			mmuts = append(mmuts, k)
		}
	}
	// hook documents are not part of the release manifest (C08's partition, observed here)
	if op.Kind == "install" || op.Kind == "upgrade" {
		for _, r := range so.Rendered {
			if isHookKeyName(r.Key()) {
				add("C12:hook-in-manifest", "the rendered manifest contains the hook resource "+r.Key())
			}
		}
		// every declared hook document (whose events are all hook events) is a hook of the release, and nothing else is
		md := matchDeclared(so.RHooks, op.Hooks)
		got := map[int]bool{}
		for k, d := range md {
			if d < 0 {
				add("C12:hook-in-manifest", fmt.Sprintf("the release has a hook %s that no hook document of the chart declares (%d documents, %d hooks)", so.RHooks[k].Res.Key(), len(op.Hooks), len(so.RHooks)))
			} else {
				got[d] = true
			}
		}
		for k, d := range op.Hooks {
			if !got[k] && c12Sem(d).EventsKnown {
				add("C12:hook-in-manifest", fmt.Sprintf("the chart has %d hook documents, the release %d hooks: %s is missing", len(op.Hooks), len(so.RHooks), d.Res.Key()))
			}
		}
		// the weight and the events Helm parsed are the ones the annotations spell (decimal integer; known event names)
		for k, d := range md {
			if d < 0 {
				continue
			}
			s, hp := c12Sem(op.Hooks[d]), so.RHooks[k]
			if s.WeightKnown && hp.Weight != s.Weight {
				add("C12:hook-weight-misread", fmt.Sprintf("hook %s: weight annotation %q is the decimal integer %d, Helm has weight %d", hp.Res.Key(), op.Hooks[d].Res.Fields[fWeight], s.Weight, hp.Weight))
			}
			if s.EventsKnown && strings.Join(s.Events, ",") != strings.Join(hp.Events, ",") {
				add("C12:hook-events-misread", fmt.Sprintf("hook %s declares events %v, Helm has %v", hp.Res.Key(), s.Events, hp.Events))
			}
		}
	}
	// the delete policies Helm parsed / stored are the ones the chart declares (an executed hook without
	// policies is stored with the default, before-hook-creation: compared as effective sets)
	policyCheck := func(where string, parsed, declaredHooks []eng.Hook) {
		want := withDeclared(parsed, declaredHooks)
		for k := range parsed {
			if !samePolicySet(parsed[k], want[k]) {
				add("C12:delete-policy-lost", fmt.Sprintf("%s: hook %s declares delete policies %v, Helm has %v", where, parsed[k].Res.Key(), want[k].Policies, parsed[k].Policies))
				return
			}
		}
	}
	if op.Kind == "install" || op.Kind == "upgrade" {
		policyCheck("rendered chart", so.RHooks, op.Hooks)
	}
	for _, row := range so.Ledger {
		if d := decl(row.ChartID); d != nil {
			policyCheck(fmt.Sprintf("stored revision %d", row.Rev), row.Hooks, d)
		}
	}
	// every stored revision keeps the hooks its chart declares (whatever ran in between, e.g. a filtered helm test):
	// the next operation on it selects its hooks from the stored record
	for _, row := range so.Ledger {
		if d := decl(row.ChartID); d != nil {
			if _, lost := expectedHooks(row.Hooks, row.ChartID, decl); len(lost) > 0 {
				var ks []string
				for _, x := range lost {
					ks = append(ks, fmt.Sprintf("%s %v", x.Res.Key(), x.Events))
				}
				// known finding K13: execHook records the release with the hook list REDUCED by the name filter before it
				// creates a test hook; when the final Releases.Update (which puts the skipped hooks back) fails, the reduced
				// list stays in storage
				if op.Kind == "test" && op.WFail != nil && len(op.TestInclude)+len(op.TestExclude) > 0 && so.SWrites > *op.WFail {
					add("C12:skipped-hooks-lost-when-final-update-of-filtered-test-fails", fmt.Sprintf("storage write #%d of helm test failed; the stored revision %d has %d hooks, the chart declares also %s", *op.WFail, row.Rev, len(row.Hooks), strings.Join(ks, ", ")))
					k13Charts[row.ChartID] = true
					break
				}
				add("C12:stored-hooks-lost", fmt.Sprintf("after this operation the stored revision %d has %d hooks; the chart declares also %s - a later operation on the release will not run them", row.Rev, len(row.Hooks), strings.Join(ks, ", ")))
				break
			}
		}
	}
	for _, row := range so.Ledger {
		for _, r := range row.Manifest {
			if isHookKeyName(r.Key()) {
				add("C12:hook-in-manifest", fmt.Sprintf("the stored manifest of revision %d contains the hook resource %s", row.Rev, r.Key()))
			}
		}
	}
	// one at a time: every watch directly follows the creation of exactly one hook resource, and every
	// effective hook creation is directly followed by its watch
	var calls []eng.TEv
	for _, e := range so.Trace {
		if e.Call != "" {
			calls = append(calls, e)
		}
	}
	isHookCreate := func(e eng.TEv) bool {
		return e.Call == "create" && len(e.Muts) == 1 && e.Muts[0].Verb == "create" && isHookKeyName(e.Muts[0].Key)
	}
	watches := 0
	for k, e := range calls {
		if e.Call == "hookwatch" {
			watches++
			if k == 0 || !isHookCreate(calls[k-1]) {
				add("C12:not-one-at-a-time", fmt.Sprintf("call #%d is a hook watch that does not directly follow the creation of one hook resource", k))
			}
		}
		if isHookCreate(e) && (k+1 >= len(calls) || calls[k+1].Call != "hookwatch") {
			add("C12:not-one-at-a-time", fmt.Sprintf("hook resource %s was created (call #%d) and the next call is not its watch", e.Muts[0].Key, k))
		}
		if e.Call == "create" && len(e.Muts) > 1 {
			for _, m := range e.Muts {
				if isHookKeyName(m.Key) {
					add("C12:not-one-at-a-time", fmt.Sprintf("hook resource %s created in a batch of %d", m.Key, len(e.Muts)))
				}
			}
		}
	}
	created := 0
	for _, q := range hreqs {
		if q.method == "POST" && q.code == 201 {
			created++
		}
	}
	if created != watches {
		add("C12:not-one-at-a-time", fmt.Sprintf("%d hook resources created, %d hook watches", created, watches))
	}

	if ledgerSame(prev, so.Ledger) && len(hreqs) == 0 && len(mmuts) == 0 && so.Outcome != "ok" {
		return // refused before anything was done
	}
	if op.Flags.NoHooks {
		if len(hreqs) > 0 || watches > 0 {
			add("C12:hook-run-with-hooks-disabled", fmt.Sprintf("%d requests on hook resources, %d watches", len(hreqs), watches))
		}
		return
	}
	src := hookSource(op, so, prev, decl)
	ev := c12Events[op.Kind]
	w := &c12Walk{reqs: hreqs, vs: vs, step: i}
	if op.HFault != nil {
		a := *op.HFault
		w.arm = &a
	}
	if op.Kind == "test" {
		// helm test: the selected test hooks in order, nothing else; no resource of the release is touched
		if len(mmuts) > 0 {
			q := reqs[mmuts[0]]
			add("C12:manifest-touched-by-test", fmt.Sprintf("helm test sent %s %s", q.Method, q.Key))
		}
		ok, _, _ := w.phase(src, "test")
		if w.broken {
			return
		}
		if !ok && so.Outcome == "ok" {
			add("C12:test-hook-failure-not-reported", "a test hook failed and helm test reports success")
		}
		if w.pos < len(w.reqs) {
			add("C12:unexpected-hook-request", "after the test hooks: "+w.show())
		}
		return
	}
	preOK, _, preLast := w.phase(src, ev[0])
	if w.broken {
		return
	}
	firstMut, lastMut := -1, -1
	if len(mmuts) > 0 {
		firstMut, lastMut = mmuts[0], mmuts[len(mmuts)-1]
	}
	recovery := op.Flags.Atomic && so.Outcome != "ok" // the automatic uninstall / rollback runs hooks and requests of its own
	if !preOK {
		if so.Outcome == "ok" {
			add("C12:pre-hook-failure-not-reported", "a "+ev[0]+" hook failed and the operation reports success")
		}
		if !recovery {
			if len(mmuts) > 0 {
				q := reqs[mmuts[0]]
				add("C12:manifest-touched-after-pre-hook-failure", fmt.Sprintf("a %s hook failed, yet %s %s was sent", ev[0], q.Method, q.Key))
			}
			if w.pos < len(w.reqs) {
				add("C12:hook-run-after-failure", "after the failing "+ev[0]+" hook: "+w.show())
			}
		}
		return
	}
	if firstMut >= 0 && preLast > firstMut {
		q := reqs[firstMut]
		add("C12:manifest-touched-before-pre-hooks-completed", fmt.Sprintf("%s %s was sent before the last %s hook request", q.Method, q.Key, ev[0]))
	}
	// a failure between the two events that is not a hook's: the readiness wait failed or a request on a manifest
	// resource was rejected, and the operation reports the error.  The post-event hooks do not run then; whatever
	// follows on hook resources belongs to the automatic recovery of an atomic operation.
	manifestFailed := op.WaitFail && countCalls(so.Trace, "wait") > 0
	for _, q := range reqs {
		if q.Code == 403 && !isHookKeyName(q.Key) {
			manifestFailed = true
		}
	}
	if so.Outcome != "ok" && manifestFailed {
		if !recovery && w.pos < len(w.reqs) {
			add("C12:hook-run-after-failure", "the operation failed before its "+ev[1]+" hooks, yet: "+w.show())
		}
		return
	}
	if so.Outcome != "ok" && w.pos >= len(w.reqs) {
		return // the operation failed between the two events (no hook involved)
	}
	postOK, postFirst, _ := w.phase(src, ev[1])
	if w.broken {
		return
	}
	if !postOK && so.Outcome == "ok" {
		add("C12:post-hook-failure-not-reported", "a "+ev[1]+" hook failed and the operation reports success")
	}
	if postFirst >= 0 && lastMut > postFirst && so.Outcome == "ok" {
		q := reqs[lastMut]
		add("C12:post-hook-before-resources", fmt.Sprintf("%s %s was sent after the first %s hook request", q.Method, q.Key, ev[1]))
	}
	if !recovery && w.pos < len(w.reqs) {
		sig := "C12:unexpected-hook-request"
		if !postOK {
			sig = "C12:hook-run-after-failure"
		}
		add(sig, "after the "+ev[1]+" hooks: "+w.show())
	}
}

func (*c12) Oracle(ci, oi any) []hx.Violation {
	h, o := ci.(eng.History), oi.(c12Obs)
	k13Charts = map[int]bool{}
	var vs []hx.Violation
	var prev []eng.LedgerRow
	// the hooks each chart version declared (chart ids are unique per install/upgrade of a history)
	declared := map[int][]eng.Hook{}
	for _, s := range h.Steps {
		if s.Op != nil && (s.Op.Kind == "install" || s.Op.Kind == "upgrade") {
			if _, ok := declared[s.Op.ChartID]; !ok {
				declared[s.Op.ChartID] = s.Op.Hooks
			}
		}
	}
	decl := func(id int) []eng.Hook { return declared[id] }
	for i, s := range h.Steps {
		if i >= len(o.Steps) || i >= len(o.Reqs) {
			break
		}
		if s.Op != nil {
			c12OracleStep(i, s.Op, o.Steps[i], o.Reqs[i], prev, decl, &vs)
		}
		prev = o.Steps[i].Ledger
	}
	return vs
}

package main

// C16, path kinds: the Go path functions the C16 code paths call, run on generated strings and
// compared with their Gallina models (Chart/Paths.v, Chart/PathFns.v).
//
//   path     path.Clean = filepath.Clean, filepath.Base = path.Base, filepath.Dir = path.Dir,
//            path.IsAbs on one string (the model's path_clean, its byte-level twin clean_bytes,
//            path_base, path_dir_go, is_abs; the result of Clean must pass is_clean_path)
//   pjoin    path.Join = filepath.Join on 0-4 elements
//   prefix   strings.HasPrefix
//   join2    cleanJoin (verif hook) on any root, "/" and "." and roots with ".." included,
//            against clean_join2 (the final filepath.Join as the library does it)

import (
	"fmt"
	"math/rand"
	"path"
	"path/filepath"
	"strings"

	"helm.sh/helm/v4/pkg/plugin/installer"

	"verif/harness/internal/chartx"
	"verif/harness/internal/hx"
)

func c16ExecPath(c *c16Case) (obs c16Obs) {
	switch c.Kind {
	case "path":
		obs.Clean = path.Clean(c.Str)
		obs.Base = filepath.Base(c.Str)
		obs.Dir = filepath.Dir(c.Str)
		obs.IsAbs = path.IsAbs(c.Str)
		// on this platform the path and filepath variants are the same functions of the string
		if fc := filepath.Clean(c.Str); fc != obs.Clean {
			obs.Err = fmt.Sprintf("filepath.Clean=%q", fc)
		}
		if pb := path.Base(c.Str); pb != obs.Base {
			obs.Err = fmt.Sprintf("path.Base=%q", pb)
		}
		if pd := path.Dir(c.Str); pd != obs.Dir {
			obs.Err = fmt.Sprintf("path.Dir=%q", pd)
		}
		if filepath.IsAbs(c.Str) != obs.IsAbs {
			obs.Err = "filepath.IsAbs differs"
		}
	case "pjoin":
		obs.Path = path.Join(c.Elems...)
		if fj := filepath.Join(c.Elems...); fj != obs.Path {
			obs.Err = fmt.Sprintf("filepath.Join=%q", fj)
		}
	case "prefix":
		obs.Bool = strings.HasPrefix(c.Str, c.Pre)
	case "join2":
		p, err := installer.VerifCleanJoin(c.Root, c.Dest)
		if err != nil {
			s := err.Error()
			switch {
			case strings.Contains(s, "contains ':'"):
				obs.Err = "colon"
			case strings.Contains(s, "contains '..', which is illegal"):
				obs.Err = "dotdot"
			case strings.Contains(s, "path is absolute"):
				obs.Err = "abs"
			case strings.Contains(s, "root path provided to SecureJoin"):
				obs.Err = "root"
			case strings.Contains(s, "invalid argument"):
				obs.Err = "lstat"
			default:
				obs.Err = "other"
			}
			return obs
		}
		obs.Path = p
	}
	return obs
}

func c16OraclePath(c *c16Case, obs *c16Obs) []hx.Violation {
	switch c.Kind {
	case "join2":
		if obs.Err != "" {
			return nil
		}
		// the property's own reading of "inside root": lexically below the cleaned root,
		// and no ".." component in what was added
		root := filepath.Clean(c.Root)
		rest, ok := obs.Path, true
		switch {
		case root == ".":
			ok = !strings.HasPrefix(obs.Path, "/")
		case root == "/":
			ok = strings.HasPrefix(obs.Path, "/")
			rest = strings.TrimPrefix(obs.Path, "/")
		default:
			ok = obs.Path == root || strings.HasPrefix(obs.Path, root+"/")
			rest = strings.TrimPrefix(strings.TrimPrefix(obs.Path, root), "/")
		}
		if !ok {
			return []hx.Violation{{Sig: "C16:cleanjoin-escapes-root", What: fmt.Sprintf("cleanJoin(%q, %q) = %q is not below the root", c.Root, c.Dest, obs.Path)}}
		}
		for _, part := range strings.Split(rest, "/") {
			if part == ".." {
				return []hx.Violation{{Sig: "C16:cleanjoin-escapes-root", What: fmt.Sprintf("cleanJoin(%q, %q) = %q contains '..'", c.Root, c.Dest, obs.Path)}}
			}
		}
	}
	return nil
}

func c16CoqStrs(l []string) string {
	out := make([]string, len(l))
	for i, s := range l {
		out[i] = chartx.CoqStr(s)
	}
	return hx.CoqList(out)
}

func c16CoqPath(c *c16Case, obs *c16Obs) string {
	switch c.Kind {
	case "path":
		if obs.Err != "" {
			return "CPanic" // the path/filepath variants disagree: outside the model's platform assumption
		}
		return fmt.Sprintf("CPath %s %s %s %s %s", chartx.CoqStr(c.Str), chartx.CoqStr(obs.Clean), chartx.CoqStr(obs.Base), chartx.CoqStr(obs.Dir), hx.CoqBool(obs.IsAbs))
	case "pjoin":
		if obs.Err != "" {
			return "CPanic"
		}
		return fmt.Sprintf("CPJoin %s %s", c16CoqStrs(c.Elems), chartx.CoqStr(obs.Path))
	case "prefix":
		return fmt.Sprintf("CPrefix %s %s %s", chartx.CoqStr(c.Str), chartx.CoqStr(c.Pre), hx.CoqBool(obs.Bool))
	case "join2":
		var o string
		switch obs.Err {
		case "":
			o = "(inr " + chartx.CoqStr(obs.Path) + ")"
		case "colon":
			o = "(inl CJ2Colon)"
		case "dotdot":
			o = "(inl CJ2DotDot)"
		case "abs":
			o = "(inl CJ2Abs)"
		case "root":
			o = "(inl CJ2Root)"
		case "lstat":
			o = "(inl CJ2Lstat)"
		default:
			return "CPanic"
		}
		return fmt.Sprintf("CJoin2 %s %s %s", chartx.CoqStr(c.Root), chartx.CoqStr(c.Dest), o)
	}
	return "CPanic"
}

func c16ClassPath(c *c16Case, obs *c16Obs) string {
	switch c.Kind {
	case "path":
		k := "path:rel"
		if obs.IsAbs {
			k = "path:abs"
		}
		if obs.Clean == c.Str {
			return k + "(already-clean)"
		}
		if strings.HasPrefix(obs.Clean, "..") {
			return k + "(leading-dotdot)"
		}
		return k
	case "pjoin":
		return fmt.Sprintf("pjoin:%d", len(c.Elems))
	case "prefix":
		return fmt.Sprintf("prefix:%v", obs.Bool)
	case "join2":
		if obs.Err == "" {
			return "join2:accepted"
		}
		return "join2:" + obs.Err
	}
	return c.Kind
}

// components the structured generator draws from
var c16PComps = []string{".", "..", "a", "", "a b", "c:", "\\", "ü", "日本", "b.txt", "...", "..a", "a..", ".a", "C:", "x\\y", "\\..", "..\\", "\x00", "a\x01", "%2e%2e", "-", "~"}

func c16PathStr(r *rand.Rand) string {
	n := r.Intn(6)
	var b strings.Builder
	switch r.Intn(8) {
	case 0:
		b.WriteString("/")
	case 1:
		b.WriteString("//")
	case 2:
		b.WriteString("\\")
	case 3:
		b.WriteString("c:/")
	}
	for i := 0; i < n; i++ {
		if i > 0 {
			switch r.Intn(10) {
			case 0:
				b.WriteString("\\")
			case 1:
				b.WriteString("//")
			default:
				b.WriteString("/")
			}
		}
		b.WriteString(c16PComps[r.Intn(len(c16PComps))])
	}
	switch r.Intn(8) {
	case 0:
		b.WriteString("/")
	case 1:
		b.WriteString("/.")
	case 2:
		b.WriteString("/..")
	case 3:
		b.WriteString("\\")
	}
	return b.String()
}

var c16Roots2 = []string{"/", ".", "", "/r", "/r/", "/r//s", "/r/./s/..", "r", "./r", "../r", "r/../..", "/..", "//", "/a b/ü", "/r/..", "r/.."}

func c16GenPath(r *rand.Rand) c16Case {
	switch r.Intn(10) {
	case 0, 1:
		n := r.Intn(5)
		c := c16Case{Kind: "pjoin"}
		for i := 0; i < n; i++ {
			if r.Intn(4) == 0 {
				c.Elems = append(c.Elems, "")
			} else {
				c.Elems = append(c.Elems, c16PathStr(r))
			}
		}
		return c
	case 2:
		s := c16PathStr(r)
		p := c16PathStr(r)
		if r.Intn(2) == 0 && len(s) > 0 {
			p = s[:r.Intn(len(s)+1)]
		}
		if r.Intn(3) == 0 {
			p = ".."
		}
		return c16Case{Kind: "prefix", Str: s, Pre: p}
	case 3, 4, 5:
		c := c16Case{Kind: "join2", Root: c16Roots2[r.Intn(len(c16Roots2))]}
		switch r.Intn(3) {
		case 0:
			c.Dest = c16GoodName(r)
		case 1:
			c.Dest = c16Name(r)
		default:
			c.Dest = c16PathStr(r)
		}
		return c
	default:
		if r.Intn(4) == 0 {
			return c16Case{Kind: "path", Str: c16Name(r)}
		}
		return c16Case{Kind: "path", Str: c16PathStr(r)}
	}
}

func c16CorpusPath() []any {
	var out []any
	for _, s := range []string{"", "/", "//", ".", "..", "../..", "a/..", "a/../..", "/..", "/../a", "a//b", "a/./b", "a/b/", "/a/b/../../..", "abc/def/../../x/",
		"\\", "a\\b", "c:/x", "c:", "C:\\x", "..a", "a..", "...", "../a/./b//c/..", "ü/日本/..", "a b/ c", "./", "/.", "/./", "a/.", "a/..b/..", "\x00", "a/\x00/.."} {
		out = append(out, c16Case{Kind: "path", Str: s})
	}
	for _, e := range [][]string{{}, {""}, {"", ""}, {"a", ""}, {"", "a"}, {"/", "/a"}, {"a", "../.."}, {"/r", "/x/../.."}, {"a", "b", "c"}, {"", "", "a", "", "b"}, {"a/", "/b"}, {"..", ".."}, {"a", "/"}, {".", "a"}} {
		out = append(out, c16Case{Kind: "pjoin", Elems: e})
	}
	for _, p := range [][2]string{{"..foo", ".."}, {"../x", ".."}, {".", ".."}, {"", ""}, {"a", ""}, {"", "a"}, {"a", "ab"}} {
		out = append(out, c16Case{Kind: "prefix", Str: p[0], Pre: p[1]})
	}
	for _, root := range c16Roots2 {
		for _, d := range []string{"a/b", "", ".", "a\\b", "..", "c:x", "/x", "./a//b/", "..a/b"} {
			out = append(out, c16Case{Kind: "join2", Root: root, Dest: d})
		}
	}
	return out
}

// all strings of length <= n over the alphabet
func c16AllStrings(alpha string, n int) []string {
	out := []string{""}
	prev := []string{""}
	for l := 1; l <= n; l++ {
		var cur []string
		for _, p := range prev {
			for i := 0; i < len(alpha); i++ {
				cur = append(cur, p+string(alpha[i]))
			}
		}
		out = append(out, cur...)
		prev = cur
	}
	return out
}

func c16ExhaustivePath(tier string) []any {
	var out []any
	n1, n2, n3, n4 := 4, 2, 2, 3
	if tier == "thorough" {
		n1, n2, n3, n4 = 7, 5, 3, 5
	}
	for _, s := range c16AllStrings("/.a", n1) {
		out = append(out, c16Case{Kind: "path", Str: s})
	}
	for _, s := range c16AllStrings("/.a\\:", n2) {
		if strings.ContainsAny(s, "\\:") {
			out = append(out, c16Case{Kind: "path", Str: s})
		}
	}
	small := c16AllStrings("/.a", n3)
	for _, a := range small {
		for _, b := range small {
			out = append(out, c16Case{Kind: "pjoin", Elems: []string{a, b}})
		}
	}
	for _, d := range c16AllStrings("/.a\\:", n4) {
		root := "/r"
		if len(d)%3 == 1 {
			root = "/"
		}
		out = append(out, c16Case{Kind: "join2", Root: root, Dest: d})
	}
	return out
}

package main

// C20 index stream: repository index files whose entry lists contain nulls, entries
// without any metadata field, invalid names/versions and otherwise invalid metadata,
// loaded with the real repo.LoadIndexFile and then queried (Get) and merged (Merge).

import (
	"fmt"
	"math/rand"
	"os"
	"path/filepath"
	"sort"

	"github.com/Masterminds/semver/v3"
	"sigs.k8s.io/yaml"

	"helm.sh/helm/v4/pkg/cmd/search"
	"helm.sh/helm/v4/pkg/repo"

	"verif/harness/internal/hx"
)

type c20IEntry struct {
	Kind    string `json:"kind"` // null nometa meta
	Name    string `json:"name,omitempty"`
	Version string `json:"version,omitempty"`
	API     string `json:"api,omitempty"`
	Rest    string `json:"rest,omitempty"` // "" | maintainer-null | dep-null | type-bogus | dep-dup (skippable) | dep-dup-then-null (skippable first)
}

type c20IName struct {
	Name    string      `json:"name"`
	Null    bool        `json:"null,omitempty"` // `name: null`
	Entries []c20IEntry `json:"entries"`
}

type c20IQuery struct {
	Name    string `json:"name"`
	Version string `json:"version"`
}

type c20IndexC struct {
	API       string      `json:"api"`       // "" = no apiVersion key
	NoEntries bool        `json:"noentries"` // no entries key at all
	JSON      bool        `json:"json,omitempty"`
	Names     []c20IName  `json:"names"`
	Queries   []c20IQuery `json:"queries"`
	MergeFrom *c20IndexC  `json:"merge_from,omitempty"` // merge this (loaded) index into the first, then run the queries again
}

type c20IndexOut struct {
	Class string              `json:"class"`
	Left  map[string][]string `json:"left,omitempty"`
	Gets  []string            `json:"gets,omitempty"`
	Merge string              `json:"merge,omitempty"` // class of load(other)+Merge
	Left2 map[string][]string `json:"left2,omitempty"`
	Gets2 []string            `json:"gets2,omitempty"`
	// search.Index.AddRepo (what `helm search repo` does with the loaded index)
	Search  string `json:"search,omitempty"` // class
	SearchN [2]int `json:"search_n"`         // entries in the search index for all=false / all=true
}

func (e c20IEntry) restInvalid() bool {
	return e.Rest == "maintainer-null" || e.Rest == "dep-null" || e.Rest == "type-bogus"
}

func (c *c20IndexC) doc() map[string]interface{} {
	m := map[string]interface{}{}
	if c.API != "" {
		m["apiVersion"] = c.API
	}
	if !c.NoEntries {
		es := map[string]interface{}{}
		for _, n := range c.Names {
			if n.Null {
				es[n.Name] = nil
				continue
			}
			l := []interface{}{}
			for _, e := range n.Entries {
				switch e.Kind {
				case "null":
					l = append(l, nil)
				case "nometa":
					l = append(l, map[string]interface{}{"urls": []interface{}{"https://example.com/x.tgz"}, "digest": "abc"})
				default:
					x := map[string]interface{}{"urls": []interface{}{"https://example.com/" + e.Name + "-" + e.Version + ".tgz"}}
					if e.Name != "" {
						x["name"] = e.Name
					}
					if e.Version != "" {
						x["version"] = e.Version
					}
					if e.API != "" {
						x["apiVersion"] = e.API
					}
					switch e.Rest {
					case "maintainer-null":
						x["maintainers"] = []interface{}{nil}
					case "dep-null":
						x["dependencies"] = []interface{}{nil}
					case "type-bogus":
						x["type"] = "bogus"
					case "dep-dup":
						x["dependencies"] = []interface{}{map[string]interface{}{"name": "d", "repository": "r"}, map[string]interface{}{"name": "d", "repository": "r"}}
					case "dep-dup-then-null":
						x["dependencies"] = []interface{}{map[string]interface{}{"name": "d", "repository": "r"}, map[string]interface{}{"name": "d", "repository": "r"}, nil}
					}
					l = append(l, x)
				}
			}
			es[n.Name] = l
		}
		m["entries"] = es
	}
	return m
}

func (c *c20IndexC) bytes() []byte {
	var b []byte
	if c.JSON {
		b, _ = yaml.Marshal(c.doc())
		b, _ = yaml.YAMLToJSON(b)
	} else {
		b, _ = yaml.Marshal(c.doc())
	}
	return b
}

func (c *c20IndexC) malformed() bool {
	if c.API == "" || c.NoEntries {
		return true
	}
	for _, n := range c.Names {
		if n.Null {
			return true
		}
		for _, e := range n.Entries {
			if e.Kind != "meta" || e.Name == "" || e.Rest != "" {
				return true
			}
			if _, err := semver.NewVersion(e.Version); err != nil {
				return true
			}
		}
	}
	return false
}

func c20IndexCorpus() []any {
	m := func(n, v string) c20IEntry { return c20IEntry{Kind: "meta", Name: n, Version: v, API: "v2"} }
	good := &c20IndexC{API: "v1", Names: []c20IName{{Name: "a", Entries: []c20IEntry{m("a", "1.0.0"), m("a", "2.0.0")}}}}
	return []any{
		// F3 witness: a null entry next to a valid one
		c20Case{Kind: "index", Index: &c20IndexC{API: "v1", Names: []c20IName{{Name: "a", Entries: []c20IEntry{{Kind: "null"}, m("a", "1.0.0")}}},
			Queries: []c20IQuery{{"a", ""}, {"a", "1.0.0"}, {"b", ""}}}},
		// entries without metadata, invalid versions, only nulls
		c20Case{Kind: "index", Index: &c20IndexC{API: "v1", Names: []c20IName{
			{Name: "a", Entries: []c20IEntry{{Kind: "nometa"}, {Kind: "nometa"}, m("a", "not-semver"), m("a", "1.0.0")}},
			{Name: "b", Entries: []c20IEntry{{Kind: "null"}, {Kind: "null"}}}, {Name: "c", Null: true}},
			Queries: []c20IQuery{{"a", ""}, {"b", ""}, {"c", ""}, {"a", "^1.0.0"}, {"a", "bogus!!"}}}},
		// witness of 7353d5a: Merge into an index that was loaded from a file without an entries key
		c20Case{Kind: "index", Index: &c20IndexC{API: "v1", NoEntries: true, Queries: []c20IQuery{{"a", ""}}, MergeFrom: good}},
		// chart names without a usable version: `e: []`, only nulls, only entries without metadata, only
		// invalid ones — loadIndex leaves an empty (non-nil) list, which search.Index.AddRepo must skip
		c20Case{Kind: "index", Index: &c20IndexC{API: "v1", Names: []c20IName{
			{Name: "e", Entries: []c20IEntry{}}, {Name: "n", Entries: []c20IEntry{{Kind: "null"}, {Kind: "null"}}},
			{Name: "m", Entries: []c20IEntry{{Kind: "nometa"}}}, {Name: "i", Entries: []c20IEntry{m("i", "not-semver"), {Kind: "meta", Name: "", Version: "1.0.0"}}},
			{Name: "z", Null: true}, {Name: "a", Entries: []c20IEntry{m("a", "1.0.0"), m("a", "1.0.0"), m("a", "2.0.0")}}},
			Queries: []c20IQuery{{"e", ""}, {"n", ""}, {"a", ""}}}},
		// no apiVersion: an error, after the entries were processed
		c20Case{Kind: "index", Index: &c20IndexC{API: "", Names: []c20IName{{Name: "a", Entries: []c20IEntry{{Kind: "null"}, m("a", "1.0.0"), {Kind: "nometa"}}}}}},
		// metadata invalid outside name/version; the skippable duplicate-dependency error hides a later null dependency
		c20Case{Kind: "index", Index: &c20IndexC{API: "v1", JSON: true, Names: []c20IName{{Name: "a", Entries: []c20IEntry{
			{Kind: "meta", Name: "a", Version: "1.0.0", Rest: "maintainer-null"}, {Kind: "meta", Name: "a", Version: "1.1.0", Rest: "dep-null"},
			{Kind: "meta", Name: "a", Version: "1.2.0", Rest: "dep-dup-then-null"}, {Kind: "meta", Name: "a", Version: "1.3.0", Rest: "type-bogus"}}}},
			Queries: []c20IQuery{{"a", ""}, {"a", "1.2.0"}, {"a", "1.0.0"}}, MergeFrom: good}},
	}
}

var c20IVersions = []string{"1.0.0", "1.2.3", "2.0.0", "0.9.0-beta.1", "v3.1.0", "1.0", "not-semver", "", "1.0.0+build5"}
var c20IQVersions = []string{"", "1.0.0", "1.2.3", "^1.0.0", ">=1.0.0", "bogus!!", "~2", "*", "1.0", ">0.0.0-0", "9.9.9"}

func c20GenIndexOne(r *rand.Rand, small bool) *c20IndexC {
	c := &c20IndexC{API: "v1", JSON: r.Intn(4) == 0}
	if r.Intn(15) == 0 {
		c.API = ""
	}
	if r.Intn(12) == 0 {
		c.NoEntries = true
		return c
	}
	names := []string{"a", "b", "c/d", "web"}
	nn := r.Intn(4)
	for i := 0; i < nn; i++ {
		n := c20IName{Name: names[i]}
		if r.Intn(12) == 0 {
			n.Null = true
			c.Names = append(c.Names, n)
			continue
		}
		ne := r.Intn(6)
		if r.Intn(8) == 0 { // a name left without any usable version
			for k := 0; k < r.Intn(3); k++ {
				n.Entries = append(n.Entries, []c20IEntry{{Kind: "null"}, {Kind: "nometa"}, {Kind: "meta", Name: n.Name, Version: "not-semver"}, {Kind: "meta", Name: "", Version: "1.0.0"}}[r.Intn(4)])
			}
			if small {
				n.Entries = nil
			}
			c.Names = append(c.Names, n)
			continue
		}
		usedBad := map[string]bool{}
		for k := 0; k < ne; k++ {
			switch x := r.Intn(10); {
			case x == 0 && !small:
				n.Entries = append(n.Entries, c20IEntry{Kind: "null"})
			case x == 1 && !small:
				n.Entries = append(n.Entries, c20IEntry{Kind: "nometa"})
			default:
				e := c20IEntry{Kind: "meta", Name: n.Name, Version: c20IVersions[r.Intn(len(c20IVersions))], API: []string{"", "v1", "v2"}[r.Intn(3)]}
				if r.Intn(10) == 0 {
					e.Name = []string{"", "other", "x/y"}[r.Intn(3)]
				}
				if !small && r.Intn(6) == 0 {
					e.Rest = []string{"maintainer-null", "dep-null", "type-bogus", "dep-dup", "dep-dup-then-null"}[r.Intn(5)]
				}
				// (name, version) identifies the verdict of the rest of Validate in the model's table:
				// an invalid rest gets a (name, version) no valid-rest entry has
				key := e.Name + "\x00" + e.Version
				if e.restInvalid() {
					usedBad[key] = true
				} else if usedBad[key] {
					continue
				}
				conflict := false
				if e.restInvalid() {
					for _, o := range n.Entries {
						if o.Kind == "meta" && o.Name == e.Name && o.Version == e.Version && !o.restInvalid() {
							conflict = true
						}
					}
				}
				if conflict {
					continue
				}
				n.Entries = append(n.Entries, e)
			}
		}
		c.Names = append(c.Names, n)
	}
	return c
}

func c20GenIndex(r *rand.Rand) *c20IndexC {
	c := c20GenIndexOne(r, false)
	qn := []string{"a", "b", "c/d", "web", "nope"}
	for i := 0; i < 1+r.Intn(4); i++ {
		c.Queries = append(c.Queries, c20IQuery{qn[r.Intn(len(qn))], c20IQVersions[r.Intn(len(c20IQVersions))]})
	}
	if r.Intn(3) == 0 {
		c.MergeFrom = c20GenIndexOne(r, false)
	}
	return c
}

func c20LoadIndex(b []byte) (*repo.IndexFile, error) {
	d, err := os.MkdirTemp("", "c20idx")
	if err != nil {
		return nil, err
	}
	defer os.RemoveAll(d)
	p := filepath.Join(d, "index.yaml")
	if err := os.WriteFile(p, b, 0o644); err != nil {
		return nil, err
	}
	return repo.LoadIndexFile(p)
}

func c20Left(i *repo.IndexFile) map[string][]string {
	left := map[string][]string{}
	for n, cvs := range i.Entries {
		vs := []string{}
		for _, cv := range cvs {
			if cv == nil || cv.Metadata == nil {
				vs = append(vs, "<nil>")
			} else {
				vs = append(vs, cv.Version)
			}
		}
		sort.Strings(vs)
		left[n] = vs
	}
	return left
}

func c20ExecIndex(c *c20IndexC) c20Obs {
	obs := c20Obs{}
	out := &c20IndexOut{}
	where := "repo.LoadIndexFile"
	class, msg := c20Guard("index", c20Timeout, func() {
		idx, err := c20LoadIndex(c.bytes())
		if err != nil {
			out.Class = "err"
			return
		}
		out.Class = "ok"
		out.Left = c20Left(idx)
		gets := func() []string {
			var g []string
			for _, q := range c.Queries {
				where = "IndexFile.Get"
				cv, err := idx.Get(q.Name, q.Version)
				if err != nil {
					g = append(g, "err")
				} else if cv == nil {
					g = append(g, "panic")
				} else {
					g = append(g, "ok")
				}
			}
			return g
		}
		out.Gets = gets()
		where = "search.Index.AddRepo"
		si := search.NewIndex()
		si.AddRepo("repo", idx, false)
		sa := search.NewIndex()
		sa.AddRepo("repo", idx, true)
		out.Search, out.SearchN = "ok", [2]int{len(si.All()), len(sa.All())}
		where = "search.Index.Search"
		for _, x := range []*search.Index{si, sa} {
			res, _ := x.Search("a", 25, false)
			search.SortScore(res)
			res, _ = x.Search("^[a-c].*", 25, true)
			search.SortScore(res)
			x.Search("(", 25, true)
		}
		where = "IndexFile.SortEntries"
		idx.SortEntries()
		if c.MergeFrom != nil {
			where = "repo.LoadIndexFile (merge source)"
			other, err := c20LoadIndex(c.MergeFrom.bytes())
			if err != nil {
				out.Merge = "err"
				return
			}
			where = "IndexFile.Merge"
			idx.Merge(other)
			out.Merge = "ok"
			out.Left2 = c20Left(idx)
			out.Gets2 = gets()
			where = "IndexFile.SortEntries after Merge"
			idx.SortEntries()
		}
	})
	obs.Class = out.Class
	if class != "" {
		obs.Class, obs.Panic, obs.Where = class, msg, where
	}
	obs.Index = out
	// oracle tables from the semver library
	vset, cset := map[string]bool{}, map[string]bool{"*": true}
	for _, ic := range []*c20IndexC{c, c.MergeFrom} {
		if ic == nil {
			continue
		}
		for _, n := range ic.Names {
			for _, e := range n.Entries {
				if e.Kind == "meta" {
					vset[e.Version] = true
				}
			}
		}
	}
	vset[""] = true
	for _, q := range c.Queries {
		cset[q.Version] = true
	}
	// Merge asks Has(name, version) with the version of every merged entry as the constraint
	for v := range vset {
		cset[v] = true
	}
	var okv, okc []string
	var chk [][2]string
	for v := range vset {
		if _, err := semver.NewVersion(v); err == nil {
			okv = append(okv, v)
		}
	}
	for cs := range cset {
		k, err := semver.NewConstraint(cs)
		if err != nil {
			continue
		}
		okc = append(okc, cs)
		for _, v := range okv {
			sv, _ := semver.NewVersion(v)
			if k.Check(sv) {
				chk = append(chk, [2]string{cs, v})
			}
		}
	}
	sort.Strings(okv)
	sort.Strings(okc)
	sort.Slice(chk, func(i, j int) bool { return chk[i][0]+"\x00"+chk[i][1] < chk[j][0]+"\x00"+chk[j][1] })
	obs.Extra = map[string]any{"semver_ok": okv, "constraints_ok": okc, "check": chk}
	return obs
}

func c20OracleIndex(c *c20IndexC, obs c20Obs) []hx.Violation {
	var vs []hx.Violation
	if obs.Index == nil {
		return nil
	}
	for _, left := range []map[string][]string{obs.Index.Left, obs.Index.Left2} {
		for n, l := range left {
			for _, v := range l {
				if v == "<nil>" {
					vs = append(vs, hx.Violation{Sig: "C20:index-nil-entry-left", What: "a loaded index still holds a null entry or an entry without metadata under " + n})
				}
			}
		}
	}
	return vs
}

func c20CoqIEntries(c *c20IndexC) (string, []string) {
	if c.NoEntries {
		return "None", nil
	}
	names := append([]c20IName(nil), c.Names...)
	sort.Slice(names, func(i, j int) bool { return names[i].Name < names[j].Name })
	var es, bad []string
	for _, n := range names {
		var l []string
		for _, e := range n.Entries {
			switch e.Kind {
			case "null":
				l = append(l, "None")
			case "nometa":
				l = append(l, "(Some None)")
			default:
				l = append(l, fmt.Sprintf("(Some (Some (mkIMeta %s %s %s)))", hx.CoqStr(e.Name), hx.CoqStr(e.Version), hx.CoqStr(e.API)))
				if e.restInvalid() {
					bad = append(bad, hx.CoqPair(hx.CoqStr(e.Name), hx.CoqStr(e.Version)))
				}
			}
		}
		es = append(es, hx.CoqPair(hx.CoqStr(n.Name), hx.CoqList(l)))
	}
	return "(Some " + hx.CoqList(es) + ")", bad
}

func c20CoqLeft(left map[string][]string) string {
	names := make([]string, 0, len(left))
	for n := range left {
		names = append(names, n)
	}
	sort.Strings(names)
	var it []string
	for _, n := range names {
		it = append(it, hx.CoqPair(hx.CoqStr(n), hx.CoqStrList(left[n])))
	}
	return hx.CoqList(it)
}

func c20CoqGets(g []string) string {
	var it []string
	for _, x := range g {
		it = append(it, c20Cls(x))
	}
	return hx.CoqList(it)
}

func c20CoqIndex(c *c20IndexC, obs c20Obs) string {
	es, bad := c20CoqIEntries(c)
	var qs []string
	for _, q := range c.Queries {
		qs = append(qs, fmt.Sprintf("IGet %s %s", hx.CoqStr(q.Name), hx.CoqStr(q.Version)))
	}
	o := obs.Index
	if o == nil {
		o = &c20IndexOut{}
	}
	merge := "None"
	mobs := "None"
	if c.MergeFrom != nil {
		es2, bad2 := c20CoqIEntries(c.MergeFrom)
		merge = fmt.Sprintf("(Some (%s, mkRaw %s %s))", hx.CoqList(bad2), hx.CoqStr(c.MergeFrom.API), es2)
		if o.Merge != "" {
			mobs = fmt.Sprintf("(Some (%s, %s, %s))", c20Cls(o.Merge), c20CoqLeft(o.Left2), c20CoqGets(o.Gets2))
		}
	}
	cls := obs.Class
	srch := "None"
	if o.Search != "" {
		srch = fmt.Sprintf("(Some (%s, %d, %d))", c20Cls(o.Search), o.SearchN[0], o.SearchN[1])
	}
	return fmt.Sprintf("CIndex (mkIO %s %s %s) %s (mkRaw %s %s) %s %s (mkIobs %s %s %s %s %s)",
		c20CoqStrs(obs.Extra["semver_ok"]), c20CoqStrs(obs.Extra["constraints_ok"]), c20CoqPairs(obs.Extra["check"]),
		hx.CoqList(bad), hx.CoqStr(c.API), es, hx.CoqList(qs), merge,
		c20Cls(cls), c20CoqLeft(o.Left), c20CoqGets(o.Gets), mobs, srch)
}

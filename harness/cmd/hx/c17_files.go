package main

// C17, the file layer: Signatory.Verify and downloader.VerifyChart are handed PATHS.  Every
// combination of {regular file, missing, directory, unreadable} for the archive path and the
// provenance path, with the case's genuine pair and with a provenance file signed by the trusted
// key that lists no digest ("sha256:" and nothing) — the witness of the repaired Digest defect
// (fda75d8: a read error was swallowed, an unreadable archive verified against that file).
// "Unreadable" = a path that opens but whose reads fail: a link to /proc/self/mem.  Where that
// does not exist (or reads succeed) those runs are skipped and counted.

import (
	"fmt"
	"os"
	"path/filepath"
	"sync"

	"helm.sh/helm/v4/pkg/downloader"
	"helm.sh/helm/v4/pkg/provenance"
)

type c17FileCk struct {
	Chart  string `json:"chart"`            // file missing dir unreadable
	Prov   string `json:"prov"`             // file missing dir unreadable
	Custom string `json:"custom,omitempty"` // "" = the case's provenance file, else a key of Customs
	KR     string `json:"kr"`
}

type c17FileRes struct {
	Skipped bool   `json:"skipped,omitempty"`
	Res     c17Res `json:"res"`
}

func c17FileMatrix() []c17FileCk {
	var out []c17FileCk
	states := []string{"file", "missing", "dir", "unreadable"}
	for _, ch := range states {
		for _, pv := range states {
			out = append(out, c17FileCk{Chart: ch, Prov: pv, KR: "signer"})
		}
	}
	for _, ch := range states {
		out = append(out, c17FileCk{Chart: ch, Prov: "file", Custom: "empty-digest", KR: "signer"})
	}
	out = append(out, c17FileCk{Chart: "unreadable", Prov: "file", Custom: "empty-digest", KR: "other"},
		c17FileCk{Chart: "unreadable", Prov: "file", KR: "garbage"}, c17FileCk{Chart: "file", Prov: "dir", KR: "garbage"})
	return out
}

var (
	c17UnreadableOnce sync.Once
	c17UnreadableSrc  string
)

// a path that can be opened and whose reads fail ("" if this system has none)
func c17Unreadable() string {
	c17UnreadableOnce.Do(func() {
		const p = "/proc/self/mem"
		fi, err := os.Stat(p)
		if err != nil || fi.IsDir() {
			return
		}
		f, err := os.Open(p)
		if err != nil {
			return
		}
		defer f.Close()
		if _, err := f.Read(make([]byte, 16)); err != nil {
			c17UnreadableSrc = p
		}
	})
	return c17UnreadableSrc
}

func c17Place(path, state string, content []byte) bool {
	switch state {
	case "file":
		return os.WriteFile(path, content, 0o644) == nil
	case "dir":
		return os.MkdirAll(path, 0o755) == nil
	case "unreadable":
		src := c17Unreadable()
		return src != "" && os.Symlink(src, path) == nil
	}
	return true
}

func c17RunFiles(c *c17Case, work string, rings map[string]string) []c17FileRes {
	var out []c17FileRes
	for i, f := range c.Files {
		out = append(out, func() (res c17FileRes) {
			dir := filepath.Join(work, fmt.Sprintf("f%d", i))
			os.MkdirAll(dir, 0o755)
			defer os.RemoveAll(dir)
			prov := c.Prov
			if f.Custom != "" {
				prov = c.Customs[f.Custom]
			}
			path := filepath.Join(dir, c.Name)
			if !c17Place(path, f.Chart, c.Archive) || !c17Place(path+".prov", f.Prov, prov) {
				res.Skipped = true
				c17Count("file_layer_runs_skipped (no unreadable path on this system)", 1)
				return res
			}
			res.Res.Name = c.Name
			if f.Chart == "file" {
				res.Res.Sha = c17Hex(c.Archive)
			}
			ring := c17Ring(c, f.KR)
			if f.Prov == "file" {
				res.Res.Tab, res.Res.SigOK, res.Res.KrLoads = c17Tables(prov, ring)
			} else {
				_, _, res.Res.KrLoads = c17Tables(nil, ring)
			}
			defer func() {
				if x := recover(); x != nil {
					res.Res.Panic = fmt.Sprint(x)
				}
			}()
			if sig, err := provenance.NewFromKeyring(rings[f.KR], ""); err == nil {
				if ver, err := sig.Verify(path, path+".prov"); err == nil {
					res.Res.OK, res.Res.Hash = true, ver.FileHash
				}
			}
			if ver, err := downloader.VerifyChart(path, rings[f.KR]); err == nil {
				res.Res.OKvc, res.Res.HashVC = true, ver.FileHash
			}
			return res
		}())
	}
	c17Count("file_layer_runs (archive path x provenance path: file / missing / directory / unreadable)", len(out))
	return out
}

func c17FileOracle(c *c17Case, files []c17FileRes, flag func(sig, what string)) {
	for i, f := range c.Files {
		if i >= len(files) || files[i].Skipped {
			continue
		}
		r := files[i].Res
		desc := fmt.Sprintf("file-layer run %d (archive path: %s, provenance path: %s %s, kr=%s) of %s", i, f.Chart, f.Prov, f.Custom, f.KR, c.Name)
		if r.Panic != "" {
			flag("panic", desc+": panic "+r.Panic)
			continue
		}
		// success needs two readable regular files and, for them, the right-hand side of the iff
		want, wantHash := false, ""
		if f.Chart == "file" && f.Prov == "file" {
			want, wantHash = c17Expected(&r.Tab, r.SigOK, r.Name, r.Sha)
		}
		if (r.OK || r.OKvc) && !(f.Chart == "file" && f.Prov == "file") {
			flag("accepted-without-readable-files", desc+": verification succeeded although the archive or the provenance file is missing, a directory or unreadable (FileHash of Verify "+r.Hash+", of VerifyChart "+r.HashVC+")")
			continue
		}
		if r.OK != want || (r.OK && r.Hash != wantHash) {
			flag("file-layer-verify-disagrees", desc+fmt.Sprintf(": Signatory.Verify ok=%v, expected %v", r.OK, want))
		}
		if wantVC := want && r.KrLoads; r.OKvc != wantVC || (r.OKvc && r.HashVC != wantHash) {
			flag("file-layer-verifychart-disagrees", desc+fmt.Sprintf(": downloader.VerifyChart ok=%v, expected %v", r.OKvc, wantVC))
		}
	}
}

func c17CoqFile(tk *c17Tok, f c17FileCk, r *c17FileRes) string {
	st := map[string]int{"file": 0, "missing": 1, "dir": 2, "unreadable": 3}
	return fmt.Sprintf("mkFile %d %d %s", st[f.Chart], st[f.Prov], c17CoqCheck(tk, &r.Res))
}

package main

// Translator table for C17 (Gen/C17Strategy.v): what each caller that maps command-line flags
// to a downloader.VerificationStrategy does, read from the source with go/ast as a decision
// tree over the flag fields (the value of <downloader>.Verify when DownloadTo / Build / Update is
// called), so that Misc/ProvSource.v can prove it equal, for every flag assignment, to the
// model's decision function.  The tie is semantic: if/else <-> switch, reordered independent
// branches, local aliases of a flag leave the obligation intact; a change of meaning (e.g. --prov
// tested before --verify) breaks it.
//
//   pkg/action/pull.go               Pull.Run                    c := downloader.ChartDownloader{...}
//   pkg/action/install.go            ChartPathOptions.LocateChart  dl := downloader.ChartDownloader{...}
//                                    + the guard of downloader.VerifyChart on the local-file branch
//   pkg/cmd/dependency_update.go     newDependencyUpdateCmd      man := &downloader.Manager{...}
//   pkg/cmd/dependency_build.go      newDependencyBuildCmd       man := &downloader.Manager{...}
//   pkg/downloader/manager.go        Manager.downloadAll         dl := ChartDownloader{Verify: m.Verify}
//   pkg/downloader/chart_downloader.go  the VerificationStrategy constants in iota order
//   pkg/provenance/sign.go           Signatory.verifySignature: the key list given to
//                                    openpgp.CheckDetachedSignature

import (
	"fmt"
	"go/ast"
	"go/token"
	"go/types"
	"strings"

	"verif/harness/internal/hx"
)

func init() { registerTable("C17Strategy", genC17Strategy) }

type c17Sym struct {
	target string            // the variable holding the ChartDownloader / Manager
	consts map[string]bool   // VerificationStrategy constants
	alias  map[string]string // local boolean aliases of flag conditions: ident -> bexp term
}

// a condition over flag fields as a Gallina bexp term
func (y *c17Sym) bexp(e ast.Expr) (string, error) {
	switch v := e.(type) {
	case *ast.ParenExpr:
		return y.bexp(v.X)
	case *ast.Ident:
		switch v.Name {
		case "true":
			return "BTrue", nil
		case "false":
			return "BFalse", nil
		}
		if b, ok := y.alias[v.Name]; ok {
			return b, nil
		}
		return "", fmt.Errorf("condition on %s, which is not a flag field", v.Name)
	case *ast.SelectorExpr:
		x, ok := v.X.(*ast.Ident)
		if !ok {
			return "", fmt.Errorf("condition %s is not a flag field", types.ExprString(e))
		}
		if x.Name == y.target {
			return "", fmt.Errorf("condition on the downloader's own field %s", types.ExprString(e))
		}
		return "(BFlag " + hx.CoqStr(v.Sel.Name) + ")", nil
	case *ast.UnaryExpr:
		if v.Op == token.NOT {
			a, err := y.bexp(v.X)
			if err != nil {
				return "", err
			}
			return "(BNot " + a + ")", nil
		}
	case *ast.BinaryExpr:
		switch v.Op {
		case token.LAND, token.LOR, token.EQL, token.NEQ:
			a, err := y.bexp(v.X)
			if err != nil {
				return "", err
			}
			b, err := y.bexp(v.Y)
			if err != nil {
				return "", err
			}
			switch v.Op {
			case token.LAND:
				return "(BAnd " + a + " " + b + ")", nil
			case token.LOR:
				return "(BOr " + a + " " + b + ")", nil
			case token.EQL:
				return "(BOr (BAnd " + a + " " + b + ") (BAnd (BNot " + a + ") (BNot " + b + ")))", nil
			default:
				return "(BOr (BAnd " + a + " (BNot " + b + ")) (BAnd (BNot " + a + ") " + b + "))", nil
			}
		}
	}
	return "", fmt.Errorf("unsupported condition %s", types.ExprString(e))
}

// a strategy value: a constant of the block, or a field handed through
func (y *c17Sym) sval(e ast.Expr) (string, error) {
	switch v := e.(type) {
	case *ast.ParenExpr:
		return y.sval(v.X)
	case *ast.Ident:
		if y.consts[v.Name] {
			return "(SConst " + hx.CoqStr(v.Name) + ")", nil
		}
	case *ast.SelectorExpr:
		if x, ok := v.X.(*ast.Ident); ok && x.Name != y.target {
			if y.consts[v.Sel.Name] {
				return "(SConst " + hx.CoqStr(v.Sel.Name) + ")", nil
			}
			return "(SField " + hx.CoqStr(v.Sel.Name) + ")", nil
		}
	}
	return "", fmt.Errorf("unsupported strategy value %s", types.ExprString(e))
}

func (y *c17Sym) isVerifyField(e ast.Expr) bool {
	s, ok := e.(*ast.SelectorExpr)
	if !ok || s.Sel.Name != "Verify" {
		return false
	}
	x, ok := s.X.(*ast.Ident)
	return ok && x.Name == y.target
}

func (y *c17Sym) assignsVerify(n ast.Node) bool {
	found := false
	ast.Inspect(n, func(m ast.Node) bool {
		switch v := m.(type) {
		case *ast.AssignStmt:
			for _, l := range v.Lhs {
				if y.isVerifyField(l) {
					found = true
				}
			}
		case *ast.IncDecStmt:
			if y.isVerifyField(v.X) {
				found = true
			}
		case *ast.UnaryExpr:
			if v.Op == token.AND && y.isVerifyField(v.X) {
				found = true // address taken: may be written anywhere
			}
		}
		return !found
	})
	return found
}

// the statement hands the downloader to the download: <target>.DownloadTo / Build / Update
func (y *c17Sym) usesTarget(n ast.Node) bool {
	found := false
	ast.Inspect(n, func(m ast.Node) bool {
		if c, ok := m.(*ast.CallExpr); ok {
			if s, ok := c.Fun.(*ast.SelectorExpr); ok {
				if x, ok := s.X.(*ast.Ident); ok && x.Name == y.target {
					switch s.Sel.Name {
					case "DownloadTo", "Build", "Update":
						found = true
					}
				}
			}
		}
		return !found
	})
	return found
}

// evalList: the value of <target>.Verify after the statements, given its value before;
// done = the download call was reached
func (y *c17Sym) evalList(list []ast.Stmt, cur string) (string, bool, error) {
	for _, s := range list {
		if y.usesTarget(s) {
			return cur, true, nil
		}
		if !y.assignsVerify(s) {
			continue
		}
		var err error
		if cur, err = y.evalStmt(s, cur); err != nil {
			return "", false, err
		}
	}
	return cur, false, nil
}

func (y *c17Sym) evalStmt(s ast.Stmt, cur string) (string, error) {
	switch v := s.(type) {
	case *ast.AssignStmt:
		if len(v.Lhs) != len(v.Rhs) || v.Tok != token.ASSIGN {
			return "", fmt.Errorf("unsupported assignment to %s.Verify", y.target)
		}
		for i, l := range v.Lhs {
			if y.isVerifyField(l) {
				return y.sval(v.Rhs[i])
			}
		}
		return cur, nil
	case *ast.BlockStmt:
		out, _, err := y.evalList(v.List, cur)
		return out, err
	case *ast.LabeledStmt:
		return y.evalStmt(v.Stmt, cur)
	case *ast.IfStmt:
		if v.Init != nil && y.assignsVerify(v.Init) {
			return "", fmt.Errorf("%s.Verify assigned in the init statement of an if", y.target)
		}
		c, err := y.bexp(v.Cond)
		if err != nil {
			return "", err
		}
		a, _, err := y.evalList(v.Body.List, cur)
		if err != nil {
			return "", err
		}
		b := cur
		if v.Else != nil {
			if b, err = y.evalStmt(v.Else, cur); err != nil {
				return "", err
			}
		}
		return "(SIf " + c + " " + a + " " + b + ")", nil
	case *ast.SwitchStmt:
		if v.Tag != nil || v.Init != nil {
			return "", fmt.Errorf("%s.Verify assigned in a switch with a tag or an init statement", y.target)
		}
		type arm struct{ cond, val string }
		var arms []arm
		def := cur
		for _, cs := range v.Body.List {
			cc := cs.(*ast.CaseClause)
			for _, st := range cc.Body {
				if b, ok := st.(*ast.BranchStmt); ok && b.Tok == token.FALLTHROUGH {
					return "", fmt.Errorf("fallthrough in the switch that assigns %s.Verify", y.target)
				}
			}
			val, _, err := y.evalList(cc.Body, cur)
			if err != nil {
				return "", err
			}
			if cc.List == nil {
				def = val
				continue
			}
			cond := ""
			for _, e := range cc.List {
				b, err := y.bexp(e)
				if err != nil {
					return "", err
				}
				if cond == "" {
					cond = b
				} else {
					cond = "(BOr " + cond + " " + b + ")"
				}
			}
			arms = append(arms, arm{cond, val})
		}
		out := def
		for i := len(arms) - 1; i >= 0; i-- {
			out = "(SIf " + arms[i].cond + " " + arms[i].val + " " + out + ")"
		}
		return out, nil
	}
	return "", fmt.Errorf("%s.Verify assigned inside an unsupported statement (%T)", y.target, s)
}

func c17CompositeOf(e ast.Expr, typ string) *ast.CompositeLit {
	if u, ok := e.(*ast.UnaryExpr); ok && u.Op == token.AND {
		e = u.X
	}
	cl, ok := e.(*ast.CompositeLit)
	if !ok {
		return nil
	}
	switch t := cl.Type.(type) {
	case *ast.Ident:
		if t.Name == typ {
			return cl
		}
	case *ast.SelectorExpr:
		if t.Sel.Name == typ {
			return cl
		}
	}
	return nil
}

func c17FindFunc(f *ast.File, recv, name string) *ast.FuncDecl {
	for _, d := range f.Decls {
		fd, ok := d.(*ast.FuncDecl)
		if !ok || fd.Name.Name != name || fd.Body == nil {
			continue
		}
		if recv == "" {
			if fd.Recv == nil {
				return fd
			}
			continue
		}
		if fd.Recv == nil || len(fd.Recv.List) != 1 {
			continue
		}
		t := fd.Recv.List[0].Type
		if s, ok := t.(*ast.StarExpr); ok {
			t = s.X
		}
		if id, ok := t.(*ast.Ident); ok && id.Name == recv {
			return fd
		}
	}
	return nil
}

// c17StrategyOf: the decision tree of <x>.Verify for the single `x := [&]pkg.typ{...}` of the function
func c17StrategyOf(fd *ast.FuncDecl, typ string, consts []string) (string, error) {
	y := &c17Sym{consts: map[string]bool{}, alias: map[string]string{}}
	for _, c := range consts {
		y.consts[c] = true
	}
	// where the downloader is built
	type site struct {
		block *ast.BlockStmt
		idx   int
		name  string
		lit   *ast.CompositeLit
	}
	var sites []site
	ast.Inspect(fd, func(n ast.Node) bool {
		b, ok := n.(*ast.BlockStmt)
		if !ok {
			return true
		}
		for i, st := range b.List {
			switch v := st.(type) {
			case *ast.AssignStmt:
				if len(v.Lhs) == 1 && len(v.Rhs) == 1 {
					if cl := c17CompositeOf(v.Rhs[0], typ); cl != nil {
						if id, ok := v.Lhs[0].(*ast.Ident); ok {
							sites = append(sites, site{b, i, id.Name, cl})
						}
					}
				}
			case *ast.DeclStmt:
				if gd, ok := v.Decl.(*ast.GenDecl); ok && gd.Tok == token.VAR {
					for _, sp := range gd.Specs {
						vs := sp.(*ast.ValueSpec)
						if len(vs.Names) == 1 && len(vs.Values) == 1 {
							if cl := c17CompositeOf(vs.Values[0], typ); cl != nil {
								sites = append(sites, site{b, i, vs.Names[0].Name, cl})
							}
						}
					}
				}
			}
		}
		return true
	})
	if len(sites) != 1 {
		return "", fmt.Errorf("%s: %d places build a %s (expected one)", fd.Name.Name, len(sites), typ)
	}
	st := sites[0]
	y.target = st.name
	// local aliases `x := <flag condition>` assigned exactly once
	assigned := map[string]int{}
	var defs []*ast.AssignStmt
	ast.Inspect(fd, func(n ast.Node) bool {
		if a, ok := n.(*ast.AssignStmt); ok {
			for _, l := range a.Lhs {
				if id, ok := l.(*ast.Ident); ok {
					assigned[id.Name]++
				}
			}
			if a.Tok == token.DEFINE && len(a.Lhs) == 1 && len(a.Rhs) == 1 {
				defs = append(defs, a)
			}
		}
		return true
	})
	for _, a := range defs {
		id, ok := a.Lhs[0].(*ast.Ident)
		if !ok || assigned[id.Name] != 1 {
			continue
		}
		if b, err := y.bexp(a.Rhs[0]); err == nil {
			y.alias[id.Name] = b
		}
	}
	// initial value: the Verify key of the literal, else the zero value (first constant)
	cur := "(SConst " + hx.CoqStr(consts[0]) + ")"
	for _, el := range st.lit.Elts {
		kv, ok := el.(*ast.KeyValueExpr)
		if !ok {
			return "", fmt.Errorf("%s: positional fields in the %s literal", fd.Name.Name, typ)
		}
		if k, ok := kv.Key.(*ast.Ident); ok && k.Name == "Verify" {
			v, err := y.sval(kv.Value)
			if err != nil {
				return "", fmt.Errorf("%s: %v", fd.Name.Name, err)
			}
			cur = v
		}
	}
	out, done, err := y.evalList(st.block.List[st.idx+1:], cur)
	if err != nil {
		return "", fmt.Errorf("%s: %v", fd.Name.Name, err)
	}
	if !done {
		return "", fmt.Errorf("%s: no %s.DownloadTo / Build / Update after the %s is built", fd.Name.Name, y.target, typ)
	}
	return out, nil
}

// the conjunction of the flag conditions that enclose the call pkg.fn(...) in the function;
// enclosing conditions that are not flag conditions are returned as text
func c17GuardOf(fd *ast.FuncDecl, pkg, fn string) (string, []string, error) {
	y := &c17Sym{consts: map[string]bool{}, alias: map[string]string{}, target: "\x00"}
	var stack []ast.Node
	var guard string
	var opaque []string
	hits := 0
	ast.Inspect(fd, func(n ast.Node) bool {
		if n == nil {
			stack = stack[:len(stack)-1]
			return true
		}
		stack = append(stack, n)
		c, ok := n.(*ast.CallExpr)
		if !ok {
			return true
		}
		if _, ok := c17IsPkgCall(c, pkg, fn); !ok {
			return true
		}
		hits++
		guard, opaque = "BTrue", nil
		for i := 0; i+1 < len(stack); i++ {
			is, ok := stack[i].(*ast.IfStmt)
			if !ok {
				continue
			}
			// the call must sit in the body (or its own init/cond), not in the else branch
			inElse := is.Else != nil && i+1 < len(stack) && stack[i+1] == is.Else
			if stack[i+1] == ast.Node(is.Cond) || (is.Init != nil && stack[i+1] == ast.Node(is.Init)) {
				continue // the call is the condition itself
			}
			b, err := y.bexp(is.Cond)
			if err != nil {
				txt := types.ExprString(is.Cond)
				if inElse {
					txt = "!(" + txt + ")"
				}
				opaque = append(opaque, txt)
				continue
			}
			if inElse {
				b = "(BNot " + b + ")"
			}
			if guard == "BTrue" {
				guard = b
			} else {
				guard = "(BAnd " + guard + " " + b + ")"
			}
		}
		return true
	})
	if hits != 1 {
		return "", nil, fmt.Errorf("%s: %d calls of %s.%s (expected one)", fd.Name.Name, hits, pkg, fn)
	}
	return guard, opaque, nil
}

func c17IsPkgCall(c *ast.CallExpr, pkg, fn string) (*ast.CallExpr, bool) {
	sel, ok := c.Fun.(*ast.SelectorExpr)
	if !ok || sel.Sel.Name != fn {
		return nil, false
	}
	id, ok := sel.X.(*ast.Ident)
	return c, ok && id.Name == pkg
}

// the constants of `const ( A T = iota; B; C ... )` in order
func c17IotaConsts(f *ast.File, typ string) []string {
	for _, d := range f.Decls {
		gd, ok := d.(*ast.GenDecl)
		if !ok || gd.Tok != token.CONST || len(gd.Specs) == 0 {
			continue
		}
		first := gd.Specs[0].(*ast.ValueSpec)
		id, ok := first.Type.(*ast.Ident)
		if !ok || id.Name != typ || len(first.Values) != 1 {
			continue
		}
		if v, ok := first.Values[0].(*ast.Ident); !ok || v.Name != "iota" {
			continue
		}
		var out []string
		for i, sp := range gd.Specs {
			vs := sp.(*ast.ValueSpec)
			if i > 0 && (vs.Type != nil || len(vs.Values) != 0) {
				return nil // not a plain iota run
			}
			for _, n := range vs.Names {
				out = append(out, n.Name)
			}
		}
		return out
	}
	return nil
}

// the first argument of openpgp.CheckDetachedSignature in Signatory.verifySignature, with the
// receiver written as "s" and single-assignment local aliases resolved
func c17SignatureKeys(fd *ast.FuncDecl) (string, error) {
	recv := ""
	if fd.Recv != nil && len(fd.Recv.List) == 1 && len(fd.Recv.List[0].Names) == 1 {
		recv = fd.Recv.List[0].Names[0].Name
	}
	assigned := map[string]int{}
	defs := map[string]ast.Expr{}
	ast.Inspect(fd, func(n ast.Node) bool {
		if a, ok := n.(*ast.AssignStmt); ok {
			for i, l := range a.Lhs {
				if id, ok := l.(*ast.Ident); ok {
					assigned[id.Name]++
					if len(a.Lhs) == len(a.Rhs) {
						defs[id.Name] = a.Rhs[i]
					}
				}
			}
		}
		return true
	})
	var arg ast.Expr
	calls := 0
	ast.Inspect(fd, func(n ast.Node) bool {
		if c, ok := n.(*ast.CallExpr); ok {
			if _, ok := c17IsPkgCall(c, "openpgp", "CheckDetachedSignature"); ok && len(c.Args) == 3 {
				calls++
				arg = c.Args[0]
			}
		}
		return true
	})
	if calls != 1 {
		return "", fmt.Errorf("verifySignature: %d calls of openpgp.CheckDetachedSignature (expected one)", calls)
	}
	for n := 0; n < 4; n++ {
		id, ok := arg.(*ast.Ident)
		if !ok {
			break
		}
		if assigned[id.Name] == 1 && defs[id.Name] != nil {
			arg = defs[id.Name]
			continue
		}
		if assigned[id.Name] > 1 {
			return id.Name + " (a local variable assigned " + fmt.Sprint(assigned[id.Name]) + " times)", nil
		}
		break
	}
	if s, ok := arg.(*ast.SelectorExpr); ok {
		if x, ok := s.X.(*ast.Ident); ok && x.Name == recv && recv != "" {
			return "s." + s.Sel.Name, nil
		}
	}
	return types.ExprString(arg), nil
}

func genC17Strategy(repo string) (string, error) {
	parse := func(rel string) (*ast.File, error) {
		f, _, err := parseFile(repo, rel)
		return f, err
	}
	fdl, err := parse("pkg/downloader/chart_downloader.go")
	if err != nil {
		return "", err
	}
	consts := c17IotaConsts(fdl, "VerificationStrategy")
	if len(consts) == 0 {
		return "", fmt.Errorf("no iota block of VerificationStrategy constants")
	}
	var b strings.Builder
	b.WriteString("From Helm Require Import Misc.ProvTrust.\n\n")
	fmt.Fprintf(&b, "(* pkg/downloader/chart_downloader.go: VerificationStrategy constants in iota order *)\nDefinition verification_strategy_consts : list string := %s.\n\n", hx.CoqStrList(consts))
	type job struct{ file, recv, fn, typ, def, what string }
	for _, j := range []job{
		{"pkg/action/pull.go", "Pull", "Run", "ChartDownloader", "pull_run_strategy_src", "Pull.Run: c.Verify at c.DownloadTo"},
		{"pkg/action/install.go", "ChartPathOptions", "LocateChart", "ChartDownloader", "locate_chart_strategy_src", "ChartPathOptions.LocateChart: dl.Verify at dl.DownloadTo"},
		{"pkg/cmd/dependency_update.go", "", "newDependencyUpdateCmd", "Manager", "dep_update_strategy_src", "helm dependency update: man.Verify at man.Update"},
		{"pkg/cmd/dependency_build.go", "", "newDependencyBuildCmd", "Manager", "dep_build_strategy_src", "helm dependency build: man.Verify at man.Build"},
		{"pkg/downloader/manager.go", "Manager", "downloadAll", "ChartDownloader", "manager_download_all_strategy_src", "Manager.downloadAll: dl.Verify at dl.DownloadTo"},
	} {
		f, err := parse(j.file)
		if err != nil {
			return "", err
		}
		fd := c17FindFunc(f, j.recv, j.fn)
		if fd == nil {
			return "", fmt.Errorf("%s: function %s not found", j.file, j.fn)
		}
		s, err := c17StrategyOf(fd, j.typ, consts)
		if err != nil {
			return "", fmt.Errorf("%s: %v", j.file, err)
		}
		fmt.Fprintf(&b, "(* %s, %s *)\nDefinition %s : sexp :=\n  %s.\n\n", j.file, j.what, j.def, s)
	}
	fin, err := parse("pkg/action/install.go")
	if err != nil {
		return "", err
	}
	guard, opaque, err := c17GuardOf(c17FindFunc(fin, "ChartPathOptions", "LocateChart"), "downloader", "VerifyChart")
	if err != nil {
		return "", err
	}
	fmt.Fprintf(&b, "(* pkg/action/install.go, LocateChart: the flag conditions enclosing downloader.VerifyChart (local file);\n   enclosing conditions that are not flag conditions: %s *)\nDefinition locate_chart_local_guard_src : bexp :=\n  %s.\n\n",
		strings.ReplaceAll(strings.Join(opaque, " ; "), "*)", "* )"), guard)
	fsg, err := parse("pkg/provenance/sign.go")
	if err != nil {
		return "", err
	}
	vs := c17FindFunc(fsg, "Signatory", "verifySignature")
	if vs == nil {
		return "", fmt.Errorf("pkg/provenance/sign.go: verifySignature not found")
	}
	keys, err := c17SignatureKeys(vs)
	if err != nil {
		return "", err
	}
	fmt.Fprintf(&b, "(* pkg/provenance/sign.go, Signatory.verifySignature: the key list handed to openpgp.CheckDetachedSignature *)\nDefinition verify_signature_keys_src : string := %s.\n", hx.CoqStr(keys))
	return b.String(), nil
}

#!/bin/bash
# usage: lib/mutant_run.sh Cxx patch.diff [extra ./check args]
# Runs ./check Cxx against a scratch copy of /repo with patch.diff applied, inside a scratch
# copy of /verif, so neither /repo nor /verif is touched.  Everything is removed afterwards.
# Exit status = exit status of ./check in the scratch copy (1 when a VIOLATION was reported).
PROP="$1"; PATCH="$(readlink -f "$2")"; shift 2
D=$(mktemp -d /tmp/mut-XXXXXX)
trap 'rm -rf "$D"' EXIT
rsync -a --exclude .git /repo/ "$D/repo/" || [ $? -eq 24 ] || { echo "rsync /repo failed"; exit 2; }
( cd "$D/repo" && patch -p1 -s < "$PATCH" ) || { echo "patch failed"; exit 2; }
# other agents may be rebuilding under /verif while we copy: vanished files (24) are fine
rsync -a --exclude .git --exclude .work --exclude replays --exclude evidence --exclude seeded /verif/ "$D/verif/" || [ $? -eq 24 ] || { echo "rsync /verif failed"; exit 2; }
sed -i "s#=> /repo#=> $D/repo#" "$D/verif/harness/go.mod"
mkdir -p "$D/verif/evidence"
cd "$D/verif"
VERIF_REPO="$D/repo" ./check "$PROP" "$@" > "$D/out.txt" 2>&1
RC=$?
sed "s#$D/verif/replays#(scratch replays)#" "$D/out.txt"
for f in replays/*.json; do [ -f "$f" ] && { echo "--- $f"; head -c 1500 "$f"; echo; }; done 2>/dev/null | head -80
exit $RC

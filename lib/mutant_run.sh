#!/bin/sh
# usage: lib/mutant_run.sh Cxx patch.diff [extra ./check args]
# Runs ./check Cxx against a scratch copy of /repo with patch.diff applied, inside a scratch
# copy of /verif, so neither /repo nor /verif is touched.  Everything is removed afterwards.
set -e
PROP="$1"; PATCH="$(readlink -f "$2")"; shift 2
D=$(mktemp -d /tmp/mut-XXXXXX)
trap 'rm -rf "$D"' EXIT
rsync -a --exclude .git /repo/ "$D/repo/"
( cd "$D/repo" && patch -p1 -s < "$PATCH" ) || { echo "patch failed"; exit 2; }
rsync -a --exclude .git --exclude .work --exclude replays --exclude evidence /verif/ "$D/verif/"
sed -i "s#=> /repo#=> $D/repo#" "$D/verif/harness/go.mod"
mkdir -p "$D/verif/evidence"
cd "$D/verif"
set +e
VERIF_REPO="$D/repo" ./check "$PROP" "$@" 2>&1 | sed "s#$D/verif/replays#(scratch replays)#"
RC=$?
for f in replays/*.json; do [ -f "$f" ] && { echo "--- $f"; head -c 1500 "$f"; echo; }; done 2>/dev/null | head -80
exit $RC

"""Full build: per-property harness binaries, regenerated tables, every Coq file (full .vo, never -vos)."""
import glob, json, os, sys
sys.path.insert(0, os.path.dirname(os.path.abspath(__file__)))
import vcheck

failed = []
with vcheck.Lock():
    cfgs = [json.load(open(cp)) for cp in sorted(glob.glob(os.path.join(vcheck.ROOT, "props", "C*.json")))]
    for cfg in cfgs:
        rc, out = vcheck.build_harness(cfg["id"], cfg)
        print(cfg["id"], "harness build rc=%d" % rc, out[-1500:])
        if rc != 0:
            failed.append("harness build " + cfg["id"])
            continue
        rc, out = vcheck.gen_tables(cfg["id"])
        print(out.strip())
    vcheck.refresh_coq_project()
    import subprocess
    sys.stdout.flush()
    # streamed, so that a slow or looping file is visible in the log; per-file timeout
    try:
        rc = subprocess.run(["make", "-j%d" % vcheck.NCPU, "-k", "COQC=timeout %d coqc" % vcheck.COQC_TIMEOUT],
                            cwd=vcheck.COQ, timeout=3000).returncode
    except subprocess.TimeoutExpired:
        rc = 124
    print("coq build rc=%d" % rc)
    # the output of each property file compiled alone (Print Assumptions), cached for the checks
    for cfg in cfgs:
        if os.path.exists(os.path.join(vcheck.COQ, cfg["props_file"][:-2] + ".vo")):
            rc1, _ = vcheck.solo_compile(cfg["props_file"], 1500)
            if rc1 != 0:
                failed.append("%s: %s does not compile alone" % (cfg["id"], cfg["props_file"]))
    # every claimed property must have its theorems and evaluator compiled
    for cfg in cfgs:
        for f in (cfg["props_file"][:-2] + ".vo", cfg.get("run_target")):
            if f and not os.path.exists(os.path.join(vcheck.COQ, f)):
                failed.append("%s: %s was not built" % (cfg["id"], f))
        bad = vcheck.grep_gate([cfg["props_file"]] + ([cfg["run_target"][:-1]] if cfg.get("run_target") else []))
        if bad:
            failed.append("%s: %s" % (cfg["id"], "; ".join(bad)))
if failed:
    print("\n".join(failed))
    sys.exit("setup failed")
print("setup ok")

"""Full build: harness binary, regenerated tables, every Coq file (full .vo, never -vos)."""
import os, sys
sys.path.insert(0, os.path.dirname(os.path.abspath(__file__)))
import vcheck

with vcheck.Lock():
    import glob, json
    for cp in sorted(glob.glob(os.path.join(vcheck.ROOT, "props", "C*.json"))):
        cfg = json.load(open(cp))
        rc, out = vcheck.build_harness(cfg["id"], cfg)
        print(cfg["id"], "harness build rc=%d" % rc, out[-2000:])
        if rc != 0:
            sys.exit("harness build failed for " + cfg["id"])
        rc, out = vcheck.gen_tables(cfg["id"])
        print(out)
    vcheck.refresh_coq_project()
    rc, out = vcheck.sh(["make", "-j%d" % vcheck.NCPU, "-k"], cwd=vcheck.COQ, timeout=7200)
    print(out[-6000:])
    if rc != 0:
        sys.exit("coq build failed")
    bad = vcheck.grep_gate()
    if bad:
        print("\n".join(bad)); sys.exit("grep gate failed")
print("setup ok")

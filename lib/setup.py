"""Full build: harness binary, regenerated tables, every Coq file (full .vo, never -vos)."""
import os, sys
sys.path.insert(0, os.path.dirname(os.path.abspath(__file__)))
import vcheck

with vcheck.Lock():
    rc, out = vcheck.build_harness()
    print(out[-3000:])
    if rc != 0:
        sys.exit("harness build failed")
    rc, out = vcheck.gen_tables()
    print(out)
    vcheck.refresh_coq_project()
    rc, out = vcheck.sh(["make", "-j%d" % vcheck.NCPU, "-k"], cwd=vcheck.COQ, timeout=7200)
    print(out[-6000:])
    if rc != 0:
        sys.exit("coq build failed")
    bad = vcheck.grep_gate()
    if bad:
        print("\n".join(bad)); sys.exit("grep gate failed")
print("setup ok")

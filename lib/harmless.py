#!/usr/bin/env python3
"""Behaviour-preserving changes (written by independent sub-agents from the property text only):
  lib/harmless.py add <dir-from-author> <ID>     store as harmless/<ID>/ {patch.diff, meta.json}
  lib/harmless.py run <ID> [--tier quick]        run ./check <property> against the patched tree in scratch copies
                                                 (lib/mutant_run.sh); the expected outcome is exit 0 and no VIOLATION
  lib/harmless.py table                          markdown table of harmless/
"""
import json, os, shutil, subprocess, sys, time
ROOT = os.path.dirname(os.path.dirname(os.path.abspath(__file__)))
ENV = dict(os.environ, GOFLAGS="-mod=mod", GOPROXY="off"); ENV.pop("GOTOOLCHAIN", None); ENV.pop("GOSUMDB", None)

def sh(cmd, timeout=7200):
    p = subprocess.run(cmd, env=ENV, stdout=subprocess.PIPE, stderr=subprocess.STDOUT, text=True, errors="replace", timeout=timeout)
    return p.returncode, p.stdout

def props_for_files(files):
    """the properties whose anchored code or whose translator (gentables*.go) reads one of the files"""
    import glob, re
    out = set()
    anch = {}
    for l in open(os.path.join(ROOT, "properties.jsonl")):
        pr = json.loads(l); anch[pr["id"]] = set(pr["anchors"]["files"])
    for cp in glob.glob(os.path.join(ROOT, "props", "C*.json")):
        cfg = json.load(open(cp)); pid = cfg["id"]
        gens = glob.glob(os.path.join(ROOT, "harness", "cmd", "hx", "gentables_%s*.go" % pid.lower()))
        gens += [os.path.join(ROOT, "harness", "cmd", "hx", g) for g in cfg.get("go_files", []) if g.startswith("gentables")]
        src = "".join(open(g).read() for g in gens if os.path.exists(g))
        for f in files:
            if f in anch.get(pid, ()) or os.path.basename(f) in src and (f in src or ('"%s"' % os.path.basename(f)) in src):
                out.add(pid)
    return sorted(out)


def add(src, hid):
    dst = os.path.join(ROOT, "harmless", hid); os.makedirs(dst, exist_ok=True)
    shutil.copy(os.path.join(src, "patch.diff"), os.path.join(dst, "patch.diff"))
    m = json.load(open(os.path.join(src, "meta.json"))); m["id"] = hid
    if "property" not in m:
        m["check_with"] = props_for_files(m.get("files", []))
        m["property"] = ",".join(m["check_with"])
    json.dump(m, open(os.path.join(dst, "meta.json"), "w"), indent=1)

def run(hid, tier="quick"):
    dst = os.path.join(ROOT, "harmless", hid)
    m = json.load(open(os.path.join(dst, "meta.json")))
    t = time.time()
    pids = m.get("check_with") or [m["property"]]
    rc, out, viol = 0, "", []
    for pid in pids:
        rc1, out1 = sh([os.path.join(ROOT, "lib", "mutant_run.sh"), pid, os.path.join(dst, "patch.diff"), "--tier", tier])
        v1 = [l for l in out1.splitlines() if l.startswith("VIOLATION")]
        if v1 or rc1 != 0:
            rc, out = rc1, out + "\n==== " + pid + "\n" + out1
        viol += v1
    pid = m["property"]
    head = subprocess.run(["git", "-C", ROOT, "rev-parse", "--short", "HEAD"], stdout=subprocess.PIPE, text=True).stdout.strip()
    res = {"tier": tier, "exit": rc, "alarm": bool(viol) or rc != 0, "violation_lines": viol[:4], "wall_s": round(time.time() - t), "verif_head": head}
    if res["alarm"]:
        res["tail"] = out[-2500:]
    m.setdefault("runs", []).append({k: res[k] for k in ("tier", "alarm", "verif_head")})
    m["result"] = res
    json.dump(m, open(os.path.join(dst, "meta.json"), "w"), indent=1)
    print(hid, pid, "ALARM" if res["alarm"] else "quiet", viol[:2])

def table():
    rows = []
    d = os.path.join(ROOT, "harmless")
    for hid in sorted(os.listdir(d)):
        p = os.path.join(d, hid, "meta.json")
        if not os.path.exists(p): continue
        m = json.load(open(p)); r = m.get("result") or {}
        rows.append("| %s | %s | %s | %s | %s |" % (hid, m["property"], (m.get("kind") or "")[:60], (m.get("what") or "").replace("|", "/").replace("\n", " ")[:220],
                    ("ALARM: " + "; ".join(r.get("violation_lines") or ["exit %s" % r.get("exit")])[:120]) if r.get("alarm") else ("quiet" if r else "not run") + (" — " + m["note"] if m.get("note") else "")))
    print("| id | property | kind | change | quick check |\n|---|---|---|---|---|\n" + "\n".join(rows))

if __name__ == "__main__":
    a = sys.argv
    if len(a) >= 4 and a[1] == "add": add(a[2], a[3])
    elif len(a) >= 3 and a[1] == "run": run(a[2], a[a.index("--tier") + 1] if "--tier" in a else "quick")
    elif len(a) >= 2 and a[1] == "table": table()
    else: print(__doc__)

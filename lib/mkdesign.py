#!/usr/bin/env python3
"""Rebuild Part II of DESIGN.md (everything after the marker) from notes/ASBUILT_HEAD.md,
known_findings*, seeded/*/meta.json, git log of /repo, and notes/Cxx.md."""
import glob, json, os, re, subprocess

ROOT = os.path.dirname(os.path.dirname(os.path.abspath(__file__)))
MARK = "<!-- AS-BUILT: everything below is assembled by lib/mkdesign.py -->"


def sh(cmd):
    return subprocess.run(cmd, shell=True, stdout=subprocess.PIPE, text=True).stdout


def esc(s):
    if isinstance(s, dict):
        s = "; ".join("%s: %s" % (k, v if isinstance(v, str) else json.dumps(v)) for k, v in s.items())
    elif isinstance(s, list):
        s = " // ".join(esc(x) for x in s)
    elif s is not None and not isinstance(s, str):
        s = json.dumps(s)
    return (s or "").replace("|", "/").replace("\n", " ")


def main():
    p = os.path.join(ROOT, "DESIGN.md")
    src = open(p).read()
    if MARK in src:
        src = src[:src.index(MARK)]
    src = src.rstrip() + "\n\n\n" + MARK + "\n\n"
    head = open(os.path.join(ROOT, "notes", "ASBUILT_HEAD.md")).read()

    kf = {"findings": [], "fixed": []}
    for q in [os.path.join(ROOT, "known_findings.json")] + sorted(glob.glob(os.path.join(ROOT, "known_findings.d", "*.json"))):
        d = json.load(open(q))
        kf["findings"] += d.get("findings", [])
        kf["fixed"] += d.get("fixed", [])
    fixed_rows, seen = [], set()
    for f in kf["fixed"]:
        m = re.match(r"fixed:\s*property=(\w+)\s+(\w+)\s+(.*)", f)
        if not m or m.group(2) in seen:
            continue
        seen.add(m.group(2))
        fixed_rows.append((m.group(1), m.group(2), m.group(3)))
    # fix commits in /repo that nobody listed
    for line in sh("git -C /repo log --format='%h %s'").splitlines():
        h, s = line.split(" ", 1)
        if s.startswith("fix:") and h not in seen and not any(h.startswith(x) or x.startswith(h) for x in seen):
            fixed_rows.append(("(see notes)", h, s[4:].strip()))
    fixed_rows.sort()
    head = head.replace("__FIXED_TABLE__", "\n".join("| %s | %s | %s |" % (a, b, esc(c)) for a, b, c in fixed_rows))
    known_rows = sorted((f["property"], f.get("id", ""), f["sig"], f["what"]) for f in kf["findings"])
    head = head.replace("__KNOWN_TABLE__", "\n".join("| %s | %s | `%s` | %s |" % (a, b, c, esc(d)) for a, b, c, d in known_rows))
    hooks = [l for l in sh("git -C /repo log --reverse --format='%h %s'").splitlines() if "verif hook" in l]
    head = head.replace("__HOOKS_LIST__", "\n".join("* `%s`" % esc(l) for l in hooks) or "(none)")
    out = [head.rstrip(), ""]

    # II.7 seeded changes
    out.append("## II.7 Independently seeded changes and which checks catch them\n")
    out.append("Each change was written by a fresh sub-agent that saw only the property text and a scratch worktree of "
               "`/repo` (nothing from `/verif`), and was confirmed by `lib/seed.py confirm` in another scratch worktree: the "
               "demonstration test passes on the unchanged tree and fails with the change, the change compiles, and the "
               "existing tests of the touched packages, `pkg/action` and `pkg/cmd` still pass (tests that fail without "
               "network on the unchanged tree excepted; timing-sensitive tests re-run in isolation). `lib/seed.py detect` "
               "runs `./check` against the patched tree in scratch copies of `/repo` and `/verif` (`lib/mutant_run.sh`). "
               "\"first run\" is the verdict before any strengthening; where a change was missed, the check was "
               "strengthened (generator / corpus / oracle / model — never by special-casing the patch) and re-run.\n")
    out.append("| seed | property | change (needs) | quick check | how it is caught / what was strengthened |")
    out.append("|---|---|---|---|---|")
    for mp in sorted(glob.glob(os.path.join(ROOT, "seeded", "*", "meta.json"))):
        m = json.load(open(mp))
        det = m.get("detection", {})
        verdict = "; ".join("%s %s%s" % (k, "caught" if v.get("detected") else "MISSED",
                                         " (no failing input)" if v.get("detected") and all("no-failing-input-found" in l for l in (v.get("violation_lines") or ["x"])) else "")
                            for k, v in det.items()) or "not run"
        runs = m.get("runs") or []
        if runs and not runs[0].get("detected") and any(v.get("detected") for v in det.values()):
            verdict = "first run MISSED; now " + verdict
        hist = m.get("history", "")
        out.append("| %s | %s | %s — needs: %s | %s | %s |" % (m["id"], m["property"], esc(m.get("what"))[:260], esc(m.get("needs"))[:200], verdict, esc(hist)))
    out.append("")

    # II.7b harmless refactorings
    hdir = os.path.join(ROOT, "harmless")
    if os.path.isdir(hdir):
        out.append("### II.7b Behaviour-preserving refactorings (false-alarm probes)\n")
        out.append("Written by fresh sub-agents from the property texts only (two per property, realistic refactorings of the "
                   "anchored functions: helper extraction, if/switch, inverted conditions, library calls for loops, hoisted "
                   "locals, log lines); each builds and passes the existing tests. `lib/harmless.py run` applies one in scratch "
                   "copies and runs the quick check; the expected outcome is exit 0. An alarm here is a false alarm of a "
                   "source-derived obligation (translator tie) that was too syntactic; the column says what was done.\n")
        out.append("| id | property | change | quick check at HEAD | history |")
        out.append("|---|---|---|---|---|")
        for mp in sorted(glob.glob(os.path.join(hdir, "*", "meta.json"))):
            m = json.load(open(mp))
            r = m.get("result") or {}
            runs = m.get("runs") or []
            first = runs[0].get("alarm") if runs else None
            now = ("ALARM (%s)" % esc("; ".join(r.get("violation_lines") or ["exit %s" % r.get("exit")]))[:90]) if r.get("alarm") else ("quiet" if r else "not run")
            hist = ("first run ALARM; " if first and not r.get("alarm") else "") + esc(m.get("note", ""))
            out.append("| %s | %s | %s: %s | %s | %s |" % (m["id"], ",".join(m.get("check_with") or [m["property"]]), esc(m.get("kind"))[:80], esc(m.get("what"))[:240], now, hist))
        out.append("")

    # II.8 notes
    out.append("## II.8 Per-property notes (as built)\n")
    for q in sorted(glob.glob(os.path.join(ROOT, "notes", "C[0-9][0-9].md"))) + [os.path.join(ROOT, "notes", "SKEL.md"), os.path.join(ROOT, "notes", "DEC.md")]:
        if not os.path.exists(q):
            continue
        pid = os.path.basename(q)[:-3]
        body = open(q).read().strip()
        body = re.sub(r"(?m)^(#+) ", lambda mm: "#" * min(6, len(mm.group(1)) + 2) + " ", body)
        out.append("### %s (from notes/%s.md)\n" % (pid, pid))
        out.append(body + "\n")
    open(p, "w").write(src + "\n".join(out) + "\n")
    print("DESIGN.md rebuilt: %d fixed, %d known findings, %d seeds" % (len(fixed_rows), len(known_rows), len(glob.glob(os.path.join(ROOT, "seeded", "*", "meta.json")))))


if __name__ == "__main__":
    main()

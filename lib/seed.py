#!/usr/bin/env python3
"""Seeded-defect bookkeeping.

  lib/seed.py confirm <dir-from-author> <ID>   confirm a delivered seeded defect in a scratch worktree of /repo
                                               (demo passes clean, patch applies and builds, demo fails with it,
                                               tests of the touched packages still pass) and store it as seeded/<ID>/
  lib/seed.py detect <ID> [--tier quick]       run ./check <property> against the patch in scratch copies
                                               (lib/mutant_run.sh) and record whether a VIOLATION was printed
  lib/seed.py table                            print the seeded/ table (markdown)
"""
import json, os, re, shutil, subprocess, sys, time

ROOT = os.path.dirname(os.path.dirname(os.path.abspath(__file__)))
ENV = dict(os.environ, GOFLAGS="-mod=mod", GOPROXY="off")
ENV.pop("GOTOOLCHAIN", None); ENV.pop("GOSUMDB", None)
KNOWN_FAIL = {"TestDependencyUpdateCmd", "TestRenderWithDNS", "TestVCSInstallerNonExistentVersion", "TestVCSInstallerUpdate"}
FLAKY_UNDER_LOAD = {"TestPullCmd", "TestDependencyBuildCmd", "TestInstallRelease_Wait_Interrupted", "TestInstallRelease_Atomic_Interrupted"}


def sh(cmd, cwd=None, timeout=3600):
    p = subprocess.run(cmd, cwd=cwd, env=ENV, shell=isinstance(cmd, str), stdout=subprocess.PIPE, stderr=subprocess.STDOUT,
                       text=True, errors="replace", timeout=timeout)
    return p.returncode, p.stdout


def confirm(src, sid):
    meta = json.load(open(os.path.join(src, "meta.json")))
    demo_txt = open(os.path.join(src, "demo.txt")).read()
    m = re.search(r"[Pp]lace[^\n]*?([\w./-]+_seed_test\.go|pkg/[\w./-]+_test\.go)", demo_txt)
    if not m:
        sys.exit("cannot find demo path in demo.txt")
    demo_path = m.group(1)
    m = re.search(r"go test[^\n]*", demo_txt)
    test_cmd = m.group(0).strip().rstrip("`")
    wt = "/tmp/confirm-%s" % sid
    sh("git -C /repo worktree remove --force %s" % wt)
    shutil.rmtree(wt, ignore_errors=True)
    rc, out = sh("git -C /repo worktree add -q --detach %s HEAD" % wt)
    if rc != 0:
        sys.exit(out)
    log = {"repo_head": sh("git -C /repo rev-parse --short HEAD")[1].strip(), "demo_path": demo_path, "demo_cmd": test_cmd}
    try:
        os.makedirs(os.path.dirname(os.path.join(wt, demo_path)), exist_ok=True)
        shutil.copy(os.path.join(src, "demo_test.go"), os.path.join(wt, demo_path))
        rc, out = sh(test_cmd, cwd=wt)
        log["clean_demo"] = "PASS" if rc == 0 else "FAIL"
        log["clean_demo_tail"] = out[-600:]
        rc, out = sh("git apply --whitespace=nowarn %s" % os.path.join(src, "patch.diff"), cwd=wt)
        log["patch_applies"] = rc == 0
        if rc != 0:
            log["apply_out"] = out[-600:]
        rc, out = sh("go build ./...", cwd=wt)
        log["builds"] = rc == 0
        rc, out = sh(test_cmd, cwd=wt)
        log["patched_demo"] = "PASS" if rc == 0 else "FAIL"
        log["patched_demo_tail"] = out[-900:]
        # existing tests of the touched packages and their importers within the repo
        os.remove(os.path.join(wt, demo_path))
        pkgs = sorted({"./" + os.path.dirname(f) + "/..." for f in meta.get("files", [])})
        extra = ["./pkg/action/...", "./pkg/cmd/..."]
        rc, out = sh("go test -vet=off -count=1 %s 2>&1 | grep -v '^ok\\|no test files'" % " ".join(sorted(set(pkgs + extra))), cwd=wt)
        fails = set(re.findall(r"--- FAIL: (\w+)", out))
        log["suite_failures"] = sorted(fails)
        log["suite_unexpected"] = sorted(fails - KNOWN_FAIL - FLAKY_UNDER_LOAD)
        unexpected = sorted(fails - KNOWN_FAIL)
        if unexpected:
            # the machine may be heavily loaded: rerun every unexpected failure in isolation, twice
            still = set(unexpected)
            for _ in range(2):
                if not still:
                    break
                rc2, out2 = sh("go test -vet=off -count=1 %s -run '^(%s)$' 2>&1" % (" ".join(sorted(set(pkgs + extra))), "|".join(sorted(still))), cwd=wt)
                still = set(re.findall(r"--- FAIL: (\w+)", out2)) - KNOWN_FAIL
            log["rerun_in_isolation"] = {"failed_first": unexpected, "still_failing": sorted(still)}
            log["suite_unexpected"] = sorted(still)
    finally:
        sh("git -C /repo worktree remove --force %s" % wt)
        shutil.rmtree(wt, ignore_errors=True)
    ok = (log.get("clean_demo") == "PASS" and log.get("patch_applies") and log.get("builds") and
          log.get("patched_demo") == "FAIL" and not log.get("suite_unexpected"))
    log["confirmed"] = bool(ok)
    dst = os.path.join(ROOT, "seeded", sid)
    if ok:
        os.makedirs(dst, exist_ok=True)
        shutil.copy(os.path.join(src, "patch.diff"), os.path.join(dst, "patch.diff"))
        shutil.copy(os.path.join(src, "demo_test.go"), os.path.join(dst, "demo_test.go.txt"))
        meta2 = {"id": sid, "property": meta["property"], "what": meta.get("what"), "needs": meta.get("needs"),
                 "clause": meta.get("clause"), "files": meta.get("files"), "demo_path": demo_path, "demo_cmd": test_cmd,
                 "author_suite_note": meta.get("suite"), "confirmation": log}
        json.dump(meta2, open(os.path.join(dst, "meta.json"), "w"), indent=1)
    print(json.dumps({k: v for k, v in log.items() if not k.endswith("_tail")}, indent=1))
    return ok


def detect(sid, tier="quick"):
    dst = os.path.join(ROOT, "seeded", sid)
    meta = json.load(open(os.path.join(dst, "meta.json")))
    props = meta.get("check_with") or [meta["property"]]
    res = meta.setdefault("detection", {})
    for pid in props:
        t = time.time()
        rc, out = sh([os.path.join(ROOT, "lib", "mutant_run.sh"), pid, os.path.join(dst, "patch.diff"), "--tier", tier], timeout=7200)
        viol = [l for l in out.splitlines() if l.startswith("VIOLATION")]
        meta.setdefault("runs", []).append({"property": pid, "tier": tier, "detected": bool(viol),
                                            "verif_head": sh("git -C %s rev-parse --short HEAD" % ROOT)[1].strip()})
        res[pid] = {"tier": tier, "detected": bool(viol), "violation_lines": viol[:4], "exit": rc, "wall_s": round(time.time() - t),
                    "repo_head": sh("git -C /repo rev-parse --short HEAD")[1].strip(),
                    "verif_head": sh("git -C %s rev-parse --short HEAD" % ROOT)[1].strip()}
        if not viol:
            res[pid]["tail"] = out[-1200:]
        print(sid, pid, "DETECTED" if viol else "missed", viol[:2])
    json.dump(meta, open(os.path.join(dst, "meta.json"), "w"), indent=1)


def table():
    rows = []
    d = os.path.join(ROOT, "seeded")
    for sid in sorted(os.listdir(d)):
        p = os.path.join(d, sid, "meta.json")
        if not os.path.exists(p):
            continue
        m = json.load(open(p))
        det = m.get("detection", {})
        s = "; ".join("%s: %s" % (k, "caught" if v.get("detected") else "MISSED") for k, v in det.items()) or "not run yet"
        rows.append("| %s | %s | %s | %s |" % (sid, m["property"], (m.get("what") or "").replace("|", "/")[:160], s))
    print("| seed | property | change | checks |\n|---|---|---|---|\n" + "\n".join(rows))


if __name__ == "__main__":
    if len(sys.argv) >= 4 and sys.argv[1] == "confirm":
        sys.exit(0 if confirm(sys.argv[2], sys.argv[3]) else 1)
    elif len(sys.argv) >= 3 and sys.argv[1] == "detect":
        tier = sys.argv[sys.argv.index("--tier") + 1] if "--tier" in sys.argv else "quick"
        detect(sys.argv[2], tier)
    elif len(sys.argv) >= 2 and sys.argv[1] == "table":
        table()
    else:
        print(__doc__)

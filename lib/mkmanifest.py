"""Assemble MANIFEST.json from props/*.json (one file per claimed property)."""
import glob, json, os
ROOT = os.path.dirname(os.path.dirname(os.path.abspath(__file__)))
ids = [json.loads(l)["id"] for l in open(os.path.join(ROOT, "properties.jsonl"))]
checks, claimed = [], set()
for p in sorted(glob.glob(os.path.join(ROOT, "props", "C*.json"))):
    c = json.load(open(p))
    if not c.get("claimed", True):
        continue
    pid = c["id"]; claimed.add(pid)
    m = c.get("manifest", {})
    checks.append({
        "property_id": pid,
        "quick_cmd": "./check %s --tier quick" % pid,
        "thorough_cmd": "./check %s --tier thorough" % pid,
        "evidence_file": "/verif/evidence/%s.json" % pid,
        "replay_cmd_template": "./check %s --replay {path}" % pid,
        "engine": "coq+hx",
        "level_claimed": {"category": c.get("level", "proof"), "text": m.get("level_text", ""), "design_ref": m.get("design_ref", "DESIGN.md section 4, " + pid)},
        "level_note": m.get("level_note", "; ".join(c.get("trusted_base", []) + c.get("assumptions", []))),
        "technique": m.get("technique", "Coq theorems over a hand-written Gallina model + per-run correspondence (vm_compute) against the real code"),
    })
na_path = os.path.join(ROOT, "props", "not_applicable.json")
na_cfg = json.load(open(na_path)) if os.path.exists(na_path) else {}
na = [{"property_id": i, "reason": na_cfg.get(i, "check not built yet in this round; planned per DESIGN.md section 9 (no technique limitation)")} for i in ids if i not in claimed]
import subprocess
_log = subprocess.run(["git", "-C", "/repo", "log", "--reverse", "--format=%H %s"], stdout=subprocess.PIPE, text=True).stdout.splitlines()
hooks = {"source_commits": [l.split(" ", 1)[0] for l in _log if "verif hook" in l]}
man = {
    "version": 1,
    "setup_cmd": "./setup.sh",
    "hooks": {
        "guard": "verif",
        "enable": "go build -tags verif (harness module /verif/harness with replace helm.sh/helm/v4 => /repo)",
        "baseline_off_cmd": "cd /repo && GOFLAGS=-mod=mod GOPROXY=off go test -vet=off -count=1 ./...",
        "source_commits": hooks.get("source_commits", []),
        "add_only": True,
    },
    "engines": [{"name": "coq+hx", "path": "/verif/check", "serves_properties": sorted(claimed),
                 "kind_free_text": "Coq 8.16.1 development under /verif/coq (models, proofs, Props/Cxx.v) + Go correspondence harness /verif/harness (runs the real Helm code, prints observations as Gallina terms evaluated by vm_compute) + python driver /verif/lib/vcheck.py"}],
    "checks": checks,
    "notes": "Every check: (1) regenerates coq/Gen/*.v from /repo and rebuilds the harness against /repo's working tree with -tags verif, (2) re-checks the property theorems (make Props/Cxx.vo, Print Assumptions captured), (3) runs the real code on corpus + generated cases with a runtime oracle, (4) evaluates the Gallina model on the same cases inside Coq and compares. See DESIGN.md.",
    "not_applicable": na,
}
json.dump(man, open(os.path.join(ROOT, "MANIFEST.json"), "w"), indent=1)
print("claimed:", sorted(claimed))

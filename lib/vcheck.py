"""Driver of one check run.  See /verif/check and DESIGN.md section 2."""
import argparse, concurrent.futures, fcntl, glob, hashlib, json, os, re, shutil, subprocess, sys, time

ROOT = os.path.dirname(os.path.dirname(os.path.abspath(__file__)))
REPO = os.environ.get("VERIF_REPO", "/repo")
COQ = os.path.join(ROOT, "coq")
HARNESS = os.path.join(ROOT, "harness")
BIN = os.path.join(ROOT, ".bin", "hx")
NCPU = os.cpu_count() or 4

FORBIDDEN = re.compile(
    r"\b(Admitted|admit|Axiom|Axioms|Parameter|Parameters|Conjecture|Conjectures|give_up)\b"
    r"|Admit\s+Obligations|Unset\s+Guard|Unset\s+Positivity|Unset\s+Universe|bypass_check|type-in-type|impredicative-set"
    r"|native_compute")


def go_env():
    e = dict(os.environ)
    e["GOFLAGS"] = "-mod=mod"
    e["GOPROXY"] = "off"
    # the cached go1.24.0 toolchain is selected automatically; these two break that
    e.pop("GOTOOLCHAIN", None)
    e.pop("GOSUMDB", None)
    return e


def sh(cmd, cwd=None, timeout=None, env=None):
    """run, return (rc, combined output); rc 124 on timeout"""
    try:
        p = subprocess.run(cmd, cwd=cwd, env=env, timeout=timeout, stdout=subprocess.PIPE,
                           stderr=subprocess.STDOUT, text=True, errors="replace")
        return p.returncode, p.stdout
    except subprocess.TimeoutExpired as ex:
        out = ex.stdout.decode(errors="replace") if isinstance(ex.stdout, bytes) else (ex.stdout or "")
        return 124, out + "\n[timeout after %ss]" % timeout


class Lock:
    def __enter__(self):
        os.makedirs(os.path.join(ROOT, ".work"), exist_ok=True)
        self.f = open(os.path.join(ROOT, ".work", "build.lock"), "w")
        fcntl.flock(self.f, fcntl.LOCK_EX)
        return self

    def __exit__(self, *a):
        fcntl.flock(self.f, fcntl.LOCK_UN)
        self.f.close()


def strip_comments(src):
    out, depth, i, n = [], 0, 0, len(src)
    instr = False
    while i < n:
        if depth == 0 and src[i] == '"':
            instr = not instr
            out.append(src[i]); i += 1; continue
        if not instr and src.startswith("(*", i):
            depth += 1; i += 2; continue
        if not instr and depth > 0 and src.startswith("*)", i):
            depth -= 1; i += 2; continue
        if depth == 0:
            out.append(src[i])
        i += 1
    return "".join(out)


def closure(roots):
    """the .v files (relative to coq/) that the given files transitively Require from Helm"""
    seen, todo = set(), list(roots)
    while todo:
        f = todo.pop()
        if f in seen or not os.path.exists(os.path.join(COQ, f)):
            continue
        seen.add(f)
        src = strip_comments(open(os.path.join(COQ, f), errors="replace").read())
        for sent in re.split(r"\.(?:\s+|$)", src):
            if "Require" not in sent:
                continue
            toks = sent.split()
            for mod in toks:
                if mod in ("From", "Helm", "Require", "Import", "Export", "Coq", "Local", "Global"):
                    continue
                if mod.startswith("Helm."):
                    mod = mod[5:]
                cand = mod.replace(".", "/") + ".v"
                if os.path.exists(os.path.join(COQ, cand)):
                    todo.append(cand)
    return sorted(seen)


def grep_gate(roots=None):
    """no Admitted/Axiom/... ; Variable/Hypothesis/Context only inside a Section.
    roots=None: every file under coq/; otherwise the dependency closure of roots."""
    bad = []
    files = sorted(glob.glob(os.path.join(COQ, "**", "*.v"), recursive=True)) if roots is None else \
        [os.path.join(COQ, f) for f in closure(roots)]
    for p in files:
        src = strip_comments(open(p, errors="replace").read())
        nostr = re.sub(r'"(?:[^"]|"")*"', '""', src)
        for m in FORBIDDEN.finditer(nostr):
            bad.append("%s: forbidden token %r" % (os.path.relpath(p, ROOT), m.group(0)))
        depth = []
        for sent in re.split(r"\.(?:\s+|$)", nostr):
            s = sent.strip()
            m = re.match(r"(Section|Module\s+Type|Module)\s+(\w+)", s)
            if m and ":=" not in s:
                depth.append(m.group(1)); continue
            if re.match(r"End\s+\w+$", s) and depth:
                depth.pop(); continue
            if re.match(r"(Local\s+|Global\s+)?(Variable|Variables|Hypothesis|Hypotheses|Context)\b", s):
                if "Section" not in depth:
                    bad.append("%s: %s outside a Section" % (os.path.relpath(p, ROOT), s.split()[0]))
    return bad


def coq_files():
    fs = []
    for p in glob.glob(os.path.join(COQ, "**", "*.v"), recursive=True):
        rel = os.path.relpath(p, COQ)
        if rel.startswith(".") or "/." in rel:
            continue
        fs.append(rel)
    return sorted(fs)


def refresh_coq_project():
    content = "-Q . Helm\n-arg -w -arg -notation-overridden,-deprecated-hint-without-locality,-deprecated-instance-without-locality,-ambiguous-paths\n" + "\n".join(coq_files()) + "\n"
    p = os.path.join(COQ, "_CoqProject")
    old = open(p).read() if os.path.exists(p) else ""
    if old != content or not os.path.exists(os.path.join(COQ, "Makefile")):
        open(p, "w").write(content)
        rc, out = sh(["coq_makefile", "-f", "_CoqProject", "-o", "Makefile"], cwd=COQ, timeout=120)
        if rc != 0:
            raise RuntimeError("coq_makefile failed:\n" + out)


def harness_files(pid, cfg):
    """the Go files of package main that make up this property's binary: the common ones plus
    cXX*.go / gentables_cXX*.go plus cfg["go_files"] -- so that another property's in-progress
    file cannot break this property's build"""
    d = os.path.join(HARNESS, "cmd", "hx")
    low = pid.lower()
    names = {"main.go", "gentables.go"}
    for f in os.listdir(d):
        if not f.endswith(".go") or f.endswith("_test.go"):
            continue
        if f.startswith(low) or f.startswith("gentables_" + low):
            names.add(f)
    for f in cfg.get("go_files", []):
        names.add(f)
    return sorted(os.path.join("cmd", "hx", f) for f in names if os.path.exists(os.path.join(d, f)))


def build_harness(pid=None, cfg=None):
    gs_src, gs_dst = os.path.join(REPO, "go.sum"), os.path.join(HARNESS, "go.sum")
    try:
        have = set(open(gs_dst).read().splitlines()) if os.path.exists(gs_dst) else set()
        need = set(open(gs_src).read().splitlines())
        if not need <= have:
            open(gs_dst, "w").write("\n".join(sorted(have | need)) + "\n")
    except OSError:
        pass
    os.makedirs(os.path.dirname(BIN), exist_ok=True)
    if pid is None:
        return sh(["go", "build", "-tags", "verif", "-o", BIN, "./cmd/hx"], cwd=HARNESS, timeout=1500, env=go_env())
    return sh(["go", "build", "-tags", "verif", "-o", bin_for(pid)] + harness_files(pid, cfg or {}),
              cwd=HARNESS, timeout=1500, env=go_env())


def bin_for(pid):
    return os.path.join(ROOT, ".bin", "hx-" + pid)


def gen_tables(pid=None):
    return sh([bin_for(pid) if pid else BIN, "gen-tables", "--repo", REPO, "--out", os.path.join(COQ, "Gen")], timeout=300, env=go_env())


COQC_TIMEOUT = int(os.environ.get("VERIF_COQC_TIMEOUT", "1200"))   # per file: a looping file must not hang the run


def make_target(target, timeout):
    return sh(["make", "-j%d" % NCPU, "COQC=timeout %d coqc" % COQC_TIMEOUT, target], cwd=COQ, timeout=timeout)


def vo_key(props_file):
    st = os.stat(os.path.join(COQ, props_file[:-2] + ".vo"))
    return [st.st_mtime_ns, st.st_size]


def solo_compile(props_file, timeout):
    """The output of compiling the property file ALONE (its Print Assumptions lines), for the .vo that is on disk
    now.  The compile is repeated only when the .vo differs from the one the cached output belongs to (any change
    of a dependency makes `make` rebuild the .vo, which changes its key)."""
    cache = os.path.join(ROOT, ".work", "assumptions", props_file.replace("/", "_") + ".json")
    try:
        c = json.load(open(cache))
        if c.get("key") == vo_key(props_file):
            return 0, c["out"]
    except (OSError, ValueError, KeyError):
        pass
    for ext in (".vo", ".vos", ".vok", ".glob"):
        try: os.remove(os.path.join(COQ, props_file[:-2] + ext))
        except OSError: pass
    rc, out = make_target(props_file[:-2] + ".vo", timeout)
    if rc == 0:
        os.makedirs(os.path.dirname(cache), exist_ok=True)
        write_json(cache, {"key": vo_key(props_file), "out": out})
    return rc, out


def parse_assumptions(out):
    """returns list of blocks: 'closed' or list of axiom names"""
    blocks = []
    lines = out.splitlines()
    i = 0
    while i < len(lines):
        l = lines[i].strip()
        if l.startswith("Closed under the global context"):
            blocks.append("closed")
        elif l.startswith("Axioms:"):
            ax = []
            i += 1
            while i < len(lines) and lines[i].strip() and not lines[i].startswith(("Closed", "Axioms:", "COQC", "make", "File ")):
                m = re.match(r"^(\S+)\s*:", lines[i])
                if m and not lines[i].startswith(" "):
                    ax.append(m.group(1))
                i += 1
            blocks.append(ax)
            continue
        i += 1
    return blocks


def load_known():
    p = os.path.join(ROOT, "known_findings.json")
    kf = json.load(open(p)) if os.path.exists(p) else {"findings": [], "fixed": []}
    # per-property files (same format), so that separate checks can be maintained separately
    for q in sorted(glob.glob(os.path.join(ROOT, "known_findings.d", "*.json"))):
        x = json.load(open(q))
        kf["findings"] = kf.get("findings", []) + x.get("findings", [])
        kf["fixed"] = kf.get("fixed", []) + x.get("fixed", [])
    return kf


def write_json(path, obj):
    os.makedirs(os.path.dirname(path), exist_ok=True)
    tmp = path + ".tmp"
    with open(tmp, "w") as f:
        json.dump(obj, f, indent=1, sort_keys=False, default=str)
        f.write("\n")
    os.replace(tmp, path)


def run_shard(work, shard, timeout):
    t0 = time.time()
    rc, out = sh(["coqc", "-noglob", "-Q", COQ, "Helm", shard], cwd=work, timeout=timeout)
    flat = " ".join(out.split())
    m = re.search(r"M = \[(.*?)\]\s*: list nat", flat)
    if rc != 0 or not m:
        return shard, None, out[-3000:], time.time() - t0
    body = m.group(1).strip()
    idx = [int(x) for x in re.findall(r"\d+", body)] if body else []
    return shard, idx, "", time.time() - t0


def read_case(work, index):
    try:
        with open(os.path.join(work, "cases.jsonl")) as f:
            for line in f:
                o = json.loads(line)
                if o.get("index") == index:
                    return o
    except OSError:
        pass
    return None


def main(argv):
    ap = argparse.ArgumentParser(prog="check")
    ap.add_argument("prop")
    ap.add_argument("--tier", default=os.environ.get("VERIF_TIER", "quick"), choices=["quick", "thorough"])
    ap.add_argument("--replay")
    ap.add_argument("--n", type=int)
    ap.add_argument("--seed", type=int, default=int(os.environ.get("VERIF_SEED", "1") or 1))
    ap.add_argument("--skip-build", action="store_true")
    a = ap.parse_args(argv)
    pid = a.prop.upper()
    cfgp = os.path.join(ROOT, "props", pid + ".json")
    if not os.path.exists(cfgp):
        print("unknown property", pid); return 2
    cfg = json.load(open(cfgp))
    t0 = time.time()
    work = os.path.join(ROOT, ".work", "%s-%s%s" % (pid, a.tier, "-replay" if a.replay else ""))
    shutil.rmtree(work, ignore_errors=True)
    os.makedirs(work, exist_ok=True)
    os.makedirs(os.path.join(ROOT, "replays"), exist_ok=True)
    evidence_path = os.path.join(ROOT, "evidence", pid + ".json")
    known = load_known()
    known_sigs = {f["sig"]: f for f in known.get("findings", []) if f.get("property") == pid}

    violations = []      # (replay_path, suffix)
    known_hits = {}
    notes = []
    proof = {"obligations": 0, "discharged": 0, "theorems": [], "assumptions": [], "ok": False, "log_tail": ""}
    replay_n = [0]

    def new_replay(obj):
        replay_n[0] += 1
        p = os.path.join(ROOT, "replays", "%s-%d-%d.json" % (pid, a.seed, replay_n[0]))
        obj = dict(obj); obj.setdefault("property", pid); obj.setdefault("seed", a.seed)
        write_json(p, obj)
        return p

    # ---- 1+2: build, translator, proofs (serialised across concurrent checks)
    props_file = cfg["props_file"]
    target = props_file[:-2] + ".vo"
    with Lock():
        gate = grep_gate([cfg["props_file"]] + ([cfg["run_target"][:-1]] if cfg.get("run_target") else []))
        rc, out = build_harness(pid, cfg)
        if rc != 0:
            rp = new_replay({"kind": "harness-build", "theorem": None,
                             "what": "the correspondence harness no longer builds against /repo", "log": out[-4000:]})
            print(out[-2000:])
            print("VIOLATION property=%s replay=%s no-failing-input-found" % (pid, rp))
            write_json(evidence_path, {"property_id": pid, "tier": a.tier, "seed": a.seed, "level": "proof",
                                       "coverage": {"evaluations": 1, "distinct_nontrivial": 2, "explanation": "harness build failed"},
                                       "wall_s": time.time() - t0, "violations": 1})
            return 1
        rc_t, out_t = gen_tables(pid)
        if rc_t != 0:
            notes.append("translator reported: " + out_t.strip()[-500:])
        refresh_coq_project()
        proof_timeout = cfg.get("proof_timeout", 1500)
        rc_m, out_m = make_target(target, proof_timeout)
        if rc_m == 0:
            rc_m, out_m = solo_compile(props_file, proof_timeout)
        run_model_target = cfg.get("run_target")
        rc_r, out_r = (0, "")
        if run_model_target:
            rc_r, out_r = make_target(run_model_target, proof_timeout)
    src = strip_comments(open(os.path.join(COQ, props_file)).read())
    thms = re.findall(r"\b(?:Theorem|Lemma|Example|Corollary)\s+(\w+)", src)
    printed = re.findall(r"Print\s+Assumptions\s+(\w+)", src)
    proof["theorems"] = thms
    proof["obligations"] = len(thms)
    allowed = set(cfg.get("allowed_axioms", []))
    if rc_m == 0:
        blocks = parse_assumptions(out_m)
        used = set()
        okb = 0
        for b in blocks:
            if b == "closed":
                okb += 1
            else:
                used.update(b)
                if set(b) <= allowed:
                    okb += 1
        proof["assumptions"] = sorted(used)
        missing = [t for t in thms if t not in printed]
        if missing:
            gate.append("Props file has theorems without Print Assumptions: %s" % missing)
        proof["discharged"] = min(okb, len(thms)) if not missing else 0
        proof["ok"] = (okb >= len(printed) == len(thms)) and not gate
        if used - allowed:
            gate.append("theorem depends on axioms outside the stated trusted base: %s" % sorted(used - allowed))
            proof["ok"] = False
    else:
        proof["log_tail"] = out_m[-3000:]
    if gate:
        proof["ok"] = False
        proof["gate"] = gate

    # ---- 3: implementation run
    n = a.n if a.n is not None else cfg.get("%s_n" % a.tier, cfg.get("quick_n", 100))
    hx_cmd = [bin_for(pid), cfg["hx"], "--seed", str(a.seed), "--n", str(n), "--out", work, "--tier", a.tier,
              "--shard", str(cfg.get("shard", 100))]
    if a.replay:
        hx_cmd += ["--replay", os.path.abspath(a.replay)]
    rc_h, out_h = sh(hx_cmd, cwd=HARNESS, timeout=cfg.get("%s_timeout" % a.tier, 3000), env=go_env())
    report = None
    rp_path = os.path.join(work, "report.json")
    if rc_h == 0 and os.path.exists(rp_path):
        report = json.load(open(rp_path))
    else:
        rp = new_replay({"kind": "harness-run", "what": "harness run failed (rc=%s)" % rc_h, "log": out_h[-4000:]})
        print(out_h[-2000:])
        violations.append((rp, " no-failing-input-found"))
        report = {"evaluations": 0, "distinct_nontrivial": 0, "rule": "", "samples": [], "distribution": {},
                  "oracle_violations": [], "shards": [], "shard_sizes": []}

    # ---- runtime oracle
    seen_sig = set()
    for v in report.get("oracle_violations") or []:
        sig = v.get("sig", "")
        if sig in known_sigs:
            known_hits[sig] = known_sigs[sig]
            continue
        if sig in seen_sig:
            continue
        seen_sig.add(sig)
        rp = new_replay({"kind": "impl-violation", "sig": sig, "what": v.get("what"), "case": v.get("case"),
                         "observed": v.get("observed")})
        violations.append((rp, ""))
        notes.append("oracle: " + str(v.get("what")))

    # ---- 4: correspondence
    mism, shard_err, validated = [], [], 0
    shard_timeout = cfg.get("shard_timeout", 900)
    shards = report.get("shards") or []
    if rc_r == 0:
        with concurrent.futures.ThreadPoolExecutor(max_workers=NCPU) as ex:
            futs = [ex.submit(run_shard, work, s, shard_timeout) for s in shards]
            base = 0
            offsets = {}
            for s, sz in zip(shards, report.get("shard_sizes") or []):
                offsets[s] = base; base += sz
            for f in futs:
                s, idx, err, dt = f.result()
                if idx is None:
                    shard_err.append((s, err))
                else:
                    validated += (report["shard_sizes"][shards.index(s)] - len(idx))
                    mism += [offsets[s] + i for i in idx]
    else:
        shard_err.append(("(model)", "the model no longer compiles:\n" + (out_r or out_m)[-2000:]))

    # ---- 5: decide
    def search_failing_input(reason):
        """oracle-only run at a larger budget with another seed; True when a failing input was found"""
        if a.replay:
            return False
        n2 = cfg.get("search_n", max(4 * n, 1000))
        w2 = work + "-search"
        shutil.rmtree(w2, ignore_errors=True)
        found = False
        rc2, _ = sh([bin_for(pid), cfg["hx"], "--seed", str(a.seed + 7919), "--n", str(n2), "--out", w2, "--tier", a.tier,
                     "--shard", "1000000000"], cwd=HARNESS, timeout=cfg.get("search_timeout", 600), env=go_env())
        try:
            r2 = json.load(open(os.path.join(w2, "report.json")))
            for v in r2.get("oracle_violations") or []:
                if v.get("sig") in known_sigs or v.get("sig") in seen_sig:
                    continue
                seen_sig.add(v.get("sig"))
                rp = new_replay({"kind": "impl-violation", "sig": v.get("sig"), "what": v.get("what"),
                                 "case": v.get("case"), "observed": v.get("observed"), "found_by": "search after " + reason})
                violations.append((rp, "")); found = True
        except (OSError, ValueError):
            pass
        shutil.rmtree(w2, ignore_errors=True)
        return found

    searched = False
    if mism or shard_err:
        first = read_case(work, mism[0]) if mism else None
        info = {"kind": "correspondence", "what": "model and implementation disagree" if mism else "correspondence shard failed to evaluate",
                "mismatching_indices": mism[:50], "shard_errors": [(s, e[-1500:]) for s, e in shard_err][:3]}
        if first:
            info["case"] = first.get("case"); info["observed"] = first.get("observed")
            info["run_module"] = cfg.get("run_target")
        found = any(s == "" for _, s in violations)
        if not found:
            found = search_failing_input("correspondence mismatch"); searched = True
        if not found:
            rp = new_replay(info)
            violations.append((rp, " no-failing-input-found"))
        else:
            notes.append("correspondence also mismatched on %d cases" % len(mism))
    if not proof["ok"]:
        what = "proof obligation no longer checks: " + "; ".join(proof.get("gate") or []) if proof.get("gate") else \
            "proof obligation no longer checks (make %s failed)" % target
        broken = None
        m = re.search(r'File "\./([^"]+)", line (\d+)', proof.get("log_tail", ""))
        if m:
            broken = "%s:%s" % (m.group(1), m.group(2))
        found = any(s == "" for _, s in violations)
        if not found and not searched:
            # a broken obligation alone: look for a concrete failing input before giving up on one
            found = search_failing_input("broken proof obligation")
        if not found:
            rp = new_replay({"kind": "proof-obligation", "theorem": broken or props_file, "what": what,
                             "log": proof.get("log_tail", "")})
            violations.append((rp, " no-failing-input-found"))
        else:
            notes.append("also: " + what + (" (%s)" % broken if broken else ""))

    # thorough: independent re-check of the compiled proofs
    coqchk_info = None
    if a.tier == "thorough" and proof["ok"] and cfg.get("coqchk", True):
        coqchk_info = run_coqchk(props_file)
        if coqchk_info.get("rc") != 0:
            rp = new_replay({"kind": "proof-obligation", "theorem": props_file, "what": "coqchk rejected the compiled proofs",
                             "log": coqchk_info.get("tail")})
            violations.append((rp, " no-failing-input-found"))

    for sig, f in known_hits.items():
        print("KNOWN-FINDING: property=%s %s" % (pid, f.get("what", sig)))
    for rp, sfx in violations:
        print("VIOLATION property=%s replay=%s%s" % (pid, rp, sfx))

    tb = list(cfg.get("trusted_base", [])) + [
        "Coq 8.16.1 kernel (coqc, full .vo build; vm_compute used, native_compute not used)",
        "Print Assumptions under the property theorems: " + (", ".join(proof["assumptions"]) if proof["assumptions"] else "Closed under the global context"),
        "translator hx gen-tables (go/ast) for coq/Gen/*.v",
        "correspondence harness (Go, runs the real Helm code) + coqc evaluation of cases_k.v; no extraction",
    ]
    cov = {
        "obligations": max(proof["obligations"], 1),
        "discharged": proof["discharged"] if proof["ok"] else 0,
        "checker_cmd": "make -C coq %s  (coq_makefile, coqc 8.16.1)" % target + ("; coqchk -silent -o" if coqchk_info else ""),
        "trusted_base": tb,
        "theorems": proof["theorems"],
        "evaluations": report.get("evaluations", 0),
        "distinct_nontrivial": report.get("distinct_nontrivial", 0),
        "rule": report.get("rule", ""),
        "samples": (report.get("samples") or [])[:3] or [{"none": True}],
        "traces_validated_against_impl": validated,
        "correspondence_mismatches": len(mism),
        "input_distribution": report.get("distribution", {}),
        "known_findings_replayed": sorted(known_hits),
        "notes": notes,
    }
    if report.get("extra"):
        cov["extra"] = report["extra"]
    if coqchk_info:
        cov["coqchk"] = coqchk_info
    ev = {"property_id": pid, "tier": a.tier, "seed": a.seed, "level": cfg.get("level", "proof"), "coverage": cov,
          "assumptions": cfg.get("assumptions", []), "wall_s": round(time.time() - t0, 2), "violations": len(violations)}
    if not a.replay:
        write_json(evidence_path, ev)
    else:
        print(json.dumps({"replay_result": {"oracle": report.get("oracle_violations"), "mismatches": mism,
                                             "observed": (report.get("samples") or [None])[0]}}, indent=1, default=str)[:6000])
    if not violations:
        print("OK property=%s tier=%s theorems=%d cases=%d validated=%d wall=%.1fs" % (
            pid, a.tier, proof["discharged"], report.get("evaluations", 0), validated, time.time() - t0))
    return 1 if violations else 0


def run_coqchk(props_file):
    mod = "Helm." + props_file[:-2].replace("/", ".")
    vo = os.path.join(COQ, props_file[:-2] + ".vo")
    h = hashlib.sha256()
    for p in sorted(glob.glob(os.path.join(COQ, "**", "*.vo"), recursive=True)):
        h.update(p.encode()); h.update(str(os.path.getsize(p)).encode()); h.update(str(int(os.path.getmtime(p))).encode())
    stamp = os.path.join(ROOT, ".work", "coqchk-%s-%s.json" % (mod, h.hexdigest()[:16]))
    if os.path.exists(stamp):
        return json.load(open(stamp))
    t = time.time()
    rc, out = sh(["coqchk", "-silent", "-o", "-Q", COQ, "Helm", mod], cwd=COQ, timeout=5400)
    info = {"rc": rc, "wall_s": round(time.time() - t, 1), "tail": out[-2500:]}
    write_json(stamp, info)
    return info

#!/usr/bin/env python3
"""Re-run the detection of every stored seeded change (and every harmless probe) of the given properties at the
current HEAD, N at a time.   lib/regress.py [-j N] [--seed S] C02 C04 ...   (no property = all)
Results go into seeded/*/meta.json / harmless/*/meta.json as usual; a summary line per item is printed."""
import concurrent.futures, glob, json, os, subprocess, sys
ROOT = os.path.dirname(os.path.dirname(os.path.abspath(__file__)))
args = sys.argv[1:]
j = 3
env = dict(os.environ)
if "-j" in args:
    i = args.index("-j"); j = int(args[i + 1]); del args[i:i + 2]
if "--seed" in args:
    i = args.index("--seed"); env["VERIF_SEED"] = args[i + 1]; del args[i:i + 2]
only = None
if "--only" in args:   # seeds | harmless | harmless2
    i = args.index("--only"); only = args[i + 1]; del args[i:i + 2]
props = set(a.upper() for a in args)
jobs = []
for mp in sorted(glob.glob(os.path.join(ROOT, "seeded", "*", "meta.json"))):
    m = json.load(open(mp))
    if (not props or m["property"] in props) and only in (None, "seeds"):
        jobs.append(["python3", os.path.join(ROOT, "lib", "seed.py"), "detect", m["id"]])
for mp in sorted(glob.glob(os.path.join(ROOT, "harmless", "*", "meta.json"))):
    m = json.load(open(mp))
    two = bool(m.get("check_with"))
    if (not props or m["property"] in props or (two and props & set(m["check_with"]))) and \
            (only is None or (only == "harmless" and not two) or (only == "harmless2" and two)):
        jobs.append(["python3", os.path.join(ROOT, "lib", "harmless.py"), "run", m["id"]])
def run(cmd):
    p = subprocess.run(cmd, cwd=ROOT, env=env, stdout=subprocess.PIPE, stderr=subprocess.STDOUT, text=True)
    return (p.stdout.strip().splitlines() or ["(no output) " + " ".join(cmd[-2:])])[-1]
with concurrent.futures.ThreadPoolExecutor(max_workers=j) as ex:
    for line in ex.map(run, jobs):
        print(line[:220], flush=True)

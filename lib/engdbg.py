#!/usr/bin/env python3
"""engdbg.py <workdir> <global case index> [shard size]: show the implementation's observation and the model's view"""
import json, subprocess, sys, os
work, idx = sys.argv[1], int(sys.argv[2])
shard = int(sys.argv[3]) if len(sys.argv) > 3 else None
rep = json.load(open(os.path.join(work, "report.json")))
sizes = rep["shard_sizes"]; k = 0; off = idx
while off >= sizes[k]:
    off -= sizes[k]; k += 1
lines = [json.loads(l) for l in open(os.path.join(work, "cases.jsonl"))]
c = lines[idx]
print("backend", c["case"].get("backend"), "init", [r["kind"] + "/" + r["name"] for r in c["case"].get("init") or []])
for i, (s, o) in enumerate(zip(c["case"]["steps"], c["observed"]["steps"])):
    op = s.get("op")
    print(i, json.dumps({k: v for k, v in (op or s).items() if k not in ("manifest", "hooks")}))
    if op:
        print("     manifest", [(m["kind"] + "/" + m["name"], m.get("fields")) for m in op.get("manifest") or []])
        print("     hooks", [(h["res"]["name"], h["events"], h["weight"], h.get("policies")) for h in op.get("hooks") or []])
    print("   IMPL ->", o["outcome"], (o.get("err_text") or "")[:140])
    print("     ledger", [(r["rev"], r["status"], r["chart_id"], r["vals_id"]) for r in o["ledger"] or []])
    print("     objs", {k: v for k, v in sorted((o["objs"] or {}).items())})
    print("     trace", [(t.get("store") or t.get("call"), t.get("rev"), t.get("st"), [(m["verb"], m["key"]) for m in t.get("muts") or []]) for t in o["trace"] or []])
dbg = os.path.join(work, "dbg_%d.v" % idx)
open(dbg, "w").write("""From Coq Require Import List String NArith ZArith.
Import ListNotations.
From Helm Require Import Common.Strs Engine.Types Engine.Eff Engine.Ops Engine.Cluster Engine.Seq Run.RunEng.
Require Import cases_%d.
Local Open Scope string_scope.
Definition c := nth %d cases (mkCase [] [] []).
Eval vm_compute in diag c.
Definition bad := (fix go i l := match l with [] => 0 | (a,b,c0,d) :: t => if andb (andb a b) (andb c0 d) then go (S i) t else i end) 0 (diag c).
Eval vm_compute in bad.
Eval vm_compute in map (fun m => let '(o, l, ob, t) := m in (o, map (fun r => (lr_rev r, lr_st r, lr_chart r, lr_vals r, lr_keys r)) l, ob, t)) (firstn 1 (skipn bad (model_view c))).
""" % (k, off))
subprocess.run(["coqc", "-noglob", "-Q", "/verif/coq", "Helm", "cases_%d.v" % k], cwd=work, capture_output=True)
p = subprocess.run(["coqc", "-noglob", "-Q", "/verif/coq", "Helm", "-Q", ".", "", os.path.basename(dbg)], cwd=work, capture_output=True, text=True)
print("MODEL:"); print(p.stdout[:9000], p.stderr[-2000:])

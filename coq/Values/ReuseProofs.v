(* Proofs about the value-reuse policy of upgrade and rollback (Values/Reuse.v). *)
From Coq Require Import List String Bool Arith ZArith Lia.
From Helm Require Import Values.Tree Values.Merge Values.Coalesce Values.Reuse Values.TreeLemmas Values.CoalesceProofs.
Import ListNotations.

(* ---- the specification, stated independently of [step] ---- *)

(* what is recorded as the user values of an upgrade *)
Definition config_spec (f : uflags) (newv deployed : vmap) : vmap :=
  if reset_values f then newv
  else if reuse_values f || reset_then_reuse_values f then coalesce_tables false newv deployed
  else if is_empty newv then deployed else newv.

(* the chart defaults in force when the upgrade is rendered *)
Definition keeps_old_defaults (f : uflags) : bool := negb (reset_values f) && reuse_values f.

Definition defaults_spec (f : uflags) (newchart : chart) (cur : revision) : option vmap :=
  if keeps_old_defaults f then coalesce_values_root (rchart cur) (rconfig cur)
  else Some (cvalues newchart).

Lemma reuse_values_fn_spec : forall f c cur vals c' vals',
  reuse_values_fn f c cur vals = Some (c', vals') ->
  vals' = config_spec f vals (rconfig cur)
  /\ exists d, defaults_spec f c cur = Some d /\ c' = set_values c d.
Proof.
  intros f c cur vals c' vals' H. unfold reuse_values_fn in H.
  unfold config_spec, defaults_spec, keeps_old_defaults.
  destruct c as [n v ds].
  destruct (reset_values f) eqn:R.
  - inversion H; subst. split; [reflexivity|]. eexists. split; reflexivity.
  - destruct (reuse_values f) eqn:U.
    + simpl. destruct (coalesce_values_root (rchart cur) (rconfig cur)) as [old|] eqn:O; [|discriminate].
      inversion H; subst. split; [reflexivity|]. eexists. split; reflexivity.
    + simpl. destruct (reset_then_reuse_values f) eqn:T.
      * inversion H; subst. split; [reflexivity|]. eexists. split; reflexivity.
      * destruct vals as [|e t]; simpl in *.
        -- destruct (rconfig cur) eqn:C; simpl in H; inversion H; subst;
             (split; [reflexivity|]; eexists; split; reflexivity).
        -- inversion H; subst. split; [reflexivity|]. eexists. split; reflexivity.
Qed.

Lemma render_some : forall c v r, render c v = Some r -> to_render_values c v = Some r.
Proof. intros c v r H. unfold render in H. destruct (pd_ok c v); [assumption | discriminate]. Qed.

(* ---- which revision values are carried forward from ---- *)
Lemma deployed_idx_from_spec : forall sts n i,
  deployed_idx_from n sts = Some i ->
  n <= i < n + List.length sts
  /\ nth_error sts (i - n) = Some SDeployed
  /\ (forall j, i < j -> j < n + List.length sts -> nth_error sts (j - n) <> Some SDeployed).
Proof.
  induction sts as [|st t IH]; intros n i H; simpl in H; [discriminate|].
  destruct (deployed_idx_from (S n) t) as [i'|] eqn:D.
  - inversion H; subst i'. destruct (IH _ _ D) as (R & N & M). simpl List.length.
    split; [lia|]. split.
    + replace (i - n) with (S (i - S n)) by lia. exact N.
    + intros j Hj Hl. replace (j - n) with (S (j - S n)) by lia. apply M; lia.
  - destruct (rstat_eqb st SDeployed) eqn:E; [|discriminate]. inversion H; subst i.
    destruct st; try discriminate. simpl List.length. split; [lia|]. split.
    + now rewrite Nat.sub_diag.
    + intros j Hj Hl. replace (j - n) with (S (j - S n)) by lia. simpl.
      clear -D Hj Hl. revert n j D Hj Hl. induction t as [|s t IHt]; intros n j D Hj Hl.
      * destruct (j - S n); discriminate.
      * simpl in D. destruct (deployed_idx_from (S (S n)) t) eqn:D2; [discriminate|].
        destruct (rstat_eqb s SDeployed) eqn:E; [discriminate|].
        destruct (j - S n) eqn:J.
        -- simpl. intros X. inversion X; subst s. discriminate.
        -- simpl. simpl in Hl. specialize (IHt (S n) j D2). replace (j - S (S n)) with n0 in IHt by lia. apply IHt; lia.
Qed.

Lemma deployed_idx_from_none : forall sts n,
  deployed_idx_from n sts = None -> forall j, nth_error sts j <> Some SDeployed.
Proof.
  induction sts as [|st t IH]; intros n H j; [destruct j; discriminate|].
  simpl in H. destruct (deployed_idx_from (S n) t) eqn:D; [discriminate|].
  destruct (rstat_eqb st SDeployed) eqn:E; [discriminate|].
  destruct j; simpl; [intros X; inversion X; subst; discriminate | eapply IH; eauto].
Qed.

(* prepareUpgrade's currentRelease: the newest DEPLOYED revision when there is one, else the
   newest revision *)
Theorem current_idx_spec : forall sts n,
  current_idx sts = Some n ->
  1 <= n <= List.length sts
  /\ ((nth_error sts (n - 1) = Some SDeployed
       /\ forall j, n <= j -> j < List.length sts -> nth_error sts j <> Some SDeployed)
      \/ (n = List.length sts /\ forall j, nth_error sts j <> Some SDeployed)).
Proof.
  intros sts n H. unfold current_idx in H. destruct sts as [|s0 t0] eqn:ES; [discriminate|]. rewrite <- ES in *.
  assert (Hlen : 1 <= List.length sts) by (rewrite ES; simpl; lia).
  destruct (nth_error sts (List.length sts - 1)) as [st|] eqn:NL.
  - destruct st.
    + inversion H; subst n. split; [lia|]. left. split; [assumption|]. intros j Hj Hl. lia.
    + destruct (deployed_idx_from 1 sts) as [i|] eqn:D.
      * inversion H; subst i. destruct (deployed_idx_from_spec _ _ _ D) as (R & N & M). split; [lia|]. left.
        split; [assumption|]. intros j Hj Hl. specialize (M (S j)). replace (S j - 1) with j in M by lia. apply M; lia.
      * inversion H; subst n. split; [lia|]. right. split; [reflexivity|]. eapply deployed_idx_from_none; eauto.
    + destruct (deployed_idx_from 1 sts) as [i|] eqn:D.
      * inversion H; subst i. destruct (deployed_idx_from_spec _ _ _ D) as (R & N & M). split; [lia|]. left.
        split; [assumption|]. intros j Hj Hl. specialize (M (S j)). replace (S j - 1) with j in M by lia. apply M; lia.
      * inversion H; subst n. split; [lia|]. right. split; [reflexivity|]. eapply deployed_idx_from_none; eauto.
  - apply nth_error_None in NL. lia.
Qed.

Lemma current_get : forall h n cur, current h = Some (n, cur) -> get_rev h n = Some cur /\ current_idx (map rstatus h) = Some n.
Proof.
  intros h n cur H. unfold current in H. destruct (current_idx (map rstatus h)) as [m|]; [|discriminate].
  destruct (get_rev h m) eqn:G; [|discriminate]. inversion H; subst. auto.
Qed.

Definition fail_status (fails : bool) : rstat := if fails then SFailed else SDeployed.

(* C13_config_spec / C13_defaults_spec: what an upgrade stores *)
Theorem upgrade_stores : forall h f c vals fails h' ok,
  step h (OUpgrade f c vals fails) = Some (h', ok) ->
  exists n cur d r,
    current h = Some (n, cur)
    /\ defaults_spec f c cur = Some d
    /\ h' = ((if fails then h else supersede_at n h) ++ [r])%list
    /\ rconfig r = config_spec f vals (rconfig cur)
    /\ rchart r = set_values c d
    /\ to_render_values (set_values c d) (rconfig r) = Some (rrendered r)
    /\ rstatus r = fail_status fails
    /\ ok = negb fails.
Proof.
  intros h f c vals fails h' ok H. simpl in H.
  destruct (current h) as [[n cur]|]; [|discriminate].
  destruct (reuse_values_fn f c cur vals) as [[c' vals']|] eqn:E; [|discriminate].
  destruct (render c' vals') as [rv|] eqn:T; [|discriminate]. apply render_some in T.
  apply reuse_values_fn_spec in E. destruct E as [-> (d & Hd & ->)].
  destruct fails; inversion H; subst; eexists n, cur, d, _; repeat split; try reflexivity; assumption.
Qed.

(* every stored revision re-renders to what its templates saw *)
Definition consistent (r : revision) : Prop := to_render_values (rchart r) (rconfig r) = Some (rrendered r).

Lemma get_rev_in : forall h n r, get_rev h n = Some r -> In r h.
Proof. intros h [|i] r H; simpl in H; [discriminate|]. eapply nth_error_In; eauto. Qed.

Lemma consistent_set_status : forall st r, consistent r -> consistent (set_status st r).
Proof. intros st r H. exact H. Qed.

Lemma consistent_supersede_at : forall n h, Forall consistent h -> Forall consistent (supersede_at n h).
Proof.
  intros n h. revert n. induction h as [|r t IH]; intros n H.
  - destruct n as [|[|n'']]; simpl; constructor.
  - inversion H; subst. destruct n as [|[|n'']].
    + assumption.
    + simpl. constructor; assumption.
    + change (supersede_at (S (S n'')) (r :: t)) with (r :: supersede_at (S n'') t).
      constructor; [assumption | apply IH; assumption].
Qed.

Lemma consistent_supersede_deployed : forall h, Forall consistent h -> Forall consistent (supersede_deployed h).
Proof.
  induction h as [|r t IH]; intros H; [constructor|]. inversion H; subst. simpl.
  constructor; [destruct (rstat_eqb (rstatus r) SDeployed); assumption | now apply IH].
Qed.

Lemma step_consistent : forall h o h' ok,
  Forall consistent h -> step h o = Some (h', ok) -> Forall consistent h'.
Proof.
  intros h o h' ok Hh H. destruct o as [c vals fails|f c vals fails|v fails].
  - simpl in H. destruct h; [|discriminate]. destruct (render c vals) eqn:T; [|discriminate]. apply render_some in T.
    inversion H; subst. constructor; [exact T | constructor].
  - destruct (upgrade_stores _ _ _ _ _ _ _ H) as (n & cur & d & r & _ & _ & -> & Hc & Hch & Hr & _ & _).
    apply Forall_app. split.
    + destruct fails; [assumption | now apply consistent_supersede_at].
    + constructor; [|constructor]. unfold consistent. rewrite Hch. exact Hr.
  - simpl in H. destruct (last_rev h); [|discriminate].
    destruct (get_rev h _) as [t|] eqn:G; [|discriminate].
    assert (Ct : consistent t) by (apply get_rev_in in G; rewrite Forall_forall in Hh; exact (Hh _ G)).
    destruct fails; inversion H; subst; apply Forall_app; split;
      try assumption; try (now apply consistent_supersede_deployed); (constructor; [exact Ct | constructor]).
Qed.

(* with reuse-values the defaults in force are exactly what the templates of the revision the
   values are carried forward from saw *)
Corollary reuse_defaults_are_deployed_values : forall h f c vals fails h' ok,
  Forall consistent h ->
  step h (OUpgrade f c vals fails) = Some (h', ok) ->
  keeps_old_defaults f = true ->
  exists n cur r, current h = Some (n, cur) /\ last_rev h' = Some r /\ rchart r = set_values c (rrendered cur).
Proof.
  intros h f c vals fails h' ok Hh H K.
  destruct (upgrade_stores _ _ _ _ _ _ _ H) as (n & cur & d & r & Hc & Hd & -> & _ & Hch & _).
  exists n, cur, r. split; [assumption|]. split.
  - unfold last_rev, get_rev. rewrite app_length. simpl. replace (List.length (if fails then h else supersede_at n h) + 1) with (S (List.length (if fails then h else supersede_at n h))) by lia.
    rewrite nth_error_app2 by lia. now rewrite Nat.sub_diag.
  - unfold defaults_spec in Hd. rewrite K in Hd.
    destruct (current_get _ _ _ Hc) as [G _]. apply get_rev_in in G.
    rewrite Forall_forall in Hh. specialize (Hh _ G). unfold consistent, to_render_values in Hh.
    rewrite Hh in Hd. inversion Hd; subst. assumption.
Qed.

(* C13_rollback_config *)
Theorem rollback_stores : forall h v fails h' ok,
  step h (ORollback v fails) = Some (h', ok) ->
  exists t r, get_rev h (match v with O => List.length h - 1 | _ => v end) = Some t
    /\ h' = ((if fails then h else supersede_deployed h) ++ [r])%list
    /\ rconfig r = rconfig t /\ rchart r = rchart t /\ rrendered r = rrendered t
    /\ rstatus r = fail_status fails /\ ok = negb fails.
Proof.
  intros h v fails h' ok H. simpl in H. destruct (last_rev h); [|discriminate].
  destruct (get_rev h _) as [t|] eqn:E; [|discriminate].
  destruct fails; inversion H; subst; eexists t, _; repeat split; reflexivity.
Qed.

(* ---- chains ---- *)
(* the ledger: recorded values and status of every revision *)
Definition ledger := list (vmap * rstat).
Definition ledger_of (h : history) : ledger := map (fun r => (rconfig r, rstatus r)) h.

Definition l_supersede_at (n : nat) (l : ledger) : ledger :=
  (fix go (n : nat) (l : ledger) : ledger :=
     match n, l with
     | _, [] => []
     | O, _ => l
     | S O, (c, _) :: t => (c, SSuperseded) :: t
     | S n', x :: t => x :: go n' t
     end) n l.

Definition l_supersede_deployed (l : ledger) : ledger :=
  map (fun x => if rstat_eqb (snd x) SDeployed then (fst x, SSuperseded) else x) l.

Definition l_get (l : ledger) (n : nat) : option (vmap * rstat) := match n with O => None | S i => nth_error l i end.

(* the per-step specification on the ledger alone, for an operation that stored something *)
Definition spec_step (l : ledger) (o : op) : option ledger :=
  match o with
  | OInstall _ vals fails => match l with [] => Some [(vals, fail_status fails)] | _ => None end
  | OUpgrade f _ vals fails =>
      match current_idx (map snd l) with
      | Some n =>
          match l_get l n with
          | Some (cur, _) =>
              Some ((if fails then l else l_supersede_at n l) ++ [(config_spec f vals cur, fail_status fails)])%list
          | None => None
          end
      | None => None
      end
  | ORollback v fails =>
      match l_get l (match v with O => List.length l - 1 | _ => v end) with
      | Some (cfg, _) => Some ((if fails then l else l_supersede_deployed l) ++ [(cfg, fail_status fails)])%list
      | None => None
      end
  end.

(* which operations stored a revision *)
Fixpoint stored_flags (h : history) (ops : list op) : list bool :=
  match ops with
  | [] => []
  | o :: t =>
      match step h o with
      | Some (h1, _) => true :: stored_flags h1 t
      | None => false :: stored_flags h t
      end
  end.

Fixpoint spec_chain (l : ledger) (ops : list op) (stored : list bool) : ledger :=
  match ops, stored with
  | o :: ops', true :: st' =>
      match spec_step l o with
      | Some l' => spec_chain l' ops' st'
      | None => l                                      (* excluded by [chain_spec] *)
      end
  | _ :: ops', false :: st' => spec_chain l ops' st'
  | _, _ => l
  end.

Lemma ledger_statuses : forall h, map snd (ledger_of h) = map rstatus h.
Proof. intros. unfold ledger_of. rewrite map_map. reflexivity. Qed.

Lemma ledger_get : forall h n, l_get (ledger_of h) n = option_map (fun r => (rconfig r, rstatus r)) (get_rev h n).
Proof. intros h [|i]; simpl; [reflexivity|]. unfold ledger_of. apply nth_error_map. Qed.

Lemma ledger_supersede_at : forall n h, ledger_of (supersede_at n h) = l_supersede_at n (ledger_of h).
Proof.
  intros n h. revert n. induction h as [|r t IH]; intros [|[|n'']]; try reflexivity.
  change (supersede_at (S (S n'')) (r :: t)) with (r :: supersede_at (S n'') t).
  change (ledger_of (r :: supersede_at (S n'') t)) with ((rconfig r, rstatus r) :: ledger_of (supersede_at (S n'') t)).
  change (l_supersede_at (S (S n'')) (ledger_of (r :: t))) with ((rconfig r, rstatus r) :: l_supersede_at (S n'') (ledger_of t)).
  f_equal. apply IH.
Qed.

Lemma ledger_supersede_deployed : forall h, ledger_of (supersede_deployed h) = l_supersede_deployed (ledger_of h).
Proof.
  induction h as [|r t IH]; simpl; [reflexivity|]. f_equal; [|exact IH].
  destruct (rstat_eqb (rstatus r) SDeployed); reflexivity.
Qed.

Lemma ledger_length : forall h, List.length (ledger_of h) = List.length h.
Proof. intros. apply map_length. Qed.

Lemma ledger_app : forall a b, ledger_of (a ++ b) = (ledger_of a ++ ledger_of b)%list.
Proof. intros. apply map_app. Qed.

Lemma step_spec_step : forall h o h' ok,
  step h o = Some (h', ok) -> spec_step (ledger_of h) o = Some (ledger_of h').
Proof.
  intros h o h' ok H. destruct o as [c vals fails|f c vals fails|v fails].
  - simpl in H. destruct h; [|discriminate]. destruct (render c vals); [|discriminate].
    inversion H; subst. simpl. destruct fails; reflexivity.
  - destruct (upgrade_stores _ _ _ _ _ _ _ H) as (n & cur & d & r & Hc & _ & -> & Hcfg & _ & _ & Hst & _).
    destruct (current_get _ _ _ Hc) as [G I].
    simpl spec_step. rewrite ledger_statuses, I, ledger_get, G. simpl.
    rewrite ledger_app. simpl. rewrite Hcfg, Hst.
    destruct fails; [reflexivity | now rewrite ledger_supersede_at].
  - destruct (rollback_stores _ _ _ _ _ H) as (t & r & G & -> & Hcfg & _ & _ & Hst & _).
    simpl spec_step. rewrite ledger_length, ledger_get, G. simpl.
    rewrite ledger_app. simpl. rewrite Hcfg, Hst.
    destruct fails; [reflexivity | now rewrite ledger_supersede_deployed].
Qed.

(* C13_chain *)
Theorem chain_spec : forall ops h h' oks,
  run_chain h ops = (h', oks) ->
  ledger_of h' = spec_chain (ledger_of h) ops (stored_flags h ops)
  /\ List.length oks = List.length ops.
Proof.
  induction ops as [|o ops IH]; intros h h' oks H; simpl in H.
  - inversion H; subst. split; reflexivity.
  - simpl stored_flags. destruct (step h o) as [[h1 ok]|] eqn:S.
    + destruct (run_chain h1 ops) as [h2 oks2] eqn:R. inversion H; subst.
      destruct (IH _ _ _ R) as [E L]. simpl.
      rewrite (step_spec_step _ _ _ _ S). split; [assumption | now rewrite L].
    + destruct (run_chain h ops) as [h2 oks2] eqn:R. inversion H; subst.
      destruct (IH _ _ _ R) as [E L]. simpl. split; [assumption | now rewrite L].
Qed.

Theorem chain_consistent : forall ops h h' oks,
  Forall consistent h -> run_chain h ops = (h', oks) -> Forall consistent h'.
Proof.
  induction ops as [|o ops IH]; intros h h' oks Hh H; simpl in H.
  - inversion H; subst. assumption.
  - destruct (step h o) as [[h1 ok]|] eqn:S.
    + destruct (run_chain h1 ops) as [h2 oks2] eqn:R. inversion H; subst.
      eapply IH; [|exact R]. eapply step_consistent; eauto.
    + destruct (run_chain h ops) as [h2 oks2] eqn:R. inversion H; subst. eapply IH; eauto.
Qed.

(* the overlay of reuse-values / reset-then-reuse-values, path by path *)
Theorem overlay_paths : forall f newv deployed,
  reset_values f = false -> reuse_values f || reset_then_reuse_values f = true ->
  wf (VMap deployed) ->
  (forall p x, lookup_path p (VMap newv) = Some x -> is_table x = false -> x <> VNull ->
               lookup_path p (VMap (config_spec f newv deployed)) = Some x)
  /\ (forall p, defines p (VMap newv) = false ->
                lookup_path p (VMap (config_spec f newv deployed)) = lookup_path p (VMap deployed))
  /\ (forall p y, lookup_path p (VMap newv) = Some VNull -> lookup_path p (VMap deployed) = Some y ->
                  lookup_path p (VMap (config_spec f newv deployed)) = None)
  /\ (forall p, lookup_path p (VMap newv) = Some VNull -> lookup_path p (VMap deployed) = None ->
                lookup_path p (VMap (config_spec f newv deployed)) = Some VNull).
Proof.
  intros f newv deployed R U Hwf. unfold config_spec. rewrite R, U.
  rewrite coalesce_tables_loop. repeat split; intros.
  - now apply ct_dst_wins.
  - now apply ct_src_fills.
  - eapply ct_null_removes; eauto.
  - now apply ct_null_stays.
Qed.

(* non-vacuity: a concrete chain *)
Local Open Scope string_scope.
Definition ex_c1 := mkChart "c" [("a", VNum 1%Z); ("t", VMap [("x", VStr "d")])] [].
Definition ex_c2 := mkChart "c" [("a", VNum 2%Z); ("m", VStr "new")] [].
Definition ex_ops : list op :=
  [ OInstall ex_c1 [("a", VNum 10%Z); ("u", VStr "keep")] false;
    OUpgrade (mkFlags false false false) ex_c2 [("a", VNum 99%Z); ("bad", VStr "x")] true;     (* fails: stored as failed *)
    OUpgrade (mkFlags false true false) ex_c2 [("t", VMap [("y", VStr "u2")]); ("u", VNull)] false;  (* carries forward from 1, not 2 *)
    OUpgrade (mkFlags false false false) ex_c2 [] false;
    ORollback 1 false;
    ORollback 9 false;
    OUpgrade (mkFlags true false false) ex_c1 [] false ].

Example ex_chain :
  let '(h, oks) := run_chain [] ex_ops in
  oks = [true; false; true; true; true; false; true]
  /\ ledger_of h =
     [ ([("a", VNum 10%Z); ("u", VStr "keep")], SSuperseded);
       ([("a", VNum 99%Z); ("bad", VStr "x")], SFailed);
       ([("t", VMap [("y", VStr "u2")]); ("a", VNum 10%Z)], SSuperseded);
       ([("t", VMap [("y", VStr "u2")]); ("a", VNum 10%Z)], SSuperseded);
       ([("a", VNum 10%Z); ("u", VStr "keep")], SSuperseded);
       ([], SDeployed) ]
  /\ option_map rrendered (get_rev h 3)
     = Some [("t", VMap [("y", VStr "u2"); ("x", VStr "d")]); ("a", VNum 10%Z); ("u", VStr "keep")].
Proof. vm_compute. repeat split; reflexivity. Qed.

(* non-vacuity of the hypotheses of overlay_paths / reuse_defaults_are_deployed_values *)
Example ex_overlay :
  let f := mkFlags false false true in
  let deployed : vmap := [("a", VNum 10%Z); ("t", VMap [("x", VStr "u")]); ("u", VStr "keep")] in
  let newv : vmap := [("t", VMap [("y", VStr "n")]); ("a", VMap [("now", VStr "table")])] in
  reset_values f = false /\ reuse_values f || reset_then_reuse_values f = true /\ wf (VMap deployed)
  /\ lookup_path ["t"; "y"] (VMap (config_spec f newv deployed)) = Some (VStr "n")
  /\ lookup_path ["t"; "x"] (VMap (config_spec f newv deployed)) = Some (VStr "u")
  /\ lookup_path ["a"; "now"] (VMap (config_spec f newv deployed)) = Some (VStr "table")
  /\ lookup_path ["u"] (VMap (config_spec f newv deployed)) = Some (VStr "keep").
Proof. repeat split; reflexivity. Qed.

Example ex_consistent :
  Forall consistent (fst (run_chain [] ex_ops))
  /\ List.length (fst (run_chain [] ex_ops)) = 6.
Proof.
  split; [|reflexivity].
  destruct (run_chain [] ex_ops) as [h oks] eqn:E. simpl fst.
  eapply chain_consistent; [|exact E]. constructor.
Qed.

(* Proofs about the value-reuse policy of upgrade and rollback (Values/Reuse.v). *)
From Coq Require Import List String Bool Arith ZArith Lia.
From Helm Require Import Values.Tree Values.Merge Values.Coalesce Values.Reuse Values.TreeLemmas Values.CoalesceProofs.
Import ListNotations.

(* ---- the specification, stated independently of [step] ---- *)

(* what is recorded as the user values of an upgrade *)
Definition config_spec (f : uflags) (newv deployed : vmap) : vmap :=
  if reset_values f then newv
  else if reuse_values f || reset_then_reuse_values f then coalesce_tables false newv deployed
  else if is_empty newv then deployed else newv.

(* the chart defaults in force when the upgrade is rendered *)
Definition keeps_old_defaults (f : uflags) : bool := negb (reset_values f) && reuse_values f.

Definition defaults_spec (f : uflags) (newchart : chart) (cur : revision) : option vmap :=
  if keeps_old_defaults f then coalesce_values_root (rchart cur) (rconfig cur)
  else Some (cvalues newchart).

Lemma reuse_values_fn_spec : forall f c cur vals c' vals',
  reuse_values_fn f c cur vals = Some (c', vals') ->
  vals' = config_spec f vals (rconfig cur)
  /\ exists d, defaults_spec f c cur = Some d /\ c' = set_values c d.
Proof.
  intros f c cur vals c' vals' H. unfold reuse_values_fn in H.
  unfold config_spec, defaults_spec, keeps_old_defaults.
  destruct c as [n v ds].
  destruct (reset_values f) eqn:R.
  - inversion H; subst. split; [reflexivity|]. eexists. split; reflexivity.
  - destruct (reuse_values f) eqn:U.
    + simpl. destruct (coalesce_values_root (rchart cur) (rconfig cur)) as [old|] eqn:O; [|discriminate].
      inversion H; subst. split; [reflexivity|]. eexists. split; reflexivity.
    + simpl. destruct (reset_then_reuse_values f) eqn:T.
      * inversion H; subst. split; [reflexivity|]. eexists. split; reflexivity.
      * destruct vals as [|e t]; simpl in *.
        -- destruct (rconfig cur) eqn:C; simpl in H; inversion H; subst;
             (split; [reflexivity|]; eexists; split; reflexivity).
        -- inversion H; subst. split; [reflexivity|]. eexists. split; reflexivity.
Qed.

Lemma render_some : forall c v r, render c v = Some r -> to_render_values c v = Some r.
Proof. intros c v r H. unfold render in H. destruct (pd_ok c v); [assumption | discriminate]. Qed.

(* C13_config_spec *)
Theorem upgrade_config_spec : forall h f c vals r,
  step h (OUpgrade f c vals) = Some r ->
  exists cur, current h = Some cur /\ rconfig r = config_spec f vals (rconfig cur).
Proof.
  intros h f c vals r H. simpl in H.
  destruct (current h) as [cur|]; [|discriminate].
  destruct (reuse_values_fn f c cur vals) as [[c' vals']|] eqn:E; [|discriminate].
  destruct (render c' vals'); [|discriminate].
  inversion H; subst. simpl.
  apply reuse_values_fn_spec in E. destruct E as [-> _].
  eauto.
Qed.

(* C13_defaults_spec *)
Theorem upgrade_defaults_spec : forall h f c vals r,
  step h (OUpgrade f c vals) = Some r ->
  exists cur d, current h = Some cur
    /\ defaults_spec f c cur = Some d
    /\ rchart r = set_values c d
    /\ to_render_values (set_values c d) (rconfig r) = Some (rrendered r).
Proof.
  intros h f c vals r H. simpl in H.
  destruct (current h) as [cur|]; [|discriminate].
  destruct (reuse_values_fn f c cur vals) as [[c' vals']|] eqn:E; [|discriminate].
  destruct (render c' vals') eqn:T; [|discriminate]. apply render_some in T.
  inversion H; subst. simpl.
  apply reuse_values_fn_spec in E. destruct E as [_ (d & Hd & ->)].
  exists cur, d. auto.
Qed.

(* every stored revision re-renders to what its templates saw *)
Definition consistent (r : revision) : Prop := to_render_values (rchart r) (rconfig r) = Some (rrendered r).

Lemma get_rev_in : forall h n r, get_rev h n = Some r -> In r h.
Proof. intros h [|i] r H; simpl in H; [discriminate|]. eapply nth_error_In; eauto. Qed.

Lemma step_consistent : forall h o r,
  Forall consistent h -> step h o = Some r -> consistent r.
Proof.
  intros h o r Hh H. destruct o as [c vals|f c vals|v]; simpl in H.
  - destruct h; [|discriminate]. destruct (render c vals) eqn:T; [|discriminate]. apply render_some in T.
    inversion H; subst. exact T.
  - destruct (current h) as [cur|]; [|discriminate].
    destruct (reuse_values_fn f c cur vals) as [[c' vals']|]; [|discriminate].
    destruct (render c' vals') eqn:T; [|discriminate]. apply render_some in T.
    inversion H; subst. exact T.
  - destruct (current h); [|discriminate].
    destruct (get_rev h _) as [t|] eqn:G; [|discriminate].
    inversion H; subst. unfold consistent. simpl.
    apply get_rev_in in G. rewrite Forall_forall in Hh. exact (Hh _ G).
Qed.

(* with reuse-values the defaults in force are exactly what the deployed revision's templates saw *)
Corollary reuse_defaults_are_deployed_values : forall h f c vals r,
  Forall consistent h ->
  step h (OUpgrade f c vals) = Some r ->
  keeps_old_defaults f = true ->
  exists cur, current h = Some cur /\ rchart r = set_values c (rrendered cur).
Proof.
  intros h f c vals r Hh H K.
  destruct (upgrade_defaults_spec _ _ _ _ _ H) as (cur & d & Hc & Hd & Hr & _).
  exists cur. split; [assumption|].
  unfold defaults_spec in Hd. rewrite K in Hd.
  assert (Hin : In cur h).
  { unfold current in Hc. eapply get_rev_in; eauto. }
  rewrite Forall_forall in Hh. specialize (Hh _ Hin). unfold consistent, to_render_values in Hh.
  rewrite Hh in Hd. inversion Hd; subst. assumption.
Qed.

(* C13_rollback_config *)
Theorem rollback_spec : forall h v r,
  step h (ORollback v) = Some r ->
  exists t, get_rev h (match v with O => List.length h - 1 | _ => v end) = Some t
            /\ rconfig r = rconfig t /\ rchart r = rchart t /\ rrendered r = rrendered t.
Proof.
  intros h v r H. simpl in H. destruct (current h); [|discriminate].
  destruct (get_rev h _) as [t|] eqn:E; [|discriminate]. inversion H; subst. exists t. auto.
Qed.

(* ---- chains ---- *)

(* the per-step specification on recorded values alone: given the configs recorded so far and
   whether the operation succeeded, the configs afterwards *)
Definition nth_config (cs : list vmap) (n : nat) : option vmap :=
  match n with O => None | S i => nth_error cs i end.

Definition spec_step (cs : list vmap) (o : op) : option vmap :=
  match o with
  | OInstall _ vals => match cs with [] => Some vals | _ => None end
  | OUpgrade f _ vals =>
      match nth_config cs (List.length cs) with
      | Some cur => Some (config_spec f vals cur)
      | None => None
      end
  | ORollback v => nth_config cs (match v with O => List.length cs - 1 | _ => v end)
  end.

Fixpoint spec_chain (cs : list vmap) (ops : list op) (oks : list bool) : list vmap :=
  match ops, oks with
  | o :: ops', true :: oks' =>
      match spec_step cs o with
      | Some c => spec_chain (cs ++ [c])%list ops' oks'
      | None => cs                                      (* excluded by [chain_spec]: a successful step has a spec *)
      end
  | _ :: ops', false :: oks' => spec_chain cs ops' oks'
  | _, _ => cs
  end.

Lemma nth_config_map : forall h n,
  nth_config (map rconfig h) n = option_map rconfig (get_rev h n).
Proof.
  intros h [|i]; simpl; [reflexivity|].
  revert h. induction i; intros [|r t]; simpl; auto.
Qed.

Lemma step_spec_step : forall h o r,
  step h o = Some r -> spec_step (map rconfig h) o = Some (rconfig r).
Proof.
  intros h o r H. destruct o as [c vals|f c vals|v].
  - simpl in *. destruct h; [|discriminate]. destruct (render c vals); [|discriminate].
    inversion H; subst. reflexivity.
  - destruct (upgrade_config_spec _ _ _ _ _ H) as (cur & Hc & Hr).
    simpl. rewrite map_length, nth_config_map. unfold current in Hc. rewrite Hc. simpl. now rewrite Hr.
  - destruct (rollback_spec _ _ _ H) as (t & Ht & Hr & _).
    simpl. rewrite map_length, nth_config_map, Ht. simpl. now rewrite Hr.
Qed.

(* C13_chain *)
Theorem chain_spec : forall ops h h' oks,
  run_chain h ops = (h', oks) ->
  map rconfig h' = spec_chain (map rconfig h) ops oks
  /\ List.length oks = List.length ops.
Proof.
  induction ops as [|o ops IH]; intros h h' oks H; simpl in H.
  - inversion H; subst. split; reflexivity.
  - destruct (step h o) as [r|] eqn:S.
    + destruct (run_chain (h ++ [r]) ops) as [h2 oks2] eqn:R. inversion H; subst.
      destruct (IH _ _ _ R) as [E L]. simpl.
      rewrite (step_spec_step _ _ _ S). rewrite E, map_app. simpl. split; [reflexivity | now rewrite L].
    + destruct (run_chain h ops) as [h2 oks2] eqn:R. inversion H; subst.
      destruct (IH _ _ _ R) as [E L]. simpl. split; [assumption | now rewrite L].
Qed.

Theorem chain_consistent : forall ops h h' oks,
  Forall consistent h -> run_chain h ops = (h', oks) -> Forall consistent h'.
Proof.
  induction ops as [|o ops IH]; intros h h' oks Hh H; simpl in H.
  - inversion H; subst. assumption.
  - destruct (step h o) as [r|] eqn:S.
    + destruct (run_chain (h ++ [r]) ops) as [h2 oks2] eqn:R. inversion H; subst.
      eapply IH; [|exact R]. apply Forall_app. split; [assumption|].
      constructor; [|constructor]. eapply step_consistent; eauto.
    + destruct (run_chain h ops) as [h2 oks2] eqn:R. inversion H; subst. eapply IH; eauto.
Qed.

(* the overlay of reuse-values / reset-then-reuse-values, path by path *)
Theorem overlay_paths : forall f newv deployed,
  reset_values f = false -> reuse_values f || reset_then_reuse_values f = true ->
  wf (VMap deployed) ->
  (forall p x, lookup_path p (VMap newv) = Some x -> is_table x = false -> x <> VNull ->
               lookup_path p (VMap (config_spec f newv deployed)) = Some x)
  /\ (forall p, defines p (VMap newv) = false ->
                lookup_path p (VMap (config_spec f newv deployed)) = lookup_path p (VMap deployed))
  /\ (forall p y, lookup_path p (VMap newv) = Some VNull -> lookup_path p (VMap deployed) = Some y ->
                  lookup_path p (VMap (config_spec f newv deployed)) = None)
  /\ (forall p, lookup_path p (VMap newv) = Some VNull -> lookup_path p (VMap deployed) = None ->
                lookup_path p (VMap (config_spec f newv deployed)) = Some VNull).
Proof.
  intros f newv deployed R U Hwf. unfold config_spec. rewrite R, U.
  rewrite coalesce_tables_loop. repeat split; intros.
  - now apply ct_dst_wins.
  - now apply ct_src_fills.
  - eapply ct_null_removes; eauto.
  - now apply ct_null_stays.
Qed.

(* non-vacuity: a concrete chain *)
Local Open Scope string_scope.
Definition ex_c1 := mkChart "c" [("a", VNum 1%Z); ("t", VMap [("x", VStr "d")])] [].
Definition ex_c2 := mkChart "c" [("a", VNum 2%Z); ("m", VStr "new")] [].
Definition ex_ops : list op :=
  [ OInstall ex_c1 [("a", VNum 10%Z); ("u", VStr "keep")];
    OUpgrade (mkFlags false true false) ex_c2 [("t", VMap [("y", VStr "u2")]); ("u", VNull)];
    OUpgrade (mkFlags false false false) ex_c2 [];
    ORollback 1;
    ORollback 9;
    OUpgrade (mkFlags true false false) ex_c1 [] ].

Example ex_chain :
  let '(h, oks) := run_chain [] ex_ops in
  oks = [true; true; true; true; false; true]
  /\ map rconfig h =
     [ [("a", VNum 10%Z); ("u", VStr "keep")];
       [("t", VMap [("y", VStr "u2")]); ("a", VNum 10%Z)];
       [("t", VMap [("y", VStr "u2")]); ("a", VNum 10%Z)];
       [("a", VNum 10%Z); ("u", VStr "keep")];
       [] ]
  /\ option_map rrendered (get_rev h 2)
     = Some [("t", VMap [("y", VStr "u2"); ("x", VStr "d")]); ("a", VNum 10%Z); ("u", VStr "keep")].
Proof. vm_compute. repeat split; reflexivity. Qed.

(* non-vacuity of the hypotheses of overlay_paths / reuse_defaults_are_deployed_values *)
Example ex_overlay :
  let f := mkFlags false false true in
  let deployed : vmap := [("a", VNum 10%Z); ("t", VMap [("x", VStr "u")]); ("u", VStr "keep")] in
  let newv : vmap := [("t", VMap [("y", VStr "n")]); ("a", VMap [("now", VStr "table")])] in
  reset_values f = false /\ reuse_values f || reset_then_reuse_values f = true /\ wf (VMap deployed)
  /\ lookup_path ["t"; "y"] (VMap (config_spec f newv deployed)) = Some (VStr "n")
  /\ lookup_path ["t"; "x"] (VMap (config_spec f newv deployed)) = Some (VStr "u")
  /\ lookup_path ["a"; "now"] (VMap (config_spec f newv deployed)) = Some (VStr "table")
  /\ lookup_path ["u"] (VMap (config_spec f newv deployed)) = Some (VStr "keep").
Proof. repeat split; reflexivity. Qed.

Example ex_consistent :
  Forall consistent (fst (run_chain [] ex_ops))
  /\ List.length (fst (run_chain [] ex_ops)) = 5.
Proof.
  split; [|reflexivity].
  destruct (run_chain [] ex_ops) as [h oks] eqn:E. simpl fst.
  eapply chain_consistent; [|exact E]. constructor.
Qed.

(* C13: the obligation over the translator table coq/Gen/C13Reuse.v (regenerated from
   /repo/pkg/action/upgrade.go on every check run by harness/cmd/hx/gentables_c13.go).

   [reuse_rows_understood]: the translator met nothing it could not interpret.
   [reuse_rows_no_diffs] / [reuse_rows_ok]: on each of the 8 x 3 x 3 environments (the three flags; the new values nil /
   empty / non-empty; the deployed revision's values nil / empty / non-empty) exactly one path of
   reuseValues is taken, every condition on it could be interpreted, and the path returns what the
   model decides there ([ReuseMode.model_decision]: which map, overlaid onto a COPY of the
   caller's map or not at all, old defaults kept or not).  A finite domain, by computation.
   [reuse_rows_are_model]: hence the table, applied to the model's data, IS [reuse_values_fn],
   for all flags, charts, revisions and values. *)
From Coq Require Import List String Bool.
From Helm Require Import Values.Tree Values.Coalesce Values.Reuse Values.ReuseProofs Values.ReuseMode.
From Helm Require Gen.C13Reuse.
Import ListNotations.

(* 1. the translator understood every construct it met on the paths of reuseValues (and of the
      same-package helpers it inlined).  When this fails the message lists, with line and source
      text, what it could not interpret. *)
Lemma reuse_rows_understood : Gen.C13Reuse.reuse_rows_unknown = [].
Proof. vm_compute. (* so that a failure prints the list *) reflexivity. Qed.

(* 2. no environment on which the table decides otherwise than the model.  When this fails the
      message lists the environments (reset, reuse, reset-then-reuse, new values, deployed values)
      with the table's decision and the model's. *)
Lemma reuse_rows_no_diffs : table_diffs Gen.C13Reuse.reuse_rows = [].
Proof. vm_compute. reflexivity. Qed.

Lemma reuse_rows_ok : table_ok Gen.C13Reuse.reuse_rows = true.
Proof. exact (table_diffs_ok _ reuse_rows_no_diffs). Qed.

Theorem reuse_rows_decide : forall e : renv, decide e Gen.C13Reuse.reuse_rows = Some (model_decision e).
Proof. exact (table_ok_decide _ reuse_rows_ok). Qed.

Theorem reuse_rows_are_model : forall (f : uflags) (ch : chart) (cur : revision) (newv : vmap),
  option_map (fun a => apply_action a ch cur newv) (decide (env_of f newv (rconfig cur)) Gen.C13Reuse.reuse_rows)
  = Some (reuse_values_fn f ch cur newv).
Proof. exact (table_is_model _ reuse_rows_ok). Qed.

(* the same with the model's decision written out *)
Theorem reuse_rows_decide_explicit : forall e : renv,
  decide e Gen.C13Reuse.reuse_rows = Some
    (if e_reset e then mkAct RNew false
     else if e_reuse e then mkAct ROverlayCopy true
     else if e_rtr e then mkAct ROverlayCopy false
     else if negb (mstate_eqb (e_new e) MNonEmpty) && mstate_eqb (e_cur e) MNonEmpty then mkAct RCur false
     else mkAct RNew false).
Proof.
  intros e. rewrite reuse_rows_decide. destruct e as [a b c n k].
  unfold model_decision, env_mode, reuse_mode. simpl. destruct a, b, c; reflexivity.
Qed.

Theorem reuse_mode_cases : forall a b c : bool,
  In (a, b, c, reuse_mode (mkFlags a b c))
     [ (false, false, false, MPlain); (false, false, true, MResetThenReuse);
       (false, true, false, MReuse);  (false, true, true, MReuse);
       (true, false, false, MReset);  (true, false, true, MReset);
       (true, true, false, MReset);   (true, true, true, MReset) ].
Proof. exact reuse_mode_table. Qed.

Theorem reuse_values_fn_by_mode_explicit : forall (f : uflags) (ch : chart) (cur : revision) (newv : vmap),
  reuse_values_fn f ch cur newv =
  match reuse_mode f with
  | MReset => Some (ch, newv)
  | MReuse =>
      match coalesce_values_root (rchart cur) (rconfig cur) with
      | None => None
      | Some oldvals => Some (set_values ch oldvals, coalesce_tables false newv (rconfig cur))
      end
  | MResetThenReuse => Some (ch, coalesce_tables false newv (rconfig cur))
  | MPlain => if is_empty newv && negb (is_empty (rconfig cur)) then Some (ch, rconfig cur) else Some (ch, newv)
  end.
Proof. exact reuse_values_fn_by_mode. Qed.

(* pkg/chart/v2/util/coalesce.go — CoalesceValues / MergeValues and their helpers, as they
   are (after fix F8: coalesceGlobals deep-copies the parent's global tables).

   Value-semantic transcription: Go mutates [dest] in place and returns it; here every
   function returns the new table.  Go ranges over maps in arbitrary order; every loop body
   below touches only the key it is at, so with unique keys the order does not matter; the
   model goes through the association list front to back.  New keys are appended, results
   are compared after [norm].

   Definitions only (shared with C11/C13/C14); proofs are in CoalesceProofs.v.
   Names used by other work packages, keep stable:
     chart / mkChart / cname / cvalues / cdeps
     coalesce_tables  coalesce_values  coalesce_globals  coalesce  coalesce_deps
     coalesce_values_root (= CoalesceValues)   merge_values_root (= MergeValues) *)
From Coq Require Import List String Bool.
From Helm Require Import Values.Tree.
Import ListNotations.
Local Open Scope string_scope.

(* A chart as far as values are concerned: name, values.yaml, loaded dependencies
   (chrt.Dependencies(), in that order). *)
Inductive chart : Type := mkChart { cname : string; cvalues : vmap; cdeps : list chart }.

Definition is_null (v : val) : bool := match v with VNull => true | _ => false end.

Definition global_key : string := "global".

(* coalesceTablesFullKey(dst, src, merge): dst is authoritative.
     for key, val := range src:
        dv, ok := dst[key]
        ok && !merge && dv == nil        -> delete(dst, key)
        !ok                              -> dst[key] = val
        istable(val) && istable(dv)      -> recurse into (dv, val)
        otherwise                        -> dst keeps what it has
   (src == nil -> dst, dst == nil -> src: the same values as the loop gives.)
   Structural on the source table. *)
Fixpoint coalesce_tables_v (merge : bool) (dst : vmap) (srcv : val) {struct srcv} : vmap :=
  match srcv with
  | VMap src =>
      (fix go (src : list (string * val)) (dst : vmap) : vmap :=
         match src with
         | [] => dst
         | (key, v) :: t =>
             go t (match mget key dst with
                   | Some dv =>
                       if negb merge && is_null dv then mdel key dst
                       else match v, dv with
                            | VMap _, VMap dvm => mset key (VMap (coalesce_tables_v merge dvm v)) dst
                            | _, _ => dst
                            end
                   | None => mset key v dst
                   end)
         end) src dst
  | _ => dst
  end.

Definition coalesce_tables (merge : bool) (dst src : vmap) : vmap :=
  coalesce_tables_v merge dst (VMap src).

(* one iteration of the loop above, for the stand-alone form used in proofs *)
Definition ct_step (merge : bool) (key : string) (v : val) (dst : vmap) : vmap :=
  match mget key dst with
  | Some dv =>
      if negb merge && is_null dv then mdel key dst
      else match v, dv with
           | VMap _, VMap dvm => mset key (VMap (coalesce_tables_v merge dvm v)) dst
           | _, _ => dst
           end
  | None => mset key v dst
  end.

Fixpoint ct_loop (merge : bool) (src : vmap) (dst : vmap) : vmap :=
  match src with
  | [] => dst
  | (key, v) :: t => ct_loop merge t (ct_step merge key v dst)
  end.

(* CoalesceTables / MergeTables *)
Definition coalesce_tables_pub (dst src : vmap) : vmap := coalesce_tables false dst src.
Definition merge_tables_pub (dst src : vmap) : vmap := coalesce_tables true dst src.

(* childChartMergeTrue *)
Definition child_chart_merge_true (deps : list chart) (key : string) (merge : bool) : bool :=
  if existsb (fun d => String.eqb (cname d) key) deps then true else merge.

(* coalesceValues(c, v, merge): chart defaults (a deep copy) under the values v.
     for key, val := range c.Values:
        value, ok := v[key]
        !ok                         -> v[key] = val
        value == nil && !merge      -> delete(v, key)
        value is a table:  val is a table -> coalesceTablesFullKey(value, val, merge')
                                             (merge' = true when key names a subchart)
                           otherwise      -> keep
        otherwise                   -> keep *)
Definition cv_step (merge : bool) (deps : list chart) (key : string) (dflt : val) (v : vmap) : vmap :=
  match mget key v with
  | Some value =>
      if is_null value && negb merge then mdel key v
      else match value, dflt with
           | VMap dest, VMap src =>
               mset key (VMap (coalesce_tables (child_chart_merge_true deps key merge) dest src)) v
           | _, _ => v
           end
  | None => mset key dflt v
  end.

Fixpoint cv_loop (merge : bool) (deps : list chart) (vc : vmap) (v : vmap) : vmap :=
  match vc with
  | [] => v
  | (key, dflt) :: t => cv_loop merge deps t (cv_step merge deps key dflt v)
  end.

Definition coalesce_values (merge : bool) (c : chart) (v : vmap) : vmap :=
  cv_loop merge (cdeps c) (cvalues c) v.

(* coalesceGlobals(dest, src): copy the globals of the parent's table [src] into the
   subchart's table [dest]; the parent wins, the subchart's own globals fill in.
   Returns dest unchanged when either "global" is present and not a table. *)
Definition cg_step (key : string) (v : val) (dg : vmap) : vmap :=
  match v with
  | VMap vv =>
      match mget key dg with
      | None => mset key (VMap vv) dg
      | Some (VMap destvmap) => mset key (VMap (coalesce_tables true vv destvmap)) dg
      | Some _ => dg                               (* "cannot merge map onto non-map": skipped *)
      end
  | _ =>
      match mget key dg with
      | Some (VMap _) => dg                        (* "key is table. Skipping" *)
      | _ => mset key v dg
      end
  end.

Fixpoint cg_loop (sg : vmap) (dg : vmap) : vmap :=
  match sg with
  | [] => dg
  | (key, v) :: t => cg_loop t (cg_step key v dg)
  end.

Definition coalesce_globals (dest src : vmap) : vmap :=
  match (match mget global_key dest with
         | None => Some []
         | Some (VMap m) => Some m
         | Some _ => None
         end),
        (match mget global_key src with
         | None => Some []
         | Some (VMap m) => Some m
         | Some _ => None
         end) with
  | Some dg, Some sg => mset global_key (VMap (cg_loop sg dg)) dest
  | _, _ => dest
  end.

(* coalesce(ch, dest, merge) = coalesceValues; coalesceDeps.  [None] = the
   "type mismatch on <subchart>" error of coalesceDeps.
     for each subchart:
        dest[sub] absent      -> dest[sub] = {}
        dest[sub] not a table -> error
        coalesceGlobals(dest[sub], dest); dest[sub] = coalesce(sub, dest[sub], merge) *)
Fixpoint coalesce (merge : bool) (c : chart) (dest : vmap) {struct c} : option vmap :=
  match c with
  | mkChart name vals deps =>
      (fix go (ds : list chart) (dest : vmap) : option vmap :=
         match ds with
         | [] => Some dest
         | sub :: t =>
             match (match mget (cname sub) dest with
                    | None => Some (mset (cname sub) (VMap []) dest, [])
                    | Some (VMap m) => Some (dest, m)
                    | Some _ => None
                    end) with
             | None => None
             | Some (dest1, dvmap) =>
                 match coalesce merge sub (coalesce_globals dvmap dest1) with
                 | None => None
                 | Some r => go t (mset (cname sub) (VMap r) dest1)
                 end
             end
         end) deps (cv_loop merge deps vals dest)
  end.

(* coalesceDeps alone (the loop above), for statements that talk about it separately *)
Fixpoint coalesce_deps_loop (merge : bool) (ds : list chart) (dest : vmap) : option vmap :=
  match ds with
  | [] => Some dest
  | sub :: t =>
      match (match mget (cname sub) dest with
             | None => Some (mset (cname sub) (VMap []) dest, [])
             | Some (VMap m) => Some (dest, m)
             | Some _ => None
             end) with
      | None => None
      | Some (dest1, dvmap) =>
          match coalesce merge sub (coalesce_globals dvmap dest1) with
          | None => None
          | Some r => coalesce_deps_loop merge t (mset (cname sub) (VMap r) dest1)
          end
      end
  end.

Definition coalesce_deps (merge : bool) (c : chart) (dest : vmap) : option vmap :=
  coalesce_deps_loop merge (cdeps c) dest.

(* CoalesceValues(chrt, vals) and MergeValues(chrt, vals): deep copy of vals, then coalesce *)
Definition coalesce_values_root (c : chart) (vals : vmap) : option vmap := coalesce false c vals.
Definition merge_values_root (c : chart) (vals : vmap) : option vmap := coalesce true c vals.

(* ToRenderValues(...)["Values"] with schema validation skipped / no schema *)
Definition to_render_values (c : chart) (vals : vmap) : option vmap := coalesce_values_root c vals.

(* ProcessDependencies: enable/disable by tags and conditions, alias resolution, import-values.

   Go code modelled (pkg/chart/v2/util/dependencies.go), statement by statement:
     processDependencyTags, processDependencyConditions, getAliasDependency,
     processDependencyEnabled (recursive), processImportValues, processDependencyImportValues,
     ProcessDependencies.
   [compat] stands for IsCompatibleRange (Masterminds/semver constraint check): a Section
   variable, so every theorem holds for every such function.

   Quirks kept: tags are looked up in the top-level "tags" table of the values coalesced AT
   THAT LEVEL (for a nested chart: the subchart's defaults coalesced at the top level of the
   parent's coalesced values); conditions are evaluated after tags and override them; charts
   are removed BY NAME (every requirement and chart carrying the name of a disabled
   requirement goes); an empty kept list of requirement records becomes nil again.
   After fix 20099bc a chart without requirements of its own is still descended into (only a
   chart with neither requirements nor subcharts returns at once). *)
From Coq Require Import List String Ascii Bool ZArith.
From Helm Require Import Values.Tree Values.Schema Values.Scope.
Import ListNotations.
Local Open Scope string_scope.

Definition set_enabled (r : dependency) (b : bool) : dependency :=
  mkDep (dname r) (dversion r) (dcond r) (dtags r) (dalias r) b (dimports r).
Definition set_dname (r : dependency) (n : string) : dependency :=
  mkDep n (dversion r) (dcond r) (dtags r) (dalias r) (denabled r) (dimports r).

Definition mdeps_list (c : chart) : list dependency := match cmdeps c with Some l => l | None => [] end.

Definition nonempty (s : string) : bool := match s with EmptyString => false | _ => true end.

(* ---------- processDependencyTags ---------- *)

Definition tag_is (vt : vmap) (b : bool) (k : string) : bool :=
  match mget k vt with Some (VBool x) => Bool.eqb x b | _ => false end.

Definition process_tags (reqs : list dependency) (cvals : vmap) : list dependency :=
  match table_at ["tags"] cvals with
  | None => reqs
  | Some vt =>
      map (fun r =>
             let hasTrue := existsb (tag_is vt true) (dtags r) in
             let hasFalse := existsb (tag_is vt false) (dtags r) in
             if negb hasTrue && hasFalse then set_enabled r false
             else if hasTrue || (negb hasTrue && negb hasFalse) then set_enabled r true
             else r)
          reqs
  end.

(* ---------- processDependencyConditions ---------- *)

(* the loop over the comma-separated paths, with its break *)
Fixpoint cond_loop (cvals : vmap) (cpath : string) (cs : list string) (r : dependency) : dependency :=
  match cs with
  | [] => r
  | c :: t =>
      if nonempty c then
        match path_value cvals (cpath ++ c) with
        | Some (VBool bv) => set_enabled r bv                (* break *)
        | _ => cond_loop cvals cpath t r                     (* warn / ErrNoValue: next *)
        end
      else cond_loop cvals cpath t r
  end.

Definition process_conditions (reqs : list dependency) (cvals : vmap) (cpath : string) : list dependency :=
  map (fun r => cond_loop cvals cpath (split_comma (trim_space (dcond r))) r) reqs.

(* ---------- the specification the property text gives ---------- *)

(* the first condition path that resolves to a boolean *)
Fixpoint first_bool (cvals : vmap) (cpath : string) (cs : list string) : option bool :=
  match cs with
  | [] => None
  | c :: t =>
      match (if nonempty c then path_value cvals (cpath ++ c) else None) with
      | Some (VBool b) => Some b
      | _ => first_bool cvals cpath t
      end
  end.

(* disabled by tags exactly when some tag is false and none is true *)
Definition tags_enabled (cvals : vmap) (tags : list string) : bool :=
  match mget "tags" cvals with
  | Some (VMap vt) => negb (existsb (tag_is vt false) tags) || existsb (tag_is vt true) tags
  | _ => true
  end.

Definition enabled_spec (cvals : vmap) (cpath : string) (r : dependency) : bool :=
  match first_bool cvals cpath (split_comma (trim_space (dcond r))) with
  | Some b => b
  | None => tags_enabled cvals (dtags r)
  end.

Section WithCompat.
  Variable compat : string -> string -> bool.     (* IsCompatibleRange constraint version *)

  (* a child chart together with "process this child" (see [pde]) *)
  Definition kid := (chart * (vmap -> string -> res chart))%type.

  Definition req_matches (r : dependency) (e : chart) : bool :=
    String.eqb (cname e) (dname r) && compat (dversion r) (cversion e).

  (* getAliasDependency: first chart with the name and a compatible version, renamed *)
  Fixpoint get_alias (kids : list kid) (dep : dependency) : option kid :=
    match kids with
    | [] => None
    | (e, k) :: t =>
        if req_matches dep e
        then Some (if nonempty (dalias dep) then set_name e (dalias dep) else e, k)
        else get_alias t dep
    end.

  (* charts present under charts/ that no requirement of Chart.yaml describes *)
  Definition unlisted (kids : list kid) (reqs : list dependency) : list kid :=
    filter (fun ek => negb (existsb (fun r => req_matches r (fst ek)) reqs)) kids.

  Definition listed (kids : list kid) (reqs : list dependency) : list kid :=
    flat_map (fun r => match get_alias kids r with Some x => [x] | None => [] end) reqs.

  Definition apply_alias (r : dependency) : dependency :=
    if nonempty (dalias r) then set_dname r (dalias r) else r.

  Definition resolved_kids (kids : list kid) (reqs : list dependency) : list kid :=
    (unlisted kids reqs ++ listed kids reqs)%list.
  Definition resolved_reqs (reqs : list dependency) : list dependency :=
    map (fun r => set_enabled (apply_alias r) true) reqs.

  Definition flag_reqs (reqs : list dependency) (cvals : vmap) (path : string) : list dependency :=
    process_conditions (process_tags reqs cvals) cvals path.

  Definition removed_names (reqs : list dependency) : list string :=
    map dname (filter (fun r => negb (denabled r)) reqs).
  Definition not_removed (rm : list string) (n : string) : bool :=
    negb (existsb (String.eqb n) rm).

  (* the recursive calls over the kept charts, in order; the first error aborts *)
  Fixpoint process_kept (cd : list kid) (cvals : vmap) (path : string) : res (list chart) :=
    match cd with
    | [] => Ok []
    | (t, k) :: rest =>
        match k cvals (path ++ cname t ++ ".") with
        | Err e => Err e
        | Ok t' => match process_kept rest cvals path with
                   | Err e => Err e
                   | Ok l => Ok (set_name t' (cname t) :: l)
                   end
        end
    end.

  (* one level of processDependencyEnabled, given the children as [kid]s *)
  Definition pde_body (c : chart) (kids : list kid) (v : vmap) (path : string) : res chart :=
    let reqs0 := mdeps_list c in
    let ks := resolved_kids kids reqs0 in
    let reqs := resolved_reqs reqs0 in
    match CoalesceValues (set_deps c (map fst ks)) v with
    | Err e => Err e
    | Ok cvals =>
        let flagged := flag_reqs reqs cvals path in
        let rm := removed_names flagged in
        let cd := filter (fun ek => not_removed rm (cname (fst ek))) ks in
        let cdm := filter (fun r => not_removed rm (dname r)) flagged in
        match process_kept cd cvals path with
        | Err e => Err e
        | Ok cd' =>
            Ok (set_mdeps (set_deps c cd') (match cdm with [] => None | _ => Some cdm end))
        end
    end.

  Definition pde_level (c : chart) (kids : list kid) (v : vmap) (path : string) : res chart :=
    match cmdeps c, kids with
    | None, [] => Ok c                      (* no requirements and no subcharts *)
    | _, _ => pde_body c kids v path
    end.

  (* processDependencyEnabled *)
  Fixpoint pde (c : chart) {struct c} : vmap -> string -> res chart :=
    match c with
    | Chart n ver vals sch deps md tpls crds =>
        let kids := (fix go (ds : list chart) : list kid :=
                       match ds with
                       | [] => []
                       | d :: t => (d, pde d) :: go t
                       end) deps in
        pde_level (Chart n ver vals sch deps md tpls crds) kids
    end.

  Definition kids_of (c : chart) : list kid := map (fun d => (d, pde d)) (cdeps c).

  (* ---------- import-values ---------- *)

  (* pathToMap *)
  Definition path_to_map (path : string) (data : vmap) : vmap :=
    if String.eqb path "." then data
    else match fold_right (fun k cur => VMap [(k, cur)]) (VMap data) (split_dot path) with
         | VMap m => m
         | _ => data                                       (* unreachable *)
         end.

  Fixpoint import_loop (name : string) (cvals : vmap) (ivs : list import) (b : vmap) : res vmap :=
    match ivs with
    | [] => Ok b
    | iv :: t =>
        match iv with
        | IMap child parent =>
            match table_at (split_dot (name ++ "." ++ child)) cvals with
            | None => import_loop name cvals t b
            | Some vv => import_loop name cvals t (merge_tables b (path_to_map parent vv))
            end
        | IStr s =>
            match table_at (split_dot (name ++ "." ++ "exports." ++ s)) cvals with
            | None => import_loop name cvals t b
            | Some vm => import_loop name cvals t (merge_tables b vm)
            end
        | IBad => Err (EImportValues name)
        | IOther => import_loop name cvals t b
        end
    end.

  Fixpoint import_reqs (cvals : vmap) (reqs : list dependency) (b : vmap) : res vmap :=
    match reqs with
    | [] => Ok b
    | r :: t => match import_loop (dname r) cvals (dimports r) b with
                | Err e => Err e
                | Ok b' => import_reqs cvals t b'
                end
    end.

  (* processImportValues(c, merge=true) *)
  Definition process_import_values (c : chart) : res chart :=
    match cmdeps c with
    | None => Ok c
    | Some reqs =>
        match MergeValues c [] with
        | Err e => Err e
        | Ok cvals =>
            match import_reqs cvals reqs [] with
            | Err e => Err e
            | Ok b => Ok (set_values c (merge_tables cvals b))
            end
        end
    end.

  (* processDependencyImportValues: children first *)
  Fixpoint pdiv (c : chart) {struct c} : res chart :=
    match c with
    | Chart n ver vals sch deps md tpls crds =>
        match (fix go (ds : list chart) : res (list chart) :=
                 match ds with
                 | [] => Ok []
                 | d :: t => match pdiv d with
                             | Err e => Err e
                             | Ok d' => match go t with Err e => Err e | Ok l => Ok (d' :: l) end
                             end
                 end) deps with
        | Err e => Err e
        | Ok deps' => process_import_values (Chart n ver vals sch deps' md tpls crds)
        end
    end.

  Definition process_dependencies (c : chart) (v : vmap) : res chart :=
    match pde c v "" with
    | Err e => Err e
    | Ok c' => pdiv c'
    end.

End WithCompat.

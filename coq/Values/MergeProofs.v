(* Proofs about loader.MergeMaps (Values/Merge.v): the value at every leaf path of a merge
   comes from the last (highest-precedence) source that defines the path. *)
From Coq Require Import List String Bool Arith ZArith.
From Helm Require Import Values.Tree Values.Merge Values.TreeLemmas.
Import ListNotations.

Lemma merge_val_maps : forall ma mb, merge_val (VMap ma) (VMap mb) = VMap (merge_loop mb ma).
Proof.
  intros ma mb. simpl. f_equal.
Qed.

Lemma merge_val_nonmap_r : forall a b, is_table b = false -> merge_val a b = b.
Proof. intros a b H. destruct a, b; simpl in *; try reflexivity; discriminate. Qed.

Lemma merge_val_nonmap_l : forall a b, is_table a = false -> merge_val a b = b.
Proof. intros a b H. destruct a, b; simpl in *; try reflexivity; discriminate. Qed.

(* what the loop leaves at a key, for a source with unique keys *)
Lemma merge_loop_get : forall mb out k,
  wf_b (VMap mb) = true ->
  mget k (merge_loop mb out) =
  match mget k mb with
  | Some x => Some (match mget k out with Some o => merge_val o x | None => x end)
  | None => mget k out
  end.
Proof.
  induction mb as [|[k0 x0] t IH]; intros out k Hwf; [reflexivity|].
  apply wf_map_cons in Hwf. destruct Hwf as (Hk0 & _ & Ht).
  simpl merge_loop. rewrite IH by assumption. simpl mget.
  destruct (String.eqb k k0) eqn:E.
  - apply String.eqb_eq in E; subst k0. rewrite Hk0. now rewrite mget_mset_eq.
  - apply String.eqb_neq in E.
    rewrite mget_mset_neq by congruence. reflexivity.
Qed.

(* two sources: b over a *)
Theorem merge_leaf : forall p a b,
  wf b ->
  leaf_at p (merge_val a b) = if defines p b then leaf_at p b else leaf_at p a.
Proof.
  unfold wf.
  induction p as [|k p IH]; intros a b Hwf.
  - simpl defines. destruct (is_table b) eqn:Tb.
    + destruct b; try discriminate. destruct a; reflexivity.
    + now rewrite merge_val_nonmap_r.
  - destruct (is_table b) eqn:Tb.
    2:{ rewrite merge_val_nonmap_r by assumption.
        destruct b; simpl in Tb; try discriminate; reflexivity. }
    destruct b as [| | | | | |mb]; try discriminate.
    destruct (is_table a) eqn:Ta.
    2:{ rewrite merge_val_nonmap_l by assumption.
        destruct (defines (k :: p) (VMap mb)) eqn:D; [reflexivity|].
        rewrite defines_false_leaf by assumption.
        now rewrite leaf_cons_nonmap. }
    destruct a as [| | | | | |ma]; try discriminate.
    rewrite merge_val_maps. rewrite !leaf_cons_map.
    rewrite merge_loop_get by assumption.
    simpl defines.
    destruct (mget k mb) as [x|] eqn:Gb.
    + assert (Hx : wf_b x = true) by (eapply wf_mget; eauto).
      destruct (mget k ma) as [o|] eqn:Ga.
      * apply IH. assumption.
      * destruct (defines p x) eqn:D; [reflexivity|]. now apply defines_false_leaf.
    + reflexivity.
Qed.

(* any number of sources, low -> high, over a base *)
Theorem merge_all_leaf : forall srcs base p,
  Forall wf srcs ->
  leaf_at p (merge_all base srcs) =
  match last_defining p srcs with
  | Some s => leaf_at p s
  | None => leaf_at p base
  end.
Proof.
  unfold merge_all.
  induction srcs as [|s t IH]; intros base p Hwf; [reflexivity|].
  inversion Hwf as [|? ? Hs Ht]; subst.
  simpl fold_left. rewrite IH by assumption. simpl last_defining.
  destruct (last_defining p t); [reflexivity|].
  rewrite merge_leaf by assumption.
  destruct (defines p s); reflexivity.
Qed.

(* maps merge key-wise: a key of the result comes from one of the two tables *)
Lemma merge_loop_key : forall mb out k,
  wf_b (VMap mb) = true ->
  mhas k (merge_loop mb out) = mhas k mb || mhas k out.
Proof.
  intros. unfold mhas. rewrite merge_loop_get by assumption.
  destruct (mget k mb), (mget k out); reflexivity.
Qed.

(* non-vacuity: a concrete three-source merge with a null, a list and a table<->scalar clash *)
Local Open Scope string_scope.
Definition ex_srcs : list val :=
  [ VMap [("a", VMap [("x", VNum 1%Z); ("y", VNum 2%Z)]); ("l", VList [VNum 1%Z; VNum 2%Z]); ("s", VStr "low")];
    VMap [("a", VMap [("x", VNull)]); ("l", VList [VNum 3%Z])];
    VMap [("s", VMap [("now", VStr "table")])] ].

Example ex_srcs_wf : Forall wf ex_srcs.
Proof. repeat constructor. Qed.

Example ex_merge_values :
  leaf_at ["a"; "x"] (merge_all (VMap []) ex_srcs) = Some VNull
  /\ leaf_at ["a"; "y"] (merge_all (VMap []) ex_srcs) = Some (VNum 2%Z)
  /\ leaf_at ["l"] (merge_all (VMap []) ex_srcs) = Some (VList [VNum 3%Z])
  /\ leaf_at ["s"] (merge_all (VMap []) ex_srcs) = None
  /\ leaf_at ["s"; "now"] (merge_all (VMap []) ex_srcs) = Some (VStr "table").
Proof. repeat split; reflexivity. Qed.

(* C13: which of its four behaviours reuseValues (pkg/action/upgrade.go) takes — as a decision
   over the three flags and the emptiness of the two maps — and the small language in which the
   translator (harness/cmd/hx/gentables_c13.go -> coq/Gen/C13Reuse.v) prints the condition
   chain it reads from the Go source on every run.

   Definitions and the lemmas that do not need the generated table; the obligation over the
   table is in Values/ReuseTableProofs.v. *)
From Coq Require Import List String Bool Arith.
From Helm Require Import Values.Tree Values.Coalesce Values.Reuse Values.ReuseProofs.
Import ListNotations.
Local Open Scope string_scope.

(* ---- the mode: which flag decides ---- *)
Inductive rmode := MReset | MReuse | MResetThenReuse | MPlain.

Definition rmode_eqb (a b : rmode) : bool :=
  match a, b with
  | MReset, MReset | MReuse, MReuse | MResetThenReuse, MResetThenReuse | MPlain, MPlain => true
  | _, _ => false
  end.

(* ResetValues beats ReuseValues beats ResetThenReuseValues *)
Definition reuse_mode (f : uflags) : rmode :=
  if reset_values f then MReset
  else if reuse_values f then MReuse
  else if reset_then_reuse_values f then MResetThenReuse
  else MPlain.

(* all eight combinations of the three flags *)
Definition flag_table : list (bool * bool * bool * rmode) :=
  [ (false, false, false, MPlain);
    (false, false, true,  MResetThenReuse);
    (false, true,  false, MReuse);
    (false, true,  true,  MReuse);
    (true,  false, false, MReset);
    (true,  false, true,  MReset);
    (true,  true,  false, MReset);
    (true,  true,  true,  MReset) ].

(* what reuseValues does in each mode *)
Definition mode_fn (m : rmode) (ch : chart) (cur : revision) (newv : vmap) : option (chart * vmap) :=
  match m with
  | MReset => Some (ch, newv)
  | MReuse =>
      match coalesce_values_root (rchart cur) (rconfig cur) with
      | None => None
      | Some oldvals => Some (set_values ch oldvals, coalesce_tables false newv (rconfig cur))
      end
  | MResetThenReuse => Some (ch, coalesce_tables false newv (rconfig cur))
  | MPlain => if is_empty newv && negb (is_empty (rconfig cur)) then Some (ch, rconfig cur) else Some (ch, newv)
  end.

Lemma reuse_values_fn_by_mode : forall f ch cur newv,
  reuse_values_fn f ch cur newv = mode_fn (reuse_mode f) ch cur newv.
Proof.
  intros [a b c] ch cur newv. unfold reuse_values_fn, reuse_mode. simpl.
  destruct a; [reflexivity|]. destruct b; [reflexivity|]. destruct c; reflexivity.
Qed.

Lemma reuse_mode_table : forall a b c, In (a, b, c, reuse_mode (mkFlags a b c)) flag_table.
Proof. intros [] [] []; simpl; tauto. Qed.

Lemma flag_table_functional : forall a b c m, In (a, b, c, m) flag_table -> m = reuse_mode (mkFlags a b c).
Proof.
  intros a b c m H. simpl in H.
  repeat (destruct H as [H|H]; [inversion H; subst; reflexivity|]). contradiction.
Qed.

(* the recorded values and the defaults in force, by mode *)
Lemma config_spec_by_mode : forall f newv deployed,
  config_spec f newv deployed =
  match reuse_mode f with
  | MReset => newv
  | MReuse | MResetThenReuse => coalesce_tables false newv deployed
  | MPlain => if is_empty newv then deployed else newv
  end.
Proof.
  intros [a b c] newv deployed. unfold config_spec, reuse_mode. simpl.
  destruct a; [reflexivity|]. destruct b; [reflexivity|]. destruct c; reflexivity.
Qed.

Lemma keeps_old_defaults_by_mode : forall f,
  keeps_old_defaults f = rmode_eqb (reuse_mode f) MReuse.
Proof. intros [[] [] []]; reflexivity. Qed.

(* ---- the language of the translator table ---- *)

(* what a condition can see of a map: Go's len() is 0 for a nil map and for an empty one *)
Inductive mstate := MNil | MEmpty | MNonEmpty.

Definition mstate_eqb (a b : mstate) : bool :=
  match a, b with MNil, MNil | MEmpty, MEmpty | MNonEmpty, MNonEmpty => true | _, _ => false end.

Record renv := mkEnv { e_reset : bool; e_reuse : bool; e_rtr : bool; e_new : mstate; e_cur : mstate }.

(* conditions: the flags by field name, and tests on "new" (the newVals parameter while it
   still holds the caller's map) and "cur" (current.Config) *)
Inductive rcond :=
| CFlag (field : string)
| CLenZero (who : string)          (* len(X) == 0 *)
| CLenPos (who : string)           (* len(X) > 0, len(X) != 0 *)
| CIsNil (who : string)            (* X == nil *)
| CNot (c : rcond)
| CAnd (a b : rcond)
| COr (a b : rcond)
| CTrue
| CUnknown (src : string).         (* anything else: the table cannot be interpreted *)

(* what the function returns as the values to record *)
Inductive rval :=
| RNew                 (* the map the caller passed, as it is *)
| RCur                 (* current.Config *)
| ROverlayCopy         (* chartutil.CoalesceTables(<copy of the caller's map>, current.Config) *)
| ROverlayInPlace      (* chartutil.CoalesceTables(newVals, current.Config): writes into the caller's map *)
| ROther (src : string).

(* a_keep_old: on this path chart.Values was set to CoalesceValues(current.Chart, current.Config) *)
Record raction := mkAct { a_val : rval; a_keep_old : bool }.

Definition rval_eqb (a b : rval) : bool :=
  match a, b with
  | RNew, RNew | RCur, RCur | ROverlayCopy, ROverlayCopy | ROverlayInPlace, ROverlayInPlace => true
  | _, _ => false                                   (* ROther equals nothing *)
  end.

Definition raction_eqb (a b : raction) : bool :=
  rval_eqb (a_val a) (a_val b) && Bool.eqb (a_keep_old a) (a_keep_old b).

Definition who_state (e : renv) (who : string) : option mstate :=
  if String.eqb who "new" then Some (e_new e)
  else if String.eqb who "cur" then Some (e_cur e)
  else None.

Fixpoint eval_cond (e : renv) (c : rcond) : option bool :=
  match c with
  | CFlag f =>
      if String.eqb f "ResetValues" then Some (e_reset e)
      else if String.eqb f "ReuseValues" then Some (e_reuse e)
      else if String.eqb f "ResetThenReuseValues" then Some (e_rtr e)
      else None
  | CLenZero w => option_map (fun s => negb (mstate_eqb s MNonEmpty)) (who_state e w)
  | CLenPos w => option_map (fun s => mstate_eqb s MNonEmpty) (who_state e w)
  | CIsNil w => option_map (fun s => mstate_eqb s MNil) (who_state e w)
  | CNot a => option_map negb (eval_cond e a)
  | CAnd a b =>
      match eval_cond e a, eval_cond e b with
      | Some x, Some y => Some (x && y)
      | _, _ => None
      end
  | COr a b =>
      match eval_cond e a, eval_cond e b with
      | Some x, Some y => Some (x || y)
      | _, _ => None
      end
  | CTrue => Some true
  | CUnknown _ => None
  end.

(* a row = one path through the function to a `return <values>, nil`: the conditions along
   the path (all must hold) and what is returned *)
Definition row := (list rcond * raction)%type.

Fixpoint eval_path (e : renv) (cs : list rcond) : option bool :=
  match cs with
  | [] => Some true
  | c :: t =>
      match eval_cond e c, eval_path e t with
      | Some x, Some y => Some (x && y)
      | _, _ => None
      end
  end.

(* the rows whose path holds; None when some condition cannot be interpreted *)
Fixpoint taken (e : renv) (rows : list row) : option (list raction) :=
  match rows with
  | [] => Some []
  | (cs, a) :: t =>
      match eval_path e cs, taken e t with
      | Some true, Some l => Some (a :: l)
      | Some false, Some l => Some l
      | _, _ => None
      end
  end.

(* the function is deterministic: exactly one path is taken *)
Definition decide (e : renv) (rows : list row) : option raction :=
  match taken e rows with
  | Some [a] => Some a
  | _ => None
  end.

(* ---- the model's decision in the same terms ---- *)
Definition env_mode (e : renv) : rmode := reuse_mode (mkFlags (e_reset e) (e_reuse e) (e_rtr e)).

Definition model_decision (e : renv) : raction :=
  match env_mode e with
  | MReset => mkAct RNew false
  | MReuse => mkAct ROverlayCopy true
  | MResetThenReuse => mkAct ROverlayCopy false
  | MPlain =>
      if negb (mstate_eqb (e_new e) MNonEmpty) && mstate_eqb (e_cur e) MNonEmpty
      then mkAct RCur false else mkAct RNew false
  end.

Definition all_bools := [false; true].
Definition all_mstates := [MNil; MEmpty; MNonEmpty].

Definition all_envs : list renv :=
  flat_map (fun a => flat_map (fun b => flat_map (fun c => flat_map (fun n => map (fun k =>
    mkEnv a b c n k) all_mstates) all_mstates) all_bools) all_bools) all_bools.

Lemma all_envs_complete : forall e, In e all_envs.
Proof. intros [[] [] [] [] []]; vm_compute; tauto. Qed.

(* the table agrees with the model on every environment *)
Definition table_ok (rows : list row) : bool :=
  forallb (fun e => match decide e rows with
                    | Some a => raction_eqb a (model_decision e)
                    | None => false
                    end) all_envs.

Lemma raction_eqb_eq : forall a b, raction_eqb a b = true -> a = b.
Proof.
  intros [va ka] [vb kb] H. unfold raction_eqb in H. simpl in H. apply andb_prop in H. destruct H as [V K].
  apply Bool.eqb_prop in K. subst kb. destruct va, vb; simpl in V; try discriminate; reflexivity.
Qed.

Lemma table_ok_decide : forall rows, table_ok rows = true -> forall e, decide e rows = Some (model_decision e).
Proof.
  intros rows H e. unfold table_ok in H. rewrite forallb_forall in H. specialize (H e (all_envs_complete e)).
  destruct (decide e rows) as [a|]; [|discriminate]. apply raction_eqb_eq in H. now subst.
Qed.

(* ---- an action applied to the model's data: what [reuse_values_fn] computes ---- *)
Definition mstate_of (m : vmap) : mstate := if is_empty m then MEmpty else MNonEmpty.

Definition env_of (f : uflags) (newv cur : vmap) : renv :=
  mkEnv (reset_values f) (reuse_values f) (reset_then_reuse_values f) (mstate_of newv) (mstate_of cur).

Definition apply_action (a : raction) (ch : chart) (cur : revision) (newv : vmap) : option (chart * vmap) :=
  let vals :=
    match a_val a with
    | RNew => Some newv
    | RCur => Some (rconfig cur)
    | ROverlayCopy | ROverlayInPlace => Some (coalesce_tables false newv (rconfig cur))   (* the same VALUE *)
    | ROther _ => None
    end in
  match vals with
  | None => None
  | Some v =>
      if a_keep_old a
      then match coalesce_values_root (rchart cur) (rconfig cur) with
           | None => None
           | Some oldvals => Some (set_values ch oldvals, v)
           end
      else Some (ch, v)
  end.

(* the model's function is the model's decision applied *)
Lemma reuse_values_fn_decision : forall f ch cur newv,
  reuse_values_fn f ch cur newv = apply_action (model_decision (env_of f newv (rconfig cur))) ch cur newv.
Proof.
  intros [a b c] ch cur newv. rewrite reuse_values_fn_by_mode.
  unfold model_decision, env_mode, env_of, reuse_mode, mode_fn, apply_action. simpl.
  destruct a; [reflexivity|]. destruct b; [reflexivity|]. destruct c; [reflexivity|].
  unfold mstate_of. destruct (is_empty newv), (is_empty (rconfig cur)); reflexivity.
Qed.

(* so a table that passes [table_ok] IS the model's function, for all inputs *)
Theorem table_is_model : forall rows, table_ok rows = true ->
  forall f ch cur newv,
  option_map (fun a => apply_action a ch cur newv) (decide (env_of f newv (rconfig cur)) rows)
  = Some (reuse_values_fn f ch cur newv).
Proof.
  intros rows H f ch cur newv. rewrite (table_ok_decide _ H). simpl. now rewrite reuse_values_fn_decision.
Qed.

(* the overlay never goes onto the caller's own map (the repair e288ca8) *)
Definition no_in_place (rows : list row) : bool :=
  forallb (fun r => negb (rval_eqb (a_val (snd r)) ROverlayInPlace)) rows.

(* the environments on which a table does not decide as the model does, with what it decides
   there (None: no path or several paths taken, or a condition that cannot be interpreted) and
   what the model decides — stated as "this list is empty" so that a failing obligation SHOWS
   the environments and the two decisions *)
Definition table_diffs (rows : list row) : list (renv * option raction * raction) :=
  flat_map (fun e =>
    match decide e rows with
    | Some a => if raction_eqb a (model_decision e) then [] else [(e, Some a, model_decision e)]
    | None => [(e, None, model_decision e)]
    end) all_envs.

Lemma table_diffs_ok : forall rows, table_diffs rows = [] -> table_ok rows = true.
Proof.
  intros rows. unfold table_diffs, table_ok. induction all_envs as [|e l IH]; intros H; [reflexivity|].
  simpl in H |- *. apply app_eq_nil in H. destruct H as [H1 H2].
  destruct (decide e rows) as [a|]; [|discriminate].
  destruct (raction_eqb a (model_decision e)); [|discriminate]. simpl. now apply IH.
Qed.

(* Proofs about Values/Gate.v. *)
From Coq Require Import List String Bool ZArith.
From Helm Require Import Values.Tree Values.Schema2 Values.Schema Values.Scope Values.Deps Values.Gate.
Import ListNotations.
Local Open Scope string_scope.

(* induction over chart trees that reaches into the dependency list *)
Section ChartInd.
  Variable P : chart -> Prop.
  Hypothesis H : forall n ver vals sch deps md tpls crds,
      Forall P deps -> P (Chart n ver vals sch deps md tpls crds).
  Fixpoint chart_ind' (c : chart) : P c :=
    match c with
    | Chart n ver vals sch deps md tpls crds =>
        H n ver vals sch deps md tpls crds
          ((fix go (ds : list chart) : Forall P ds :=
              match ds with
              | [] => Forall_nil _
              | d :: t => Forall_cons d (chart_ind' d) (go t)
              end) deps)
    end.
End ChartInd.

(* the walk over the dependency list, named *)
Fixpoint validate_deps (ds : list chart) (values : vmap) : list string :=
  match ds with
  | [] => []
  | d :: t =>
      List.app
        match mget (cname d) values with
        | None => []
        | Some VNull => []
        | Some (VMap sv) => validate_tree d sv
        | Some _ => [cname d]
        end
        (validate_deps t values)
  end.

Lemma validate_tree_unfold : forall c v,
  validate_tree c v =
  List.app (match cschema c with
            | Some s => if valid s (VMap v) then [] else [cname c]
            | None => []
            end) (validate_deps (cdeps c) v).
Proof.
  intros [n ver vals sch deps md tpls crds] v. simpl. f_equal.
  induction deps as [|d t IH]; simpl; [reflexivity|]. now rewrite IH.
Qed.

Lemma validate_tree_spec : forall c v n, In n (validate_tree c v) <-> Rejects c v n.
Proof.
  induction c as [nm ver vals sch deps md tpls crds IH] using chart_ind'. intros v n.
  rewrite validate_tree_unfold. simpl. rewrite in_app_iff. split.
  - intros [Hh|Hd].
    + destruct sch as [s|]; [|contradiction].
      destruct (valid s (VMap v)) eqn:E; [contradiction|]. destruct Hh as [<-|[]].
      apply (RejHere (Chart nm ver vals (Some s) deps md tpls crds) v s); [reflexivity|exact E].
    + assert (Hx : exists d, In d deps /\
                 In n (match mget (cname d) v with
                       | None => [] | Some VNull => []
                       | Some (VMap sv) => validate_tree d sv
                       | Some _ => [cname d] end)).
      { clear IH. induction deps as [|d t IHt]; simpl in Hd; [contradiction|].
        apply in_app_or in Hd as [Hd|Hd].
        - exists d. split; [now left|exact Hd].
        - destruct (IHt Hd) as (d' & Hin & Hn). exists d'. split; [now right|exact Hn]. }
      destruct Hx as (d & Hin & Hn).
      rewrite Forall_forall in IH. specialize (IH d Hin).
      destruct (mget (cname d) v) as [x|] eqn:Eg; [|contradiction].
      destruct x as [| b | z | f | s | l | sv]; try contradiction;
        try (destruct Hn as [<-|[]];
             apply (RejSection (Chart nm ver vals sch deps md tpls crds) v d _ Hin Eg); reflexivity).
      apply (RejBelow (Chart nm ver vals sch deps md tpls crds) v d sv n Hin Eg). now apply IH.
  - intros Hr. inversion Hr as [c0 v0 s Hs Hv | c0 v0 d sv n0 Hin Eg Hrd | c0 v0 d x Hin Eg Ht Hn]; subst; simpl in *.
    + left. rewrite Hs, Hv. now left.
    + right. rewrite Forall_forall in IH. pose proof (proj2 (IH d Hin sv n) Hrd) as Hn.
      clear IH Hr Hrd. induction deps as [|d' t IHt]; simpl; [contradiction|].
      apply in_or_app. destruct Hin as [->|Hin].
      * left. rewrite Eg. exact Hn.
      * right. now apply IHt.
    + right. clear IH Hr. induction deps as [|d' t IHt]; simpl; [contradiction|].
      apply in_or_app. destruct Hin as [->|Hin].
      * left. rewrite Eg. destruct x; simpl in *; try discriminate; now left.
      * right. now apply IHt.
Qed.

Lemma gate_names : forall c vals skip names,
  to_render_values c vals skip = RVSchemaErr names ->
  skip = false /\ names <> [] /\
  exists v, CoalesceValues c vals = Ok v /\ forall n, In n names <-> Rejects c v n.
Proof.
  intros c vals skip names H. unfold to_render_values in H.
  destruct (CoalesceValues c vals) as [v|] eqn:Ec; [|discriminate].
  destruct skip; [discriminate|].
  destruct (validate_tree c v) as [|a l] eqn:Ev; [discriminate|].
  injection H as <-. split; [reflexivity|]. split; [discriminate|].
  exists v. split; [reflexivity|]. intros n. rewrite <- Ev. apply validate_tree_spec.
Qed.

Lemma gate : forall c vals skip,
  (exists names, to_render_values c vals skip = RVSchemaErr names)
  <-> (skip = false /\ exists v n, CoalesceValues c vals = Ok v /\ Rejects c v n).
Proof.
  intros c vals skip. split.
  - intros (names & H). destruct (gate_names _ _ _ _ H) as (Hs & Hne & v & Hc & Hn).
    split; [exact Hs|]. destruct names as [|a l]; [contradiction|].
    exists v, a. split; [exact Hc|]. apply Hn. now left.
  - intros (-> & v & n & Hc & Hr). unfold to_render_values. rewrite Hc.
    apply validate_tree_spec in Hr. destruct (validate_tree c v) as [|a l]; [contradiction|].
    now exists (a :: l).
Qed.

Lemma no_false_reject : forall c vals skip v,
  CoalesceValues c vals = Ok v -> (forall n, ~ Rejects c v n) ->
  to_render_values c vals skip = RVOk v.
Proof.
  intros c vals skip v Hc Hn. unfold to_render_values. rewrite Hc. destruct skip; [reflexivity|].
  destruct (validate_tree c v) as [|a l] eqn:Ev; [reflexivity|].
  exfalso. apply (Hn a). apply validate_tree_spec. rewrite Ev. now left.
Qed.

Lemma skip_never_rejects : forall c vals names, to_render_values c vals true <> RVSchemaErr names.
Proof.
  intros c vals names H. apply gate_names in H as (H & _). discriminate.
Qed.

Definition quiet (tr : list eff) : bool := forallb (fun e => negb (mutating e)) tr.

Lemma quiet_app : forall a b, quiet (a ++ b)%list = quiet a && quiet b.
Proof. intros. unfold quiet. apply forallb_app. Qed.

Lemma install_nothing_sent : forall compat fl c vals c' names,
  process_dependencies compat c vals = Ok c' ->
  to_render_values c' vals (skip_schema fl) = RVSchemaErr names ->
  (has_crds c' = false \/ skip_crds fl = true \/ client_only fl = true \/ dry_run fl = true) ->
  exists tr, install_trace compat fl c vals = (tr, FailSchema names) /\ quiet tr = true.
Proof.
  intros compat fl c vals c' names Hp Hg Hc. unfold install_trace. rewrite Hp, Hg.
  eexists. split; [reflexivity|].
  rewrite !quiet_app.
  destruct (client_only fl), (dry_run fl), (skip_crds fl), (has_crds c'); simpl; try reflexivity;
    destruct Hc as [Hc|[Hc|[Hc|Hc]]]; discriminate.
Qed.

Lemma upgrade_nothing_sent : forall compat fl c vals c' names,
  process_dependencies compat c vals = Ok c' ->
  to_render_values c' vals (skip_schema fl) = RVSchemaErr names ->
  exists tr, upgrade_trace compat fl c vals = (tr, FailSchema names) /\ quiet tr = true.
Proof.
  intros compat fl c vals c' names Hp Hg. unfold upgrade_trace. rewrite Hp, Hg.
  eexists. split; reflexivity.
Qed.

(* the gate is the only way to FailSchema, so a failing run is quiet in general *)
Lemma install_fail_schema_iff : forall compat fl c vals tr names,
  install_trace compat fl c vals = (tr, FailSchema names) ->
  exists c', process_dependencies compat c vals = Ok c'
             /\ to_render_values c' vals (skip_schema fl) = RVSchemaErr names.
Proof.
  intros compat fl c vals tr names H. unfold install_trace in H.
  destruct (process_dependencies compat c vals) as [c'|]; [|discriminate].
  exists c'. split; [reflexivity|].
  destruct (to_render_values c' vals (skip_schema fl)) as [v|e|ns]; try discriminate.
  - destruct (dry_run fl); discriminate.
  - injection H as _ <-. reflexivity.
Qed.

(* ---------- examples ---------- *)

Definition port_schema : schema :=
  SNode (Some TObject) ["port"] None None None
        [("port", SNode (Some TInteger) [] None (Some 1%Z) (Some 65535%Z) [] true None)] true None.

Definition ex_sub : chart :=
  Chart "sub" "1.0.0" [("port", VNum 80)] (Some port_schema) [] None ["templates/cm.yaml"] [].
Definition ex_top (crds : list string) : chart :=
  Chart "top" "1.0.0" [] None [ex_sub] (Some [mkDep "sub" "*" "" [] "web" true []]) ["templates/cm.yaml"] crds.
Definition ex_vals : vmap := [("web", VMap [("port", VNum 0)])].
Definition ex_flags : flags := mkFlags false false false false true false false.

Lemma gate_example :
  match process_dependencies (fun _ _ => true) (ex_top []) ex_vals with
  | Ok c' => to_render_values c' ex_vals false = RVSchemaErr ["web"]
             /\ to_render_values c' [] false
                = RVOk [("web", VMap [("global", VMap []); ("port", VNum 80)])]
             /\ (has_crds c' = false)
  | Err _ => False
  end.
Proof. vm_compute. repeat split; reflexivity. Qed.

Lemma crd_caveat :
  install_trace (fun _ _ => true) ex_flags (ex_top ["crds/crd.yaml"]) ex_vals
  = ([KIsReachable; SRead; KCreateCRDs; KGetCapabilities], FailSchema ["web"]).
Proof. vm_compute. reflexivity. Qed.

Lemma install_ok_example :
  install_trace (fun _ _ => true) ex_flags (ex_top []) []
  = ([KIsReachable; SRead; KGetCapabilities; KBuild; KBuild; KCreateNamespace; SCreate; KWait; SUpdate], Done).
Proof. vm_compute. reflexivity. Qed.

(* ---------- schemas given as documents (Values/Schema2.v) ---------- *)

Lemma valid_doc : forall d v, valid (SDoc d) v = true <-> doc_verdict d v = VOk.
Proof. intros. simpl. destruct (doc_verdict d v); split; intros H; try discriminate; reflexivity. Qed.

(* the chart's own document does not accept its values: the gate fails and names the chart *)
Lemma doc_rejected_here : forall c vals v d,
  cschema c = Some (SDoc d) -> CoalesceValues c vals = Ok v -> doc_verdict d (VMap v) <> VOk ->
  exists names, to_render_values c vals false = RVSchemaErr names /\ In (cname c) names.
Proof.
  intros c vals v d Hs Hc Hv.
  assert (Hr : Rejects c v (cname c)).
  { apply (RejHere c v (SDoc d) Hs). destruct (valid (SDoc d) (VMap v)) eqn:E; [|reflexivity].
    apply valid_doc in E. contradiction. }
  destruct (proj2 (gate c vals false) (conj eq_refl (ex_intro _ v (ex_intro _ _ (conj Hc Hr))))) as (names & Hn).
  exists names. split; [exact Hn|].
  destruct (gate_names _ _ _ _ Hn) as (_ & _ & v' & Hc' & Hiff). rewrite Hc in Hc'. injection Hc' as <-.
  now apply Hiff.
Qed.

(* ... the same for a kept subchart, on the table found under its name *)
Lemma doc_rejected_below : forall c vals v sub sv d,
  In sub (cdeps c) -> cschema sub = Some (SDoc d) -> CoalesceValues c vals = Ok v ->
  mget (cname sub) v = Some (VMap sv) -> doc_verdict d (VMap sv) <> VOk ->
  exists names, to_render_values c vals false = RVSchemaErr names /\ In (cname sub) names.
Proof.
  intros c vals v sub sv d Hin Hs Hc Hg Hv.
  assert (Hr : Rejects c v (cname sub)).
  { apply (RejBelow c v sub sv (cname sub) Hin Hg). apply (RejHere sub sv (SDoc d) Hs).
    destruct (valid (SDoc d) (VMap sv)) eqn:E; [|reflexivity]. apply valid_doc in E. contradiction. }
  destruct (proj2 (gate c vals false) (conj eq_refl (ex_intro _ v (ex_intro _ _ (conj Hc Hr))))) as (names & Hn).
  exists names. split; [exact Hn|].
  destruct (gate_names _ _ _ _ Hn) as (_ & _ & v' & Hc' & Hiff). rewrite Hc in Hc'. injection Hc' as <-.
  now apply Hiff.
Qed.

(* end to end: the processed chart's document rejects the final values => install / upgrade fail
   naming the chart, with nothing stored and no mutating cluster call *)
Lemma doc_install_nothing_sent : forall compat fl c vals c' v d,
  process_dependencies compat c vals = Ok c' -> skip_schema fl = false ->
  CoalesceValues c' vals = Ok v -> cschema c' = Some (SDoc d) -> doc_verdict d (VMap v) <> VOk ->
  (has_crds c' = false \/ skip_crds fl = true \/ client_only fl = true \/ dry_run fl = true) ->
  exists tr names, install_trace compat fl c vals = (tr, FailSchema names)
                   /\ In (cname c') names /\ quiet tr = true.
Proof.
  intros compat fl c vals c' v d Hp Hsk Hc Hs Hv Hcr.
  destruct (doc_rejected_here c' vals v d Hs Hc Hv) as (names & Hn & Hin).
  rewrite <- Hsk in Hn.
  destruct (install_nothing_sent compat fl c vals c' names Hp Hn Hcr) as (tr & Ht & Hq).
  now exists tr, names.
Qed.

Lemma doc_upgrade_nothing_sent : forall compat fl c vals c' v d,
  process_dependencies compat c vals = Ok c' -> skip_schema fl = false ->
  CoalesceValues c' vals = Ok v -> cschema c' = Some (SDoc d) -> doc_verdict d (VMap v) <> VOk ->
  exists tr names, upgrade_trace compat fl c vals = (tr, FailSchema names)
                   /\ In (cname c') names /\ quiet tr = true.
Proof.
  intros compat fl c vals c' v d Hp Hsk Hc Hs Hv.
  destruct (doc_rejected_here c' vals v d Hs Hc Hv) as (names & Hn & Hin).
  rewrite <- Hsk in Hn.
  destruct (upgrade_nothing_sent compat fl c vals c' names Hp Hn) as (tr & Ht & Hq).
  now exists tr, names.
Qed.

(* non-vacuity with a 2020-12 keyword and no "$schema": a subchart required under the alias "web"
   whose document says dependentRequired {tlsKey: [tlsCert]} *)
Definition ex_tls_doc : val :=
  VMap [("type", VStr "object"); ("dependentRequired", VMap [("tlsKey", VList [VStr "tlsCert"])])].
Definition ex_tls_sub : chart :=
  Chart "sub" "1.0.0" [("port", VNum 80)] (Some (SDoc ex_tls_doc)) [] None ["templates/cm.yaml"] [].
Definition ex_tls_top : chart :=
  Chart "top" "1.0.0" [] None [ex_tls_sub] (Some [mkDep "sub" "*" "" [] "web" true []]) ["templates/cm.yaml"] [].
Definition ex_tls_vals : vmap := [("web", VMap [("tlsKey", VStr "k")])].

Lemma doc_gate_example :
  install_trace (fun _ _ => true) ex_flags ex_tls_top ex_tls_vals
  = ([KIsReachable; SRead; KGetCapabilities], FailSchema ["web"])
  /\ upgrade_trace (fun _ _ => true) ex_flags ex_tls_top ex_tls_vals
     = ([KIsReachable; SRead; KGetCapabilities], FailSchema ["web"])
  /\ snd (install_trace (fun _ _ => true) ex_flags ex_tls_top
                        [("web", VMap [("tlsKey", VStr "k"); ("tlsCert", VStr "c")])]) = Done.
Proof. vm_compute. repeat split; reflexivity. Qed.

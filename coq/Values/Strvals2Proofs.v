(* Proofs about Values/Strvals2.v, for EVERY input string, every destination, each of the five
   parsers, every reader callback and every JSON decoder:

   * [parse2_frame]: a successful parse changes the destination only at paths related to the
     paths the expression names ([names_of], read off the string alone); the one other
     effect is the nil padding of setIndex, at positions [pad_pos] describes;
   * [key2_value]: the path a pair names holds the value the pair carries;
   * [key2_rest]: where the next pair starts is a function of the string alone. *)
From Coq Require Import List String Ascii Bool Arith ZArith Lia.
From Helm Require Import Common.Strs Values.Tree Values.TreeLemmas Values.Strvals Values.Strvals2.
Import ListNotations.
Local Open Scope string_scope.

(* ---------- vocabulary ---------- *)
(* [fop p q a b]: at path q the tree b (after) is what the tree a (before) was — or q is a
   position that did not exist, now holds a nil, and is a padding position of p *)
Definition fop (p q : list step) (a b : val) : Prop :=
  dget q b = dget q a \/ (dget q a = None /\ dget q b = Some VNull /\ pad_pos p q = true).

Definition kres_ok (r : kres) : option vmap := match r with KOk d _ | KEof d => Some d | _ => None end.
Definition lres_ok (r : lres) : option (list val) := match r with LOk l _ | LEof l => Some l | _ => None end.

Definition KF (p : list step) (d : vmap) (r : kres) : Prop :=
  forall d', kres_ok r = Some d' -> forall q, drel false p q = false -> fop p q (VMap d) (VMap d').
Definition LF (p : list step) (l : list val) (r : lres) : Prop :=
  forall l', lres_ok r = Some l' -> forall q, drel false p q = false -> fop p q (VList l) (VList l').

Lemma fop_refl : forall p q a, fop p q a a.
Proof. intros. left. reflexivity. Qed.

(* ---------- lists ---------- *)
Lemma in_range_spec : forall l j, in_range l j = true <-> (0 <= j < Z.of_nat (List.length l))%Z.
Proof.
  intros l j. unfold in_range. rewrite andb_true_iff, Z.ltb_lt, Z.leb_le. lia.
Qed.

Lemma in_range_false : forall l j, in_range l j = false <-> ~ (0 <= j < Z.of_nat (List.length l))%Z.
Proof.
  intros l j. rewrite <- in_range_spec. destruct (in_range l j); split; intro H.
  - discriminate.
  - exfalso. apply H. reflexivity.
  - intro H'. discriminate.
  - reflexivity.
Qed.

Lemma set_nth_length2 : forall n v l, List.length (set_nth n v l) = Nat.max (List.length l) (S n).
Proof.
  induction n; intros v [|x t]; simpl; try lia.
  - rewrite IHn. simpl. lia.
  - rewrite IHn. lia.
Qed.

Lemma set_nth_get : forall n v l, nth n (set_nth n v l) VNull = v.
Proof. induction n; intros v [|x t]; simpl; try reflexivity; apply IHn. Qed.

Lemma set_nth_get_other : forall n m v l, n <> m -> m < List.length l -> nth m (set_nth n v l) VNull = nth m l VNull.
Proof.
  induction n; intros m v [|x t] Hn Hm; simpl in *; try lia.
  - destruct m; [congruence | reflexivity].
  - destruct m; [reflexivity|]. apply IHn; lia.
Qed.

Lemma set_nth_get_pad : forall n m v l, List.length l <= m -> m < n -> nth m (set_nth n v l) VNull = VNull.
Proof.
  induction n; intros m v [|x t] Hl Hm; simpl in *; try lia.
  - destruct m; [reflexivity|]. apply IHn; simpl; lia.
  - destruct m; [lia|]. apply IHn; lia.
Qed.

Lemma dget_nil_some : forall q, q <> [] -> dget q VNull = None.
Proof. intros [|[k|i] q] H; [congruence | reflexivity | reflexivity]. Qed.

Lemma in_range_nil : forall j, in_range [] j = false.
Proof. intros j. apply in_range_false. simpl. lia. Qed.

Lemma dget_list_nil : forall q, q <> [] -> dget q (VList []) = None.
Proof. intros [|[k|i] q] H; [congruence | reflexivity | simpl; now rewrite in_range_nil]. Qed.

Lemma dget_map_nil : forall q, q <> [] -> dget q (VMap []) = None.
Proof. intros [|[k|i] q] H; [congruence | reflexivity | reflexivity]. Qed.

(* the element that was set *)
Lemma dget_set_nth_same : forall i v l q, (0 <= i)%Z ->
  dget (SIdx i :: q) (VList (set_nth (Z.to_nat i) v l)) = dget q v.
Proof.
  intros i v l q Hi. simpl.
  assert (R : in_range (set_nth (Z.to_nat i) v l) i = true).
  { apply in_range_spec. rewrite set_nth_length2. lia. }
  rewrite R. unfold nth_val. now rewrite set_nth_get.
Qed.

(* the other elements, and the padding *)
Lemma dget_set_nth_other : forall i j v l p' q', (0 <= i)%Z -> j <> i ->
  fop (SIdx i :: p') (SIdx j :: q') (VList l) (VList (set_nth (Z.to_nat i) v l)).
Proof.
  intros i j v l p' q' Hi Hj. unfold fop. simpl dget.
  destruct (in_range l j) eqn:Rl.
  - apply in_range_spec in Rl.
    assert (R' : in_range (set_nth (Z.to_nat i) v l) j = true).
    { apply in_range_spec. rewrite set_nth_length2. lia. }
    rewrite R'. left. unfold nth_val. rewrite set_nth_get_other; [reflexivity | lia | lia].
  - apply in_range_false in Rl.
    destruct (in_range (set_nth (Z.to_nat i) v l) j) eqn:R'; [|left; reflexivity].
    apply in_range_spec in R'. rewrite set_nth_length2 in R'.
    assert (Hji : (0 <= j < i)%Z) by lia.
    unfold nth_val. rewrite set_nth_get_pad by lia.
    destruct q' as [|s q'].
    + right. split; [reflexivity|]. split; [reflexivity|]. simpl.
      apply andb_true_iff. split; [apply Z.leb_le | apply Z.ltb_lt]; lia.
    + left. now rewrite dget_nil_some.
Qed.

Lemma dget_set_nth_inrange_other : forall i j v l q', in_range l i = true -> j <> i ->
  dget (SIdx j :: q') (VList (set_nth (Z.to_nat i) v l)) = dget (SIdx j :: q') (VList l).
Proof.
  intros i j v l q' Ri Hj. apply in_range_spec in Ri. simpl.
  assert (E : in_range (set_nth (Z.to_nat i) v l) j = in_range l j).
  { unfold in_range. rewrite set_nth_length2. f_equal.
    destruct (j <? Z.of_nat (List.length l))%Z eqn:A; [apply Z.ltb_lt in A; apply Z.ltb_lt | apply Z.ltb_ge in A; apply Z.ltb_ge]; lia. }
  rewrite E. destruct (in_range l j) eqn:Rj; [|reflexivity].
  apply in_range_spec in Rj. unfold nth_val. rewrite set_nth_get_other; [reflexivity | lia | lia].
Qed.

Lemma set_index_some : forall l i v l', set_index l i v = Some l' -> (0 <= i)%Z /\ l' = set_nth (Z.to_nat i) v l.
Proof.
  intros l i v l' H. unfold set_index in H.
  destruct (i <? 0)%Z eqn:A; [discriminate|]. destruct (max_index <? i)%Z; [discriminate|].
  apply Z.ltb_ge in A. inversion H. split; [lia | reflexivity].
Qed.

(* ---------- tables ---------- *)
Lemma dget_mset_same : forall k v d q, dget (SKey k :: q) (VMap (mset k v d)) = dget q v.
Proof. intros. simpl. now rewrite mget_mset_eq. Qed.

Lemma dget_mset_other : forall k b v d q, String.eqb k b = false ->
  dget (SKey b :: q) (VMap (mset k v d)) = dget (SKey b :: q) (VMap d).
Proof. intros k b v d q E. apply String.eqb_neq in E. simpl. now rewrite mget_mset_neq. Qed.

Lemma dget_set_other : forall k b v d q, String.eqb k b = false ->
  dget (SKey b :: q) (VMap (set k v d)) = dget (SKey b :: q) (VMap d).
Proof. intros [|a k] b v d q E; [reflexivity|]. now apply dget_mset_other. Qed.

Lemma dget_key_list : forall k q l, dget (SKey k :: q) (VList l) = None.
Proof. reflexivity. Qed.
Lemma dget_idx_map : forall i q m, dget (SIdx i :: q) (VMap m) = None.
Proof. reflexivity. Qed.

Lemma drel_nil_r : forall ai p, drel ai p [] = true.
Proof. intros ai [|[k|i] p]; reflexivity. Qed.

Lemma drel_idx_ai : forall a p q, drel true (SIdx a :: p) q = drel false (SIdx a :: p) q.
Proof. intros a p [|[k|j] q]; reflexivity. Qed.

Lemma drel_key_key : forall ai a p b q, drel ai (SKey a :: p) (SKey b :: q) = String.eqb a b && drel false p q.
Proof. reflexivity. Qed.
Lemma drel_idx_idx : forall ai i p j q, drel ai (SIdx i :: p) (SIdx j :: q) = Z.eqb i j && drel true p q.
Proof. reflexivity. Qed.

Lemma drel_key_key_ai : forall a p b q, drel true (SKey a :: p) (SKey b :: q) = drel false (SKey a :: p) (SKey b :: q).
Proof. reflexivity. Qed.

(* lifting a frame statement below a table key *)
Lemma fop_under_key : forall k P q' a b d d',
  dget (SKey k :: q') (VMap d) = dget q' a ->
  dget (SKey k :: q') (VMap d') = dget q' b ->
  fop P q' a b -> fop (SKey k :: P) (SKey k :: q') (VMap d) (VMap d').
Proof.
  intros k P q' a b d d' Ha Hb [E|(E1 & E2 & E3)]; unfold fop.
  - left. congruence.
  - right. rewrite Ha, Hb. split; [assumption|]. split; [assumption|]. simpl. now rewrite String.eqb_refl.
Qed.

(* lifting below a list index (q' non-empty) *)
Lemma fop_under_idx : forall i P q' a b l l', q' <> [] ->
  dget (SIdx i :: q') (VList l) = dget q' a ->
  dget (SIdx i :: q') (VList l') = dget q' b ->
  fop P q' a b -> fop (SIdx i :: P) (SIdx i :: q') (VList l) (VList l').
Proof.
  intros i P q' a b l l' Hne Ha Hb [E|(E1 & E2 & E3)]; unfold fop.
  - left. congruence.
  - right. rewrite Ha, Hb. split; [assumption|]. split; [assumption|].
    destruct q' as [|s q']; [congruence|]. simpl. now rewrite Z.eqb_refl.
Qed.

(* ---------- how key() finishes ---------- *)
Lemma key_eq_finish_KF : forall k d vr, KF [SKey k] d (key_eq_finish k d vr).
Proof.
  intros k d vr d' H q R.
  destruct q as [|[b|j] q]; [now rewrite drel_nil_r in R | | left; reflexivity].
  rewrite drel_key_key in R. simpl in R. rewrite andb_true_r in R.
  left. destruct vr; simpl in H; inversion H; subst; now apply dget_set_other.
Qed.

Lemma store_list_other : forall k b d l i ex l' q, String.eqb k b = false ->
  dget (SKey b :: q) (VMap (store_list k d l i ex l')) = dget (SKey b :: q) (VMap d).
Proof.
  intros k b d l i ex l' q E. unfold store_list.
  destruct k; [destruct (ex && in_range l i); [now apply dget_mset_other | reflexivity] | now apply dget_mset_other].
Qed.

Lemma key_lbr_finish_KF : forall k d l i ex np r,
  list_at k d = Some (l, ex) -> LF (SIdx i :: np) l r ->
  KF (SKey k :: SIdx i :: np) d (key_lbr_finish k d l i ex r).
Proof.
  intros k d l i ex np r Hat HL d' H q R.
  assert (exists l', lres_ok r = Some l' /\ d' = store_list k d l i ex l') as (l' & Hl' & ->).
  { destruct r; simpl in H; inversion H; eexists; split; reflexivity. }
  destruct q as [|[b|j] q]; [now rewrite drel_nil_r in R | | left; reflexivity].
  rewrite drel_key_key in R. destruct (String.eqb k b) eqn:E.
  - apply String.eqb_eq in E. subst b. rewrite andb_true_l in R.
    specialize (HL l' Hl' q R).
    assert (Hq : q <> []) by (intros ->; now rewrite drel_nil_r in R).
    assert (Hnil : dget q (VList []) = None) by now apply dget_list_nil.
    unfold list_at in Hat.
    destruct (mget k d) as [y|] eqn:G.
    + destruct y; try discriminate. inversion Hat; subst l0 ex.
      assert (Hb : dget (SKey k :: q) (VMap d) = dget q (VList l)) by (simpl; now rewrite G).
      unfold store_list. destruct k as [|c k].
      * simpl andb. destruct (in_range l i).
        -- eapply fop_under_key; [exact Hb | apply dget_mset_same | exact HL].
        -- apply fop_refl.
      * eapply fop_under_key; [exact Hb | apply dget_mset_same | exact HL].
    + inversion Hat; subst l ex.
      assert (Hb : dget (SKey k :: q) (VMap d) = dget q (VList [])) by (simpl; now rewrite G, Hnil).
      unfold store_list. destruct k as [|c k].
      * simpl andb. apply fop_refl.
      * eapply fop_under_key; [exact Hb | apply dget_mset_same | exact HL].
  - left. now apply store_list_other.
Qed.

Lemma writeback_other : forall k b d ex inner' q, String.eqb k b = false ->
  dget (SKey b :: q) (VMap (writeback k d ex inner')) = dget (SKey b :: q) (VMap d).
Proof.
  intros k b d ex inner' q E. unfold writeback.
  destruct ex; [now apply dget_mset_other|]. destruct inner'; [reflexivity | now apply dget_set_other].
Qed.

Lemma key_dot_finish_KF : forall k d inner ex np r,
  table_at k d = Some (inner, ex) -> KF np inner r ->
  KF (SKey k :: np) d (key_dot_finish k d ex r).
Proof.
  intros k d inner ex np r Hat HK d' H q R.
  assert (exists inner', kres_ok r = Some inner' /\ d' = writeback k d ex inner') as (inner' & Hi' & ->).
  { destruct r as [i0 r0|i0|i0|]; simpl in H; try discriminate.
    - destruct i0; [discriminate|]. inversion H. eexists; split; reflexivity.
    - inversion H. eexists; split; reflexivity. }
  destruct q as [|[b|j] q]; [now rewrite drel_nil_r in R | | left; reflexivity].
  rewrite drel_key_key in R. destruct (String.eqb k b) eqn:E.
  - apply String.eqb_eq in E. subst b. rewrite andb_true_l in R.
    specialize (HK inner' Hi' q R).
    assert (Hq : q <> []) by (intros ->; now rewrite drel_nil_r in R).
    assert (Hnil : dget q (VMap []) = None) by now apply dget_map_nil.
    unfold table_at in Hat.
    destruct (mget k d) as [y|] eqn:G.
    + destruct y; try discriminate. inversion Hat; subst m ex.
      assert (Hb : dget (SKey k :: q) (VMap d) = dget q (VMap inner)) by (simpl; now rewrite G).
      unfold writeback. eapply fop_under_key; [exact Hb | apply dget_mset_same | exact HK].
    + inversion Hat; subst inner ex.
      assert (Hb : dget (SKey k :: q) (VMap d) = dget q (VMap [])) by (simpl; now rewrite G, Hnil).
      unfold writeback. destruct inner' as [|e0 inner'].
      * apply fop_refl.
      * destruct k as [|c k]; [apply fop_refl|].
        eapply fop_under_key; [exact Hb | apply dget_mset_same | exact HK].
  - left. now apply writeback_other.
Qed.

(* ---------- how listItem() finishes ---------- *)
Lemma item_eq_finish_LF : forall l i vr, LF [SIdx i] l (item_eq_finish l i vr).
Proof.
  intros l i vr l' H q R.
  destruct q as [|[b|j] q]; [now rewrite drel_nil_r in R | left; reflexivity | ].
  rewrite drel_idx_idx in R.
  assert (Hj : j <> i).
  { intros ->. rewrite Z.eqb_refl in R. simpl in R. discriminate. }
  assert (exists v, set_index l i v = Some l') as (v & Hs).
  { destruct vr; simpl in H; try discriminate;
      match type of H with context [set_index l i ?x] => destruct (set_index l i x) eqn:S; simpl in H; inversion H; subst; eexists; exact S end. }
  apply set_index_some in Hs. destruct Hs as [Hi ->]. now apply dget_set_nth_other.
Qed.

Lemma item_lbr_finish_LF : forall lt l i crt ex nexti np r,
  (0 <= i)%Z -> crt_of l i = Some (crt, ex) -> LF (SIdx nexti :: np) crt r ->
  LF (SIdx i :: SIdx nexti :: np) l (item_lbr_finish lt l i ex r).
Proof.
  intros lt l i crt ex nexti np r Hi Hc HL l' H q R.
  (* the result is l itself, or l with element i replaced by the nested list *)
  assert (exists l2, lres_ok r = Some l2 /\ (l' = set_nth (Z.to_nat i) (VList l2) l \/ (l' = l /\ ex = false))) as (l2 & Hl2 & Hl').
  { destruct r as [l2 rest2|l2| |]; simpl in H; try discriminate.
    - destruct (set_index l i (VList l2)) eqn:S; inversion H; subst. apply set_index_some in S. destruct S as [_ ->].
      eexists; split; [reflexivity | left; reflexivity].
    - exists l2. split; [reflexivity|].
      destruct lt.
      + destruct ex; inversion H; subst; [left | right]; auto.
      + destruct l2 as [|e0 l2].
        * destruct ex; inversion H; subst; [left | right]; auto.
        * destruct (set_index l i (VList (e0 :: l2))) eqn:S; inversion H; subst. apply set_index_some in S. destruct S as [_ ->].
          left; reflexivity. }
  destruct q as [|[b|j] q]; [now rewrite drel_nil_r in R | left; reflexivity | ].
  rewrite drel_idx_idx in R.
  destruct (Z.eqb i j) eqn:E.
  - apply Z.eqb_eq in E. subst j. rewrite andb_true_l in R. rewrite drel_idx_ai in R.
    assert (Hq : q <> []) by (intros ->; now rewrite drel_nil_r in R).
    (* what was at l[i], read as a list *)
    assert (Hb : dget (SIdx i :: q) (VList l) = dget q (VList crt)).
    { unfold crt_of in Hc. simpl. destruct (in_range l i).
      - destruct (nth_val i l); try discriminate; inversion Hc; subst.
        + rewrite dget_nil_some by assumption. now rewrite dget_list_nil.
        + reflexivity.
      - inversion Hc; subst. now rewrite dget_list_nil. }
    destruct Hl' as [->|[-> ->]].
    + specialize (HL l2 Hl2 q R).
      eapply fop_under_idx; [assumption | exact Hb | now apply dget_set_nth_same | exact HL].
    + apply fop_refl.
  - assert (Hj : j <> i) by (intros ->; rewrite Z.eqb_refl in E; discriminate).
    destruct Hl' as [->|[-> _]]; [now apply dget_set_nth_other | apply fop_refl].
Qed.

Lemma item_dot_finish_LF : forall lt l i l1 inner inplace npk r,
  (0 <= i)%Z -> inner_of l i = (l1, inner, inplace) -> KF npk inner r ->
  (npk = [] \/ exists k t, npk = SKey k :: t) ->
  LF (SIdx i :: npk) l (item_dot_finish lt l1 i inplace r).
Proof.
  intros lt l i l1 inner inplace npk r Hi Hin HK Hshape l' H q R.
  assert (exists inner', kres_ok r = Some inner' /\ (l' = set_nth (Z.to_nat i) (VMap inner') l1 \/ (l' = l1 /\ inplace = false))) as (inner' & Hi' & Hl').
  { destruct r as [inner' rest1|inner'| |]; simpl in H; try discriminate.
    - destruct (set_index l1 i (VMap inner')) eqn:S; inversion H; subst. apply set_index_some in S. destruct S as [_ ->].
      eexists; split; [reflexivity | left; reflexivity].
    - exists inner'. split; [reflexivity|].
      destruct lt.
      + destruct inplace; inversion H; subst; [left | right]; auto.
      + destruct inner' as [|e0 inner'].
        * destruct inplace; inversion H; subst; [left | right]; auto.
        * destruct (set_index l1 i (VMap (e0 :: inner'))) eqn:S; inversion H; subst. apply set_index_some in S. destruct S as [_ ->].
          left; reflexivity. }
  (* l1 differs from l at most at element i, which is inside the list *)
  assert (Hl1 : forall j q', j <> i -> dget (SIdx j :: q') (VList l1) = dget (SIdx j :: q') (VList l)).
  { intros j q' Hj. unfold inner_of in Hin. destruct (in_range l i) eqn:Ri.
    - destruct (nth_val i l); inversion Hin; subst; try reflexivity; now apply dget_set_nth_inrange_other.
    - inversion Hin; subst. reflexivity. }
  destruct q as [|[b|j] q]; [now rewrite drel_nil_r in R | left; reflexivity | ].
  rewrite drel_idx_idx in R.
  destruct (Z.eqb i j) eqn:E.
  - apply Z.eqb_eq in E. subst j. rewrite andb_true_l in R.
    destruct Hshape as [->|(k & t & ->)]; [simpl in R; discriminate|].
    destruct q as [|[b|j] q]; [simpl in R; discriminate | | simpl in R; discriminate].
    rewrite drel_key_key_ai in R.
    assert (Hb : dget (SIdx i :: SKey b :: q) (VList l) = dget (SKey b :: q) (VMap inner)).
    { unfold inner_of in Hin. simpl. destruct (in_range l i).
      - destruct (nth_val i l); inversion Hin; subst; reflexivity.
      - inversion Hin; subst. reflexivity. }
    destruct Hl' as [->|[-> ->]].
    + specialize (HK inner' Hi' _ R).
      eapply fop_under_idx; [discriminate | exact Hb | now apply dget_set_nth_same | exact HK].
    + unfold inner_of in Hin. destruct (in_range l i) eqn:Ri.
      * destruct (nth_val i l); inversion Hin.
      * inversion Hin; subst. apply fop_refl.
  - assert (Hj : j <> i) by (intros ->; rewrite Z.eqb_refl in E; discriminate).
    destruct Hl' as [->|[-> _]].
    + pose proof (dget_set_nth_other i j (VMap inner') l1 npk q Hi Hj) as F.
      unfold fop in *. rewrite (Hl1 j q Hj) in F. exact F.
    + left. now apply Hl1.
Qed.

(* ---------- the frame of one pair: key() and listItem() ---------- *)
Section Frame.
  Variable mode : pmode.
  Variable rdr : string -> val * bool.
  Variable jdec : string -> option (val * nat).

  Notation key2' := (key2 mode rdr jdec).
  Notation list_item2' := (list_item2 mode rdr jdec).
  Notation scan_key' := (scan_key mode rdr jdec).
  Notation scan_item' := (scan_item mode rdr jdec).

  (* one-step unfoldings *)
  Lemma key2_S : forall f d lvl s,
    key2' (S f) d lvl s =
    let '(k, last, rest) := runes_until2 (esc mode) (stopk mode) s in
    match last with
    | None => match k with EmptyString => KEof d | _ => KErr d end
    | Some ch =>
        if ch_eq ch c_lbr then
          match key_index2 mode rest with
          | None => KErr d
          | Some (i, rest1) =>
              match list_at k d with
              | None => KErr d
              | Some (l, existed) => key_lbr_finish k d l i existed (list_item2' f l i lvl rest1)
              end
          end
        else if ch_eq ch c_eq then key_eq_finish k d (value_after_eq2 mode rdr jdec rest)
        else if ch_eq ch c_comma then KErr (set k (VStr EmptyString) d)
        else
          if Nat.ltb max_nested_name_level (S lvl) then KErr d
          else match table_at k d with
               | None => KErr d
               | Some (inner, existed) => key_dot_finish k d existed (key2' f inner (S lvl) rest)
               end
    end.
  Proof. reflexivity. Qed.

  Lemma list_item2_S : forall f l i lvl s,
    list_item2' (S f) l i lvl s =
    if (i <? 0)%Z then LErr l
    else
      let '(k, last, rest) := runes_until2 (esc mode) stop_item s in
      match k with
      | String _ _ => LErr l
      | EmptyString =>
          match last with
          | None => LEof l
          | Some ch =>
              if ch_eq ch c_eq then item_eq_finish l i (value_after_eq2 mode rdr jdec rest)
              else if ch_eq ch c_lbr then
                if Nat.ltb max_nested_name_level (S lvl) then LErr l
                else match key_index2 mode rest with
                     | None => LErr l
                     | Some (nexti, rest1) =>
                         match crt_of l i with
                         | None => LErr l
                         | Some (crt, existed) =>
                             item_lbr_finish (lit mode) l i existed (list_item2' f crt nexti (S lvl) rest1)
                         end
                     end
              else
                if Nat.ltb max_nested_name_level (S lvl) then LErr l
                else let '(l1, inner, inplace) := inner_of l i in
                     item_dot_finish (lit mode) l1 i inplace (key2' f inner (S lvl) rest)
          end
      end.
  Proof. reflexivity. Qed.

  Lemma scan_key_S : forall f s,
    scan_key' (S f) s =
    let '(k, last, rest) := runes_until2 (esc mode) (stopk mode) s in
    match last with
    | None => mkScan [] None None
    | Some ch =>
        if ch_eq ch c_lbr then
          match key_index2 mode rest with
          | None => mkScan [SKey k] None None
          | Some (i, rest1) => scan_cons [SKey k; SIdx i] (scan_item' f rest1)
          end
        else if ch_eq ch c_eq then
          match value_after_eq2 mode rdr jdec rest with
          | V2Ok v rest1 => mkScan [SKey k] (Some v) (Some rest1)
          | V2Eof => mkScan [SKey k] (Some (VStr EmptyString)) None
          | V2OkEof v => mkScan [SKey k] (Some v) None
          | _ => mkScan [SKey k] None None
          end
        else if ch_eq ch c_comma then mkScan [SKey k] None None
        else scan_cons [SKey k] (scan_key' f rest)
    end.
  Proof. reflexivity. Qed.

  Lemma scan_item_S : forall f s,
    scan_item' (S f) s =
    let '(k, last, rest) := runes_until2 (esc mode) stop_item s in
    match k with
    | String _ _ => mkScan [] None None
    | EmptyString =>
        match last with
        | None => mkScan [] None None
        | Some ch =>
            if ch_eq ch c_eq then
              match value_after_eq2 mode rdr jdec rest with
              | V2Ok v rest1 => mkScan [] (Some v) (Some rest1)
              | V2Eof => mkScan [] (Some (VStr EmptyString)) (Some EmptyString)
              | V2OkEof v => mkScan [] (Some v) None
              | _ => mkScan [] None None
              end
            else if ch_eq ch c_lbr then
              match key_index2 mode rest with
              | None => mkScan [] None None
              | Some (nexti, rest1) => scan_cons [SIdx nexti] (scan_item' f rest1)
              end
            else scan_key' f rest
        end
    end.
  Proof. reflexivity. Qed.

  Lemma scan_key_shape : forall f s,
    sc_path (scan_key' f s) = [] \/ exists k t, sc_path (scan_key' f s) = SKey k :: t.
  Proof.
    intros [|f] s; [left; reflexivity|].
    rewrite scan_key_S. destruct (runes_until2 (esc mode) (stopk mode) s) as [[k last] rest].
    destruct last as [ch|]; [|left; reflexivity].
    destruct (ch_eq ch c_lbr).
    { destruct (key_index2 mode rest) as [[i rest1]|]; right; eexists; eexists; reflexivity. }
    destruct (ch_eq ch c_eq).
    { destruct (value_after_eq2 mode rdr jdec rest); right; eexists; eexists; reflexivity. }
    destruct (ch_eq ch c_comma); right; eexists; eexists; reflexivity.
  Qed.

  Lemma scan_eq_path : forall k rest,
    sc_path (match value_after_eq2 mode rdr jdec rest with
             | V2Ok v rest1 => mkScan [SKey k] (Some v) (Some rest1)
             | V2Eof => mkScan [SKey k] (Some (VStr EmptyString)) None
             | V2OkEof v => mkScan [SKey k] (Some v) None
             | _ => mkScan [SKey k] None None
             end) = [SKey k].
  Proof. intros. destruct (value_after_eq2 mode rdr jdec rest); reflexivity. Qed.

  Lemma scan_item_eq_path : forall rest,
    sc_path (match value_after_eq2 mode rdr jdec rest with
             | V2Ok v rest1 => mkScan [] (Some v) (Some rest1)
             | V2Eof => mkScan [] (Some (VStr EmptyString)) (Some EmptyString)
             | V2OkEof v => mkScan [] (Some v) None
             | _ => mkScan [] None None
             end) = [].
  Proof. intros. destruct (value_after_eq2 mode rdr jdec rest); reflexivity. Qed.

  Lemma KF_none : forall p d r, kres_ok r = None -> KF p d r.
  Proof. intros p d r H d' H'. congruence. Qed.
  Lemma LF_none : forall p l r, lres_ok r = None -> LF p l r.
  Proof. intros p l r H l' H'. congruence. Qed.

  Theorem frame_mutual : forall f,
    (forall d lvl s, KF (sc_path (scan_key' f s)) d (key2' f d lvl s))
    /\ (forall l i lvl s, LF (SIdx i :: sc_path (scan_item' f s)) l (list_item2' f l i lvl s)).
  Proof.
    induction f as [|f [IHk IHl]]; split.
    - intros. now apply KF_none.
    - intros. now apply LF_none.
    - intros d lvl s. rewrite key2_S, scan_key_S.
      destruct (runes_until2 (esc mode) (stopk mode) s) as [[k last] rest].
      destruct last as [ch|].
      2:{ destruct k; [|now apply KF_none]. intros d' H q R. simpl in R. discriminate. }
      destruct (ch_eq ch c_lbr).
      { destruct (key_index2 mode rest) as [[i rest1]|]; [|now apply KF_none].
        destruct (list_at k d) as [[l ex]|] eqn:Hat; [|now apply KF_none].
        apply key_lbr_finish_KF; [assumption | apply IHl]. }
      destruct (ch_eq ch c_eq).
      { rewrite scan_eq_path. apply key_eq_finish_KF. }
      destruct (ch_eq ch c_comma); [now apply KF_none|].
      destruct (Nat.ltb max_nested_name_level (S lvl)); [now apply KF_none|].
      destruct (table_at k d) as [[inner ex]|] eqn:Hat; [|now apply KF_none].
      eapply key_dot_finish_KF; [exact Hat | apply IHk].
    - intros l i lvl s. rewrite list_item2_S, scan_item_S.
      destruct (i <? 0)%Z eqn:Hneg; [now apply LF_none|]. apply Z.ltb_ge in Hneg.
      destruct (runes_until2 (esc mode) stop_item s) as [[k last] rest].
      destruct k; [|now apply LF_none].
      destruct last as [ch|].
      2:{ intros l' H q R. inversion H; subst. apply fop_refl. }
      destruct (ch_eq ch c_eq).
      { rewrite scan_item_eq_path. apply item_eq_finish_LF. }
      destruct (ch_eq ch c_lbr).
      { destruct (Nat.ltb max_nested_name_level (S lvl)).
        { destruct (key_index2 mode rest) as [[nexti rest1]|]; now apply LF_none. }
        destruct (key_index2 mode rest) as [[nexti rest1]|]; [|now apply LF_none].
        destruct (crt_of l i) as [[crt ex]|] eqn:Hc; [|now apply LF_none].
        eapply item_lbr_finish_LF; [assumption | exact Hc | apply IHl]. }
      destruct (Nat.ltb max_nested_name_level (S lvl)); [now apply LF_none|].
      destruct (inner_of l i) as [[l1 inner] inplace] eqn:Hin.
      eapply item_dot_finish_LF; [assumption | exact Hin | apply IHk | apply scan_key_shape].
  Qed.
End Frame.

(* ---------- the value of one pair, and where the next pair starts ---------- *)
(* [KV p v lt r]: when key() succeeded the path p holds v; in the literal parser ([lt]) a pair
   that carries a value never ends with io.EOF *)
Definition KV (p : list step) (v : val) (lt : bool) (r : kres) : Prop :=
  match r with
  | KOk d' _ => dget p (VMap d') = Some v
  | KEof d' => lt = false /\ dget p (VMap d') = Some v
  | _ => True
  end.
Definition LV (p : list step) (v : val) (lt : bool) (r : lres) : Prop :=
  match r with
  | LOk l' _ => dget p (VList l') = Some v
  | LEof l' => lt = false /\ dget p (VList l') = Some v
  | _ => True
  end.

(* [KR r sc]: when key() returned without error and without io.EOF, the rest of the input is
   what the scanner says, and the pair named something; when it returned io.EOF the scanner
   says the input ends with this pair *)
Definition KR (r : kres) (sc : scan) : Prop :=
  match r with
  | KOk _ rest => sc_rest sc = Some rest /\ sc_path sc <> []
  | KEof _ => sc_rest sc = None
  | _ => True
  end.
Definition LR (r : lres) (sc : scan) : Prop :=
  match r with
  | LOk _ rest => sc_rest sc = Some rest
  | LEof _ => sc_rest sc = None
  | _ => True
  end.

Lemma key_lbr_finish_KR : forall k d l i ex r sc,
  LR r sc -> KR (key_lbr_finish k d l i ex r) (scan_cons [SKey k; SIdx i] sc).
Proof. intros k d l i ex r sc H. destruct r; unfold KR, LR, key_lbr_finish, scan_cons in *; cbn [sc_rest sc_path app]; auto. split; [assumption | discriminate]. Qed.

Lemma key_dot_finish_KR : forall k d ex r sc,
  KR r sc -> KR (key_dot_finish k d ex r) (scan_cons [SKey k] sc).
Proof.
  intros k d ex r sc H. destruct r as [inner' r1|inner'|inner'|]; unfold KR, key_dot_finish, scan_cons in *; cbn [sc_rest sc_path app]; auto.
  destruct inner'; [exact I|]. destruct H as [H _]. split; [assumption | discriminate].
Qed.

Lemma item_lbr_finish_LR : forall lt l i ex n r sc,
  LR r sc -> LR (item_lbr_finish lt l i ex r) (scan_cons [SIdx n] sc).
Proof.
  intros lt l i ex n r sc H. destruct r as [l2 r2|l2|l2|]; unfold LR, item_lbr_finish, scan_cons in *; cbn [sc_rest]; auto.
  - destruct (set_index l i (VList l2)); [assumption | exact I].
  - destruct lt; [destruct ex; assumption|]. destruct l2; [destruct ex; assumption|].
    destruct (set_index l i (VList (v :: l2))); [assumption | exact I].
Qed.

Lemma item_dot_finish_LR : forall lt l1 i inplace r sc,
  KR r sc -> LR (item_dot_finish lt l1 i inplace r) sc.
Proof.
  intros lt l1 i inplace r sc H. destruct r as [inner' r1|inner'|inner'|]; unfold KR, LR, item_dot_finish in *; auto.
  - destruct (set_index l1 i (VMap inner')); [exact (proj1 H) | exact I].
  - destruct lt; [destruct inplace; assumption|]. destruct inner'; [destruct inplace; assumption|].
    destruct (set_index l1 i (VMap (p :: inner'))); [assumption | exact I].
Qed.

Lemma key_lbr_finish_KV : forall k d l i ex np v lt r,
  k <> EmptyString -> LV (SIdx i :: np) v lt r ->
  KV (SKey k :: SIdx i :: np) v lt (key_lbr_finish k d l i ex r).
Proof.
  intros k d l i ex np v lt r Hk HL.
  assert (S : forall l', store_list k d l i ex l' = mset k (VList l') d) by (intros; destruct k; [congruence | reflexivity]).
  destruct r; unfold KV, LV, key_lbr_finish in *; rewrite ?S, ?dget_mset_same; auto.
Qed.

Lemma key_dot_finish_KV : forall k d ex np v lt r,
  k <> EmptyString -> np <> [] -> KV np v lt r ->
  KV (SKey k :: np) v lt (key_dot_finish k d ex r).
Proof.
  intros k d ex np v lt r Hk Hnp HK.
  assert (W : forall inner', inner' <> [] -> writeback k d ex inner' = mset k (VMap inner') d).
  { intros inner' Hi. unfold writeback. destruct ex; [reflexivity|]. destruct inner'; [congruence|]. destruct k; [congruence | reflexivity]. }
  destruct r as [inner' rest1|inner'|inner'|]; unfold KV, key_dot_finish in *; auto.
  - destruct inner' as [|e0 inner']; [exact I|]. rewrite W by discriminate. now rewrite dget_mset_same.
  - destruct HK as [Hlt HK]. split; [assumption|].
    destruct inner' as [|e0 inner']; [rewrite dget_map_nil in HK by assumption; discriminate|].
    rewrite W by discriminate. now rewrite dget_mset_same.
Qed.

Lemma item_lbr_finish_LV : forall lt l i ex nexti np v r,
  LV (SIdx nexti :: np) v lt r ->
  LV (SIdx i :: SIdx nexti :: np) v lt (item_lbr_finish lt l i ex r).
Proof.
  intros lt l i ex nexti np v r HL.
  destruct r as [l2 rest2|l2| |]; unfold LV, item_lbr_finish in *; auto.
  - destruct (set_index l i (VList l2)) eqn:S; [|exact I]. apply set_index_some in S. destruct S as [Hi ->].
    now rewrite dget_set_nth_same.
  - destruct HL as [-> HL]. destruct l2 as [|e0 l2]; [rewrite dget_list_nil in HL by discriminate; discriminate|].
    destruct (set_index l i (VList (e0 :: l2))) eqn:S; [|exact I]. apply set_index_some in S. destruct S as [Hi ->].
    split; [reflexivity|]. now rewrite dget_set_nth_same.
Qed.

Lemma item_dot_finish_LV : forall lt l1 i inplace np v r,
  np <> [] -> KV np v lt r ->
  LV (SIdx i :: np) v lt (item_dot_finish lt l1 i inplace r).
Proof.
  intros lt l1 i inplace np v r Hnp HK.
  destruct r as [inner' rest1|inner'|inner'|]; unfold KV, LV, item_dot_finish in *; auto.
  - destruct (set_index l1 i (VMap inner')) eqn:S; [|exact I]. apply set_index_some in S. destruct S as [Hi ->].
    now rewrite dget_set_nth_same.
  - destruct HK as [-> HK]. destruct inner' as [|e0 inner']; [rewrite dget_map_nil in HK by assumption; discriminate|].
    destruct (set_index l1 i (VMap (e0 :: inner'))) eqn:S; [|exact I]. apply set_index_some in S. destruct S as [Hi ->].
    split; [reflexivity|]. now rewrite dget_set_nth_same.
Qed.

Section Value.
  Variable mode : pmode.
  Variable rdr : string -> val * bool.
  Variable jdec : string -> option (val * nat).

  Notation key2' := (key2 mode rdr jdec).
  Notation list_item2' := (list_item2 mode rdr jdec).
  Notation scan_key' := (scan_key mode rdr jdec).
  Notation scan_item' := (scan_item mode rdr jdec).
  Notation vae := (value_after_eq2 mode rdr jdec).

  (* the literal parser's value is never an io.EOF form *)
  Lemma vae_lit : forall s, lit mode = true -> exists v r, vae s = V2Ok v r.
  Proof. intros s H. unfold value_after_eq2. destruct mode; try discriminate. eexists; eexists; reflexivity. Qed.

  Lemma scan_key_val_path : forall f s v,
    sc_val (scan_key' f s) = Some v -> exists k t, sc_path (scan_key' f s) = SKey k :: t.
  Proof.
    intros [|f] s v; [discriminate|]. rewrite scan_key_S.
    destruct (runes_until2 (esc mode) (stopk mode) s) as [[k last] rest].
    destruct last as [ch|]; [|discriminate].
    destruct (ch_eq ch c_lbr).
    { destruct (key_index2 mode rest) as [[i rest1]|]; intros; eexists; eexists; reflexivity. }
    destruct (ch_eq ch c_eq).
    { destruct (vae rest); intros; eexists; eexists; reflexivity. }
    destruct (ch_eq ch c_comma); intros; eexists; eexists; reflexivity.
  Qed.

  Lemma nonempty_key : forall k p, keys_nonempty (SKey k :: p) = true -> k <> EmptyString /\ keys_nonempty p = true.
  Proof.
    intros k p H. simpl in H. apply andb_true_iff in H. destruct H as [H1 H2]. split; [|assumption].
    intros ->. discriminate.
  Qed.

  Lemma dget_set_same : forall k v d, k <> EmptyString -> dget [SKey k] (VMap (set k v d)) = Some v.
  Proof. intros [|c k] v d H; [congruence|]. simpl set. now rewrite dget_mset_same. Qed.

  Theorem value_mutual : forall f,
    (forall d lvl s v, sc_val (scan_key' f s) = Some v -> keys_nonempty (sc_path (scan_key' f s)) = true ->
                       KV (sc_path (scan_key' f s)) v (lit mode) (key2' f d lvl s))
    /\ (forall l i lvl s v, sc_val (scan_item' f s) = Some v -> keys_nonempty (sc_path (scan_item' f s)) = true ->
                            LV (SIdx i :: sc_path (scan_item' f s)) v (lit mode) (list_item2' f l i lvl s)).
  Proof.
    induction f as [|f [IHk IHl]]; split; try (intros; discriminate).
    - intros d lvl s v. rewrite key2_S, scan_key_S.
      destruct (runes_until2 (esc mode) (stopk mode) s) as [[k last] rest].
      destruct last as [ch|]; [|discriminate].
      destruct (ch_eq ch c_lbr).
      { destruct (key_index2 mode rest) as [[i rest1]|]; [|discriminate].
        unfold scan_cons. cbn [sc_path sc_val app]. intros Hv Hne.
        apply nonempty_key in Hne. destruct Hne as [Hk Hne].
        destruct (list_at k d) as [[l ex]|]; [|exact I].
        apply key_lbr_finish_KV; [assumption|]. now apply IHl. }
      destruct (ch_eq ch c_eq).
      { destruct (lit mode) eqn:Lt.
        - destruct (vae_lit rest Lt) as (v0 & r0 & ->). cbn [sc_val sc_path]. intros Hv Hne. inversion Hv; subst.
          apply nonempty_key in Hne. destruct Hne as [Hk _]. unfold KV, key_eq_finish. now apply dget_set_same.
        - destruct (vae rest); cbn [sc_val sc_path]; try discriminate; intros Hv Hne; inversion Hv; subst;
            apply nonempty_key in Hne; destruct Hne as [Hk _]; unfold KV, key_eq_finish; try split; auto using dget_set_same. }
      destruct (ch_eq ch c_comma); [discriminate|].
      unfold scan_cons. cbn [sc_path sc_val app]. intros Hv Hne.
      apply nonempty_key in Hne. destruct Hne as [Hk Hne].
      destruct (Nat.ltb max_nested_name_level (S lvl)); [exact I|].
      destruct (table_at k d) as [[inner ex]|]; [|exact I].
      apply key_dot_finish_KV; [assumption | | now apply IHk].
      destruct (scan_key_val_path f rest v Hv) as (k0 & t0 & ->). discriminate.
    - intros l i lvl s v. rewrite list_item2_S, scan_item_S.
      destruct (runes_until2 (esc mode) stop_item s) as [[k last] rest].
      destruct k; [|destruct (i <? 0)%Z; discriminate].
      destruct last as [ch|]; [|destruct (i <? 0)%Z; discriminate].
      destruct (i <? 0)%Z eqn:Hneg; [intros; exact I|]. apply Z.ltb_ge in Hneg.
      destruct (ch_eq ch c_eq).
      { destruct (lit mode) eqn:Lt.
        - destruct (vae_lit rest Lt) as (v0 & r0 & ->). cbn [sc_val sc_path]. intros Hv _. inversion Hv; subst.
          unfold item_eq_finish.
          destruct (set_index l i v) eqn:S; [|exact I]. apply set_index_some in S. destruct S as [_ ->].
          unfold LV. now rewrite dget_set_nth_same.
        - destruct (vae rest); cbn [sc_val sc_path]; try discriminate; intros Hv _; inversion Hv; subst; unfold item_eq_finish;
            match goal with |- context [set_index l i ?x] => destruct (set_index l i x) eqn:S; [|exact I] end;
            apply set_index_some in S; destruct S as [_ ->]; unfold LV; try split; auto; now rewrite dget_set_nth_same. }
      destruct (ch_eq ch c_lbr).
      { destruct (key_index2 mode rest) as [[nexti rest1]|]; [|destruct (Nat.ltb max_nested_name_level (S lvl)); discriminate].
        unfold scan_cons. cbn [sc_path sc_val app]. intros Hv Hne.
        destruct (Nat.ltb max_nested_name_level (S lvl)); [exact I|].
        destruct (crt_of l i) as [[crt ex]|]; [|exact I].
        apply item_lbr_finish_LV. now apply IHl. }
      intros Hv Hne.
      destruct (Nat.ltb max_nested_name_level (S lvl)); [exact I|].
      destruct (inner_of l i) as [[l1 inner] inplace].
      apply item_dot_finish_LV; [ | now apply IHk].
      destruct (scan_key_val_path f rest v Hv) as (k0 & t0 & ->). discriminate.
  Qed.

  Theorem rest_mutual : forall f,
    (forall d lvl s, KR (key2' f d lvl s) (scan_key' f s))
    /\ (forall l i lvl s, LR (list_item2' f l i lvl s) (scan_item' f s)).
  Proof.
    induction f as [|f [IHk IHl]]; split; try (intros; exact I).
    - intros d lvl s. rewrite key2_S, scan_key_S.
      destruct (runes_until2 (esc mode) (stopk mode) s) as [[k last] rest].
      destruct last as [ch|]; [|destruct k; [reflexivity | exact I]].
      destruct (ch_eq ch c_lbr).
      { destruct (key_index2 mode rest) as [[i rest1]|]; [|exact I].
        destruct (list_at k d) as [[l ex]|]; [|exact I].
        apply key_lbr_finish_KR. apply IHl. }
      destruct (ch_eq ch c_eq).
      { destruct (vae rest); unfold KR, key_eq_finish; cbn [sc_rest sc_path]; auto. split; [reflexivity | discriminate]. }
      destruct (ch_eq ch c_comma); [exact I|].
      destruct (Nat.ltb max_nested_name_level (S lvl)); [exact I|].
      destruct (table_at k d) as [[inner ex]|]; [|exact I].
      apply key_dot_finish_KR. apply IHk.
    - intros l i lvl s. rewrite list_item2_S, scan_item_S.
      destruct (i <? 0)%Z; [exact I|].
      destruct (runes_until2 (esc mode) stop_item s) as [[k last] rest].
      destruct k; [|exact I]. destruct last as [ch|]; [|reflexivity].
      destruct (ch_eq ch c_eq).
      { destruct (vae rest); unfold LR, item_eq_finish; cbn [sc_rest]; auto;
          match goal with |- context [set_index l i ?x] => destruct (set_index l i x) end; auto. }
      destruct (ch_eq ch c_lbr).
      { destruct (Nat.ltb max_nested_name_level (S lvl)); [exact I|].
        destruct (key_index2 mode rest) as [[nexti rest1]|]; [|exact I].
        destruct (crt_of l i) as [[crt ex]|]; [|exact I].
        apply item_lbr_finish_LR. apply IHl. }
      destruct (Nat.ltb max_nested_name_level (S lvl)); [exact I|].
      destruct (inner_of l i) as [[l1 inner] inplace].
      apply item_dot_finish_LR. apply IHk.
  Qed.

  (* key() on an input that names nothing (the end of the input) changes nothing *)
  Lemma key2_nopath : forall f d lvl s d',
    sc_path (scan_key' f s) = [] -> kres_ok (key2' f d lvl s) = Some d' -> d' = d.
  Proof.
    intros [|f] d lvl s d'; [discriminate|]. rewrite key2_S, scan_key_S.
    destruct (runes_until2 (esc mode) (stopk mode) s) as [[k last] rest].
    destruct last as [ch|].
    2:{ intros _. destruct k; simpl; intros H; inversion H; reflexivity. }
    destruct (ch_eq ch c_lbr).
    { destruct (key_index2 mode rest) as [[i rest1]|]; discriminate. }
    destruct (ch_eq ch c_eq).
    { destruct (vae rest); discriminate. }
    destruct (ch_eq ch c_comma); discriminate.
  Qed.
End Value.

(* ---------- the whole expression ---------- *)
Section Whole.
  Variable mode : pmode.
  Variable rdr : string -> val * bool.
  Variable jdec : string -> option (val * nat).

  Notation key2' := (key2 mode rdr jdec).
  Notation scan_key' := (scan_key mode rdr jdec).
  Notation names' := (names mode rdr jdec).
  Notation pairs' := (pairs mode rdr jdec).
  Notation parse_loop2' := (parse_loop2 mode rdr jdec).

  Lemma names_S : forall f s,
    names' (S f) s =
    match sc_path (scan_key' (S (String.length s)) s) with
    | [] => []
    | p => p :: match sc_rest (scan_key' (S (String.length s)) s) with Some rest => names' f rest | None => [] end
    end.
  Proof. reflexivity. Qed.

  Lemma pairs_S : forall f s,
    pairs' (S f) s =
    match sc_path (scan_key' (S (String.length s)) s) with
    | [] => []
    | p => (p, sc_val (scan_key' (S (String.length s)) s))
           :: match sc_rest (scan_key' (S (String.length s)) s) with Some rest => pairs' f rest | None => [] end
    end.
  Proof. reflexivity. Qed.

  Lemma parse_loop2_S : forall f d s,
    parse_loop2' (S f) d s =
    match key2' (S (String.length s)) d 0 s with
    | KOk d' rest => parse_loop2' f d' rest
    | KEof d' => POk d'
    | KErr d' => PErr d'
    | KFuel => PFuel
    end.
  Proof. reflexivity. Qed.

  Lemma names_pairs : forall f s, names' f s = map fst (pairs' f s).
  Proof.
    induction f as [|f IH]; intros s; [reflexivity|].
    rewrite names_S, pairs_S. destruct (sc_path (scan_key' (S (String.length s)) s)); [reflexivity|].
    simpl. f_equal. destruct (sc_rest (scan_key' (S (String.length s)) s)); [apply IH | reflexivity].
  Qed.

  (* the frame of the sequential composition, with the padding *)
  Definition frame_at (ns : list (list step)) (q : list step) (d d' : vmap) : Prop :=
    dget q (VMap d') = dget q (VMap d)
    \/ (dget q (VMap d) = None /\ dget q (VMap d') = Some VNull /\ exists p, In p ns /\ pad_pos p q = true).

  Theorem parse_loop2_frame : forall f d s d',
    parse_loop2' f d s = POk d' ->
    forall q, (forall p, In p (names' f s) -> drel false p q = false) -> frame_at (names' f s) q d d'.
  Proof.
    induction f as [|f IH]; intros d s d' H q Hq; [discriminate|].
    rewrite parse_loop2_S in H. rewrite names_S in Hq |- *.
    pose proof (proj1 (frame_mutual mode rdr jdec (S (String.length s))) d 0 s) as F.
    pose proof (proj1 (rest_mutual mode rdr jdec (S (String.length s))) d 0 s) as Rst.
    pose proof (key2_nopath mode rdr jdec (S (String.length s)) d 0 s) as NP.
    destruct (key2' (S (String.length s)) d 0 s) as [d1 rest|d1|d1|] eqn:K; try discriminate.
    - unfold KR in Rst. destruct Rst as [Hr Hp].
      destruct (sc_path (scan_key' (S (String.length s)) s)) as [|st p] eqn:P; [congruence|].
      rewrite Hr in Hq |- *.
      assert (F1 : fop (st :: p) q (VMap d) (VMap d1)) by (apply (F d1 eq_refl); apply Hq; left; reflexivity).
      assert (F2 : frame_at (names' f rest) q d1 d') by (apply IH; [assumption | intros p' Hp'; apply Hq; right; exact Hp']).
      unfold frame_at in *. destruct F2 as [E2|(N2 & V2 & p2 & I2 & P2)].
      + destruct F1 as [E1|(N1 & V1 & P1)].
        * left. congruence.
        * right. split; [assumption|]. split; [congruence|]. exists (st :: p). split; [left; reflexivity | assumption].
      + destruct F1 as [E1|(N1 & V1 & P1)]; [|congruence].
        right. split; [congruence|]. split; [assumption|]. exists p2. split; [right; assumption | assumption].
    - inversion H; subst d1.
      destruct (sc_path (scan_key' (S (String.length s)) s)) as [|st p] eqn:P.
      + left. rewrite (NP d' eq_refl eq_refl). reflexivity.
      + assert (F1 : fop (st :: p) q (VMap d) (VMap d')) by (apply (F d' eq_refl); apply Hq; left; reflexivity).
        unfold frame_at. destruct F1 as [E1|(N1 & V1 & P1)]; [left; assumption|].
        right. split; [assumption|]. split; [assumption|]. exists (st :: p). split; [left; reflexivity | assumption].
  Qed.

  (* a pair's value is at its path in the final result when no later pair names a related path *)
  Theorem parse_loop2_value : forall f d s d',
    parse_loop2' f d s = POk d' ->
    forall pre p v post, pairs' f s = (pre ++ (p, Some v) :: post)%list ->
    keys_nonempty p = true ->
    (forall p', In p' (map fst post) -> drel false p' p = false) ->
    dget p (VMap d') = Some v.
  Proof.
    induction f as [|f IH]; intros d s d' H pre p v post Hp Hne Hpost; [destruct pre; discriminate|].
    rewrite parse_loop2_S in H. rewrite pairs_S in Hp.
    pose proof (proj1 (value_mutual mode rdr jdec (S (String.length s))) d 0 s) as V.
    pose proof (proj1 (rest_mutual mode rdr jdec (S (String.length s))) d 0 s) as Rst.
    destruct (sc_path (scan_key' (S (String.length s)) s)) as [|st p0] eqn:P; [destruct pre; discriminate|].
    destruct pre as [|x pre].
    - (* this pair *)
      simpl in Hp. inversion Hp as [[E1 E2 E3]]. subst p.
      specialize (V v E2 Hne).
      destruct (key2' (S (String.length s)) d 0 s) as [d1 rest|d1|d1|] eqn:K; try discriminate.
      + unfold KR in Rst. destruct Rst as [Hr _]. rewrite Hr in E3. unfold KV in V.
        assert (F2 : frame_at (names' f rest) (st :: p0) d1 d').
        { apply parse_loop2_frame; [assumption|]. rewrite names_pairs, E3. exact Hpost. }
        destruct F2 as [E|(N & _)]; congruence.
      + inversion H; subst d1. unfold KV in V. rewrite E2. exact (proj2 V).
    - (* a later pair *)
      simpl in Hp. inversion Hp as [[E1 E3]].
      destruct (key2' (S (String.length s)) d 0 s) as [d1 rest|d1|d1|] eqn:K; try discriminate.
      + unfold KR in Rst. destruct Rst as [Hr _]. rewrite Hr in E3.
        eapply IH; eauto.
      + (* the parse ended here with io.EOF: the scanner, too, says there is no further pair *)
        unfold KR in Rst. rewrite Rst in E3. destruct pre; discriminate.
  Qed.

  (* the public statements, at the fuel the entry points use *)
  Theorem parse2_frame : forall s dest d',
    parse2 mode rdr jdec s dest = POk d' ->
    forall q, (forall p, In p (names_of mode rdr jdec s) -> drel false p q = false) ->
    dget q (VMap d') = dget q (VMap dest)
    \/ (dget q (VMap dest) = None /\ dget q (VMap d') = Some VNull
        /\ exists p, In p (names_of mode rdr jdec s) /\ pad_pos p q = true).
  Proof. intros s dest d' H q Hq. exact (parse_loop2_frame _ _ _ _ H q Hq). Qed.

  Theorem parse2_value : forall s dest d',
    parse2 mode rdr jdec s dest = POk d' ->
    forall pre p v post, pairs_of mode rdr jdec s = (pre ++ (p, Some v) :: post)%list ->
    keys_nonempty p = true ->
    (forall p', In p' (map fst post) -> drel false p' p = false) ->
    dget p (VMap d') = Some v.
  Proof. intros s dest d' H. exact (parse_loop2_value _ _ _ _ H). Qed.
End Whole.

(* non-vacuity: nested indexes of depth 3, two pairs, a list that grows, an unrelated sibling *)
Definition ex3_dest : vmap := [("a", VList [VList [VNum 1]; VStr "keep"]); ("z", VMap [("k", VBool true)])].

Example ex_parse2_frame :
  parse_into2 "a[0][3][1]=x,b.c=2" ex3_dest
  = POk [("a", VList [VList [VNum 1; VNull; VNull; VList [VNull; VStr "x"]]; VStr "keep"]);
         ("z", VMap [("k", VBool true)]); ("b", VMap [("c", VNum 2)])]
  /\ names_of MTyped no_rdr no_jdec "a[0][3][1]=x,b.c=2" = [[SKey "a"; SIdx 0; SIdx 3; SIdx 1]; [SKey "b"; SKey "c"]]
  /\ pairs_of MTyped no_rdr no_jdec "a[0][3][1]=x,b.c=2"
     = [([SKey "a"; SIdx 0; SIdx 3; SIdx 1], Some (VStr "x")); ([SKey "b"; SKey "c"], Some (VNum 2))]
  /\ drel false [SKey "a"; SIdx 0; SIdx 3; SIdx 1] [SKey "a"; SIdx 1] = false
  /\ drel false [SKey "a"; SIdx 0; SIdx 3; SIdx 1] [SKey "a"; SIdx 0; SIdx 0] = false
  /\ pad_pos [SKey "a"; SIdx 0; SIdx 3; SIdx 1] [SKey "a"; SIdx 0; SIdx 2] = true
  /\ pad_pos [SKey "a"; SIdx 0; SIdx 3; SIdx 1] [SKey "a"; SIdx 0; SIdx 3; SIdx 0] = true
  /\ pad_pos [SKey "a"; SIdx 0; SIdx 3; SIdx 1] [SKey "a"; SIdx 0; SIdx 4] = false.
Proof. repeat split; reflexivity. Qed.

(* JSON-Schema documents as Helm evaluates them: an executable model of what
   pkg/chart/v2/util/jsonschema.go:ValidateAgainstSingleSchema does with the bytes of a
   values.schema.json through santhosh-tekuri/jsonschema/v6 (v6.0.1):

     UnmarshalJSON -> NewCompiler (NO DefaultDraft call: the default draft is the library's
     draftLatest = 2020-12) -> AddResource -> Compile (dialect from "$schema", the whole document
     checked against that dialect's metaschema) -> Validate.

   The schema is the parsed JSON document itself (a [val]); the model reads the keywords out of
   it the way objcompiler.go does, per draft:
     draft.go        draftFromURL, the version thresholds
     objcompiler.go  compileDraft4/6/7/2019/2020: which keyword is read under which draft
     validator.go    validate / objValidate / arrValidate / strValidate / numValidate /
                     condValidate, the cycle check of scope.checkCycle
     util.go         equals (numbers as rationals), duplicates
     metaschemas/    the type constraints of the modelled keywords ([meta_ok])

   Modelled keywords: $schema (root), $ref to "#", "#/$defs/N", "#/definitions/N" (draft-07: the
   siblings of $ref are ignored, except "const" - the library's behaviour), type, const, enum,
   allOf, anyOf, oneOf, not, if/then/else, properties, additionalProperties (boolean or schema),
   propertyNames, required, dependencies, dependentRequired, dependentSchemas,
   minProperties/maxProperties, items, prefixItems (2020-12), contains, minContains/maxContains,
   minItems/maxItems/uniqueItems, minimum/maximum/exclusiveMinimum/exclusiveMaximum, multipleOf,
   minLength/maxLength (code points), and the annotations.  Under draft-07 the keywords introduced
   later are not read (dependentRequired, dependentSchemas, minContains, maxContains, prefixItems,
   $defs as a keyword); under 2019-09 prefixItems is not read.  Keywords the library interprets
   but the model does not (pattern, patternProperties, format under draft-07, array-form items,
   additionalItems, unevaluated*, $id, $anchor, $dynamicRef, ...) make the document
   [VUnsupported]: no verdict is claimed.  Definitions only; proofs in Schema2Proofs.v. *)
From Coq Require Import List String Ascii Bool Arith ZArith NArith.
From Helm Require Import Values.Tree Chart.Utf8.
Import ListNotations.
Local Open Scope string_scope.

(* ---------- numbers: decimal spellings as mantissa * 10^exponent (big.Rat.SetString on the
   spelling fmt.Sprint gives; JSON number grammar) ---------- *)

Definition dec := (Z * Z)%type.

Definition digit_of (c : ascii) : option Z :=
  let n := nat_of_ascii c in
  if (48 <=? n)%nat && (n <=? 57)%nat then Some (Z.of_nat (n - 48)) else None.

(* the longest digit prefix: (accumulated value, number of digits, rest) *)
Fixpoint read_digits (s : string) (acc : Z) (n : nat) : Z * nat * string :=
  match s with
  | EmptyString => (acc, n, s)
  | String c t =>
      match digit_of c with
      | Some d => read_digits t (acc * 10 + d)%Z (S n)
      | None => (acc, n, s)
      end
  end.

Definition parse_exp (s : string) : option Z :=
  match s with
  | EmptyString => Some 0%Z
  | String c t =>
      if Ascii.eqb c "e" || Ascii.eqb c "E" then
        let '(neg, t') :=
          match t with
          | String "-" r => (true, r)
          | String "+" r => (false, r)
          | _ => (false, t)
          end in
        let '(ev, n, rest) := read_digits t' 0%Z 0 in
        match n, rest with
        | S _, EmptyString => Some (if neg then (- ev)%Z else ev)
        | _, _ => None
        end
      else None
  end.

Definition parse_dec (s : string) : option dec :=
  let '(neg, s1) := match s with String "-" r => (true, r) | _ => (false, s) end in
  let '(ip, n1, r1) := read_digits s1 0%Z 0 in
  match n1 with
  | O => None
  | S _ =>
      let '(mant, e0, r2) :=
        match r1 with
        | String "." r =>
            let '(fp, n2, r') := read_digits r ip 0 in
            (fp, (- Z.of_nat n2)%Z, match n2 with O => "?" | S _ => r' end)
        | _ => (ip, 0%Z, r1)
        end in
      match parse_exp r2 with
      | Some e => Some ((if neg then (- mant)%Z else mant), (e0 + e)%Z)
      | None => None
      end
  end.

Definition num_of (v : val) : option dec :=
  match v with
  | VNum n => Some (n, 0%Z)
  | VFlt s => parse_dec s
  | _ => None
  end.

Definition dec_cmp (a b : dec) : comparison :=
  let '(ma, ea) := a in
  let '(mb, eb) := b in
  let e := Z.min ea eb in
  Z.compare (ma * 10 ^ (ea - e))%Z (mb * 10 ^ (eb - e))%Z.

Definition dec_eqb (a b : dec) : bool := match dec_cmp a b with Eq => true | _ => false end.
Definition dec_leb (a b : dec) : bool := match dec_cmp a b with Gt => false | _ => true end.
Definition dec_ltb (a b : dec) : bool := match dec_cmp a b with Lt => true | _ => false end.

(* big.Rat.IsInt *)
Definition dec_is_int (a : dec) : bool :=
  let '(m, e) := a in
  if (0 <=? e)%Z then true else Z.eqb (m mod 10 ^ (- e))%Z 0%Z.

Definition dec_to_Z (a : dec) : Z :=
  let '(m, e) := a in
  if (0 <=? e)%Z then (m * 10 ^ e)%Z else (m / 10 ^ (- e))%Z.

(* Quo(v, m).IsInt, m <> 0 *)
Definition dec_multiple (v m : dec) : bool :=
  let '(mv, ev) := v in
  let '(mm, em) := m in
  let e := Z.min ev em in
  let a := (mv * 10 ^ (ev - e))%Z in
  let b := (mm * 10 ^ (em - e))%Z in
  Z.eqb (a mod b)%Z 0%Z.

Definition is_number (v : val) : bool :=
  match v with VNum _ | VFlt _ => true | _ => false end.

(* ---------- util.go:equals ---------- *)

Fixpoint json_eq (a b : val) {struct a} : bool :=
  match a, b with
  | VNull, VNull => true
  | VBool x, VBool y => Bool.eqb x y
  | VStr x, VStr y => String.eqb x y
  | VNum x, VNum y => Z.eqb x y
  | VNum _, VFlt _ | VFlt _, VNum _ | VFlt _, VFlt _ =>
      match num_of a, num_of b with
      | Some p, Some q => dec_eqb p q
      | _, _ => false
      end
  | VList l1, VList l2 =>
      (fix go (l1 l2 : list val) : bool :=
         match l1, l2 with
         | [], [] => true
         | x :: t1, y :: t2 => json_eq x y && go t1 t2
         | _, _ => false
         end) l1 l2
  | VMap m1, VMap m2 =>
      Nat.eqb (List.length m1) (List.length m2)
      && (fix go (m : list (string * val)) : bool :=
            match m with
            | [] => true
            | (k, x) :: t =>
                match mget k m2 with
                | Some y => json_eq x y
                | None => false
                end && go t
            end) m1
  | _, _ => false
  end.

(* util.go:duplicates: some later element equals an earlier one *)
Fixpoint has_dup (l : list val) : bool :=
  match l with
  | [] => false
  | x :: t => existsb (json_eq x) t || has_dup t
  end.

(* ---------- utf8.RuneCount ---------- *)

Fixpoint rune_count_fuel (fuel : nat) (s : string) : nat :=
  match fuel with
  | O => O
  | S f =>
      match s with
      | EmptyString => O
      | _ => let '(_, n) := decode_rune s in S (rune_count_fuel f (sdrop n s))
      end
  end.
Definition rune_count (s : string) : nat := rune_count_fuel (String.length s) s.

(* ---------- drafts and "$schema" (draft.go:draftFromURL, loader.go:getDraft) ---------- *)

Inductive draft := D7 | D2019 | D2020.

Definition ge2019 (d : draft) : bool := match d with D7 => false | _ => true end.
Definition ge2020 (d : draft) : bool := match d with D2020 => true | _ => false end.
Definition draft_eqb (a b : draft) : bool :=
  match a, b with D7, D7 | D2019, D2019 | D2020, D2020 => true | _, _ => false end.

(* Helm creates the compiler with jsonschema.NewCompiler() and never calls DefaultDraft:
   roots.defaultDraft stays draftLatest *)
Definition library_latest : draft := D2020.
Definition helm_default_draft : draft := library_latest.

Inductive dialect_res := DialOk (d : draft) | DialError | DialUnsupported.

Fixpoint has_char (c : ascii) (s : string) : bool :=
  match s with
  | EmptyString => false
  | String x t => Ascii.eqb x c || has_char c t
  end.

(* s without one trailing "#" *)
Fixpoint drop_last_hash (s : string) : string :=
  match s with
  | EmptyString => EmptyString
  | String c EmptyString => if Ascii.eqb c "#" then EmptyString else s
  | String c t => String c (drop_last_hash t)
  end.

Definition after_prefix (p s : string) : option string :=
  if String.prefix p s then Some (substring (String.length p) (String.length s - String.length p) s)
  else None.

Definition classify_schema_url (u : string) : dialect_res :=
  let u1 := drop_last_hash u in
  if has_char "#" u1 then DialUnsupported          (* a non-empty fragment *)
  else
    match (match after_prefix "http://" u1 with Some r => Some r | None => after_prefix "https://" u1 end) with
    | None => DialUnsupported                       (* relative, file:, urn: ... *)
    | Some r =>
        if String.eqb r "json-schema.org/schema" then DialOk library_latest
        else if String.eqb r "json-schema.org/draft/2020-12/schema" then DialOk D2020
        else if String.eqb r "json-schema.org/draft/2019-09/schema" then DialOk D2019
        else if String.eqb r "json-schema.org/draft-07/schema" then DialOk D7
        else if String.prefix "json-schema.org/" r then DialUnsupported   (* draft-04/06, vocabulary metas *)
        else DialError                              (* no loader for http(s): the compile fails *)
    end.

Definition dialect_of (dflt : draft) (doc : val) : dialect_res :=
  match doc with
  | VMap m =>
      match mget "$schema" m with
      | Some (VStr u) => classify_schema_url u
      | _ => DialOk dflt        (* absent, or not a string (then the metaschema rejects it) *)
      end
  | _ => DialOk dflt
  end.

(* ---------- which keyword the library reads under which draft, and its metaschema type ---------- *)

Inductive kind :=
| KSchema | KSchemaArr | KSchemaMap
| KDeps            (* object: schema or string array *)
| KItems           (* schema, or (draft-07 / 2019-09) a schema array *)
| KType | KEnum7 | KList | KStrArr | KStrArrMap
| KNonNeg | KNumber | KPosNumber | KBool | KString | KAny
| KRef | KSchemaURI.

(* (keyword, (metaschema kind, modelled?)) *)
Definition kw_common : list (string * (kind * bool)) :=
  [ ("$ref", (KRef, true)); ("$schema", (KSchemaURI, true)); ("$id", (KString, false));
    ("$comment", (KString, true)); ("title", (KString, true)); ("description", (KString, true));
    ("default", (KAny, true)); ("readOnly", (KBool, true)); ("writeOnly", (KBool, true));
    ("examples", (KList, true));
    ("multipleOf", (KPosNumber, true)); ("maximum", (KNumber, true)); ("minimum", (KNumber, true));
    ("exclusiveMaximum", (KNumber, true)); ("exclusiveMinimum", (KNumber, true));
    ("maxLength", (KNonNeg, true)); ("minLength", (KNonNeg, true));
    ("maxItems", (KNonNeg, true)); ("minItems", (KNonNeg, true));
    ("maxProperties", (KNonNeg, true)); ("minProperties", (KNonNeg, true));
    ("pattern", (KString, false)); ("uniqueItems", (KBool, true));
    ("contains", (KSchema, true)); ("required", (KStrArr, true));
    ("additionalProperties", (KSchema, true)); ("definitions", (KSchemaMap, true));
    ("properties", (KSchemaMap, true)); ("patternProperties", (KSchemaMap, false));
    ("dependencies", (KDeps, true)); ("propertyNames", (KSchema, true));
    ("const", (KAny, true)); ("type", (KType, true));
    ("contentMediaType", (KString, true)); ("contentEncoding", (KString, true));
    ("if", (KSchema, true)); ("then", (KSchema, true)); ("else", (KSchema, true)); ("not", (KSchema, true));
    ("allOf", (KSchemaArr, true)); ("anyOf", (KSchemaArr, true)); ("oneOf", (KSchemaArr, true)) ].

Definition kw_2019 : list (string * (kind * bool)) :=
  [ ("enum", (KList, true)); ("$defs", (KSchemaMap, true)); ("$anchor", (KString, false));
    ("$recursiveRef", (KString, false)); ("$recursiveAnchor", (KAny, false)); ("$vocabulary", (KAny, false));
    ("dependentSchemas", (KSchemaMap, true)); ("dependentRequired", (KStrArrMap, true));
    ("minContains", (KNonNeg, true)); ("maxContains", (KNonNeg, true));
    ("unevaluatedItems", (KSchema, false)); ("unevaluatedProperties", (KSchema, false));
    ("contentSchema", (KSchema, false)); ("deprecated", (KBool, true));
    ("format", (KString, true)) ].        (* annotation only: Helm does not call AssertFormat *)

Definition kw_table (dr : draft) : list (string * (kind * bool)) :=
  match dr with
  | D7 =>
      (kw_common ++ [ ("enum", (KEnum7, true)); ("items", (KItems, true));
                      ("additionalItems", (KSchema, false));
                      ("format", (KString, false)) ])%list           (* asserted under draft-07 *)
  | D2019 =>
      (kw_common ++ kw_2019 ++ [ ("items", (KItems, true)); ("additionalItems", (KSchema, false)) ])%list
  | D2020 =>
      (kw_common ++ kw_2019 ++ [ ("items", (KSchema, true)); ("prefixItems", (KSchemaArr, true));
                                 ("$dynamicRef", (KString, false)); ("$dynamicAnchor", (KString, false)) ])%list
  end.

Fixpoint assoc {A} (k : string) (l : list (string * A)) : option A :=
  match l with
  | [] => None
  | (k', a) :: t => if String.eqb k k' then Some a else assoc k t
  end.

Definition kw_info (dr : draft) (k : string) : option (kind * bool) := assoc k (kw_table dr).

(* does the library read keyword k under draft dr, and does the model carry it? *)
Definition kw_active (dr : draft) (k : string) : bool :=
  match kw_info dr k with Some (_, true) => true | _ => false end.

Definition simple_type (t : string) : bool :=
  existsb (String.eqb t) ["array"; "boolean"; "integer"; "null"; "number"; "object"; "string"].

Definition str_arr_ok (l : list val) : bool :=
  forallb (fun x => match x with VStr _ => true | _ => false end) l && negb (has_dup l).

Definition nonneg_int (x : val) : bool :=
  match num_of x with
  | Some d => is_number x && dec_is_int d && dec_leb (0%Z, 0%Z) d
  | None => false
  end.

(* ---------- the metaschema check (roots.validate), restricted to the keywords of kw_table ---------- *)

Fixpoint meta_ok (dr : draft) (s : val) {struct s} : bool :=
  match s with
  | VBool _ => true
  | VMap m =>
      (fix members (m : list (string * val)) : bool :=
         match m with
         | [] => true
         | (k, x) :: t =>
             match kw_info dr k with
             | None => true
             | Some (kd, _) =>
                 match kd with
                 | KSchema => meta_ok dr x
                 | KSchemaArr =>
                     match x with
                     | VList (y :: l) =>
                         (fix all (l : list val) : bool :=
                            match l with [] => true | z :: l' => meta_ok dr z && all l' end) (y :: l)
                     | _ => false
                     end
                 | KSchemaMap =>
                     match x with
                     | VMap mm =>
                         (fix all (mm : list (string * val)) : bool :=
                            match mm with [] => true | (_, z) :: mm' => meta_ok dr z && all mm' end) mm
                     | _ => false
                     end
                 | KDeps =>
                     match x with
                     | VMap mm =>
                         (fix all (mm : list (string * val)) : bool :=
                            match mm with
                            | [] => true
                            | (_, z) :: mm' =>
                                match z with
                                | VList l => str_arr_ok l
                                | _ => meta_ok dr z
                                end && all mm'
                            end) mm
                     | _ => false
                     end
                 | KItems =>
                     match x with
                     | VList (y :: l) =>
                         (fix all (l : list val) : bool :=
                            match l with [] => true | z :: l' => meta_ok dr z && all l' end) (y :: l)
                     | VList [] => false
                     | _ => meta_ok dr x
                     end
                 | KType =>
                     match x with
                     | VStr t => simple_type t
                     | VList (y :: l) =>
                         forallb (fun z => match z with VStr t => simple_type t | _ => false end) (y :: l)
                         && negb (has_dup (y :: l))
                     | _ => false
                     end
                 | KEnum7 => match x with VList (y :: l) => negb (has_dup (y :: l)) | _ => false end
                 | KList => match x with VList _ => true | _ => false end
                 | KStrArr => match x with VList l => str_arr_ok l | _ => false end
                 | KStrArrMap =>
                     match x with
                     | VMap mm => forallb (fun kv => match snd kv with VList l => str_arr_ok l | _ => false end) mm
                     | _ => false
                     end
                 | KNonNeg => nonneg_int x
                 | KNumber => match num_of x with Some _ => is_number x | None => false end
                 | KPosNumber => match num_of x with Some d => is_number x && dec_ltb (0%Z, 0%Z) d | None => false end
                 | KBool => match x with VBool _ => true | _ => false end
                 | KString | KRef | KSchemaURI => match x with VStr _ => true | _ => false end
                 | KAny => true
                 end
             end && members t
         end) m
  | _ => false
  end.

(* ---------- JSON pointers of schema locations, "$ref" ---------- *)

Inductive tok := TK (s : string) | TI (n : nat).
Definition ptr := list tok.

Definition tok_eqb (a b : tok) : bool :=
  match a, b with
  | TK x, TK y => String.eqb x y
  | TI x, TI y => Nat.eqb x y
  | _, _ => false
  end.

Fixpoint ptr_eqb (a b : ptr) : bool :=
  match a, b with
  | [], [] => true
  | x :: s, y :: t => tok_eqb x y && ptr_eqb s t
  | _, _ => false
  end.

Definition ptr_mem (p : ptr) (l : list ptr) : bool := existsb (ptr_eqb p) l.

(* characters a definition name may have for the model to follow the reference: no escapes *)
Definition plain_char (c : ascii) : bool :=
  let n := nat_of_ascii c in
  ((48 <=? n) && (n <=? 57) || (65 <=? n) && (n <=? 90) || (97 <=? n) && (n <=? 122)
   || (n =? 95) || (n =? 45) || (n =? 46))%nat.

Fixpoint plain_name (s : string) : bool :=
  match s with
  | EmptyString => true
  | String c t => plain_char c && plain_name t
  end.

Definition parse_ref (r : string) : option ptr :=
  if String.eqb r "#" then Some []
  else match after_prefix "#/$defs/" r with
       | Some n => if plain_name n && negb (String.eqb n "") then Some [TK "$defs"; TK n] else None
       | None =>
           match after_prefix "#/definitions/" r with
           | Some n => if plain_name n && negb (String.eqb n "") then Some [TK "definitions"; TK n] else None
           | None => None
           end
       end.

Fixpoint lookup_ptr (root : val) (p : ptr) : option val :=
  match p with
  | [] => Some root
  | TK k :: p' =>
      match root with
      | VMap m => match mget k m with Some x => lookup_ptr x p' | None => None end
      | _ => None
      end
  | TI i :: p' =>
      match root with
      | VList l => match nth_error l i with Some x => lookup_ptr x p' | None => None end
      | _ => None
      end
  end.

(* ---------- which documents the model gives a verdict for ---------- *)

Definition small_int (x : val) : bool :=
  match num_of x with
  | Some d => if dec_is_int d then (Z.abs (dec_to_Z d) <? 2147483648)%Z else true
  | None => negb (is_number x)
  end.

(* every number of a JSON value has a spelling the model reads *)
Fixpoint nums_ok (v : val) : bool :=
  match v with
  | VFlt s => match parse_dec s with Some _ => true | None => false end
  | VList l => (fix all (l : list val) : bool := match l with [] => true | x :: t => nums_ok x && all t end) l
  | VMap m => (fix all (m : list (string * val)) : bool := match m with [] => true | (_, x) :: t => nums_ok x && all t end) m
  | _ => true
  end.

Fixpoint keys_unique (m : list (string * val)) : bool :=
  match m with
  | [] => true
  | (k, _) :: t => negb (existsb (fun kv => String.eqb k (fst kv)) t) && keys_unique t
  end.

Fixpoint supported (dr : draft) (root : val) (at_root : bool) (s : val) {struct s} : bool :=
  match s with
  | VMap m =>
      keys_unique m &&
      (fix members (m : list (string * val)) : bool :=
         match m with
         | [] => true
         | (k, x) :: t =>
             match kw_info dr k with
             | None =>
                 (* draft-07 does not know "$defs" but a "$ref" may point into it: then the library
                    checks the target lazily; the model wants every entry well-formed *)
                 if String.eqb k "$defs" then
                   match x with
                   | VMap mm =>
                       (fix all (mm : list (string * val)) : bool :=
                          match mm with
                          | [] => true
                          | (_, z) :: mm' => supported dr root false z && meta_ok dr z && all mm'
                          end) mm
                   | _ => true
                   end
                 else true
             | Some (_, false) => false
             | Some (kd, true) =>
                 nums_ok x &&
                 match kd with
                 | KSchema => supported dr root false x
                 | KSchemaArr =>
                     match x with
                     | VList l =>
                         (fix all (l : list val) : bool :=
                            match l with [] => true | z :: l' => supported dr root false z && all l' end) l
                     | _ => true
                     end
                 | KSchemaMap =>
                     match x with
                     | VMap mm =>
                         keys_unique mm &&
                         (fix all (mm : list (string * val)) : bool :=
                            match mm with [] => true | (_, z) :: mm' => supported dr root false z && all mm' end) mm
                     | _ => true
                     end
                 | KDeps =>
                     match x with
                     | VMap mm =>
                         keys_unique mm &&
                         (fix all (mm : list (string * val)) : bool :=
                            match mm with
                            | [] => true
                            | (_, z) :: mm' =>
                                match z with VList _ => true | _ => supported dr root false z end && all mm'
                            end) mm
                     | _ => true
                     end
                 | KItems => match x with VList _ => false | _ => supported dr root false x end
                 | KRef =>
                     match x with
                     | VStr r =>
                         match parse_ref r with
                         | Some p =>
                             match lookup_ptr root p with
                             | Some (VMap _) | Some (VBool _) => true
                             | _ => false
                             end
                         | None => false
                         end
                     | _ => true
                     end
                 | KSchemaURI => at_root
                 | KNonNeg => small_int x
                 | KStrArrMap => match x with VMap mm => keys_unique mm | _ => true end
                 | _ => true
                 end
             end && members t
         end) m
  | _ => true
  end.

(* ---------- the evaluation (validator.go) ---------- *)

Definition oand (a b : option bool) : option bool :=
  match a, b with Some x, Some y => Some (x && y) | _, _ => None end.

Fixpoint oall (l : list (option bool)) : option bool :=
  match l with [] => Some true | a :: t => oand a (oall t) end.

(* how many are [Some true]; None if one of them has no verdict *)
Fixpoint ocount (l : list (option bool)) : option nat :=
  match l with
  | [] => Some O
  | a :: t =>
      match a, ocount t with
      | Some b, Some n => Some (if b then S n else n)
      | _, _ => None
      end
  end.

Fixpoint mapi_from {A B} (i : nat) (f : nat -> A -> B) (l : list A) : list B :=
  match l with [] => [] | x :: t => f i x :: mapi_from (S i) f t end.

Definition opt_z (o : option Z) (f : Z -> bool) : bool := match o with Some n => f n | None => true end.
Definition opt_d (o : option dec) (f : dec -> bool) : bool := match o with Some n => f n | None => true end.

(* schema.go:typeOf / Types.contains, with "integer" matching integral numbers *)
Definition type_matches (t : string) (v : val) : bool :=
  match v with
  | VNull => String.eqb t "null"
  | VBool _ => String.eqb t "boolean"
  | VStr _ => String.eqb t "string"
  | VList _ => String.eqb t "array"
  | VMap _ => String.eqb t "object"
  | VNum _ | VFlt _ =>
      String.eqb t "number"
      || (String.eqb t "integer" && match num_of v with Some d => dec_is_int d | None => false end)
  end.

Section Eval.
  Variable dr : draft.
  Variable m : vmap.                 (* the schema object, not empty *)
  Variable here : ptr.               (* its location in the document *)

  (* objcompiler.go value helpers *)
  Definition kw (k : string) : option val := if kw_active dr k then mget k m else None.
  Definition int_kw (k : string) : option Z :=
    match kw k with
    | Some x => match num_of x with Some d => if dec_is_int d then Some (dec_to_Z d) else None | None => None end
    | None => None
    end.
  Definition num_kw (k : string) : option dec :=
    match kw k with Some x => if is_number x then num_of x else None | None => None end.

  Definition at_kw (k : string) : ptr := (here ++ [TK k])%list.
  Definition at_kw2 (k k2 : string) : ptr := (here ++ [TK k; TK k2])%list.
  Definition at_idx (k : string) (i : nat) : ptr := (here ++ [TK k; TI i])%list.

  (* --- assertions without subschemas --- *)

  Definition p_type (v : val) : bool :=
    match kw "type" with
    | Some (VStr t) => if simple_type t then type_matches t v else true
    | Some (VList ts) =>
        let names := flat_map (fun x => match x with VStr t => if simple_type t then [t] else [] | _ => [] end) ts in
        match names with [] => true | _ => existsb (fun t => type_matches t v) names end
    | _ => true
    end.

  Definition p_const (v : val) : bool :=
    match kw "const" with Some c => json_eq v c | None => true end.

  Definition p_enum (v : val) : bool :=
    match kw "enum" with Some (VList items) => existsb (json_eq v) items | _ => true end.

  Definition str_names (l : list val) : list string :=
    flat_map (fun x => match x with VStr n => [n] | _ => [] end) l.

  Definition p_required (o : vmap) : bool :=
    match kw "required" with Some (VList l) => forallb (fun n => mhas n o) (str_names l) | _ => true end.

  (* the array entries of a dependency object: when the key is present, so are the listed ones *)
  Definition dep_lists_ok (deps : vmap) (o : vmap) : bool :=
    forallb (fun kd => match snd kd with
                       | VList l => negb (mhas (fst kd) o) || forallb (fun n => mhas n o) (str_names l)
                       | _ => true
                       end) deps.

  Definition p_dependent_required (o : vmap) : bool :=
    match kw "dependentRequired" with Some (VMap deps) => dep_lists_ok deps o | _ => true end.

  Definition p_dependencies_lists (o : vmap) : bool :=
    match kw "dependencies" with Some (VMap deps) => dep_lists_ok deps o | _ => true end.

  Definition p_prop_count (o : vmap) : bool :=
    opt_z (int_kw "minProperties") (fun n => (n <=? Z.of_nat (List.length o))%Z)
    && opt_z (int_kw "maxProperties") (fun n => (Z.of_nat (List.length o) <=? n)%Z).

  Definition p_item_count (a : list val) : bool :=
    opt_z (int_kw "minItems") (fun n => (n <=? Z.of_nat (List.length a))%Z)
    && opt_z (int_kw "maxItems") (fun n => (Z.of_nat (List.length a) <=? n)%Z).

  Definition p_unique (a : list val) : bool :=
    match kw "uniqueItems" with Some (VBool true) => negb (has_dup a) | _ => true end.

  Definition p_length (s : string) : bool :=
    opt_z (int_kw "minLength") (fun n => (n <=? Z.of_nat (rune_count s))%Z)
    && opt_z (int_kw "maxLength") (fun n => (Z.of_nat (rune_count s) <=? n)%Z).

  Definition p_bounds (x : dec) : bool :=
    opt_d (num_kw "minimum") (fun b => dec_leb b x)
    && opt_d (num_kw "maximum") (fun b => dec_leb x b)
    && opt_d (num_kw "exclusiveMinimum") (fun b => dec_ltb b x)
    && opt_d (num_kw "exclusiveMaximum") (fun b => dec_ltb x b)
    && opt_d (num_kw "multipleOf") (fun b => dec_multiple x b).

  Definition p_contains_count (c : nat) : bool :=
    match int_kw "minContains" with
    | Some n => (n <=? Z.of_nat c)%Z
    | None => (1 <=? c)%nat
    end
    && opt_z (int_kw "maxContains") (fun n => (Z.of_nat c <=? n)%Z).

  (* --- applicators: [self p s] evaluates subschema s (at p) on the same value, [child p s x]
         on a member x of the value --- *)
  Variable self : ptr -> val -> option bool.
  Variable follow : ptr -> option bool.                        (* "$ref": evaluate the schema found at that location *)
  Variable child : ptr -> val -> val -> option bool.
  Variable name_check : ptr -> val -> string -> option bool.   (* propertyNames: a fresh validation of the key *)

  Definition a_self_kw (k : string) : option bool :=
    match kw k with Some s => self (at_kw k) s | None => Some true end.

  Definition a_ref : option bool :=
    match kw "$ref" with
    | Some (VStr r) =>
        match parse_ref r with
        | Some p => follow p
        | None => None
        end
    | _ => Some true
    end.

  Definition a_not : option bool :=
    match kw "not" with Some s => option_map negb (self (at_kw "not") s) | None => Some true end.

  Definition a_all_of : option bool :=
    match kw "allOf" with
    | Some (VList l) => oall (mapi_from 0 (fun i s => self (at_idx "allOf" i) s) l)
    | _ => Some true
    end.

  Definition a_any_of : option bool :=
    match kw "anyOf" with
    | Some (VList (s0 :: l)) =>
        option_map (fun c => (1 <=? c)%nat) (ocount (mapi_from 0 (fun i s => self (at_idx "anyOf" i) s) (s0 :: l)))
    | _ => Some true
    end.

  Definition a_one_of : option bool :=
    match kw "oneOf" with
    | Some (VList (s0 :: l)) =>
        option_map (fun c => (c =? 1)%nat) (ocount (mapi_from 0 (fun i s => self (at_idx "oneOf" i) s) (s0 :: l)))
    | _ => Some true
    end.

  Definition a_if : option bool :=
    match kw "if" with
    | Some s =>
        match self (at_kw "if") s with
        | Some true => a_self_kw "then"
        | Some false => a_self_kw "else"
        | None => None
        end
    | None => Some true
    end.

  (* properties / additionalProperties: every member of the object *)
  Definition a_member (pname : string) (pvalue : val) : option bool :=
    match (match kw "properties" with Some (VMap ps) => mget pname ps | _ => None end) with
    | Some sp => child (at_kw2 "properties" pname) sp pvalue
    | None =>
        match kw "additionalProperties" with
        | Some sa => child (at_kw "additionalProperties") sa pvalue
        | None => Some true
        end
    end.

  Definition a_properties (o : vmap) : option bool :=
    oall (map (fun kv => a_member (fst kv) (snd kv)) o).

  Definition a_property_names (o : vmap) : option bool :=
    match kw "propertyNames" with
    | Some sn => oall (map (fun kv => name_check (at_kw "propertyNames") sn (fst kv)) o)
    | None => Some true
    end.

  (* the schema entries of a dependency object apply to the whole object when the key is present *)
  Definition a_dep_schemas (k : string) (o : vmap) : option bool :=
    match kw k with
    | Some (VMap deps) =>
        oall (map (fun kd => match snd kd with
                             | VList _ => Some true          (* an array entry: [dep_lists_ok] *)
                             | s => if mhas (fst kd) o then self (at_kw2 k (fst kd)) s else Some true
                             end) deps)
    | _ => Some true
    end.

  Definition a_items (a : list val) : option bool :=
    if ge2020 dr then
      let prefix := match kw "prefixItems" with Some (VList ps) => ps | _ => [] end in
      oall (mapi_from 0 (fun i x =>
                           match nth_error prefix i with
                           | Some sp => child (at_idx "prefixItems" i) sp x
                           | None =>
                               match kw "items" with
                               | Some si => child (at_kw "items") si x
                               | None => Some true
                               end
                           end) a)
    else
      match kw "items" with
      | Some (VList _) => None                       (* array form: not modelled *)
      | Some si => oall (map (fun x => child (at_kw "items") si x) a)
      | None => Some true
      end.

  Definition a_contains (a : list val) : option bool :=
    match kw "contains" with
    | Some sc => option_map p_contains_count (ocount (map (fun x => child (at_kw "contains") sc x) a))
    | None => Some true
    end.

  Definition by_kind (v : val) : option bool :=
    match v with
    | VMap o =>
        oall [ Some (p_prop_count o); Some (p_required o); Some (p_dependencies_lists o);
               a_dep_schemas "dependencies" o;
               a_properties o; a_property_names o;
               a_dep_schemas "dependentSchemas" o; Some (p_dependent_required o) ]
    | VList a =>
        oall [ Some (p_item_count a); Some (p_unique a); a_items a; a_contains a ]
    | VStr s => Some (p_length s)
    | VNum _ | VFlt _ => match num_of v with Some x => Some (p_bounds x) | None => None end
    | _ => Some true
    end.

  (* validator.validate for an object schema.  Before 2019-09 a "$ref" hides its siblings - except
     that the library still compiles "const" (compileDraft6 runs after compileDraft4 returned) and
     checks it before following the reference. *)
  Definition step (v : val) : option bool :=
    if negb (ge2019 dr) && match kw "$ref" with Some (VStr _) => true | _ => false end
    then oand (Some (p_const v)) a_ref
    else oall [ Some (p_type v); Some (p_const v); Some (p_enum v); a_ref; by_kind v;
                a_not; a_all_of; a_any_of; a_one_of; a_if ].
End Eval.

Section Run.
  Variable root : val.
  Variable dr : draft.

  (* [seen]: the schema locations already being evaluated on this very value (scope.checkCycle) *)
  Fixpoint ev (fuel : nat) (seen : list ptr) (p : ptr) (s v : val) {struct fuel} : option bool :=
    match fuel with
    | O => None
    | S f =>
        match s with
        | VBool b => Some b
        | VMap [] => Some true
        | VMap m =>
            if ptr_mem p seen then Some false
            else
              step dr m p
                   (fun q s' => ev f (p :: seen) q s' v)
                   (fun q => match lookup_ptr root q with
                             | Some t => ev f (p :: seen) q t v
                             | None => None
                             end)
                   (fun q s' x => ev f [] q s' x)
                   (fun q s' k => ev f [] q s' (VStr k))
                   v
        | _ => None
        end
    end.
End Run.

Fixpoint val_size (v : val) : nat :=
  match v with
  | VList l => S ((fix go (l : list val) : nat := match l with [] => O | x :: t => val_size x + go t end) l)
  | VMap m => S ((fix go (m : list (string * val)) : nat := match m with [] => O | (_, x) :: t => val_size x + go t end) m)
  | _ => 1
  end.

Fixpoint val_depth (v : val) : nat :=
  match v with
  | VList l => S ((fix go (l : list val) : nat := match l with [] => O | x :: t => Nat.max (val_depth x) (go t) end) l)
  | VMap m => S ((fix go (m : list (string * val)) : nat := match m with [] => O | (_, x) :: t => Nat.max (val_depth x) (go t) end) m)
  | _ => O
  end.

(* on one value at most every schema location once (then the cycle check stops the descent), and
   the value gets smaller with every [child] step *)
Definition fuel_of (doc v : val) : nat := (val_size doc + 2) * (val_depth v + 3).

Inductive verdict := VOk | VViolation | VSchemaError | VUnsupported | VFuel.

Definition verdict_eqb (a b : verdict) : bool :=
  match a, b with
  | VOk, VOk | VViolation, VViolation | VSchemaError, VSchemaError
  | VUnsupported, VUnsupported | VFuel, VFuel => true
  | _, _ => false
  end.

(* Compile + Validate once the dialect of the root resource is known *)
Definition run_with (dl : dialect_res) (doc v : val) : verdict :=
  match dl with
  | DialError => VSchemaError
  | DialUnsupported => VUnsupported
  | DialOk dr =>
      if negb (supported dr doc true doc && nums_ok v) then VUnsupported
      else if negb (meta_ok dr doc) then VSchemaError
      else match ev doc dr (fuel_of doc v) [] [] doc v with
           | Some true => VOk
           | Some false => VViolation
           | None => VFuel
           end
  end.

(* ValidateAgainstSingleSchema with a compiler whose default draft is [dflt] *)
Definition run (dflt : draft) (doc v : val) : verdict :=
  match doc with
  | VMap _ | VBool _ => run_with (dialect_of dflt doc) doc v
  | _ => VUnsupported
  end.

(* Helm's call *)
Definition doc_verdict (doc v : val) : verdict := run helm_default_draft doc v.

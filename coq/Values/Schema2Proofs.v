(* Proofs about Values/Schema2.v: what each keyword check of the model means (statements a reader
   can hold against the JSON-Schema drafts), how [step] / [ev] decompose, the default dialect. *)
From Coq Require Import List String Ascii Bool Arith ZArith NArith Lia.
From Helm Require Import Common.Strs Values.Tree Chart.Utf8 Values.Schema2.
Import ListNotations.
Local Open Scope string_scope.

(* ---------- three-valued conjunction and counting ---------- *)

Lemma oall_true_iff : forall l, oall l = Some true <-> forall x, In x l -> x = Some true.
Proof.
  induction l as [|a t IH]; simpl.
  - split; [intros _ x []|reflexivity].
  - split.
    + intros H x [<-|Hx].
      * destruct a as [[|]|]; simpl in H; try discriminate; [reflexivity|].
        destruct (oall t) as [[|]|]; discriminate.
      * apply IH; [|exact Hx]. destruct a as [[|]|], (oall t) as [[|]|]; simpl in H; try discriminate; reflexivity.
    + intros H. rewrite (H a (or_introl eq_refl)).
      rewrite (proj2 IH (fun x Hx => H x (or_intror Hx))). reflexivity.
Qed.

Lemma oall_some : forall l b, oall l = Some b -> forall x, In x l -> exists c, x = Some c.
Proof.
  induction l as [|a t IH]; simpl; intros b H x Hx; [contradiction|].
  destruct a as [c|]; [|discriminate]. destruct (oall t) as [d|] eqn:E; [|discriminate].
  destruct Hx as [<-|Hx]; [now exists c|]. now apply (IH d).
Qed.

Lemma oall_false : forall l, oall l = Some false -> exists x, In x l /\ x = Some false.
Proof.
  induction l as [|a t IH]; simpl; intros H; [discriminate|].
  destruct a as [[|]|]; try discriminate.
  - destruct (oall t) as [[|]|] eqn:E; try discriminate.
    destruct (IH eq_refl) as (x & Hx & Hf). exists x. split; [now right|exact Hf].
  - exists (Some false). split; [now left|reflexivity].
Qed.

Fixpoint count_true (l : list (option bool)) : nat :=
  match l with
  | [] => O
  | Some true :: t => S (count_true t)
  | _ :: t => count_true t
  end.

Lemma ocount_some : forall l n, ocount l = Some n ->
  n = count_true l /\ forall x, In x l -> exists c, x = Some c.
Proof.
  induction l as [|a t IH]; simpl; intros n H.
  - injection H as <-. split; [reflexivity|intros x []].
  - destruct a as [b|]; [|discriminate]. destruct (ocount t) as [k|] eqn:E; [|discriminate].
    destruct (IH k eq_refl) as (-> & Hall). injection H as <-. split.
    + destruct b; reflexivity.
    + intros x [<-|Hx]; [now exists b|now apply Hall].
Qed.

Lemma count_true_pos : forall l, (1 <= count_true l)%nat <-> In (Some true) l.
Proof.
  induction l as [|a t IH]; simpl; [split; [lia|intros []]|].
  destruct a as [[|]|]; simpl.
  - split; [now left|lia].
  - rewrite IH. split; [now right|intros [H|H]; [discriminate|exact H]].
  - rewrite IH. split; [now right|intros [H|H]; [discriminate|exact H]].
Qed.

Lemma in_mapi_from : forall {A B} (f : nat -> A -> B) l k y,
  In y (mapi_from k f l) <-> exists i a, nth_error l i = Some a /\ y = f (k + i)%nat a.
Proof.
  intros A B f. induction l as [|x t IH]; simpl; intros k y.
  - split; [intros []|intros (i & a & H & _); destruct i; discriminate].
  - split.
    + intros [<-|H].
      * exists O, x. split; [reflexivity|]. now rewrite Nat.add_0_r.
      * apply IH in H as (i & a & Hn & ->). exists (S i), a. split; [exact Hn|]. f_equal. lia.
    + intros (i & a & Hn & ->). destruct i as [|i]; simpl in Hn.
      * injection Hn as ->. left. now rewrite Nat.add_0_r.
      * right. apply IH. exists i, a. split; [exact Hn|]. f_equal. lia.
Qed.

(* ---------- which draft reads which keyword ---------- *)

Definition later_keywords : list string :=
  ["dependentRequired"; "dependentSchemas"; "minContains"; "maxContains"; "$defs"].

(* 2020-12 (Helm's default) reads every modelled keyword ... *)
Lemma full_vocabulary_2020 :
  forallb (kw_active D2020)
          (later_keywords ++ ["prefixItems"; "items"; "contains"; "const"; "enum"; "type"; "allOf"; "anyOf"; "oneOf"; "not";
             "if"; "then"; "else"; "properties"; "additionalProperties"; "propertyNames"; "required"; "dependencies";
             "minProperties"; "maxProperties"; "minItems"; "maxItems"; "uniqueItems"; "minimum"; "maximum";
             "exclusiveMinimum"; "exclusiveMaximum"; "multipleOf"; "minLength"; "maxLength"; "$ref"])%list = true.
Proof. vm_compute. reflexivity. Qed.

(* ... draft-07 none of the later ones, 2019-09 all but prefixItems *)
Lemma draft7_ignores_later_keywords :
  forallb (fun k => negb (kw_active D7 k)) (later_keywords ++ ["prefixItems"])%list = true.
Proof. vm_compute. reflexivity. Qed.

Lemma draft2019_vocabulary :
  forallb (kw_active D2019) later_keywords = true /\ kw_active D2019 "prefixItems" = false.
Proof. vm_compute. split; reflexivity. Qed.

Lemma kw_inactive : forall dr m k, kw_active dr k = false -> kw dr m k = None.
Proof. intros dr m k H. unfold kw. now rewrite H. Qed.

Lemma kw_active_get : forall dr m k, kw_active dr k = true -> kw dr m k = mget k m.
Proof. intros dr m k H. unfold kw. now rewrite H. Qed.

(* ---------- object keywords ---------- *)

Lemma in_str_names : forall l n, In n (str_names l) <-> In (VStr n) l.
Proof.
  unfold str_names. induction l as [|x t IH]; simpl; intros n; [tauto|].
  rewrite in_app_iff, IH. destruct x; simpl; split; intros H;
    try (destruct H as [[]|H]; now right); try (destruct H as [H|H]; [discriminate|now right]).
  - destruct H as [[<-|[]]|H]; [now left|now right].
  - destruct H as [H|H]; [injection H as ->; left; now left|now right].
Qed.

(* required: every listed name is a member *)
Lemma p_required_spec : forall dr m o l,
  kw dr m "required" = Some (VList l) ->
  (p_required dr m o = true <-> forall n, In (VStr n) l -> mhas n o = true).
Proof.
  intros dr m o l H. unfold p_required. rewrite H. rewrite forallb_forall.
  split; intros Hn n Hin; apply Hn; now apply in_str_names.
Qed.

(* dependentRequired (and the array entries of "dependencies"): for every listed key that is
   present in the object, all its dependents are present *)
Lemma dep_lists_ok_spec : forall deps o,
  dep_lists_ok deps o = true <->
  forall k ds, In (k, VList ds) deps -> mhas k o = true -> forall n, In (VStr n) ds -> mhas n o = true.
Proof.
  intros deps o. unfold dep_lists_ok. rewrite forallb_forall. split.
  - intros H k ds Hin Hk n Hn. specialize (H (k, VList ds) Hin). simpl in H.
    rewrite Hk in H. simpl in H. rewrite forallb_forall in H. apply H. now apply in_str_names.
  - intros H [k x] Hin. simpl. destruct x; try reflexivity.
    destruct (mhas k o) eqn:Hk; [simpl|reflexivity].
    apply forallb_forall. intros n Hn. apply (H k l Hin Hk). now apply in_str_names.
Qed.

Lemma p_dependent_required_spec : forall dr m o deps,
  kw dr m "dependentRequired" = Some (VMap deps) ->
  (p_dependent_required dr m o = true <->
   forall k ds, In (k, VList ds) deps -> mhas k o = true -> forall n, In (VStr n) ds -> mhas n o = true).
Proof. intros dr m o deps H. unfold p_dependent_required. rewrite H. apply dep_lists_ok_spec. Qed.

(* under draft-07 the keyword is not read: no constraint *)
Lemma p_dependent_required_draft7 : forall m o, p_dependent_required D7 m o = true.
Proof. intros. unfold p_dependent_required. now rewrite kw_inactive by reflexivity. Qed.

Lemma p_prop_count_spec : forall dr m o,
  p_prop_count dr m o = true <->
  (forall n, int_kw dr m "minProperties" = Some n -> (n <= Z.of_nat (List.length o))%Z)
  /\ (forall n, int_kw dr m "maxProperties" = Some n -> (Z.of_nat (List.length o) <= n)%Z).
Proof.
  intros. unfold p_prop_count, opt_z. rewrite andb_true_iff.
  destruct (int_kw dr m "minProperties") as [a|], (int_kw dr m "maxProperties") as [b|];
    rewrite ?Z.leb_le; split; intros H; repeat split; try (intros n Hn; try injection Hn as <-; try discriminate); try tauto;
    destruct H as [H1 H2]; try (apply H1; reflexivity); try (apply H2; reflexivity).
Qed.

(* dependentSchemas (and the schema entries of "dependencies"): the subschema of every key that
   is present applies to the whole object *)
Lemma a_dep_schemas_true_iff : forall dr m here self k o deps,
  kw dr m k = Some (VMap deps) ->
  (a_dep_schemas dr m here self k o = Some true <->
   forall p s, In (p, s) deps -> (forall l, s <> VList l) -> mhas p o = true ->
               self (at_kw2 here k p) s = Some true).
Proof.
  intros dr m here self k o deps H. unfold a_dep_schemas. rewrite H. rewrite oall_true_iff. split.
  - intros Ha p s Hin Hnl Hp.
    specialize (Ha _ (in_map (fun kd => match snd kd with
                                         | VList _ => Some true
                                         | s => if mhas (fst kd) o then self (at_kw2 here k (fst kd)) s else Some true
                                         end) deps (p, s) Hin)).
    simpl in Ha. rewrite Hp in Ha. destruct s; try exact Ha. now elim (Hnl l).
  - intros Ha x Hx. apply in_map_iff in Hx as ([p s] & <- & Hin). simpl.
    destruct s; try reflexivity; (destruct (mhas p o) eqn:Hp; [|reflexivity]); apply Ha; try assumption; discriminate.
Qed.

Lemma a_dep_schemas_draft7 : forall m here self o, a_dep_schemas D7 m here self "dependentSchemas" o = Some true.
Proof. intros. unfold a_dep_schemas. now rewrite kw_inactive by reflexivity. Qed.

(* properties / additionalProperties: every member is checked by the subschema declared for its
   name, or else by additionalProperties when that is present *)
Lemma a_properties_true_iff : forall dr m here child o,
  a_properties dr m here child o = Some true <->
  forall k x, In (k, x) o -> a_member dr m here child k x = Some true.
Proof.
  intros. unfold a_properties. rewrite oall_true_iff. split.
  - intros H k x Hin. apply H. apply in_map_iff. now exists (k, x).
  - intros H y Hy. apply in_map_iff in Hy as ([k x] & <- & Hin). now apply H.
Qed.

Lemma a_member_declared : forall dr m here child ps k x sp,
  kw dr m "properties" = Some (VMap ps) -> mget k ps = Some sp ->
  a_member dr m here child k x = child (at_kw2 here "properties" k) sp x.
Proof. intros. unfold a_member. now rewrite H, H0. Qed.

Lemma a_member_additional : forall dr m here child k x,
  (forall ps, kw dr m "properties" = Some (VMap ps) -> mget k ps = None) ->
  a_member dr m here child k x =
  match kw dr m "additionalProperties" with
  | Some sa => child (at_kw here "additionalProperties") sa x
  | None => Some true
  end.
Proof.
  intros dr m here child k x H. unfold a_member.
  destruct (kw dr m "properties") as [[]|]; try reflexivity. now rewrite (H m0 eq_refl).
Qed.

Lemma a_property_names_true_iff : forall dr m here names o sn,
  kw dr m "propertyNames" = Some sn ->
  (a_property_names dr m here names o = Some true <->
   forall k x, In (k, x) o -> names (at_kw here "propertyNames") sn k = Some true).
Proof.
  intros dr m here names o sn H. unfold a_property_names. rewrite H, oall_true_iff. split.
  - intros Ha k x Hin. apply Ha. apply in_map_iff. now exists (k, x).
  - intros Ha y Hy. apply in_map_iff in Hy as ([k x] & <- & Hin). now apply (Ha k x).
Qed.

(* ---------- array keywords ---------- *)

(* 2020-12: element i is checked by prefixItems[i] when there is one, else by "items" *)
Lemma a_items_2020_true_iff : forall m here child a,
  a_items D2020 m here child a = Some true <->
  forall i x, nth_error a i = Some x ->
    match nth_error (match kw D2020 m "prefixItems" with Some (VList ps) => ps | _ => [] end) i with
    | Some sp => child (at_idx here "prefixItems" i) sp x
    | None => match kw D2020 m "items" with
              | Some si => child (at_kw here "items") si x
              | None => Some true
              end
    end = Some true.
Proof.
  intros. unfold a_items. simpl ge2020. cbv iota. rewrite oall_true_iff. split.
  - intros H i x Hn. apply H. apply in_mapi_from. exists i, x. split; [exact Hn|reflexivity].
  - intros H y Hy. apply in_mapi_from in Hy as (i & x & Hn & ->). simpl. now apply H.
Qed.

(* before 2020-12 prefixItems is not read and "items" (schema form) applies to every element *)
Lemma a_items_before_2020_true_iff : forall dr m here child a si,
  ge2020 dr = false -> kw dr m "items" = Some si -> (forall l, si <> VList l) ->
  (a_items dr m here child a = Some true <-> forall x, In x a -> child (at_kw here "items") si x = Some true).
Proof.
  intros dr m here child a si Hd Hk Hnl. unfold a_items. rewrite Hd, Hk.
  destruct si; try (now elim (Hnl l)); rewrite oall_true_iff; (split;
    [intros H x Hin; apply H; apply in_map_iff; now exists x
    |intros H y Hy; apply in_map_iff in Hy as (x & <- & Hin); now apply H]).
Qed.

Lemma prefix_items_ignored_before_2020 : forall dr m, ge2020 dr = false -> kw dr m "prefixItems" = None.
Proof. intros [] m H; try discriminate; now apply kw_inactive. Qed.

(* contains: c = the number of elements the subschema accepts; minContains (default 1) <= c <= maxContains *)
Lemma a_contains_spec : forall dr m here child a sc b,
  kw dr m "contains" = Some sc ->
  a_contains dr m here child a = Some b ->
  let c := count_true (map (fun x => child (at_kw here "contains") sc x) a) in
  b = p_contains_count dr m c.
Proof.
  intros dr m here child a sc b Hk H. unfold a_contains in H. rewrite Hk in H.
  destruct (ocount _) as [n|] eqn:E; [|discriminate]. simpl in H. injection H as <-.
  apply ocount_some in E as (-> & _). reflexivity.
Qed.

Lemma p_contains_count_spec : forall dr m c,
  p_contains_count dr m c = true <->
  match int_kw dr m "minContains" with Some n => (n <= Z.of_nat c)%Z | None => (1 <= c)%nat end
  /\ match int_kw dr m "maxContains" with Some n => (Z.of_nat c <= n)%Z | None => True end.
Proof.
  intros. unfold p_contains_count, opt_z. rewrite andb_true_iff.
  destruct (int_kw dr m "minContains"), (int_kw dr m "maxContains");
    rewrite ?Z.leb_le, ?Nat.leb_le; tauto.
Qed.

(* draft-07 reads neither minContains nor maxContains: at least one element must match *)
Lemma p_contains_count_draft7 : forall m c, p_contains_count D7 m c = (1 <=? c)%nat.
Proof.
  intros. unfold p_contains_count, int_kw. rewrite !kw_inactive by reflexivity. simpl. apply andb_true_r.
Qed.

Lemma p_item_count_spec : forall dr m a,
  p_item_count dr m a = true <->
  (forall n, int_kw dr m "minItems" = Some n -> (n <= Z.of_nat (List.length a))%Z)
  /\ (forall n, int_kw dr m "maxItems" = Some n -> (Z.of_nat (List.length a) <= n)%Z).
Proof.
  intros. unfold p_item_count, opt_z. rewrite andb_true_iff.
  destruct (int_kw dr m "minItems") as [x|], (int_kw dr m "maxItems") as [y|];
    rewrite ?Z.leb_le; split; intros H; repeat split; try (intros n Hn; try injection Hn as <-; try discriminate); try tauto;
    destruct H as [H1 H2]; try (apply H1; reflexivity); try (apply H2; reflexivity).
Qed.

(* uniqueItems: no two elements at different positions are equal as JSON values *)
Lemma has_dup_spec : forall l,
  has_dup l = true <-> exists i j x y, (i < j)%nat /\ nth_error l i = Some x /\ nth_error l j = Some y /\ json_eq x y = true.
Proof.
  induction l as [|a t IH]; simpl.
  - split; [discriminate|intros (i & j & x & y & _ & H & _); destruct i; discriminate].
  - rewrite orb_true_iff, existsb_exists, IH. split.
    + intros [(y & Hin & He)|(i & j & x & y & Hlt & Hi & Hj & He)].
      * apply In_nth_error in Hin as (j & Hj). exists O, (S j), a, y. repeat split; [lia|exact Hj|exact He].
      * exists (S i), (S j), x, y. repeat split; [lia|exact Hi|exact Hj|exact He].
    + intros (i & j & x & y & Hlt & Hi & Hj & He). destruct j as [|j]; [lia|]. simpl in Hj.
      destruct i as [|i]; simpl in Hi.
      * injection Hi as ->. left. exists y. split; [now apply nth_error_In with j|exact He].
      * right. exists i, j, x, y. repeat split; [lia|exact Hi|exact Hj|exact He].
Qed.

(* ---------- combinators ---------- *)

Lemma a_all_of_true_iff : forall dr m here self l,
  kw dr m "allOf" = Some (VList l) ->
  (a_all_of dr m here self = Some true <->
   forall i s, nth_error l i = Some s -> self (at_idx here "allOf" i) s = Some true).
Proof.
  intros dr m here self l H. unfold a_all_of. rewrite H, oall_true_iff. split.
  - intros Ha i s Hn. apply Ha. apply in_mapi_from. exists i, s. split; [exact Hn|reflexivity].
  - intros Ha y Hy. apply in_mapi_from in Hy as (i & s & Hn & ->). now apply Ha.
Qed.

Lemma a_any_of_spec : forall dr m here self s0 l b,
  kw dr m "anyOf" = Some (VList (s0 :: l)) ->
  a_any_of dr m here self = Some b ->
  (b = true <-> exists i s, nth_error (s0 :: l) i = Some s /\ self (at_idx here "anyOf" i) s = Some true).
Proof.
  intros dr m here self s0 l b H Ha. unfold a_any_of in Ha. rewrite H in Ha.
  destruct (ocount _) as [n|] eqn:E; [|discriminate]. unfold option_map in Ha. injection Ha as <-.
  apply ocount_some in E as (-> & _).
  pose proof (count_true_pos (mapi_from 0 (fun i s => self (at_idx here "anyOf" i) s) (s0 :: l))) as Hc.
  rewrite in_mapi_from in Hc.
  destruct (count_true _) as [|c].
  - split; [discriminate|]. intros (i & s & Hn & He).
    assert (1 <= 0)%nat by (apply Hc; now exists i, s). lia.
  - split; [intros _|reflexivity]. destruct (proj1 Hc ltac:(lia)) as (i & s & Hn & He). now exists i, s.
Qed.

(* oneOf: exactly one subschema accepts *)
Lemma a_one_of_spec : forall dr m here self s0 l b,
  kw dr m "oneOf" = Some (VList (s0 :: l)) ->
  a_one_of dr m here self = Some b ->
  b = (count_true (mapi_from 0 (fun i s => self (at_idx here "oneOf" i) s) (s0 :: l)) =? 1)%nat.
Proof.
  intros dr m here self s0 l b H Ha. unfold a_one_of in Ha. rewrite H in Ha.
  destruct (ocount _) as [n|] eqn:E; [|discriminate]. unfold option_map in Ha. injection Ha as <-.
  apply ocount_some in E as (-> & _). reflexivity.
Qed.

Lemma a_not_spec : forall dr m here self s,
  kw dr m "not" = Some s -> a_not dr m here self = option_map negb (self (at_kw here "not") s).
Proof. intros. unfold a_not. now rewrite H. Qed.

Lemma a_if_spec : forall dr m here self s,
  kw dr m "if" = Some s ->
  a_if dr m here self =
  match self (at_kw here "if") s with
  | Some true => a_self_kw dr m here self "then"
  | Some false => a_self_kw dr m here self "else"
  | None => None
  end.
Proof. intros. unfold a_if. now rewrite H. Qed.

(* ---------- one schema object ---------- *)

(* 2019-09 and later, or no "$ref": the verdict is the conjunction of all keyword groups *)
Lemma step_true_iff : forall dr m here self follow child names v,
  (ge2019 dr = true \/ forall r, kw dr m "$ref" <> Some (VStr r)) ->
  (step dr m here self follow child names v = Some true <->
   p_type dr m v = true /\ p_const dr m v = true /\ p_enum dr m v = true
   /\ a_ref dr m follow = Some true
   /\ by_kind dr m here self child names v = Some true
   /\ a_not dr m here self = Some true /\ a_all_of dr m here self = Some true
   /\ a_any_of dr m here self = Some true /\ a_one_of dr m here self = Some true
   /\ a_if dr m here self = Some true).
Proof.
  intros dr m here self follow child names v Hd. unfold step.
  assert (Hc : (negb (ge2019 dr) && match kw dr m "$ref" with Some (VStr _) => true | _ => false end) = false).
  { destruct Hd as [->|Hn]; [reflexivity|].
    destruct (kw dr m "$ref") as [[]|]; try apply andb_false_r. now elim (Hn s). }
  rewrite Hc. rewrite oall_true_iff. split.
  - intros H. repeat split;
      try (assert (Hx : forall b, In (Some b) _ -> Some b = Some true) by (intros b Hb; exact (H _ Hb)));
      first [ apply H; simpl; tauto
            | (match goal with |- ?b = true => assert (E : Some b = Some true) by (apply H; simpl; tauto); now injection E end) ].
  - intros (H1 & H2 & H3 & H4 & H5 & H6 & H7 & H8 & H9 & H10) x Hx. simpl in Hx.
    repeat destruct Hx as [<-|Hx]; try congruence; try assumption. contradiction.
Qed.

(* draft-07 with "$ref": only "const" and the referenced schema count *)
Lemma step_draft7_ref : forall m here self follow child names v r,
  kw D7 m "$ref" = Some (VStr r) ->
  step D7 m here self follow child names v = oand (Some (p_const D7 m v)) (a_ref D7 m follow).
Proof. intros. unfold step. now rewrite H. Qed.

Lemma by_kind_object_true_iff : forall dr m here self child names o,
  by_kind dr m here self child names (VMap o) = Some true <->
  p_prop_count dr m o = true /\ p_required dr m o = true /\ p_dependencies_lists dr m o = true
  /\ a_dep_schemas dr m here self "dependencies" o = Some true
  /\ a_properties dr m here child o = Some true
  /\ a_property_names dr m here names o = Some true
  /\ a_dep_schemas dr m here self "dependentSchemas" o = Some true
  /\ p_dependent_required dr m o = true.
Proof.
  intros. unfold by_kind. rewrite oall_true_iff. split.
  - intros H. repeat split;
      first [ apply H; simpl; tauto
            | (match goal with |- ?b = true => assert (E : Some b = Some true) by (apply H; simpl; tauto); now injection E end) ].
  - intros (H1 & H2 & H3 & H4 & H5 & H6 & H7 & H8) x Hx. simpl in Hx.
    repeat destruct Hx as [<-|Hx]; try congruence; try assumption. contradiction.
Qed.

Lemma by_kind_array_true_iff : forall dr m here self child names a,
  by_kind dr m here self child names (VList a) = Some true <->
  p_item_count dr m a = true /\ p_unique dr m a = true
  /\ a_items dr m here child a = Some true /\ a_contains dr m here child a = Some true.
Proof.
  intros. unfold by_kind. rewrite oall_true_iff. split.
  - intros H. repeat split;
      first [ apply H; simpl; tauto
            | (match goal with |- ?b = true => assert (E : Some b = Some true) by (apply H; simpl; tauto); now injection E end) ].
  - intros (H1 & H2 & H3 & H4) x Hx. simpl in Hx.
    repeat destruct Hx as [<-|Hx]; try congruence; try assumption. contradiction.
Qed.

(* ---------- the recursion ---------- *)

Lemma ev_bool : forall root dr f seen p b v, ev root dr (S f) seen p (VBool b) v = Some b.
Proof. reflexivity. Qed.

Lemma ev_empty : forall root dr f seen p v, ev root dr (S f) seen p (VMap []) v = Some true.
Proof. reflexivity. Qed.

(* a schema location met again on the same value: the library's RefCycle error *)
Lemma ev_cycle : forall root dr f seen p k x m v,
  ptr_mem p seen = true -> ev root dr (S f) seen p (VMap ((k, x) :: m)) v = Some false.
Proof. intros. simpl. now rewrite H. Qed.

Lemma ev_unfold : forall root dr f seen p k x m v,
  ptr_mem p seen = false ->
  ev root dr (S f) seen p (VMap ((k, x) :: m)) v =
  step dr ((k, x) :: m) p
       (fun q s' => ev root dr f (p :: seen) q s' v)
       (fun q => match lookup_ptr root q with Some t => ev root dr f (p :: seen) q t v | None => None end)
       (fun q s' y => ev root dr f [] q s' y)
       (fun q s' n => ev root dr f [] q s' (VStr n))
       v.
Proof. intros. simpl. now rewrite H. Qed.

(* ---------- dialect ---------- *)

Lemma dialect_urls :
  classify_schema_url "http://json-schema.org/draft-07/schema#" = DialOk D7
  /\ classify_schema_url "http://json-schema.org/draft-07/schema" = DialOk D7
  /\ classify_schema_url "https://json-schema.org/draft-07/schema#" = DialOk D7
  /\ classify_schema_url "https://json-schema.org/draft/2019-09/schema" = DialOk D2019
  /\ classify_schema_url "https://json-schema.org/draft/2020-12/schema" = DialOk D2020
  /\ classify_schema_url "http://json-schema.org/draft/2020-12/schema#" = DialOk D2020
  /\ classify_schema_url "https://json-schema.org/schema" = DialOk D2020
  /\ classify_schema_url "http://json-schema.org/draft-04/schema#" = DialUnsupported
  /\ classify_schema_url "http://example.com/my-dialect" = DialError.
Proof. vm_compute. repeat split; reflexivity. Qed.

(* a document without "$schema" is compiled as 2020-12, the full vocabulary *)
Lemma default_dialect : forall m v,
  mget "$schema" m = None ->
  dialect_of helm_default_draft (VMap m) = DialOk D2020
  /\ doc_verdict (VMap m) v = run_with (DialOk D2020) (VMap m) v.
Proof.
  intros m v H. unfold doc_verdict, run, dialect_of. rewrite H. split; reflexivity.
Qed.

(* ... and the default matters: the same document and values under a draft-07 default *)
Definition ex_dep_doc : val := VMap [("dependentRequired", VMap [("tlsKey", VList [VStr "tlsCert"])])].
Definition ex_dep_bad : val := VMap [("tlsKey", VStr "k")].
Definition ex_dep_good : val := VMap [("tlsCert", VStr "c"); ("tlsKey", VStr "k")].

Lemma default_draft_matters :
  doc_verdict ex_dep_doc ex_dep_bad = VViolation /\ doc_verdict ex_dep_doc ex_dep_good = VOk
  /\ run D7 ex_dep_doc ex_dep_bad = VOk
  /\ doc_verdict (VMap [("$schema", VStr "http://json-schema.org/draft-07/schema#");
                        ("dependentRequired", VMap [("tlsKey", VList [VStr "tlsCert"])])]) ex_dep_bad = VOk.
Proof. vm_compute. repeat split; reflexivity. Qed.

(* ---------- numbers, strings, equality: spot checks of the arithmetic ---------- *)

Lemma dec_cmp_ints : forall a b, dec_cmp (a, 0%Z) (b, 0%Z) = Z.compare a b.
Proof. intros. unfold dec_cmp. simpl. now rewrite !Z.mul_1_r. Qed.

(* comparing at any common exponent below both gives the same answer *)
Lemma dec_cmp_scale : forall ma ea mb eb e,
  (e <= ea)%Z -> (e <= eb)%Z ->
  dec_cmp (ma, ea) (mb, eb) = Z.compare (ma * 10 ^ (ea - e))%Z (mb * 10 ^ (eb - e))%Z.
Proof.
  intros ma ea mb eb e Ha Hb. unfold dec_cmp.
  set (e0 := Z.min ea eb).
  assert (H0 : (e <= e0)%Z) by (unfold e0; lia).
  replace (ea - e)%Z with ((ea - e0) + (e0 - e))%Z by lia.
  replace (eb - e)%Z with ((eb - e0) + (e0 - e))%Z by lia.
  rewrite !Z.pow_add_r by (unfold e0; lia). rewrite !Z.mul_assoc.
  apply Zmult_compare_compat_r. apply Z.lt_gt. apply Z.pow_pos_nonneg; lia.
Qed.

Lemma number_examples :
  type_matches "integer" (VFlt "1.0") = true /\ type_matches "integer" (VFlt "1e+21") = true
  /\ type_matches "integer" (VFlt "1.5") = false /\ type_matches "number" (VFlt "1.5") = true
  /\ json_eq (VNum 1) (VFlt "1.0") = true /\ json_eq (VFlt "1.50") (VFlt "15e-1") = true
  /\ json_eq (VNum 1) (VStr "1") = false
  /\ dec_multiple (15, -1)%Z (5, -1)%Z = true /\ dec_multiple (17, -1)%Z (5, -1)%Z = false.
Proof. vm_compute. repeat split; reflexivity. Qed.

(* minLength / maxLength count code points: "héé" is 5 bytes and 3 code points, "日本" 6 and 2 *)
Lemma rune_count_examples :
  rune_count (bs [104; 195; 169; 195; 169]) = 3%nat /\ rune_count (bs [230; 151; 165; 230; 156; 172]) = 2%nat
  /\ rune_count "abc" = 3%nat /\ rune_count "" = 0%nat.
Proof. vm_compute. repeat split; reflexivity. Qed.

(* ---------- reading the translator table Gen/C14Compiler.v ---------- *)

Definition draft_of_name (n : string) : option draft :=
  if String.eqb n "Draft7" || String.eqb n "jsonschema.Draft7" then Some D7
  else if String.eqb n "Draft2019" || String.eqb n "jsonschema.Draft2019" then Some D2019
  else if String.eqb n "Draft2020" || String.eqb n "jsonschema.Draft2020" then Some D2020
  else None.

(* what roots.defaultDraft holds when a schema without "$schema" is compiled: the argument of
   Helm's DefaultDraft call if there is one, else what the library's newRoots() puts there *)
Definition effective_default (call : option string) (roots_default latest : string) : option draft :=
  match call with
  | Some d => draft_of_name d
  | None => if String.eqb roots_default "draftLatest" then draft_of_name latest else draft_of_name roots_default
  end.

(* the compiler options the model knows about: none of AssertFormat, AssertContent, AssertVocabs,
   RegisterFormat, RegisterVocabulary, UseLoader, UseRegexpEngine ... *)
Definition known_compiler_methods : list string := ["DefaultDraft"; "AddResource"; "Compile"; "MustCompile"].

(* ---------- numbers are exact: no rounding anywhere ---------- *)

(* the document {properties: {k: {<kw>: b}}} *)
Definition bound_doc (kw : string) (b : val) : val :=
  VMap [("properties", VMap [("k", VMap [(kw, b)])])].

Ltac zcbv :=
  cbv -[Z.compare Z.mul Z.pow Z.min Z.sub Z.add Z.leb Z.ltb Z.eqb Z.modulo Z.div Z.abs Z.of_nat Z.opp];
  change (0 - Z.min 0 0)%Z with 0%Z; rewrite ?Z.pow_0_r, ?Z.mul_1_r.

(* for integers n, m of ANY size (Z), whatever the compiler's default draft: the value k = n
   violates maximum m iff n > m, minimum m iff n < m, exclusiveMaximum m iff n >= m,
   exclusiveMinimum m iff n <= m, const m / enum [m] iff n <> m, enum [m; m'] iff it is neither *)
Lemma numeric_bounds_exact : forall dflt n m m',
  let v := VMap [("k", VNum n)] in
  run dflt (bound_doc "maximum" (VNum m)) v = (if (n <=? m)%Z then VOk else VViolation)
  /\ run dflt (bound_doc "minimum" (VNum m)) v = (if (m <=? n)%Z then VOk else VViolation)
  /\ run dflt (bound_doc "exclusiveMaximum" (VNum m)) v = (if (n <? m)%Z then VOk else VViolation)
  /\ run dflt (bound_doc "exclusiveMinimum" (VNum m)) v = (if (m <? n)%Z then VOk else VViolation)
  /\ run dflt (bound_doc "const" (VNum m)) v = (if (n =? m)%Z then VOk else VViolation)
  /\ run dflt (bound_doc "enum" (VList [VNum m])) v = (if (n =? m)%Z then VOk else VViolation)
  /\ (m <> m' ->
      run dflt (bound_doc "enum" (VList [VNum m; VNum m'])) v = (if (n =? m)%Z || (n =? m')%Z then VOk else VViolation)).
Proof.
  intros dflt n m m' v. unfold v, bound_doc.
  repeat split; try intros Hne; destruct dflt; zcbv;
    unfold Z.leb, Z.ltb; try rewrite (Z.compare_antisym n m);
    try (destruct (n ?= m)%Z; reflexivity);
    try (destruct (n =? m)%Z; reflexivity).
  all: try (destruct (n =? m)%Z, (n =? m')%Z; reflexivity).
  (* draft-07 wants the items of "enum" unique *)
  all: destruct (m =? m')%Z eqn:E; [apply Z.eqb_eq in E; contradiction|];
       destruct (n =? m)%Z, (n =? m')%Z; reflexivity.
Qed.

(* multipleOf m (m > 0): n is accepted iff m divides n *)
Lemma multiple_of_exact : forall dflt n m, (0 < m)%Z ->
  run dflt (bound_doc "multipleOf" (VNum m)) (VMap [("k", VNum n)])
  = (if (n mod m =? 0)%Z then VOk else VViolation).
Proof.
  intros dflt n m Hm. unfold bound_doc. destruct dflt; zcbv;
    (replace (0 ?= m)%Z with Lt by (symmetry; now apply Z.compare_lt_iff));
    destruct (n mod m =? 0)%Z; reflexivity.
Qed.

(* the same beyond int64, for long decimals and exponent spellings, where the harness prints the
   number by its spelling ([VFlt]): 2^64 against 2^64 - 1, 10^21 + 1, 19-digit decimals, 1.0 = 1 *)
Lemma big_number_examples :
  let k v := VMap [("k", v)] in
  doc_verdict (bound_doc "maximum" (VFlt "18446744073709551615")) (k (VFlt "18446744073709551616")) = VViolation
  /\ doc_verdict (bound_doc "maximum" (VFlt "18446744073709551615")) (k (VFlt "18446744073709551615")) = VOk
  /\ doc_verdict (bound_doc "maximum" (VNum 9007199254740992)) (k (VNum 9007199254740993)) = VViolation
  /\ doc_verdict (bound_doc "maximum" (VFlt "1000000000000000000000")) (k (VFlt "1000000000000000000001")) = VViolation
  /\ doc_verdict (bound_doc "maximum" (VFlt "1000000000000000000000")) (k (VFlt "1.0e+21")) = VOk
  /\ doc_verdict (bound_doc "maximum" (VFlt "0.1234567890123456789")) (k (VFlt "0.1234567890123456790")) = VViolation
  /\ doc_verdict (bound_doc "maximum" (VFlt "0.1234567890123456789")) (k (VFlt "0.12345678901234567890")) = VOk
  /\ doc_verdict (bound_doc "const" (VNum 1)) (k (VFlt "1.0")) = VOk
  /\ doc_verdict (bound_doc "const" (VNum 1)) (k (VFlt "1.0000000000000000001")) = VViolation
  /\ doc_verdict (bound_doc "type" (VStr "integer")) (k (VFlt "12300e-2")) = VOk
  /\ doc_verdict (bound_doc "type" (VStr "integer")) (k (VFlt "123e-1")) = VViolation
  /\ doc_verdict (bound_doc "multipleOf" (VFlt "0.01")) (k (VFlt "123456789012345678.915")) = VViolation
  /\ doc_verdict (bound_doc "multipleOf" (VNum 3)) (k (VNum 9007199254740993)) = VOk.
Proof. vm_compute. repeat split; reflexivity. Qed.

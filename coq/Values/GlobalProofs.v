(* Globals (coalesceGlobals): a global leaf visible at a chart is visible at the same path
   inside every direct subchart — the parent's global wins over the subchart's own — unless
   the subchart's section holds a value of the other kind (table vs. non-table) at the same
   top-level global key, which coalesceGlobals skips with a warning.  Also: well-formedness
   (unique keys) is preserved by the table operations. *)
From Coq Require Import List String Bool Arith ZArith.
From Helm Require Import Values.Tree Values.Merge Values.Coalesce Values.TreeLemmas Values.CoalesceProofs
                         Values.SubchartProofs Values.DepthProofs.
Import ListNotations.
Local Open Scope string_scope.

(* ---------- unique keys are preserved ---------- *)
Definition vals_wf (m : vmap) : bool := forallb (fun kv => wf_b (snd kv)) m.

Lemma wf_map_split : forall m, wf_b (VMap m) = keys_nodup_b (map fst m) && vals_wf m.
Proof.
  intros m. simpl. f_equal. induction m as [|[k x] t IH]; [reflexivity|]. simpl. now rewrite IH.
Qed.

Lemma existsb_keys_mset : forall a k v m,
  existsb (String.eqb a) (map fst (mset k v m)) = existsb (String.eqb a) (map fst m) || String.eqb a k.
Proof.
  induction m as [|[k' v'] t IH]; simpl.
  - now rewrite orb_false_r.
  - destruct (String.eqb k k') eqn:E; simpl.
    + apply String.eqb_eq in E; subst k'. destruct (String.eqb a k); simpl; [reflexivity | now rewrite orb_false_r].
    + rewrite IH. now rewrite orb_assoc.
Qed.

Lemma keys_nodup_mset : forall k v m,
  keys_nodup_b (map fst m) = true -> keys_nodup_b (map fst (mset k v m)) = true.
Proof.
  induction m as [|[k' v'] t IH]; simpl; intros H; [reflexivity|].
  apply andb_true_iff in H. destruct H as [H1 H2].
  destruct (String.eqb k k') eqn:E; simpl.
  - apply String.eqb_eq in E; subst k'. now rewrite H1, H2.
  - rewrite existsb_keys_mset. apply negb_true_iff in H1. rewrite H1. simpl.
    rewrite String.eqb_sym, E. simpl. now apply IH.
Qed.

Lemma vals_wf_mset : forall k v m, vals_wf m = true -> wf_b v = true -> vals_wf (mset k v m) = true.
Proof.
  induction m as [|[k' v'] t IH]; simpl; intros H Hv.
  - now rewrite Hv.
  - apply andb_true_iff in H. destruct H as [H1 H2].
    destruct (String.eqb k k'); simpl; [now rewrite Hv, H2 | rewrite H1; now apply IH].
Qed.

Lemma wf_mset : forall k v m, wf_b (VMap m) = true -> wf_b v = true -> wf_b (VMap (mset k v m)) = true.
Proof.
  intros k v m H Hv. rewrite wf_map_split in *. apply andb_true_iff in H. destruct H as [H1 H2].
  apply andb_true_iff. split; [now apply keys_nodup_mset | now apply vals_wf_mset].
Qed.

Lemma existsb_keys_mdel : forall a k m,
  existsb (String.eqb a) (map fst (mdel k m)) = true -> existsb (String.eqb a) (map fst m) = true.
Proof.
  induction m as [|[k' v'] t IH]; simpl; intros H; [assumption|].
  destruct (String.eqb k k'); simpl in *.
  - rewrite IH by assumption. apply orb_true_r.
  - apply orb_true_iff in H. destruct H as [H|H]; [now rewrite H | rewrite IH by assumption; apply orb_true_r].
Qed.

Lemma wf_mdel : forall k m, wf_b (VMap m) = true -> wf_b (VMap (mdel k m)) = true.
Proof.
  intros k m H. rewrite wf_map_split in *. apply andb_true_iff in H. destruct H as [H1 H2].
  apply andb_true_iff. split.
  - clear H2. induction m as [|[k' v'] t IH]; simpl in *; [reflexivity|].
    apply andb_true_iff in H1. destruct H1 as [Ha Hb].
    destruct (String.eqb k k'); simpl; [now apply IH|].
    rewrite IH by assumption. rewrite andb_true_r.
    apply negb_true_iff. apply negb_true_iff in Ha.
    destruct (existsb (String.eqb k') (map fst (mdel k t))) eqn:E; [|reflexivity].
    apply existsb_keys_mdel in E. congruence.
  - clear H1. induction m as [|[k' v'] t IH]; simpl in *; [reflexivity|].
    apply andb_true_iff in H2. destruct H2 as [Ha Hb].
    destruct (String.eqb k k'); simpl; [now apply IH | rewrite Ha; now apply IH].
Qed.

Lemma wf_ctv : forall srcv, wf_b srcv = true ->
  forall merge dst, wf_b (VMap dst) = true -> wf_b (VMap (coalesce_tables_v merge dst srcv)) = true.
Proof.
  induction srcv using val_ind'; intros Hs merge dst Hd; try exact Hd.
  rewrite coalesce_tables_v_map. revert dst Hd.
  induction m as [|[k v] t IHt]; intros dst Hd; [exact Hd|].
  inversion H as [|? ? Hv Ht]; subst.
  apply wf_map_cons in Hs. destruct Hs as (_ & Hwv & Hwt).
  simpl ct_loop. apply IHt; try assumption.
  unfold ct_step. destruct (mget k dst) as [dv|] eqn:G.
  - destruct (negb merge && is_null dv); [now apply wf_mdel|].
    destruct v; try exact Hd. destruct dv; try exact Hd.
    apply wf_mset; [assumption|]. apply (Hv Hwv merge). eapply wf_mget; eauto.
  - now apply wf_mset.
Qed.

Lemma wf_ct_loop : forall merge src dst,
  wf_b (VMap src) = true -> wf_b (VMap dst) = true -> wf_b (VMap (ct_loop merge src dst)) = true.
Proof. intros. rewrite <- coalesce_tables_v_map. now apply wf_ctv. Qed.

Lemma wf_cv_loop : forall merge deps vc v,
  wf_b (VMap vc) = true -> wf_b (VMap v) = true -> wf_b (VMap (cv_loop merge deps vc v)) = true.
Proof.
  induction vc as [|[k d] t IH]; intros v Hc Hv; [exact Hv|].
  apply wf_map_cons in Hc. destruct Hc as (_ & Hd & Ht).
  simpl cv_loop. apply IH; [assumption|].
  unfold cv_step. destruct (mget k v) as [value|] eqn:G.
  - destruct (is_null value && negb merge); [now apply wf_mdel|].
    destruct value; try exact Hv. destruct d; try exact Hv.
    apply wf_mset; [assumption|]. rewrite coalesce_tables_loop. apply wf_ct_loop; [assumption|]. eapply wf_mget; eauto.
  - now apply wf_mset.
Qed.

(* ---------- the globals loop ---------- *)
Lemma cg_step_other : forall k v dg k', k' <> k -> mget k' (cg_step k v dg) = mget k' dg.
Proof.
  intros k v dg k' Hn. assert (Hn' : k <> k') by congruence.
  unfold cg_step.
  destruct v; destruct (mget k dg) as [[]|]; try reflexivity; now apply mget_mset_neq.
Qed.

Definition cg_result (v : val) (old : option val) : option val :=
  match v with
  | VMap vv =>
      match old with
      | None => Some (VMap vv)
      | Some (VMap d) => Some (VMap (coalesce_tables true vv d))
      | Some y => Some y
      end
  | _ =>
      match old with
      | Some (VMap d) => Some (VMap d)
      | _ => Some v
      end
  end.

Lemma cg_step_same : forall k v dg, mget k (cg_step k v dg) = cg_result v (mget k dg).
Proof.
  intros k v dg. unfold cg_step, cg_result.
  destruct v; destruct (mget k dg) as [[]|] eqn:G; try assumption; apply mget_mset_eq.
Qed.

Lemma cg_loop_get : forall sg dg k,
  wf_b (VMap sg) = true ->
  mget k (cg_loop sg dg) = match mget k sg with Some v => cg_result v (mget k dg) | None => mget k dg end.
Proof.
  induction sg as [|[k0 v0] t IH]; intros dg k Hwf; [reflexivity|].
  apply wf_map_cons in Hwf. destruct Hwf as (Hk0 & _ & Ht).
  simpl cg_loop. rewrite IH by assumption. simpl mget.
  destruct (String.eqb k k0) eqn:E.
  - apply String.eqb_eq in E; subst k0. rewrite Hk0. apply cg_step_same.
  - apply String.eqb_neq in E. now rewrite cg_step_other.
Qed.

(* the parent's global value at g::p' arrives in the merged globals, absent a kind clash *)
Lemma cg_loop_parent_wins : forall sg dg g p' x,
  wf_b (VMap sg) = true -> wf_b (VMap dg) = true ->
  lookup_path (g :: p') (VMap sg) = Some x -> is_table x = false -> x <> VNull ->
  match mget g dg with
  | None => True
  | Some y => is_table y = match p' with [] => false | _ => true end
  end ->
  lookup_path (g :: p') (VMap (cg_loop sg dg)) = Some x.
Proof.
  intros sg dg g p' x Hws Hwd Hl Ht Hn Hclash.
  rewrite lookup_cons_map in *. rewrite cg_loop_get by assumption.
  destruct (mget g sg) as [v|] eqn:Gs; [|discriminate].
  unfold cg_result.
  destruct p' as [|k' t].
  - simpl in Hl. inversion Hl; subst v.
    destruct x; try discriminate; try congruence;
      (destruct (mget g dg) as [y|] eqn:Gd;
       [ destruct y; simpl in Hclash; try discriminate; reflexivity | reflexivity ]).
  - destruct v; simpl in Hl; try discriminate.
    destruct (mget g dg) as [y|] eqn:Gd.
    + destruct y; simpl in Hclash; try discriminate.
      rewrite coalesce_tables_loop.
      apply ct_dst_wins; try assumption. eapply wf_mget; eauto.
    + exact Hl.
Qed.

(* ---------- the dependency loop, with the globals made explicit ---------- *)
Lemma deps_loop_at_g : forall merge ds dest r sub,
  NoDup (map cname ds) -> In sub ds -> ~ In global_key (map cname ds) ->
  coalesce_deps_loop merge ds dest = Some r ->
  exists dest2 rs,
    mget global_key dest2 = mget global_key dest
    /\ coalesce merge sub (coalesce_globals (section_of (cname sub) dest) dest2) = Some rs
    /\ mget (cname sub) r = Some (VMap rs).
Proof.
  induction ds as [|s t IH]; intros dest r sub Hnd Hin Hg H; [inversion Hin|].
  simpl in Hnd. inversion Hnd as [|? ? Hnotin Hnd']; subst.
  assert (Hsg : cname s <> global_key) by (intros E; apply Hg; left; exact E).
  assert (Hg' : ~ In global_key (map cname t)) by (intros E; apply Hg; right; exact E).
  simpl in H. destruct Hin as [->|Hin].
  - assert (Hrest : forall d, In d t -> cname d <> cname sub).
    { intros d Hd E. apply Hnotin. rewrite <- E. now apply in_map. }
    unfold section_of.
    destruct (mget (cname sub) dest) as [[]|] eqn:G; try discriminate.
    + destruct (coalesce merge sub (coalesce_globals m dest)) as [rs|] eqn:C; [|discriminate].
      exists dest, rs. split; [reflexivity|]. split; [assumption|].
      rewrite (deps_loop_other _ _ _ _ _ H Hrest). apply mget_mset_eq.
    + destruct (coalesce merge sub (coalesce_globals [] (mset (cname sub) (VMap []) dest))) as [rs|] eqn:C; [|discriminate].
      exists (mset (cname sub) (VMap []) dest), rs. split; [now apply mget_mset_neq|]. split; [assumption|].
      rewrite (deps_loop_other _ _ _ _ _ H Hrest). apply mget_mset_eq.
  - assert (Hs : cname s <> cname sub).
    { intros E. apply Hnotin. rewrite E. now apply in_map. }
    destruct (mget (cname s) dest) as [[]|] eqn:G; try discriminate.
    + destruct (coalesce merge s (coalesce_globals m dest)) as [rs0|]; [|discriminate].
      destruct (IH _ _ _ Hnd' Hin Hg' H) as (dest2 & rs & Hd2 & Hc & Hr).
      exists dest2, rs. split; [|split; [|assumption]].
      * rewrite Hd2. now apply mget_mset_neq.
      * unfold section_of in *. now rewrite mget_mset_neq in Hc.
    + destruct (coalesce merge s (coalesce_globals [] (mset (cname s) (VMap []) dest))) as [rs0|]; [|discriminate].
      destruct (IH _ _ _ Hnd' Hin Hg' H) as (dest2 & rs & Hd2 & Hc & Hr).
      exists dest2, rs. split; [|split; [|assumption]].
      * rewrite Hd2. now rewrite !mget_mset_neq.
      * unfold section_of in *. now rewrite !mget_mset_neq in Hc.
Qed.

(* ---------- the statement ---------- *)
Theorem global_flows_down :
  forall (merge : bool) (n : string) (dflt : vmap) (deps : list chart) (user : vmap) (sub : chart) (r : vmap)
         (g : string) (p' : list string) (x : val),
  wf (VMap dflt) -> wf (VMap user) -> wf (VMap (cvalues sub)) ->
  NoDup (map cname deps) -> In sub deps ->
  ~ In global_key (map cname deps) -> ~ In global_key (map cname (cdeps sub)) ->
  coalesce merge (mkChart n dflt deps) user = Some r ->
  lookup_path (global_key :: g :: p') (VMap r) = Some x -> is_table x = false -> x <> VNull ->
  (* no kind clash at the top-level global key in the subchart's own section *)
  match mget global_key (section_of (cname sub) (coalesce_values merge (mkChart n dflt deps) user)) with
  | None => True
  | Some (VMap mg) => match mget g mg with
                      | None => True
                      | Some y => is_table y = match p' with [] => false | _ => true end
                      end
  | Some _ => False
  end ->
  lookup_path (cname sub :: global_key :: g :: p') (VMap r) = Some x.
Proof.
  intros merge n dflt deps user sub r g p' x Hwd Hwu Hws Hnd Hin Hgd Hgs Hrun Hl Ht Hn Hclash.
  unfold wf in *. unfold coalesce_values in Hclash. simpl cdeps in Hclash. simpl cvalues in Hclash.
  set (dest1 := cv_loop merge deps dflt user) in *.
  assert (Hw1 : wf_b (VMap dest1) = true) by (apply wf_cv_loop; assumption).
  (* the parent's globals *)
  assert (Hg1 : mget global_key r = mget global_key dest1).
  { exact (coalesce_top_key merge n dflt deps user r global_key Hrun Hgd). }
  rewrite lookup_cons_map, Hg1 in Hl.
  destruct (mget global_key dest1) as [sgv|] eqn:Gs; [|discriminate].
  destruct sgv as [| | | | | |sg]; simpl in Hl; try discriminate.
  assert (Hwsg : wf_b (VMap sg) = true) by exact (wf_mget _ _ _ Hw1 Gs).
  (* the subchart's run *)
  rewrite coalesce_unfold in Hrun. fold dest1 in Hrun.
  destruct (deps_loop_at_g _ _ _ _ _ Hnd Hin Hgd Hrun) as (dest2 & rs & Hd2 & Hc & Hr).
  set (m := section_of (cname sub) dest1) in *.
  assert (Hwm : wf_b (VMap m) = true).
  { unfold m, section_of. destruct (mget (cname sub) dest1) as [[]|] eqn:G; try reflexivity. exact (wf_mget _ _ _ Hw1 G). }
  rewrite lookup_cons_map, Hr.
  (* what the subchart starts from holds x in its globals *)
  assert (Hdv : lookup_path (global_key :: g :: p') (VMap (coalesce_globals m dest2)) = Some x).
  { unfold coalesce_globals. rewrite Hd2, Gs.
    destruct (mget global_key m) as [mgv|] eqn:Gm.
    - destruct mgv as [| | | | | |mg]; try contradiction.
      rewrite lookup_cons_map, mget_mset_eq.
      apply cg_loop_parent_wins; try assumption. exact (wf_mget _ _ _ Hwm Gm).
    - rewrite lookup_cons_map, mget_mset_eq.
      apply cg_loop_parent_wins; try assumption; reflexivity. }
  (* and the subchart's own coalescing keeps it *)
  destruct sub as [sn sv sd]. simpl cdeps in Hgs. simpl cvalues in Hws. simpl cname in *.
  rewrite lookup_cons_map, (coalesce_top_key merge sn sv sd _ rs global_key Hc Hgs), <- lookup_cons_map.
  now apply cv_loop_dst_wins.
Qed.

(* non-vacuity: a nested global table set by the user reaches the subchart and wins over the
   subchart's own global; the subchart's other global keys stay *)
Definition ex_gsub : chart := mkChart "sub" [("global", VMap [("a", VMap [("b", VStr "sub-b"); ("own", VStr "o")])])] [].
Definition ex_gtop : chart := mkChart "top" [("global", VMap [("t", VStr "top-default")])] [ex_gsub].
Definition ex_guser : vmap := [("global", VMap [("a", VMap [("b", VStr "user-b")])])].

Example ex_global :
  exists r, coalesce false ex_gtop ex_guser = Some r
  /\ lookup_path ["global"; "a"; "b"] (VMap r) = Some (VStr "user-b")
  /\ lookup_path ["sub"; "global"; "a"; "b"] (VMap r) = Some (VStr "user-b")
  /\ lookup_path ["sub"; "global"; "a"; "own"] (VMap r) = Some (VStr "o")
  /\ lookup_path ["sub"; "global"; "t"] (VMap r) = Some (VStr "top-default")
  /\ mget global_key (section_of "sub" (coalesce_values false ex_gtop ex_guser)) = None.
Proof. eexists. split; [reflexivity|]. repeat split; reflexivity. Qed.

(* pkg/action/upgrade.go reuseValues / prepareUpgrade (values part), pkg/action/install.go
   (values part) and pkg/action/rollback.go prepareRollback — what is recorded as a
   revision's user values (Release.Config), which chart defaults are used for rendering, and
   what a rollback copies.

     func (u *Upgrade) reuseValues(chart, current, newVals):
        ResetValues            -> newVals
        ReuseValues            -> oldVals := CoalesceValues(current.Chart, current.Config)   (error -> fail)
                                  newVals  = CoalesceTables(newVals, current.Config)
                                  chart.Values = oldVals                  (the chart object is changed
                                                                           and is what gets stored)
        ResetThenReuseValues   -> newVals  = CoalesceTables(newVals, current.Config)
        otherwise              -> len(newVals) == 0 && len(current.Config) > 0 -> current.Config
                                  else newVals
     then  valuesToRender = ToRenderValues(chart, vals)  (error -> fail, nothing stored)
           upgradedRelease = {Chart: chart, Config: vals, ...}

   A revision in the model: its Config, its (possibly rewritten) chart, and the values the
   templates saw when its manifest was rendered.  Only the success path of the operations is
   followed (the fake cluster never fails); the failure paths are C01/C03's subject.

   Definitions only; proofs are in ReuseProofs.v. *)
From Coq Require Import List String Bool Arith.
From Helm Require Import Values.Tree Values.Coalesce.
Import ListNotations.

Record uflags := mkFlags { reset_values : bool; reuse_values : bool; reset_then_reuse_values : bool }.

Record revision := mkRev {
  rconfig : vmap;            (* Release.Config *)
  rchart : chart;            (* Release.Chart as stored *)
  rrendered : vmap           (* .Values of the rendering that produced Release.Manifest *)
}.

Definition set_values (c : chart) (v : vmap) : chart := mkChart (cname c) v (cdeps c).

Definition is_empty (m : vmap) : bool := match m with [] => true | _ => false end.

(* reuseValues: Some (chart to render and store, values to record) | None = error *)
Definition reuse_values_fn (f : uflags) (ch : chart) (cur : revision) (newv : vmap) : option (chart * vmap) :=
  if reset_values f then Some (ch, newv)
  else if reuse_values f then
    match coalesce_values_root (rchart cur) (rconfig cur) with
    | None => None
    | Some oldvals => Some (set_values ch oldvals, coalesce_tables false newv (rconfig cur))
    end
  else if reset_then_reuse_values f then Some (ch, coalesce_tables false newv (rconfig cur))
  else if is_empty newv && negb (is_empty (rconfig cur)) then Some (ch, rconfig cur)
  else Some (ch, newv).

(* chartutil.ProcessDependencies(chart, vals) for charts whose Chart.yaml lists no
   dependencies (the charts of these chains): nothing is disabled or imported, but
   processDependencyEnabled still coalesces — CoalesceValues(c, v) at every chart that has
   subcharts, and it hands the PARENT's coalesced values (not the subchart's section) down to
   each subchart — so it can fail with "type mismatch" where rendering alone would not: a
   top-level value that is not a table and is named like a grandchild chart is enough.
   [true] = no error. *)
Fixpoint pd_ok (c : chart) (v : vmap) {struct c} : bool :=
  match c with
  | mkChart _ _ deps =>
      match deps with
      | [] => true
      | _ =>
          match coalesce false c v with
          | None => false
          | Some cvals =>
              (fix all (ds : list chart) : bool :=
                 match ds with
                 | [] => true
                 | t :: ds' => pd_ok t cvals && all ds'
                 end) deps
          end
      end
  end.

(* ProcessDependencies, then ToRenderValues *)
Definition render (c : chart) (v : vmap) : option vmap :=
  if pd_ok c v then to_render_values c v else None.

Inductive op :=
| OInstall (c : chart) (vals : vmap)
| OUpgrade (f : uflags) (c : chart) (vals : vmap)
| ORollback (version : nat).                      (* 0 = the revision before the current one *)

(* the history of one release name: revision n is the n-th element (1-based) *)
Definition history := list revision.

Definition get_rev (h : history) (n : nat) : option revision :=
  match n with O => None | S i => nth_error h i end.

Definition current (h : history) : option revision := get_rev h (List.length h).

(* one operation: Some new revision (appended) | None = the operation returns an error and
   stores nothing *)
Definition step (h : history) (o : op) : option revision :=
  match o with
  | OInstall c vals =>
      match h with
      | [] => match render c vals with
              | Some r => Some (mkRev vals c r)
              | None => None
              end
      | _ => None                                  (* "cannot re-use a name that is still in use" *)
      end
  | OUpgrade f c vals =>
      match current h with
      | None => None                               (* "has no deployed releases" *)
      | Some cur =>
          match reuse_values_fn f c cur vals with
          | None => None
          | Some (c', vals') =>
              match render c' vals' with
              | Some r => Some (mkRev vals' c' r)
              | None => None
              end
          end
      end
  | ORollback v =>
      match current h with
      | None => None
      | Some _ =>
          let target := match v with O => List.length h - 1 | _ => v end in
          match get_rev h target with
          | Some t => Some (mkRev (rconfig t) (rchart t) (rrendered t))   (* Config, Chart, Manifest copied *)
          | None => None                           (* "release has no N version" *)
          end
      end
  end.

(* a chain of operations: the history afterwards and, per operation, whether it succeeded *)
Fixpoint run_chain (h : history) (ops : list op) : history * list bool :=
  match ops with
  | [] => (h, [])
  | o :: t =>
      match step h o with
      | Some r => let '(h', oks) := run_chain (h ++ [r])%list t in (h', true :: oks)
      | None => let '(h', oks) := run_chain h t in (h', false :: oks)
      end
  end.

(* pkg/action/upgrade.go reuseValues / prepareUpgrade (values part), pkg/action/install.go
   (values part) and pkg/action/rollback.go prepareRollback — what is recorded as a
   revision's user values (Release.Config), which chart defaults are used for rendering, and
   what a rollback copies.

     func (u *Upgrade) reuseValues(chart, current, newVals):
        ResetValues            -> newVals
        ReuseValues            -> oldVals := CoalesceValues(current.Chart, current.Config)   (error -> fail)
                                  newVals  = CoalesceTables(newVals, current.Config)
                                  chart.Values = oldVals                  (the chart object is changed
                                                                           and is what gets stored)
        ResetThenReuseValues   -> newVals  = CoalesceTables(newVals, current.Config)
        otherwise              -> len(newVals) == 0 && len(current.Config) > 0 -> current.Config
                                  else newVals
     then  valuesToRender = ToRenderValues(chart, vals)  (error -> fail, nothing stored)
           upgradedRelease = {Chart: chart, Config: vals, ...}

   A revision in the model: its Config, its (possibly rewritten) chart, the values the
   templates saw when its manifest was rendered, and its status (deployed / superseded /
   failed).  An operation can be marked as failing after its record was created (the cluster
   wait returns an error): the new revision is then stored with status failed — with its own
   Config and chart — and the others keep their status.  Which revision an upgrade carries
   values forward from is prepareUpgrade's [currentRelease]: the newest revision if it is
   deployed, else the newest DEPLOYED revision, else (none deployed) the newest revision.

   Definitions only; proofs are in ReuseProofs.v. *)
From Coq Require Import List String Bool Arith.
From Helm Require Import Values.Tree Values.Coalesce.
Import ListNotations.

Record uflags := mkFlags { reset_values : bool; reuse_values : bool; reset_then_reuse_values : bool }.

Inductive rstat := SDeployed | SSuperseded | SFailed.

Definition rstat_eqb (a b : rstat) : bool :=
  match a, b with
  | SDeployed, SDeployed | SSuperseded, SSuperseded | SFailed, SFailed => true
  | _, _ => false
  end.

Record revision := mkRev {
  rconfig : vmap;            (* Release.Config *)
  rchart : chart;            (* Release.Chart as stored *)
  rrendered : vmap;          (* .Values of the rendering that produced Release.Manifest *)
  rstatus : rstat            (* Release.Info.Status *)
}.

Definition set_status (st : rstat) (r : revision) : revision :=
  mkRev (rconfig r) (rchart r) (rrendered r) st.

Definition set_values (c : chart) (v : vmap) : chart := mkChart (cname c) v (cdeps c).

Definition is_empty (m : vmap) : bool := match m with [] => true | _ => false end.

(* reuseValues: Some (chart to render and store, values to record) | None = error *)
Definition reuse_values_fn (f : uflags) (ch : chart) (cur : revision) (newv : vmap) : option (chart * vmap) :=
  if reset_values f then Some (ch, newv)
  else if reuse_values f then
    match coalesce_values_root (rchart cur) (rconfig cur) with
    | None => None
    | Some oldvals => Some (set_values ch oldvals, coalesce_tables false newv (rconfig cur))
    end
  else if reset_then_reuse_values f then Some (ch, coalesce_tables false newv (rconfig cur))
  else if is_empty newv && negb (is_empty (rconfig cur)) then Some (ch, rconfig cur)
  else Some (ch, newv).

(* chartutil.ProcessDependencies(chart, vals) for charts whose Chart.yaml lists no
   dependencies (the charts of these chains): nothing is disabled or imported, but
   processDependencyEnabled still coalesces — CoalesceValues(c, v) at every chart that has
   subcharts, and it hands the PARENT's coalesced values (not the subchart's section) down to
   each subchart — so it can fail with "type mismatch" where rendering alone would not: a
   top-level value that is not a table and is named like a grandchild chart is enough.
   [true] = no error. *)
Fixpoint pd_ok (c : chart) (v : vmap) {struct c} : bool :=
  match c with
  | mkChart _ _ deps =>
      match deps with
      | [] => true
      | _ =>
          match coalesce false c v with
          | None => false
          | Some cvals =>
              (fix all (ds : list chart) : bool :=
                 match ds with
                 | [] => true
                 | t :: ds' => pd_ok t cvals && all ds'
                 end) deps
          end
      end
  end.

(* ProcessDependencies, then ToRenderValues *)
Definition render (c : chart) (v : vmap) : option vmap :=
  if pd_ok c v then to_render_values c v else None.

(* [fails] = the cluster wait returns an error after the record was created *)
Inductive op :=
| OInstall (c : chart) (vals : vmap) (fails : bool)
| OUpgrade (f : uflags) (c : chart) (vals : vmap) (fails : bool)
| ORollback (version : nat) (fails : bool).       (* 0 = the revision before the newest one *)

(* the history of one release name: revision n is the n-th element (1-based) *)
Definition history := list revision.

Definition get_rev (h : history) (n : nat) : option revision :=
  match n with O => None | S i => nth_error h i end.

(* Releases.Last: the newest revision, whatever its status *)
Definition last_rev (h : history) : option revision := get_rev h (List.length h).

(* Releases.Deployed: the number of the newest revision with status deployed (the list's head
   is revision n) *)
Fixpoint deployed_idx_from (n : nat) (sts : list rstat) : option nat :=
  match sts with
  | [] => None
  | st :: t =>
      match deployed_idx_from (S n) t with
      | Some i => Some i
      | None => if rstat_eqb st SDeployed then Some n else None
      end
  end.

(* prepareUpgrade's currentRelease, as a revision number, from the statuses alone:
     lastRelease deployed            -> lastRelease
     else Deployed(name) if any      -> that one
     else (last failed / superseded) -> lastRelease *)
Definition current_idx (sts : list rstat) : option nat :=
  match sts with
  | [] => None                                     (* "has no deployed releases" *)
  | _ =>
      let n := List.length sts in
      match nth_error sts (n - 1) with
      | Some SDeployed => Some n
      | _ => match deployed_idx_from 1 sts with
             | Some i => Some i
             | None => Some n
             end
      end
  end.

Definition current (h : history) : option (nat * revision) :=
  match current_idx (map rstatus h) with
  | Some n => match get_rev h n with Some r => Some (n, r) | None => None end
  | None => None
  end.

Fixpoint supersede_at (n : nat) (h : history) : history :=        (* revision n (1-based) -> superseded *)
  match n, h with
  | _, [] => []
  | O, _ => h
  | S O, r :: t => set_status SSuperseded r :: t
  | S n', r :: t => r :: supersede_at n' t
  end.

Definition supersede_deployed (h : history) : history :=
  map (fun r => if rstat_eqb (rstatus r) SDeployed then set_status SSuperseded r else r) h.

(* one operation: the history afterwards and whether the operation returned without error;
   None = it returned an error before anything was stored *)
Definition step (h : history) (o : op) : option (history * bool) :=
  match o with
  | OInstall c vals fails =>
      match h with
      | [] => match render c vals with
              | Some r => Some ([mkRev vals c r (if fails then SFailed else SDeployed)], negb fails)
              | None => None
              end
      | _ => None                                  (* "cannot re-use a name that is still in use" *)
      end
  | OUpgrade f c vals fails =>
      match current h with
      | None => None
      | Some (n, cur) =>
          match reuse_values_fn f c cur vals with
          | None => None
          | Some (c', vals') =>
              match render c' vals' with
              | Some r =>
                  if fails
                  then Some ((h ++ [mkRev vals' c' r SFailed])%list, false)             (* failRelease *)
                  else Some ((supersede_at n h ++ [mkRev vals' c' r SDeployed])%list, true)
              | None => None
              end
          end
      end
  | ORollback v fails =>
      match last_rev h with
      | None => None
      | Some _ =>
          let target := match v with O => List.length h - 1 | _ => v end in
          match get_rev h target with
          | Some t =>                                     (* Config, Chart, Manifest copied *)
              if fails
              then Some ((h ++ [mkRev (rconfig t) (rchart t) (rrendered t) SFailed])%list, false)
              else Some ((supersede_deployed h ++ [mkRev (rconfig t) (rchart t) (rrendered t) SDeployed])%list, true)
          | None => None                           (* "release has no N version" *)
          end
      end
  end.

(* a chain of operations: the history afterwards and, per operation, whether it returned
   without error *)
Fixpoint run_chain (h : history) (ops : list op) : history * list bool :=
  match ops with
  | [] => (h, [])
  | o :: t =>
      match step h o with
      | Some (h1, ok) => let '(h', oks) := run_chain h1 t in (h', ok :: oks)
      | None => let '(h', oks) := run_chain h t in (h', false :: oks)
      end
  end.

(* C13 x decision translator: the revision an upgrade carries values forward from
   ([Values.Reuse.current_idx], prepareUpgrade's currentRelease over the three statuses C13
   models) is decided by the same named conditions as Engine/Ops.upgrade: "last-deployed"
   and "fallback-to-last" of Upgrade.prepareUpgrade, which coq/Gen/ActionDecisions.v ties to
   the Go source on every run (Props/Decisions.v).  See notes/DEC.md. *)
From Coq Require Import List String Bool Arith.
From Helm Require Import Values.Tree Values.Coalesce Values.Reuse Engine.Types Engine.Decisions Engine.DecisionsModel.
Import ListNotations.
Local Open Scope string_scope.

Definition status_of_rstat (s : rstat) : status :=
  match s with
  | Reuse.SDeployed => Types.SDeployed
  | Reuse.SSuperseded => Types.SSuperseded
  | Reuse.SFailed => Types.SFailed
  end.

(* the environment of prepareUpgrade after Releases.Last *)
Definition env_last (s : rstat) : menv := set_s "Last.status" (status_of_rstat s) env0.

Lemma current_idx_on_sites sts lastst :
  nth_error sts (List.length sts - 1) = Some lastst ->
  current_idx sts =
    if c_up_pending (env_last lastst) then None
    else if c_up_last_deployed (env_last lastst) then Some (List.length sts)
    else match deployed_idx_from 1 sts with
         | Some i => Some i
         | None =>
             if c_up_fallback (set_err "Deployed is Is driver.ErrNoDeployedReleases" true (env_last lastst))
             then Some (List.length sts) else None
         end.
Proof.
  intros H. unfold current_idx. destruct sts as [|s0 t0]; [destruct lastst; discriminate|].
  rewrite H. destruct lastst; simpl; try reflexivity; destruct (deployed_idx_from 1 (s0 :: t0)); reflexivity.
Qed.

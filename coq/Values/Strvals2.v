(* pkg/strvals/parser.go and literal_parser.go — second transcription of the --set family
   (round 4), closer to the code than Values/Strvals.v in four respects:

   * the input is read RUNE by rune as bytes.Buffer.ReadRune / utf8.DecodeRune do
     ([read_rune]): a byte that does not start a well-formed UTF-8 sequence is one rune
     U+FFFD, and string([]rune) of what was collected re-encodes it as EF BF BD.  So keys and
     values are NOT byte-verbatim for ill-formed input; a backslash inside a broken sequence
     splits it.  unicode.IsSpace in emptyVal (--set-json) knows the non-ASCII blanks,
     strings.EqualFold in typedVal the one non-ASCII fold that matters (U+017F for "s");
   * the third-party / caller-supplied parts are Section variables: [rdr], the
     RunesValueReader callback of ParseFile / ParseIntoFile (value and "no error"), and
     [jdec], the streaming JSON decoder of ParseJSON (for the input that remains after
     "name=": the decoded value and dec.InputOffset()).  Theorems hold for every callback and
     every decoder; the correspondence run instantiates them with tables of real results;
   * literal_parser.go's listItem is transcribed with ITS branches (it has no "keep what was
     parsed at io.EOF" case; what it leaves behind is what was patched in place);
   * set(data, "", …) stores nothing, but a slice found at data[""] is patched in place when
     the index is inside it ("[0]=x" over {"": [1,2]}); CopyN running out of input after a
     JSON value is io.EOF (the parse ends there, successfully).

   [scan_key] / [scan_item] read the same input WITHOUT a destination: the path of keys and
   indexes a name=value pair names, the value it carries and where the next pair starts.
   They are the vocabulary of the frame theorems in Strvals2Proofs.v.

   Definitions only. *)
From Coq Require Import List String Ascii Bool Arith ZArith Lia.
From Helm Require Import Common.Strs Values.Tree Values.Strvals.
Import ListNotations.
Local Open Scope string_scope.

(* ---------- paths of keys and list indexes ---------- *)
Inductive step := SKey (k : string) | SIdx (i : Z).

(* following table keys and list indexes; an index outside the list is "absent" *)
Fixpoint dget (q : list step) (v : val) : option val :=
  match q with
  | [] => Some v
  | SKey k :: q' =>
      match v with
      | VMap m => match mget k m with Some x => dget q' x | None => None end
      | _ => None
      end
  | SIdx i :: q' =>
      match v with
      | VList l => if in_range l i then dget q' (nth_val i l) else None
      | _ => None
      end
  end.

(* [drel ai p q]: q is related to the named path p — one is a prefix of the other, or
   ([ai] = the step before was an index) p goes on with a table key where q goes on with an
   index: the list element there is not a table and "name[i].key=…" replaces it as a whole
   (parser.go: "We have indices out of order. Initialize empty value.") *)
Fixpoint drel (ai : bool) (p q : list step) : bool :=
  match p, q with
  | [], _ => true
  | _, [] => true
  | SKey a :: p', SKey b :: q' => String.eqb a b && drel false p' q'
  | SIdx i :: p', SIdx j :: q' => Z.eqb i j && drel true p' q'
  | SKey _ :: _, SIdx _ :: _ => ai
  | SIdx _ :: _, SKey _ :: _ => false
  end.

(* [pad_pos p q]: q is the position of a nil that setIndex pads with: it follows p up to an
   index step [i] of p and ends there with a smaller index *)
Fixpoint pad_pos (p q : list step) : bool :=
  match p, q with
  | SKey a :: p', SKey b :: q' => String.eqb a b && pad_pos p' q'
  | SIdx i :: p', SIdx j :: q' =>
      match q' with
      | [] => (0 <=? j)%Z && (j <? i)%Z
      | _ => Z.eqb i j && pad_pos p' q'
      end
  | _, _ => false
  end.

Fixpoint keys_nonempty (p : list step) : bool :=
  match p with
  | [] => true
  | SKey k :: p' => negb (String.eqb k EmptyString) && keys_nonempty p'
  | SIdx _ :: p' => keys_nonempty p'
  end.

(* ---------- runes ---------- *)
Definition byte (c : ascii) : nat := nat_of_ascii c.
Definition in_rng (lo hi : nat) (c : ascii) : bool := Nat.leb lo (byte c) && Nat.leb (byte c) hi.
Definition cont (c : ascii) : bool := in_rng 128 191 c.

(* U+FFFD as string(rune) encodes it *)
Definition rune_err : string := bs [239; 191; 189].

(* the length of the sequence a first byte announces and the range of the second byte
   (unicode/utf8: first[] and acceptRanges[]); 0 = not a first byte *)
Definition lead (c0 : ascii) : nat * nat * nat :=
  if in_rng 194 223 c0 then (2, 128, 191)
  else if in_rng 224 224 c0 then (3, 160, 191)
  else if in_rng 225 236 c0 then (3, 128, 191)
  else if in_rng 237 237 c0 then (3, 128, 159)
  else if in_rng 238 239 c0 then (3, 128, 191)
  else if in_rng 240 240 c0 then (4, 144, 191)
  else if in_rng 241 243 c0 then (4, 128, 191)
  else if in_rng 244 244 c0 then (4, 128, 143)
  else (0, 0, 0).

(* bytes.Buffer.ReadRune followed by string(r): the bytes of the rune as they are appended
   to what runesUntil collects, and the rest of the buffer.  None = io.EOF. *)
Definition read_rune (s : string) : option (string * string) :=
  match s with
  | EmptyString => None
  | String c0 t0 =>
      if Nat.ltb (byte c0) 128 then Some (String c0 EmptyString, t0)
      else
        let bad := Some (rune_err, t0) in              (* (RuneError, 1) *)
        let '(n, lo, hi) := lead c0 in
        match n with
        | 2 => match t0 with
               | String c1 t1 => if in_rng lo hi c1 then Some (String c0 (String c1 EmptyString), t1) else bad
               | _ => bad
               end
        | 3 => match t0 with
               | String c1 (String c2 t2) =>
                   if in_rng lo hi c1 && cont c2 then Some (String c0 (String c1 (String c2 EmptyString)), t2) else bad
               | _ => bad
               end
        | 4 => match t0 with
               | String c1 (String c2 (String c3 t3)) =>
                   if in_rng lo hi c1 && cont c2 && cont c3
                   then Some (String c0 (String c1 (String c2 (String c3 EmptyString))), t3) else bad
               | _ => bad
               end
        | _ => bad
        end
  end.

(* string([]rune(s)): what Go makes of a byte string when it goes through runes *)
Fixpoint to_utf8_f (f : nat) (s : string) : string :=
  match f with
  | O => EmptyString
  | S f' => match read_rune s with
            | None => EmptyString
            | Some (r, t) => r ++ to_utf8_f f' t
            end
  end.
Definition to_utf8 (s : string) : string := to_utf8_f (String.length s) s.

(* runesUntil (esc = true) / runesUntilLiteral (esc = false): (collected, Some stop-rune |
   None at io.EOF, rest).  Stop runes are ASCII.  A backslash takes the next RUNE literally;
   a backslash at the very end is io.EOF.  None = out of fuel (never with fuel > length,
   Strvals2Proofs.ru_total). *)
Fixpoint ru (f : nat) (esc : bool) (stop : ascii -> bool) (s : string) : option (string * option ascii * string) :=
  match f with
  | O => None
  | S f' =>
      match read_rune s with
      | None => Some (EmptyString, None, EmptyString)
      | Some (String c EmptyString, t) =>
          if stop c then Some (EmptyString, Some c, t)
          else if esc && ch_eq c c_bsl then
            match read_rune t with
            | None => Some (EmptyString, None, EmptyString)
            | Some (n, t') =>
                match ru f' esc stop t' with
                | Some (v, l, r) => Some (n ++ v, l, r)
                | None => None
                end
            end
          else match ru f' esc stop t with
               | Some (v, l, r) => Some (String c v, l, r)
               | None => None
               end
      | Some (r0, t) =>
          match ru f' esc stop t with
          | Some (v, l, r) => Some (r0 ++ v, l, r)
          | None => None
          end
      end
  end.

Definition runes_until2 (esc : bool) (stop : ascii -> bool) (s : string) : string * option ascii * string :=
  match ru (S (String.length s)) esc stop s with
  | Some x => x
  | None => (EmptyString, None, EmptyString)         (* dead: Strvals2Proofs.ru_total *)
  end.

Definition stop_list (c : ascii) : bool := ch_eq c c_comma || ch_eq c c_rbrace.

(* unicode.IsSpace, on the bytes of one rune *)
Definition space_runes : list string :=
  [ bs [9]; bs [10]; bs [11]; bs [12]; bs [13]; bs [32]; bs [194; 133]; bs [194; 160]; bs [225; 154; 128];
    bs [226; 128; 128]; bs [226; 128; 129]; bs [226; 128; 130]; bs [226; 128; 131]; bs [226; 128; 132];
    bs [226; 128; 133]; bs [226; 128; 134]; bs [226; 128; 135]; bs [226; 128; 136]; bs [226; 128; 137];
    bs [226; 128; 138]; bs [226; 128; 168]; bs [226; 128; 169]; bs [226; 128; 175]; bs [226; 129; 159];
    bs [227; 128; 128] ].
Definition is_space_rune (r : string) : bool := existsb (String.eqb r) space_runes.

(* emptyVal: skip blanks; true when a comma or the end follows (the comma is consumed, any
   other rune is put back) *)
Fixpoint empty_val2_f (f : nat) (s : string) : bool * string :=
  match f with
  | O => (false, s)
  | S f' =>
      match read_rune s with
      | None => (true, EmptyString)
      | Some (r, t) =>
          if String.eqb r "," then (true, t)
          else if is_space_rune r then empty_val2_f f' t
          else (false, s)
      end
  end.
Definition empty_val2 (s : string) : bool * string := empty_val2_f (S (String.length s)) s.

(* ---------- typedVal ---------- *)
(* strings.EqualFold(s, w) for an ASCII lower-case word w: ASCII letters fold, and U+017F
   (LATIN SMALL LETTER LONG S, C5 BF) is in the fold orbit of "s" *)
Fixpoint eq_fold2 (s w : string) : bool :=
  match w with
  | EmptyString => match s with EmptyString => true | _ => false end
  | String b w' =>
      match s with
      | EmptyString => false
      | String a s' =>
          if ch_eq (lower a) b then eq_fold2 s' w'
          else if ch_eq b "s"
          then match s' with
               | String a2 s'' => Nat.eqb (byte a) 197 && Nat.eqb (byte a2) 191 && eq_fold2 s'' w'
               | EmptyString => false
               end
          else false
      end
  end.

Definition typed_val2 (st : bool) (v : string) : val :=
  if st then VStr v
  else if eq_fold2 v "true" then VBool true
  else if eq_fold2 v "false" then VBool false
  else if eq_fold2 v "null" then VNull
  else if eq_fold2 v "0" then VNum 0
  else match v with
       | String c _ =>
           if ch_eq c "0" then VStr v
           else match parse_int v with Some n => VNum n | None => VStr v end
       | EmptyString => VStr v
       end.

(* ---------- results ---------- *)
Inductive vlres2 := VL2Ok (l : list val) (rest : string) | VL2NotList | VL2Eof | VL2Err | VL2Fuel.

(* the value after "name=":
   V2Ok v rest   the value, and the input after it (after the separating comma);
   V2Eof         valList met the end of the input right after '=': the value is "";
   V2OkEof v     --set-json: the value was stored, then io.CopyN ran out of input (io.EOF);
   V2ErrV v      the reader callback failed: key() has stored what it returned by then *)
Inductive vres2 := V2Ok (v : val) (rest : string) | V2Eof | V2OkEof (v : val) | V2Err | V2ErrV (v : val) | V2Fuel.

(* the scanner's result: the path a pair names, the value it carries (when the input gets
   as far as a value), and the input after the pair (None: the pair ends the input) *)
Record scan := mkScan { sc_path : list step; sc_val : option val; sc_rest : option string }.

Definition list_at (k : string) (d : vmap) : option (list val * bool) :=
  match mget k d with
  | None => Some ([], false)
  | Some (VList l) => Some (l, true)
  | Some _ => None                                   (* data[kk].([]interface{}) panics *)
  end.

Definition table_at (k : string) (d : vmap) : option (vmap * bool) :=
  match mget k d with
  | None => Some ([], false)
  | Some (VMap m) => Some (m, true)
  | Some _ => None                                   (* data[k].(map[string]interface{}) panics *)
  end.

(* listItem, nested index: the list found at list[i] *)
Definition crt_of (l : list val) (i : Z) : option (list val * bool) :=
  if in_range l i
  then match nth_val i l with
       | VNull => Some ([], false)
       | VList x => Some (x, true)
       | _ => None                                   (* list[i].([]interface{}) panics *)
       end
  else Some ([], false).

(* listItem, "name[i].": the table found at list[i]; an element that is not a table is
   replaced by an empty one, in place ("indices out of order") *)
Definition inner_of (l : list val) (i : Z) : list val * vmap * bool :=
  if in_range l i
  then match nth_val i l with
       | VMap m => (l, m, true)
       | _ => (set_nth (Z.to_nat i) (VMap []) l, [], true)
       end
  else (l, [], false).

(* ----- how key() and listItem() finish once the recursive call / the value is there ----- *)
(* key, '[': set(data, kk, list); return err.  With an empty name nothing is stored, but a
   slice that was found at data[""] has been patched in place when the index was inside it. *)
Definition store_list (k : string) (d : vmap) (l : list val) (i : Z) (existed : bool) (l' : list val) : vmap :=
  match k with
  | EmptyString => if existed && in_range l i then mset k (VList l') d else d
  | _ => mset k (VList l') d
  end.

Definition key_lbr_finish (k : string) (d : vmap) (l : list val) (i : Z) (existed : bool) (r : lres) : kres :=
  match r with
  | LOk l' rest2 => KOk (store_list k d l i existed l') rest2
  | LEof l' => KEof (store_list k d l i existed l')
  | LErr l' => KErr (store_list k d l i existed l')
  | LFuel => KFuel
  end.

Definition key_eq_finish (k : string) (d : vmap) (vr : vres2) : kres :=
  match vr with
  | V2Ok v rest1 => KOk (set k v d) rest1
  | V2Eof => KEof (set k (VStr EmptyString) d)        (* set(data, k, ""); return io.EOF *)
  | V2OkEof v => KEof (set k v d)
  | V2Err => KErr d
  | V2ErrV v => KErr (set k v d)                       (* v, e := t.reader(rs); set(data, k, v); return e *)
  | V2Fuel => KFuel
  end.

(* key, '.': if e == nil && len(inner) == 0 { error }; if len(inner) != 0 { set(data, k, inner) } *)
Definition writeback (k : string) (d : vmap) (existed : bool) (inner' : vmap) : vmap :=
  if existed then mset k (VMap inner') d                (* same map object, changed in place *)
  else match inner' with [] => d | _ => set k (VMap inner') d end.

Definition key_dot_finish (k : string) (d : vmap) (existed : bool) (r : kres) : kres :=
  match r with
  | KOk inner' rest1 => match inner' with
                        | [] => KErr d                 (* "key map has no value" *)
                        | _ => KOk (writeback k d existed inner') rest1
                        end
  | KEof inner' => KEof (writeback k d existed inner')
  | KErr inner' => KErr (writeback k d existed inner')
  | KFuel => KFuel
  end.

Definition item_eq_finish (l : list val) (i : Z) (vr : vres2) : lres :=
  match vr with
  | V2Ok v rest1 => match set_index l i v with Some l' => LOk l' rest1 | None => LErr l end
  | V2Eof => match set_index l i (VStr EmptyString) with Some l' => LOk l' EmptyString | None => LErr l end
  | V2OkEof v => match set_index l i v with Some l' => LEof l' | None => LErr l end
  | V2Err | V2ErrV _ => LErr l
  | V2Fuel => LFuel
  end.

(* listItem, '[' (nested index).  parser.go keeps a non-empty nested list when the input
   ended inside it; literal_parser.go returns its list as it is (the nested list, when it
   existed, was patched in place). *)
Definition item_lbr_finish (lit : bool) (l : list val) (i : Z) (existed : bool) (r : lres) : lres :=
  match r with
  | LOk l2 rest2 => match set_index l i (VList l2) with Some l' => LOk l' rest2 | None => LErr l end
  | LEof l2 =>
      if lit then (if existed then LEof (set_nth (Z.to_nat i) (VList l2) l) else LEof l)
      else match l2 with
           | _ :: _ => match set_index l i (VList l2) with Some l' => LEof l' | None => LErr l end
           | [] => if existed then LEof (set_nth (Z.to_nat i) (VList l2) l) else LEof l
           end
  | LErr _ => LErr l
  | LFuel => LFuel
  end.

(* listItem, '.' (a table inside the list) *)
Definition item_dot_finish (lit : bool) (l1 : list val) (i : Z) (inplace : bool) (r : kres) : lres :=
  match r with
  | KOk inner' rest1 => match set_index l1 i (VMap inner') with Some l' => LOk l' rest1 | None => LErr l1 end
  | KEof inner' =>
      if lit then (if inplace then LEof (set_nth (Z.to_nat i) (VMap inner') l1) else LEof l1)
      else match inner' with
           | _ :: _ => match set_index l1 i (VMap inner') with Some l' => LEof l' | None => LErr l1 end
           | [] => if inplace then LEof (set_nth (Z.to_nat i) (VMap inner') l1) else LEof l1
           end
  | KErr _ => LErr l1
  | KFuel => LFuel
  end.

Section Parser.
  Variable mode : pmode.
  (* the RunesValueReader of ParseFile / ParseIntoFile: what it returns and whether err == nil *)
  Variable rdr : string -> val * bool.
  (* json.NewDecoder(strings.NewReader(rest)).Decode(&v) and dec.InputOffset(); None = error *)
  Variable jdec : string -> option (val * nat).

  Definition lit : bool := match mode with MLiteral => true | _ => false end.
  Definition esc : bool := negb lit.

  (* t.reader(rs) *)
  Definition reader2 (rs : string) : val * bool :=
    match mode with
    | MTyped => (typed_val2 false rs, true)
    | MString => (typed_val2 true rs, true)
    | MFile => rdr rs
    | MJson | MLiteral => (VNull, false)             (* no reader in these modes; never called *)
    end.

  (* keyIndex: runesUntil ']' then strconv.Atoi *)
  Definition key_index2 (s : string) : option (Z * string) :=
    match runes_until2 esc stop_rbr s with
    | (v, Some _, rest) => match parse_int v with Some i => Some (i, rest) | None => None end
    | (_, None, _) => None
    end.

  (* valList after the opening brace *)
  Fixpoint val_list_loop2 (f : nat) (acc : list val) (s : string) : vlres2 :=
    match f with
    | O => VL2Fuel
    | S f' =>
        match runes_until2 true stop_list s with
        | (_, None, _) => VL2Err                      (* "list must terminate with '}'" *)
        | (rs, Some ch, rest) =>
            if ch_eq ch c_rbrace then
              (* If this is followed by ',', consume it. *)
              let rest' := match rest with String c2 t2 => if ch_eq c2 c_comma then t2 else rest | EmptyString => rest end in
              let '(v, ok) := reader2 rs in
              if ok then VL2Ok (acc ++ [v])%list rest' else VL2Err
            else
              let '(v, ok) := reader2 rs in
              if ok then val_list_loop2 f' (acc ++ [v])%list rest else VL2Err
        end
    end.

  Definition val_list2 (s : string) : vlres2 :=
    match s with
    | EmptyString => VL2Eof
    | String ch t => if ch_eq ch c_lbrace then val_list_loop2 (S (String.length t)) [] t else VL2NotList
    end.

  Definition value_after_eq2 (s : string) : vres2 :=
    match mode with
    | MLiteral => V2Ok (VStr (fst (fst (runes_until2 false stop_none s)))) EmptyString
    | MJson =>
        let '(emp, rest) := empty_val2 s in
        if emp then V2Ok VNull rest
        else match jdec rest with
             | None => V2Err
             | Some (v, used) =>
                 if Nat.ltb (String.length rest) used then V2OkEof v
                 else V2Ok v (snd (empty_val2 (drop used rest)))
             end
    | _ =>
        match val_list2 s with
        | VL2Ok l rest => V2Ok (VList l) rest
        | VL2Eof => V2Eof
        | VL2Err => V2Err
        | VL2Fuel => V2Fuel
        | VL2NotList =>
            let '(rs, _, rest) := runes_until2 true stop_comma s in
            let '(v, ok) := reader2 rs in
            if ok then V2Ok v rest else V2ErrV v
        end
    end.

  Definition stopk : ascii -> bool := if lit then stop_key_lit else stop_key.

  Fixpoint key2 (f : nat) (d : vmap) (lvl : nat) (s : string) {struct f} : kres :=
    match f with
    | O => KFuel
    | S f' =>
        let '(k, last, rest) := runes_until2 esc stopk s in
        match last with
        | None => match k with EmptyString => KEof d | _ => KErr d end      (* "key has no value" *)
        | Some ch =>
            if ch_eq ch c_lbr then
              match key_index2 rest with
              | None => KErr d
              | Some (i, rest1) =>
                  match list_at k d with
                  | None => KErr d
                  | Some (l, existed) => key_lbr_finish k d l i existed (list_item2 f' l i lvl rest1)
                  end
              end
            else if ch_eq ch c_eq then key_eq_finish k d (value_after_eq2 rest)
            else if ch_eq ch c_comma then KErr (set k (VStr EmptyString) d)  (* "key has no value (cannot end with ,)" *)
            else (* '.' *)
              if Nat.ltb max_nested_name_level (S lvl) then KErr d
              else match table_at k d with
                   | None => KErr d
                   | Some (inner, existed) => key_dot_finish k d existed (key2 f' inner (S lvl) rest)
                   end
        end
    end

  with list_item2 (f : nat) (l : list val) (i : Z) (lvl : nat) (s : string) {struct f} : lres :=
    match f with
    | O => LFuel
    | S f' =>
        if (i <? 0)%Z then LErr l
        else
          let '(k, last, rest) := runes_until2 esc stop_item s in
          match k with
          | String _ _ => LErr l                                         (* "unexpected data at end of array index" *)
          | EmptyString =>
              match last with
              | None => LEof l
              | Some ch =>
                  if ch_eq ch c_eq then item_eq_finish l i (value_after_eq2 rest)
                  else if ch_eq ch c_lbr then
                    if Nat.ltb max_nested_name_level (S lvl) then LErr l
                    else match key_index2 rest with
                         | None => LErr l
                         | Some (nexti, rest1) =>
                             match crt_of l i with
                             | None => LErr l
                             | Some (crt, existed) =>
                                 item_lbr_finish lit l i existed (list_item2 f' crt nexti (S lvl) rest1)
                             end
                         end
                  else (* '.' *)
                    if Nat.ltb max_nested_name_level (S lvl) then LErr l
                    else let '(l1, inner, inplace) := inner_of l i in
                         item_dot_finish lit l1 i inplace (key2 f' inner (S lvl) rest)
              end
          end
    end.

  Fixpoint parse_loop2 (f : nat) (d : vmap) (s : string) : pres :=
    match f with
    | O => PFuel
    | S f' =>
        match key2 (S (String.length s)) d 0 s with
        | KOk d' rest => parse_loop2 f' d' rest
        | KEof d' => POk d'
        | KErr d' => PErr d'
        | KFuel => PFuel
        end
    end.

  Definition parse2 (s : string) (dest : vmap) : pres := parse_loop2 (S (String.length s)) dest s.

  (* ---------- the same input read without a destination ---------- *)
  Definition scan_cons (st : list step) (r : scan) : scan := mkScan (st ++ sc_path r)%list (sc_val r) (sc_rest r).

  Fixpoint scan_key (f : nat) (s : string) {struct f} : scan :=
    match f with
    | O => mkScan [] None None
    | S f' =>
        let '(k, last, rest) := runes_until2 esc stopk s in
        match last with
        | None => mkScan [] None None
        | Some ch =>
            if ch_eq ch c_lbr then
              match key_index2 rest with
              | None => mkScan [SKey k] None None
              | Some (i, rest1) => scan_cons [SKey k; SIdx i] (scan_item f' rest1)
              end
            else if ch_eq ch c_eq then
              match value_after_eq2 rest with
              | V2Ok v rest1 => mkScan [SKey k] (Some v) (Some rest1)
              | V2Eof => mkScan [SKey k] (Some (VStr EmptyString)) None
              | V2OkEof v => mkScan [SKey k] (Some v) None
              | _ => mkScan [SKey k] None None
              end
            else if ch_eq ch c_comma then mkScan [SKey k] None None
            else scan_cons [SKey k] (scan_key f' rest)
        end
    end

  with scan_item (f : nat) (s : string) {struct f} : scan :=
    match f with
    | O => mkScan [] None None
    | S f' =>
        let '(k, last, rest) := runes_until2 esc stop_item s in
        match k with
        | String _ _ => mkScan [] None None
        | EmptyString =>
            match last with
            | None => mkScan [] None None
            | Some ch =>
                if ch_eq ch c_eq then
                  match value_after_eq2 rest with
                  | V2Ok v rest1 => mkScan [] (Some v) (Some rest1)
                  | V2Eof => mkScan [] (Some (VStr EmptyString)) (Some EmptyString)
                  | V2OkEof v => mkScan [] (Some v) None
                  | _ => mkScan [] None None
                  end
                else if ch_eq ch c_lbr then
                  match key_index2 rest with
                  | None => mkScan [] None None
                  | Some (nexti, rest1) => scan_cons [SIdx nexti] (scan_item f' rest1)
                  end
                else scan_key f' rest
            end
        end
    end.

  (* the paths the successive pairs of an expression name, read off the string alone *)
  Fixpoint names (f : nat) (s : string) : list (list step) :=
    match f with
    | O => []
    | S f' =>
        let r := scan_key (S (String.length s)) s in
        match sc_path r with
        | [] => []
        | p => p :: match sc_rest r with Some rest => names f' rest | None => [] end
        end
    end.

  Definition names_of (s : string) : list (list step) := names (S (String.length s)) s.

  (* … with the values *)
  Fixpoint pairs (f : nat) (s : string) : list (list step * option val) :=
    match f with
    | O => []
    | S f' =>
        let r := scan_key (S (String.length s)) s in
        match sc_path r with
        | [] => []
        | p => (p, sc_val r) :: match sc_rest r with Some rest => pairs f' rest | None => [] end
        end
    end.

  Definition pairs_of (s : string) : list (list step * option val) := pairs (S (String.length s)) s.
End Parser.

(* ---------- the public entry points ---------- *)
Definition no_rdr (rs : string) : val * bool := (VNull, false).
Definition no_jdec (s : string) : option (val * nat) := None.

Definition parse_into2 (s : string) (dest : vmap) : pres := parse2 MTyped no_rdr no_jdec s dest.           (* ParseInto; Parse = on {} *)
Definition parse_into_string2 (s : string) (dest : vmap) : pres := parse2 MString no_rdr no_jdec s dest.  (* ParseIntoString; ParseString *)
Definition parse_into_file2 (rdr : string -> val * bool) (s : string) (dest : vmap) : pres :=
  parse2 MFile rdr no_jdec s dest.                                                                         (* ParseIntoFile; ParseFile *)
Definition parse_json2 (jdec : string -> option (val * nat)) (s : string) (dest : vmap) : pres :=
  parse2 MJson no_rdr jdec s dest.                                                                         (* ParseJSON *)
Definition parse_literal_into2 (s : string) (dest : vmap) : pres := parse2 MLiteral no_rdr no_jdec s dest. (* ParseLiteralInto; ParseLiteral *)

(* the two callbacks as the correspondence run supplies them: tables of real results *)
Definition rdr_of_table (t : list (string * (val * bool))) (rs : string) : val * bool :=
  (fix go (l : list (string * (val * bool))) : val * bool :=
     match l with
     | [] => (VNull, false)
     | (k, x) :: l' => if String.eqb rs k then x else go l'
     end) t.

Definition jdec_of_table (t : list (nat * (val * nat))) (rest : string) : option (val * nat) :=
  assoc_nat (String.length rest) t.

(* C13, chains with failing steps and rollbacks followed by reuse-values (round 4).

   [Reuse.step] lets every operation fail after its record was created; prepareUpgrade's
   currentRelease ([Reuse.current_idx]) then decides from the stored statuses which revision
   the next upgrade carries values forward from.  Here the two are put together over whole
   histories:

   * in every history the operations build from nothing, AT MOST ONE revision is deployed, and
     it is the one stored by the most recent operation that returned without error
     ([deployed_is], [chain_deployed_is]); failed operations — at any position, any number of
     them — store a revision but move nothing;
   * so the revision an upgrade carries forward from is that one ([current_of_deployed_is]),
     and what the upgrade records is the specification applied to it; what a revision records
     is never changed by later operations ([step_keeps_content]);
   * after a successful rollback the deployed revision is the rollback's, which is the target's
     Config, chart and rendered values: a following reuse-values upgrade keeps the TARGET's
     defaults in force, whatever chart was deployed before the rollback
     ([rollback_then_upgrade]). *)
From Coq Require Import List String Bool Arith ZArith Lia.
From Helm Require Import Values.Tree Values.Merge Values.Coalesce Values.Reuse Values.ReuseProofs.
Import ListNotations.

(* ---- the revision stored by the most recent operation that returned without error ---- *)

(* run [ops] from [h]; [acc] = that revision's number before [ops] (None: no operation
   returned without error so far) *)
Fixpoint last_ok (h : history) (ops : list op) (acc : option nat) : option nat :=
  match ops with
  | [] => acc
  | o :: t =>
      match step h o with
      | Some (h1, true) => last_ok h1 t (Some (List.length h1))
      | Some (h1, false) => last_ok h1 t acc
      | None => last_ok h t acc
      end
  end.

(* revision j+1 is deployed exactly when it is the one [acc] names *)
Definition deployed_is (h : history) (acc : option nat) : Prop :=
  (forall j r, nth_error h j = Some r -> (rstatus r = SDeployed <-> acc = Some (S j)))
  /\ (forall n, acc = Some n -> 1 <= n <= List.length h).

Lemma deployed_is_nil : deployed_is [] None.
Proof. split; [intros [|j] r H; discriminate | intros n H; discriminate]. Qed.

Lemma current_idx_some : forall sts, sts <> [] -> exists m, current_idx sts = Some m.
Proof.
  intros sts H. unfold current_idx. destruct sts as [|s t]; [contradiction|].
  destruct (nth_error (s :: t) (List.length (s :: t) - 1)) as [[| |]|];
    destruct (deployed_idx_from 1 (s :: t)); eauto.
Qed.

Lemma nth_error_map_some : forall (A B : Type) (f : A -> B) l j y,
  nth_error (map f l) j = Some y -> exists x, nth_error l j = Some x /\ f x = y.
Proof.
  intros A B f l j y H. rewrite nth_error_map in H. destruct (nth_error l j) as [x|]; [|discriminate].
  inversion H. eauto.
Qed.

(* prepareUpgrade's currentRelease in such a history: the revision [acc] names; when no
   operation has returned without error yet, the newest revision *)
Lemma current_of_deployed_is : forall h acc,
  deployed_is h acc -> h <> [] ->
  exists r, current h = Some (match acc with Some n => n | None => List.length h end, r).
Proof.
  intros h acc [Hiff Hb] Hne.
  assert (Hs : map rstatus h <> []) by (destruct h; [contradiction | discriminate]).
  destruct (current_idx_some _ Hs) as [m Hm].
  destruct (current_idx_spec _ _ Hm) as [Hr Hd]. rewrite map_length in Hr.
  assert (Hg : exists r, get_rev h m = Some r).
  { destruct m as [|i]; [lia|]. simpl. destruct (nth_error h i) eqn:E; [eauto|]. apply nth_error_None in E. lia. }
  destruct Hg as [r Hg]. exists r. unfold current. rewrite Hm, Hg.
  destruct Hd as [[Hdep _] | [Hlast Hnone]].
  - apply nth_error_map_some in Hdep. destruct Hdep as (x & Hx & Hst).
    apply (Hiff _ _ Hx) in Hst. rewrite Hst. replace (S (m - 1)) with m by lia. reflexivity.
  - destruct acc as [n|].
    + exfalso. destruct (Hb n eq_refl) as [H1 H2].
      destruct (nth_error h (n - 1)) as [x|] eqn:E; [|apply nth_error_None in E; lia].
      assert (Hx : rstatus x = SDeployed) by (apply (Hiff _ _ E); f_equal; lia).
      apply (Hnone (n - 1)). rewrite nth_error_map, E. simpl. now rewrite Hx.
    + rewrite map_length in Hlast. now rewrite Hlast.
Qed.

Lemma deployed_is_snoc_other : forall h acc r,
  deployed_is h acc -> rstatus r <> SDeployed -> deployed_is (h ++ [r])%list acc.
Proof.
  intros h acc r [Hiff Hb] Hr. split.
  - intros j x Hx. destruct (Nat.lt_ge_cases j (List.length h)) as [L|L].
    + rewrite nth_error_app1 in Hx by assumption. now apply Hiff.
    + rewrite nth_error_app2 in Hx by assumption.
      destruct (j - List.length h) as [|k] eqn:E; simpl in Hx; [|destruct k; discriminate].
      inversion Hx; subst x. split; [intros; contradiction|].
      intros A. destruct (Hb _ A). lia.
  - intros n A. destruct (Hb _ A). rewrite app_length. simpl. lia.
Qed.

Lemma deployed_is_snoc_new : forall h' r,
  (forall j x, nth_error h' j = Some x -> rstatus x <> SDeployed) -> rstatus r = SDeployed ->
  deployed_is (h' ++ [r])%list (Some (List.length (h' ++ [r])%list)).
Proof.
  intros h' r Hn Hr. rewrite app_length. simpl. split.
  - intros j x Hx. destruct (Nat.lt_ge_cases j (List.length h')) as [L|L].
    + rewrite nth_error_app1 in Hx by assumption. split.
      * intros D. exfalso. exact (Hn _ _ Hx D).
      * intros A. inversion A. lia.
    + rewrite nth_error_app2 in Hx by assumption.
      destruct (j - List.length h') as [|k] eqn:E; simpl in Hx; [|destruct k; discriminate].
      inversion Hx; subst x. split; [intros _; f_equal; lia | intros _; exact Hr].
  - intros n A. inversion A. rewrite app_length. simpl. lia.
Qed.

Lemma nth_supersede_at : forall h n j,
  nth_error (supersede_at n h) j =
  if Nat.eqb (S j) n then option_map (set_status SSuperseded) (nth_error h j) else nth_error h j.
Proof.
  induction h as [|r t IH]; intros n j.
  - destruct n as [|[|n]]; simpl; destruct j; simpl; try reflexivity; destruct (Nat.eqb _ _); reflexivity.
  - destruct n as [|[|n]].
    + reflexivity.
    + destruct j as [|j]; simpl; [reflexivity|]. destruct j; reflexivity.
    + change (supersede_at (S (S n)) (r :: t)) with (r :: supersede_at (S n) t).
      destruct j as [|j]; [reflexivity|].
      change (nth_error (r :: supersede_at (S n) t) (S j)) with (nth_error (supersede_at (S n) t) j).
      rewrite IH. reflexivity.
Qed.

Lemma supersede_at_length : forall h n, List.length (supersede_at n h) = List.length h.
Proof.
  induction h as [|r t IH]; intros [|[|n]]; try reflexivity.
  change (supersede_at (S (S n)) (r :: t)) with (r :: supersede_at (S n) t).
  change (List.length (r :: supersede_at (S n) t)) with (S (List.length (supersede_at (S n) t))). now rewrite IH.
Qed.

(* one step keeps the invariant: an operation that returns without error makes its own
   revision the deployed one; any other changes nothing *)
Lemma step_deployed_is : forall h acc o h1 ok,
  deployed_is h acc -> step h o = Some (h1, ok) ->
  deployed_is h1 (if ok then Some (List.length h1) else acc).
Proof.
  intros h acc o h1 ok Hinv H. destruct o as [c vals fails|f c vals fails|v fails].
  - simpl in H. destruct h; [|discriminate]. destruct (render c vals); [|discriminate].
    destruct fails; inversion H; subst; simpl.
    + assert (acc = None) as -> by (destruct acc as [n|]; [destruct (proj2 Hinv n eq_refl); simpl in *; lia | reflexivity]).
      apply (deployed_is_snoc_other [] None); [exact deployed_is_nil | simpl; discriminate].
    + apply (deployed_is_snoc_new []); [intros [|j] x E; discriminate | reflexivity].
  - destruct (upgrade_stores _ _ _ _ _ _ _ H) as (n & cur & d & r & Hc & _ & -> & _ & _ & _ & Hst & ->).
    destruct fails; simpl negb; cbv iota.
    + apply deployed_is_snoc_other; [assumption | rewrite Hst; simpl; discriminate].
    + apply deployed_is_snoc_new; [|rewrite Hst; reflexivity].
      assert (Hne : h <> []) by (intros ->; discriminate).
      destruct (current_of_deployed_is _ _ Hinv Hne) as [r' Hc']. rewrite Hc in Hc'. inversion Hc'; subst.
      intros j x Hx D. rewrite nth_supersede_at in Hx.
      destruct (Nat.eqb (S j) _) eqn:E.
      * destruct (nth_error h j); [|discriminate]. inversion Hx; subst x. discriminate.
      * apply (proj1 Hinv _ _ Hx) in D. apply Nat.eqb_neq in E. apply E. destruct acc as [m|]; [inversion D; reflexivity | discriminate].
  - destruct (rollback_stores _ _ _ _ _ H) as (t & r & _ & -> & _ & _ & _ & Hst & ->).
    destruct fails; simpl negb; cbv iota.
    + apply deployed_is_snoc_other; [assumption | rewrite Hst; simpl; discriminate].
    + apply deployed_is_snoc_new; [|rewrite Hst; reflexivity].
      intros j x Hx D. unfold supersede_deployed in Hx. apply nth_error_map_some in Hx. destruct Hx as (y & _ & <-).
      destruct (rstat_eqb (rstatus y) SDeployed) eqn:E; [discriminate|].
      rewrite D in E. discriminate.
Qed.

(* ... and so does a chain, failed and rejected operations at any position included *)
Lemma chain_deployed_is : forall ops h acc h' oks,
  deployed_is h acc -> run_chain h ops = (h', oks) -> deployed_is h' (last_ok h ops acc).
Proof.
  induction ops as [|o ops IH]; intros h acc h' oks Hinv H; simpl in H.
  - inversion H; subst. exact Hinv.
  - simpl last_ok. destruct (step h o) as [[h1 ok]|] eqn:S.
    + destruct (run_chain h1 ops) as [h2 oks2] eqn:R. inversion H; subst.
      pose proof (step_deployed_is _ _ _ _ _ Hinv S) as Hinv1.
      destruct ok; eapply IH; eauto.
    + destruct (run_chain h ops) as [h2 oks2] eqn:R. inversion H; subst. eapply IH; eauto.
Qed.

Theorem deployed_is_last_success : forall (ops : list op) (h : history) (oks : list bool),
  run_chain [] ops = (h, oks) ->
  (forall j r, nth_error h j = Some r -> (rstatus r = SDeployed <-> last_ok [] ops None = Some (S j)))
  /\ (forall n, last_ok [] ops None = Some n -> 1 <= n <= List.length h)
  /\ (h <> [] -> exists r,
        current h = Some (match last_ok [] ops None with Some n => n | None => List.length h end, r)).
Proof.
  intros ops h oks H. pose proof (chain_deployed_is _ _ _ _ _ deployed_is_nil H) as I.
  destruct I as [A B]. split; [exact A|]. split; [exact B|].
  exact (current_of_deployed_is _ _ (conj A B)).
Qed.

(* ---- what a revision records is never changed by later operations ---- *)
Definition same_content (a b : revision) : Prop :=
  rconfig a = rconfig b /\ rchart a = rchart b /\ rrendered a = rrendered b.

Lemma same_content_refl : forall a, same_content a a.
Proof. intros a. repeat split. Qed.

Lemma same_content_trans : forall a b c, same_content a b -> same_content b c -> same_content a c.
Proof. intros a b c (A1 & A2 & A3) (B1 & B2 & B3). repeat split; congruence. Qed.

Lemma step_keeps_content : forall h o h1 ok j x,
  step h o = Some (h1, ok) -> get_rev h j = Some x ->
  exists x', get_rev h1 j = Some x' /\ same_content x x'.
Proof.
  intros h o h1 ok j x H G. destruct j as [|i]; [discriminate|]. simpl in G |- *.
  assert (L : i < List.length h) by (apply nth_error_Some; congruence).
  destruct o as [c vals fails|f c vals fails|v fails].
  - simpl in H. destruct h; [destruct i; discriminate | discriminate].
  - destruct (upgrade_stores _ _ _ _ _ _ _ H) as (n & cur & d & r & _ & _ & -> & _).
    destruct fails.
    + rewrite nth_error_app1 by assumption. exists x. split; [assumption | apply same_content_refl].
    + rewrite nth_error_app1 by (rewrite supersede_at_length; assumption). rewrite nth_supersede_at, G.
      destruct (Nat.eqb (S i) n); simpl; eexists; split; try reflexivity; repeat split.
  - destruct (rollback_stores _ _ _ _ _ H) as (t & r & _ & -> & _).
    destruct fails.
    + rewrite nth_error_app1 by assumption. exists x. split; [assumption | apply same_content_refl].
    + rewrite nth_error_app1 by (unfold supersede_deployed; rewrite map_length; assumption).
      unfold supersede_deployed. rewrite nth_error_map, G. simpl.
      destruct (rstat_eqb (rstatus x) SDeployed); eexists; split; try reflexivity; repeat split.
Qed.

Lemma chain_keeps_content : forall ops h h' oks j x,
  run_chain h ops = (h', oks) -> get_rev h j = Some x ->
  exists x', get_rev h' j = Some x' /\ same_content x x'.
Proof.
  induction ops as [|o ops IH]; intros h h' oks j x H G; simpl in H.
  - inversion H; subst. exists x. split; [assumption | apply same_content_refl].
  - destruct (step h o) as [[h1 ok]|] eqn:S.
    + destruct (run_chain h1 ops) as [h2 oks2] eqn:R. inversion H; subst.
      destruct (step_keeps_content _ _ _ _ _ _ S G) as (x1 & G1 & C1).
      destruct (IH _ _ _ _ _ R G1) as (x2 & G2 & C2). exists x2. split; [assumption | eapply same_content_trans; eauto].
    + destruct (run_chain h ops) as [h2 oks2] eqn:R. inversion H; subst. eapply IH; eauto.
Qed.

Lemma step_stores_one : forall h o h1 ok, step h o = Some (h1, ok) ->
  exists r, h1 = ((firstn (List.length h) h1) ++ [r])%list /\ List.length h1 = S (List.length h) /\ get_rev h1 (S (List.length h)) = Some r.
Proof.
  intros h o h1 ok H.
  assert (E : exists pre r, h1 = (pre ++ [r])%list /\ List.length pre = List.length h).
  { destruct o as [c vals fails|f c vals fails|v fails].
    - simpl in H. destruct h; [|discriminate]. destruct (render c vals); [|discriminate].
      inversion H; subst. exists [], (mkRev vals c v (if fails then SFailed else SDeployed)). split; reflexivity.
    - destruct (upgrade_stores _ _ _ _ _ _ _ H) as (n & cur & d & r & _ & _ & -> & _).
      eexists _, r. split; [reflexivity|]. destruct fails; [reflexivity | apply supersede_at_length].
    - destruct (rollback_stores _ _ _ _ _ H) as (t & r & _ & -> & _).
      eexists _, r. split; [reflexivity|]. destruct fails; [reflexivity | unfold supersede_deployed; apply map_length]. }
  destruct E as (pre & r & -> & L). exists r. rewrite <- L.
  rewrite firstn_app, firstn_all, Nat.sub_diag. simpl. rewrite app_nil_r.
  split; [reflexivity|]. split; [rewrite app_length; simpl; lia|].
  rewrite nth_error_app2 by lia. now rewrite Nat.sub_diag.
Qed.

(* ---- the chain theorem with failures ---- *)

Definition op_fails (o : op) : bool :=
  match o with OInstall _ _ f | OUpgrade _ _ _ f | ORollback _ f => f end.

(* Any chain from the empty history, cut at any operation that stores a revision: whatever
   failed, was rejected or succeeded before it, and whatever comes after it.  [b] is the
   revision stored by the most recent earlier operation that returned without error (when there
   is none: the newest revision); it is the only deployed revision, and an upgrade records —
   for good — the specification applied to it; a rollback records its target. *)
Theorem chain_with_failures :
  forall (pre post : list op) (o : op) (h0 h1 hfin : history) (oks0 oksfin : list bool) (ok : bool),
  run_chain [] pre = (h0, oks0) ->
  step h0 o = Some (h1, ok) ->
  run_chain h1 post = (hfin, oksfin) ->
  ok = negb (op_fails o)
  /\ exists r, get_rev hfin (S (List.length h0)) = Some r
  /\ match o with
     | OInstall c vals fails => h0 = [] /\ rconfig r = vals /\ rchart r = c
     | OUpgrade f c vals fails =>
         exists base,
           get_rev h0 (match last_ok [] pre None with Some n => n | None => List.length h0 end) = Some base
           /\ (forall n, last_ok [] pre None = Some n ->
                 rstatus base = SDeployed
                 /\ forall j x, get_rev h0 j = Some x -> rstatus x = SDeployed -> j = n)
           /\ (last_ok [] pre None = None -> forall j x, get_rev h0 j = Some x -> rstatus x <> SDeployed)
           /\ rconfig r = config_spec f vals (rconfig base)
           /\ (keeps_old_defaults f = true -> rchart r = set_values c (rrendered base))
           /\ (keeps_old_defaults f = false -> rchart r = set_values c (cvalues c))
     | ORollback v fails =>
         exists t, get_rev h0 (match v with O => List.length h0 - 1 | _ => v end) = Some t
           /\ rconfig r = rconfig t /\ rchart r = rchart t /\ rrendered r = rrendered t
     end.
Proof.
  intros pre post o h0 h1 hfin oks0 oksfin ok Hpre Hstep Hpost.
  pose proof (chain_deployed_is _ _ _ _ _ deployed_is_nil Hpre) as Hinv.
  assert (Hcons : Forall consistent h0) by (eapply chain_consistent; [constructor | exact Hpre]).
  destruct (step_stores_one _ _ _ _ Hstep) as (r1 & _ & _ & G1).
  destruct (chain_keeps_content _ _ _ _ _ _ Hpost G1) as (r & G & (C1 & C2 & C3)).
  destruct o as [c vals fails|f c vals fails|v fails]; simpl op_fails.
  - simpl in Hstep. destruct h0; [|discriminate]. destruct (render c vals) as [rv|]; [|discriminate].
    inversion Hstep; subst. split; [reflexivity|]. exists r. split; [exact G|].
    simpl in G1. inversion G1; subst r1. simpl in C1, C2. repeat split; congruence.
  - destruct (upgrade_stores _ _ _ _ _ _ _ Hstep) as (n & cur & d & r' & Hc & Hd & -> & Hcfg & Hch & _ & _ & ->).
    split; [reflexivity|]. exists r. split; [exact G|].
    assert (r1 = r').
    { simpl in G1. rewrite nth_error_app2 in G1 by (destruct fails; [|rewrite supersede_at_length]; lia).
      replace (List.length h0 - List.length (if fails then h0 else supersede_at n h0)) with 0 in G1
        by (destruct fails; [|rewrite supersede_at_length]; lia). inversion G1. reflexivity. }
    subst r'.
    assert (Hne : h0 <> []) by (intros ->; discriminate).
    destruct (current_of_deployed_is _ _ Hinv Hne) as [base Hb]. rewrite Hc in Hb. inversion Hb; subst n base.
    destruct (current_get _ _ _ Hc) as [Gc _].
    exists cur. split; [exact Gc|]. split; [|split; [|split; [|split]]].
    + intros m Hm. rewrite Hm in Gc, Hinv. destruct Hinv as [Hiff Hbd]. split.
      * destruct m as [|i]; [discriminate|]. simpl in Gc. now apply (Hiff _ _ Gc).
      * intros j x Gj D. destruct j as [|i]; [discriminate|]. simpl in Gj.
        apply (Hiff _ _ Gj) in D. now inversion D.
    + intros Hm j x Gj D. rewrite Hm in Hinv. destruct j as [|i]; [discriminate|]. simpl in Gj.
      apply (proj1 Hinv _ _ Gj) in D. discriminate.
    + congruence.
    + intros K. rewrite <- C2, Hch. f_equal.
      unfold defaults_spec in Hd. rewrite K in Hd.
      apply get_rev_in in Gc. rewrite Forall_forall in Hcons. specialize (Hcons _ Gc).
      unfold consistent, to_render_values in Hcons. rewrite Hcons in Hd. now inversion Hd.
    + intros K. rewrite <- C2, Hch. f_equal. unfold defaults_spec in Hd. rewrite K in Hd. now inversion Hd.
  - destruct (rollback_stores _ _ _ _ _ Hstep) as (t & r' & Gt & -> & Hcfg & Hch & Hrr & _ & ->).
    split; [reflexivity|]. exists r. split; [exact G|].
    assert (r1 = r').
    { simpl in G1. rewrite nth_error_app2 in G1 by (destruct fails; [|unfold supersede_deployed; rewrite map_length]; lia).
      replace (List.length h0 - List.length (if fails then h0 else supersede_deployed h0)) with 0 in G1
        by (destruct fails; [|unfold supersede_deployed; rewrite map_length]; lia). inversion G1. reflexivity. }
    subst r'. exists t. split; [exact Gt|]. repeat split; congruence.
Qed.

(* ---- rollback, then upgrade ---- *)

Lemma last_rev_snoc : forall h r, last_rev (h ++ [r])%list = Some r.
Proof.
  intros h r. unfold last_rev, get_rev. rewrite app_length. simpl.
  replace (List.length h + 1) with (S (List.length h)) by lia.
  rewrite nth_error_app2 by lia. now rewrite Nat.sub_diag.
Qed.

Lemma current_snoc_deployed : forall h r,
  rstatus r = SDeployed -> current (h ++ [r])%list = Some (S (List.length h), r).
Proof.
  intros h r Hr. unfold current.
  assert (E : current_idx (map rstatus (h ++ [r])%list) = Some (S (List.length h))).
  { rewrite map_app. simpl. rewrite Hr. unfold current_idx.
    destruct (map rstatus h ++ [SDeployed])%list as [|s t] eqn:E; [destruct (map rstatus h); discriminate|].
    rewrite <- E. rewrite app_length, map_length. simpl.
    replace (List.length h + 1 - 1) with (List.length (map rstatus h)) by (rewrite map_length; lia).
    rewrite nth_error_app2 by lia. rewrite Nat.sub_diag. simpl. f_equal. lia. }
  rewrite E. simpl. rewrite nth_error_app2 by lia. now rewrite Nat.sub_diag.
Qed.

(* A successful rollback to a revision [t] — whose chart may differ from the one deployed
   before — and then an upgrade (succeeding or failing): the upgrade carries forward from the
   rollback's revision, i.e. it records the specification applied to [t]'s Config, and with
   reuse-values the defaults in force are the values [t]'s templates saw. *)
Theorem rollback_then_upgrade :
  forall (h : history) (v : nat) (h1 : history) (f : uflags) (c : chart) (vals : vmap) (fails : bool) (h2 : history) (ok : bool),
  Forall consistent h ->
  step h (ORollback v false) = Some (h1, true) ->
  step h1 (OUpgrade f c vals fails) = Some (h2, ok) ->
  exists t r, get_rev h (match v with O => List.length h - 1 | _ => v end) = Some t
    /\ current h1 = Some (S (List.length h), set_status SDeployed t)
    /\ last_rev h2 = Some r
    /\ rconfig r = config_spec f vals (rconfig t)
    /\ (keeps_old_defaults f = true -> rchart r = set_values c (rrendered t))
    /\ (keeps_old_defaults f = false -> rchart r = set_values c (cvalues c)).
Proof.
  intros h v h1 f c vals fails h2 ok Hcons Hrb Hup.
  assert (Hcons1 : Forall consistent h1) by (eapply step_consistent; eauto).
  simpl in Hrb. destruct (last_rev h) as [lr|]; [|discriminate].
  destruct (get_rev h _) as [t|] eqn:Gt; [|discriminate]. inversion Hrb; subst h1. clear Hrb.
  assert (Ct : consistent t) by (apply get_rev_in in Gt; rewrite Forall_forall in Hcons; exact (Hcons _ Gt)).
  assert (Hcur : current (supersede_deployed h ++ [mkRev (rconfig t) (rchart t) (rrendered t) SDeployed])%list
                 = Some (S (List.length h), set_status SDeployed t)).
  { rewrite current_snoc_deployed by reflexivity. unfold supersede_deployed. rewrite map_length. reflexivity. }
  destruct (upgrade_stores _ _ _ _ _ _ _ Hup) as (n & cur & d & r & Hc & Hd & -> & Hcfg & Hch & _).
  rewrite Hcur in Hc. inversion Hc; subst n cur. simpl in Hcfg.
  exists t, r. split; [reflexivity|]. split; [exact Hcur|]. split; [|split; [exact Hcfg|split]].
  - apply last_rev_snoc.
  - intros K. rewrite Hch. f_equal. unfold defaults_spec in Hd. rewrite K in Hd. simpl in Hd.
    unfold consistent, to_render_values in Ct. rewrite Ct in Hd. now inversion Hd.
  - intros K. rewrite Hch. f_equal. unfold defaults_spec in Hd. rewrite K in Hd. now inversion Hd.
Qed.

(* ---- non-vacuity ---- *)
Local Open Scope string_scope.

(* failing steps at the start, in the middle and right before the upgrade that is looked at *)
Definition exf_c1 := mkChart "c" [("a", VNum 1%Z); ("t", VMap [("x", VStr "d1")]); ("only1", VStr "d1")] [].
Definition exf_c2 := mkChart "c" [("a", VNum 2%Z); ("t", VMap [("x", VStr "d2"); ("z", VStr "d2")]); ("only2", VStr "d2")] [].
Definition exf_c3 := mkChart "c" [("a", VNum 3%Z); ("only3", VStr "d3")] [].

Definition exf_pre : list op :=
  [ OInstall exf_c1 [("a", VNum 10%Z)] true;                                             (* 1: failed install *)
    OUpgrade (mkFlags false false false) exf_c1 [("a", VNum 11%Z); ("t", VMap [("x", VStr "u2")])] false;  (* 2: ok *)
    OUpgrade (mkFlags false true false) exf_c2 [("bad", VStr "x")] true;                   (* 3: failed *)
    ORollback 1 true;                                                                      (* 4: failed rollback *)
    ORollback 9 false;                                                                     (* rejected: nothing stored *)
    OUpgrade (mkFlags true false false) exf_c2 [("k", VStr "four")] true ].                (* 5: failed *)
Definition exf_o : op := OUpgrade (mkFlags false true false) exf_c3 [("t", VMap [("y", VStr "now")])] false.
Definition exf_post : list op :=
  [ OUpgrade (mkFlags false false false) exf_c3 [("zz", VNum 0%Z)] true; ORollback 2 false ].

Example ex_chain_with_failures :
  let '(h0, oks0) := run_chain [] exf_pre in
  oks0 = [false; true; false; false; false; false]
  /\ last_ok [] exf_pre None = Some 2
  /\ List.length h0 = 5
  /\ exists h1, step h0 exf_o = Some (h1, true)
  /\ option_map rconfig (get_rev (fst (run_chain h1 exf_post)) 6)
     = Some [("t", VMap [("y", VStr "now"); ("x", VStr "u2")]); ("a", VNum 11%Z)]
  /\ option_map (fun r => cvalues (rchart r)) (get_rev (fst (run_chain h1 exf_post)) 6)
     = option_map rrendered (get_rev h0 2)
  /\ map rstatus (fst (run_chain h1 exf_post))
     = [SSuperseded; SSuperseded; SFailed; SFailed; SFailed; SSuperseded; SFailed; SDeployed].
Proof.
  vm_compute. split; [reflexivity|]. split; [reflexivity|]. split; [reflexivity|].
  eexists. split; [reflexivity|]. repeat split; reflexivity.
Qed.

(* rollback to revision 1 (chart c1) while revision 2 (chart c2) is deployed, then reuse-values
   with a third chart: the defaults in force are what revision 1's templates saw *)
Definition exr_pre : list op :=
  [ OInstall exf_c1 [("a", VNum 10%Z); ("t", VMap [("x", VStr "u1")])] false;
    OUpgrade (mkFlags false false false) exf_c2 [("a", VNum 20%Z); ("k", VStr "two")] false ].

Example ex_rollback_then_upgrade :
  let h := fst (run_chain [] exr_pre) in
  Forall consistent h
  /\ exists h1 h2,
       step h (ORollback 1 false) = Some (h1, true)
       /\ step h1 (OUpgrade (mkFlags false true false) exf_c3 [("t", VMap [("y", VStr "n")])] false) = Some (h2, true)
       /\ option_map rconfig (last_rev h2) = Some [("t", VMap [("y", VStr "n"); ("x", VStr "u1")]); ("a", VNum 10%Z)]
       /\ option_map (fun r => cvalues (rchart r)) (last_rev h2) = option_map rrendered (get_rev h 1)
       /\ option_map rrendered (last_rev h2)
          = Some [("t", VMap [("y", VStr "n"); ("x", VStr "u1")]); ("a", VNum 10%Z); ("only1", VStr "d1")].
Proof.
  split.
  - destruct (run_chain [] exr_pre) as [h oks] eqn:E. simpl fst. eapply chain_consistent; [|exact E]. constructor.
  - vm_compute. eexists. eexists. repeat split; reflexivity.
Qed.

(* Proofs about coalesce.go with dependencies (Values/Coalesce.v): inside the scope of a
   direct subchart (outside "global"), the user's value wins, else the parent chart's section
   for the subchart, else the subchart's own default. *)
From Coq Require Import List String Bool Arith ZArith.
From Helm Require Import Values.Tree Values.Merge Values.Coalesce Values.TreeLemmas Values.CoalesceProofs.
Import ListNotations.
Local Open Scope string_scope.

Lemma coalesce_unfold : forall merge n vals deps dest,
  coalesce merge (mkChart n vals deps) dest = coalesce_deps_loop merge deps (cv_loop merge deps vals dest).
Proof.
  intros. simpl. generalize (cv_loop merge deps vals dest) as d.
  induction deps as [|s t IH]; intros d; [reflexivity|].
  simpl. destruct (mget (cname s) d) as [[]|]; try reflexivity.
  - destruct (coalesce merge s (coalesce_globals m d)); [apply IH | reflexivity].
  - destruct (coalesce merge s (coalesce_globals [] (mset (cname s) (VMap []) d))); [apply IH | reflexivity].
Qed.

(* ---- the defaults loop with dependencies ---- *)
Definition cv_result (merge : bool) (deps : list chart) (key : string) (d : val) (old : option val) : option val :=
  match old with
  | Some value =>
      if is_null value && negb merge then None
      else match value, d with
           | VMap dest, VMap src => Some (VMap (ct_loop (child_chart_merge_true deps key merge) src dest))
           | _, _ => Some value
           end
  | None => Some d
  end.

Lemma cv_step_same : forall merge deps k d v, mget k (cv_step merge deps k d v) = cv_result merge deps k d (mget k v).
Proof.
  intros. unfold cv_step, cv_result. destruct (mget k v) as [value|] eqn:G.
  - destruct (is_null value && negb merge); [apply mget_mdel_eq|].
    destruct value; try assumption. destruct d; try assumption.
    rewrite mget_mset_eq. now rewrite coalesce_tables_loop.
  - apply mget_mset_eq.
Qed.

Lemma cv_step_other : forall merge deps k d v k', k' <> k -> mget k' (cv_step merge deps k d v) = mget k' v.
Proof.
  intros merge deps k d v k' Hn. unfold cv_step. destruct (mget k v) as [value|].
  - destruct (is_null value && negb merge); [apply mget_mdel_neq; congruence|].
    destruct value; try reflexivity. destruct d; try reflexivity. apply mget_mset_neq. congruence.
  - apply mget_mset_neq. congruence.
Qed.

Lemma cv_loop_get : forall merge deps vc v k,
  wf_b (VMap vc) = true ->
  mget k (cv_loop merge deps vc v) =
  match mget k vc with
  | Some d => cv_result merge deps k d (mget k v)
  | None => mget k v
  end.
Proof.
  induction vc as [|[k0 d0] t IH]; intros v k Hwf; [reflexivity|].
  apply wf_map_cons in Hwf. destruct Hwf as (Hk0 & _ & Ht).
  simpl cv_loop. rewrite IH by assumption. simpl mget.
  destruct (String.eqb k k0) eqn:E.
  - apply String.eqb_eq in E; subst k0. rewrite Hk0. apply cv_step_same.
  - apply String.eqb_neq in E. rewrite cv_step_other by assumption. reflexivity.
Qed.

(* ---- globals touch only the "global" key ---- *)
Lemma coalesce_globals_other : forall dest src k, k <> global_key -> mget k (coalesce_globals dest src) = mget k dest.
Proof.
  intros dest src k Hn. unfold coalesce_globals.
  destruct (mget global_key dest) as [[]|]; try reflexivity;
  destruct (mget global_key src) as [[]|]; try reflexivity;
  apply mget_mset_neq; congruence.
Qed.

(* ---- the dependency loop ---- *)
Lemma deps_loop_other : forall merge ds dest r k,
  coalesce_deps_loop merge ds dest = Some r ->
  (forall d, In d ds -> cname d <> k) ->
  mget k r = mget k dest.
Proof.
  induction ds as [|s t IH]; intros dest r k H Hn; simpl in H.
  - inversion H; subst. reflexivity.
  - assert (Hs : cname s <> k) by (apply Hn; now left).
    assert (Ht : forall d, In d t -> cname d <> k) by (intros d Hd; apply Hn; now right).
    destruct (mget (cname s) dest) as [[]|] eqn:G; try discriminate.
    + destruct (coalesce merge s (coalesce_globals m dest)) as [rs|]; [|discriminate].
      rewrite (IH _ _ _ H Ht). apply mget_mset_neq. assumption.
    + destruct (coalesce merge s (coalesce_globals [] (mset (cname s) (VMap []) dest))) as [rs|]; [|discriminate].
      rewrite (IH _ _ _ H Ht). rewrite mget_mset_neq by assumption. apply mget_mset_neq. assumption.
Qed.

(* the table a subchart starts from: its section of the parent's table, or an empty one *)
Definition section_of (name : string) (dest : vmap) : vmap :=
  match mget name dest with Some (VMap m) => m | _ => [] end.

Lemma deps_loop_at : forall merge ds dest r sub,
  NoDup (map cname ds) -> In sub ds ->
  coalesce_deps_loop merge ds dest = Some r ->
  exists dv rs,
    (forall k, k <> global_key -> mget k dv = mget k (section_of (cname sub) dest))
    /\ coalesce merge sub dv = Some rs
    /\ mget (cname sub) r = Some (VMap rs).
Proof.
  induction ds as [|s t IH]; intros dest r sub Hnd Hin H; [inversion Hin|].
  simpl in Hnd. inversion Hnd as [|? ? Hnotin Hnd']; subst.
  simpl in H. destruct Hin as [->|Hin].
  - (* this iteration *)
    assert (Hrest : forall d, In d t -> cname d <> cname sub).
    { intros d Hd E. apply Hnotin. rewrite <- E. now apply in_map. }
    unfold section_of.
    destruct (mget (cname sub) dest) as [[]|] eqn:G; try discriminate.
    + destruct (coalesce merge sub (coalesce_globals m dest)) as [rs|] eqn:C; [|discriminate].
      exists (coalesce_globals m dest), rs. split; [|split; [assumption|]].
      * intros k Hk. now apply coalesce_globals_other.
      * rewrite (deps_loop_other _ _ _ _ _ H Hrest). apply mget_mset_eq.
    + destruct (coalesce merge sub (coalesce_globals [] (mset (cname sub) (VMap []) dest))) as [rs|] eqn:C; [|discriminate].
      exists (coalesce_globals [] (mset (cname sub) (VMap []) dest)), rs. split; [|split; [assumption|]].
      * intros k Hk. now apply coalesce_globals_other.
      * rewrite (deps_loop_other _ _ _ _ _ H Hrest). apply mget_mset_eq.
  - (* a later iteration: this one leaves the section of [sub] alone *)
    assert (Hs : cname s <> cname sub).
    { intros E. apply Hnotin. rewrite E. now apply in_map. }
    destruct (mget (cname s) dest) as [[]|] eqn:G; try discriminate.
    + destruct (coalesce merge s (coalesce_globals m dest)) as [rs0|]; [|discriminate].
      destruct (IH _ _ _ Hnd' Hin H) as (dv & rs & Hdv & Hc & Hr).
      exists dv, rs. split; [|split; assumption].
      intros k Hk. rewrite (Hdv k Hk). unfold section_of. now rewrite mget_mset_neq.
    + destruct (coalesce merge s (coalesce_globals [] (mset (cname s) (VMap []) dest))) as [rs0|]; [|discriminate].
      destruct (IH _ _ _ Hnd' Hin H) as (dv & rs & Hdv & Hc & Hr).
      exists dv, rs. split; [|split; assumption].
      intros k Hk. rewrite (Hdv k Hk). unfold section_of. now rewrite !mget_mset_neq.
Qed.

(* lookups that start at a key other than "global" see through coalesce_globals *)
Lemma lookup_agree : forall (a b : vmap) k p, mget k a = mget k b -> lookup_path (k :: p) (VMap a) = lookup_path (k :: p) (VMap b).
Proof. intros. rewrite !lookup_cons_map. now rewrite H. Qed.

Lemma defines_agree : forall (a b : vmap) k p, mget k a = mget k b -> defines (k :: p) (VMap a) = defines (k :: p) (VMap b).
Proof. intros. simpl. now rewrite H. Qed.

Lemma ct_defines_false : forall merge p dst src,
  wf_b (VMap src) = true ->
  defines p (VMap dst) = false -> defines p (VMap src) = false ->
  defines p (VMap (ct_loop merge src dst)) = false.
Proof.
  induction p as [|k p IH]; intros dst src Hwf Hd Hs; [discriminate|].
  simpl in Hd, Hs. simpl defines. rewrite ct_loop_get by assumption.
  destruct (mget k dst) as [y|] eqn:Gd.
  - destruct (defines_false_table _ _ Hd) as [ym ->].
    destruct (mget k src) as [v|] eqn:Gs; [|assumption].
    destruct (defines_false_table _ _ Hs) as [vm ->].
    unfold ct_result. simpl is_null. rewrite andb_false_r.
    apply IH; try assumption. eapply wf_mget; eauto.
  - destruct (mget k src) as [v|] eqn:Gs; [|reflexivity]. assumption.
Qed.

Section Subchart.
  Variables (merge : bool) (n : string) (dflt : vmap) (deps : list chart) (user : vmap) (sub : chart) (r : vmap).
  Hypothesis Hwf_d : wf (VMap dflt).
  Hypothesis Hwf_s : wf (VMap (cvalues sub)).
  Hypothesis Hnd : NoDup (map cname deps).
  Hypothesis Hin : In sub deps.
  Hypothesis Hleaf : cdeps sub = [].
  Hypothesis Hrun : coalesce merge (mkChart n dflt deps) user = Some r.

  Let sname := cname sub.
  Let dest1 := cv_loop merge deps dflt user.
  Let m := section_of sname dest1.

  Lemma sub_is_child : child_chart_merge_true deps sname merge = true.
  Proof.
    unfold child_chart_merge_true.
    assert (E : existsb (fun d => String.eqb (cname d) sname) deps = true).
    { apply existsb_exists. exists sub. split; [assumption | apply String.eqb_refl]. }
    now rewrite E.
  Qed.

  (* the subchart's result: its defaults under (section + globals) *)
  Lemma sub_result : exists dv,
    (forall k, k <> global_key -> mget k dv = mget k m)
    /\ mget sname r = Some (VMap (ct_loop merge (cvalues sub) dv)).
  Proof.
    rewrite coalesce_unfold in Hrun.
    destruct (deps_loop_at _ _ _ _ _ Hnd Hin Hrun) as (dv & rs & Hdv & Hc & Hr).
    exists dv. split; [exact Hdv|].
    destruct sub as [sn sv sd]. simpl in Hleaf. subst sd.
    rewrite coalesce_nodeps in Hc. inversion Hc; subst. exact Hr.
  Qed.

  (* what the section is, from the user's values and the parent's defaults *)
  Lemma section_get : mget sname dest1 =
    match mget sname dflt with
    | Some d => cv_result merge deps sname d (mget sname user)
    | None => mget sname user
    end.
  Proof. unfold dest1. now apply cv_loop_get. Qed.

  Variables (k : string) (p' : list string).
  Hypothesis Hk : k <> global_key.
  Let p := k :: p'.

  Theorem sub_user_wins : forall x,
    lookup_path (sname :: p) (VMap user) = Some x -> is_table x = false -> x <> VNull ->
    lookup_path (sname :: p) (VMap r) = Some x.
  Proof.
    intros x Hl Ht Hn.
    destruct sub_result as (dv & Hdv & Hr).
    rewrite lookup_cons_map, Hr.
    apply ct_dst_wins; try assumption.
    unfold p. rewrite (lookup_agree dv m k p' (Hdv k Hk)).
    (* the section holds the user's value *)
    rewrite lookup_cons_map in Hl.
    destruct (mget sname user) as [u|] eqn:Gu; [|discriminate].
    destruct u; simpl in Hl; try discriminate. rename m0 into um.
    unfold m, section_of. rewrite section_get, Gu.
    destruct (mget sname dflt) as [d|] eqn:Gd; [|exact Hl].
    unfold cv_result. simpl is_null. simpl andb.
    destruct d; try exact Hl.
    rewrite sub_is_child. apply ct_dst_wins; try assumption. exact (wf_mget _ _ _ Hwf_d Gd).
  Qed.

  Theorem sub_parent_section_wins : forall x,
    defines (sname :: p) (VMap user) = false ->
    lookup_path (sname :: p) (VMap dflt) = Some x -> is_table x = false -> x <> VNull ->
    lookup_path (sname :: p) (VMap r) = Some x.
  Proof.
    intros x Hu Hl Ht Hn.
    destruct sub_result as (dv & Hdv & Hr).
    rewrite lookup_cons_map, Hr.
    apply ct_dst_wins; try assumption.
    unfold p. rewrite (lookup_agree dv m k p' (Hdv k Hk)).
    rewrite lookup_cons_map in Hl.
    destruct (mget sname dflt) as [d|] eqn:Gd; [|discriminate].
    destruct d; simpl in Hl; try discriminate. rename m0 into dm.
    assert (Hdm : wf_b (VMap dm) = true) by exact (wf_mget _ _ _ Hwf_d Gd).
    unfold m, section_of. rewrite section_get, Gd.
    change (match mget sname user with Some x => defines p x | None => false end = false) in Hu.
    destruct (mget sname user) as [u|] eqn:Gu.
    - destruct (defines_false_table _ _ Hu) as [um ->].
      unfold cv_result. simpl is_null. simpl andb. rewrite sub_is_child.
      fold p. rewrite (ct_src_fills true p um dm Hdm Hu). exact Hl.
    - simpl. exact Hl.
  Qed.

  Theorem sub_default_shows :
    defines (sname :: p) (VMap user) = false -> defines (sname :: p) (VMap dflt) = false ->
    lookup_path (sname :: p) (VMap r) = lookup_path p (VMap (cvalues sub)).
  Proof.
    intros Hu Hd.
    destruct sub_result as (dv & Hdv & Hr).
    rewrite lookup_cons_map, Hr.
    apply ct_src_fills; try assumption.
    unfold p. rewrite (defines_agree dv m k p' (Hdv k Hk)). fold p.
    unfold m, section_of. rewrite section_get.
    change (match mget sname user with Some x => defines p x | None => false end = false) in Hu.
    change (match mget sname dflt with Some x => defines p x | None => false end = false) in Hd.
    destruct (mget sname dflt) as [d|] eqn:Gd.
    - destruct (defines_false_table _ _ Hd) as [dm ->].
      assert (Hdm : wf_b (VMap dm) = true) by exact (wf_mget _ _ _ Hwf_d Gd).
      destruct (mget sname user) as [u|] eqn:Gu.
      + destruct (defines_false_table _ _ Hu) as [um ->].
        unfold cv_result. simpl is_null. simpl andb. rewrite sub_is_child.
        now apply ct_defines_false.
      + simpl. exact Hd.
    - destruct (mget sname user) as [u|] eqn:Gu.
      + destruct (defines_false_table _ _ Hu) as [um ->]. exact Hu.
      + reflexivity.
  Qed.
End Subchart.

Theorem coalesce_subchart : forall (merge : bool) (n : string) (dflt : vmap) (deps : list chart) (user : vmap)
                                   (sub : chart) (r : vmap),
  wf (VMap dflt) -> wf (VMap (cvalues sub)) ->
  NoDup (map cname deps) -> In sub deps -> cdeps sub = [] ->
  coalesce merge (mkChart n dflt deps) user = Some r ->
  forall (k : string) (p' : list string), k <> global_key ->
  (forall x, lookup_path (cname sub :: k :: p') (VMap user) = Some x -> is_table x = false -> x <> VNull ->
             lookup_path (cname sub :: k :: p') (VMap r) = Some x)
  /\ (forall x, defines (cname sub :: k :: p') (VMap user) = false ->
                lookup_path (cname sub :: k :: p') (VMap dflt) = Some x -> is_table x = false -> x <> VNull ->
                lookup_path (cname sub :: k :: p') (VMap r) = Some x)
  /\ (defines (cname sub :: k :: p') (VMap user) = false -> defines (cname sub :: k :: p') (VMap dflt) = false ->
      lookup_path (cname sub :: k :: p') (VMap r) = lookup_path (k :: p') (VMap (cvalues sub))).
Proof.
  intros merge n dflt deps user sub r W1 W2 ND IN LF RUN k p' HK.
  split; [|split].
  - intros x. exact (sub_user_wins merge n dflt deps user sub r W1 W2 ND IN LF RUN k p' HK x).
  - intros x. exact (sub_parent_section_wins merge n dflt deps user sub r W1 W2 ND IN LF RUN k p' HK x).
  - exact (sub_default_shows merge n dflt deps user sub r W1 W2 ND IN LF RUN k p' HK).
Qed.

(* non-vacuity *)
Definition ex_sub : chart := mkChart "sub" [("p", VNum 1%Z); ("q", VMap [("r", VStr "s")]); ("o", VStr "own")] [].
Definition ex_top : chart := mkChart "top" [("sub", VMap [("p", VNum 2%Z)]); ("t", VBool true)] [ex_sub].
Definition ex_vals : vmap := [("sub", VMap [("q", VMap [("r", VStr "user")])])].

Example ex_subchart :
  wf (VMap (cvalues ex_top)) /\ wf (VMap (cvalues ex_sub)) /\ NoDup (map cname (cdeps ex_top))
  /\ exists r, coalesce false ex_top ex_vals = Some r
     /\ lookup_path ["sub"; "q"; "r"] (VMap r) = Some (VStr "user")
     /\ lookup_path ["sub"; "p"] (VMap r) = Some (VNum 2%Z)
     /\ lookup_path ["sub"; "o"] (VMap r) = Some (VStr "own").
Proof.
  split; [reflexivity|]. split; [reflexivity|]. split; [repeat constructor; intros []|].
  eexists. split; [reflexivity|]. repeat split; reflexivity.
Qed.

(* C11: the statements about [values_seen] (ProcessDependencies, then CoalesceValues, then the
   scoping of recAllTpls) as used by Props/C11.v: wrappers around ScopeTreeProofs / ImportProofs. *)
From Coq Require Import List String Ascii Bool ZArith.
From Helm Require Import Values.Tree Values.Schema Values.Scope Values.Deps Values.ScopeProofs
  Values.DepsProofs Values.ScopeTree Values.ScopeTreeProofs Values.DepsTreeProofs Values.ImportProofs.
Import ListNotations.
Local Open Scope string_scope.

(* ---------- unique keys survive ProcessDependencies ---------- *)

Lemma tree_wf_set_name : forall c a, tree_wf (set_name c a) <-> tree_wf c.
Proof. intros. destruct c; reflexivity. Qed.

Lemma pde_tree_wf : forall compat c, tree_wf c -> forall v path c', pde compat c v path = Ok c' -> tree_wf c'.
Proof.
  intros compat c. induction c as [n ver vals sch deps md tpls crds IH] using chart_ind2.
  intros Hw v path c' H. set (c := Chart n ver vals sch deps md tpls crds) in *.
  apply tree_wf_iff in Hw as [Hv Hdeps]. apply tree_wf_iff.
  destruct (enabled_recursive compat c v path c' H) as (cvals & _ & HF).
  rewrite pde_unfold in H.
  destruct (pde_level_spec compat c _ v path c' (kids_of_fst compat c) H) as (_ & _ & _ & _ & _ & Hvals & _).
  split; [now rewrite Hvals|]. apply Forall_forall. intros t' Ht'.
  destruct (Forall2_in_r _ _ _ _ HF Ht') as (ek & Hek & t'' & Ht & ->).
  apply filter_In in Hek as [Hek _].
  destruct (kids_of_origin compat c _ ek Hek) as (d0 & Hd0 & Hsnd & _).
  apply tree_wf_set_name. rewrite Hsnd in Ht. cbn [cdeps] in Hd0.
  rewrite Forall_forall in IH, Hdeps. exact (IH d0 Hd0 (Hdeps d0 Hd0) _ _ _ Ht).
Qed.

Lemma piv_tree_wf : forall c c', tree_wf c -> process_import_values c = Ok c' -> tree_wf c'.
Proof.
  intros c c' Hw H. destruct (cmdeps c) as [reqs|] eqn:Em.
  - destruct (piv_closed c c' reqs Em H) as (cvals & Hc & Hv & Hd & _).
    pose proof (wfm_coalesce c true [] cvals Hw wfm_nil Hc) as Hwc.
    apply tree_wf_iff in Hw as [_ Hdeps]. apply tree_wf_iff. rewrite Hv, Hd. split; [|exact Hdeps].
    apply wfm_merge_tables; [exact Hwc|]. unfold merge_imports.
    apply wfm_merge_imports; [apply wfm_nil|now apply wfm_import_tables].
  - rewrite (piv_none c Em) in H. now injection H as <-.
Qed.

Lemma pdiv_tree_wf : forall c, tree_wf c -> forall c', pdiv c = Ok c' -> tree_wf c'.
Proof.
  intros c. induction c as [n ver vals sch deps md tpls crds IH] using chart_ind2.
  intros Hw c' H. rewrite pdiv_unfold in H. cbn [cdeps] in H.
  destruct (pdiv_list deps) as [deps'|] eqn:El; [|discriminate].
  refine (piv_tree_wf _ c' _ H).
  apply tree_wf_iff in Hw as [Hv Hdeps]. apply tree_wf_iff. cbn [cvalues cdeps set_deps] in *.
  split; [exact Hv|]. apply Forall_forall. intros d' Hd'.
  destruct (Forall2_in_r _ _ _ _ (pdiv_list_forall2 _ _ El) Hd') as (d & Hd & Hpd).
  rewrite Forall_forall in IH, Hdeps. exact (IH d Hd (Hdeps d Hd) d' Hpd).
Qed.

Lemma process_dependencies_tree_wf : forall compat t v c,
  tree_wf t -> process_dependencies compat t v = Ok c -> tree_wf c.
Proof.
  intros compat t v c Hw H. unfold process_dependencies in H.
  destruct (pde compat t v "") as [c1|] eqn:E; [|discriminate].
  eapply pdiv_tree_wf; [|exact H]. eapply pde_tree_wf; eauto.
Qed.

Lemma tree_wf_defaults : forall p c, tree_wf c -> defaults_wf p c.
Proof.
  induction p as [|n p IH]; intros c Hw; [exact I|]. simpl.
  apply tree_wf_iff in Hw as [Hv Hdeps]. split; [exact Hv|].
  destruct (find_dep n (cdeps c)) as [d|] eqn:Ef; [|exact I].
  apply IH. rewrite Forall_forall in Hdeps. apply Hdeps. now apply (find_dep_in n).
Qed.

Lemma values_seen_ok : forall compat t v c p,
  process_dependencies compat t v = Ok c -> values_seen compat t v p = seen_after c v p.
Proof. intros compat t v c p H. unfold values_seen. now rewrite H. Qed.

Lemma values_seen_closed : forall compat t v c p x,
  process_dependencies compat t v = Ok c -> path_ok p c ->
  values_seen compat t v p = Some x ->
  exists P X, handed false c v p = Some (P, X) /\ coalesce false P X = Ok x.
Proof.
  intros compat t v c p x Hpd Hok H. rewrite (values_seen_ok _ _ _ _ _ Hpd) in H.
  now apply seen_after_closed.
Qed.

Lemma values_seen_isolated : forall compat t t' v v' c c' p x x',
  process_dependencies compat t v = Ok c -> process_dependencies compat t' v' = Ok c' ->
  tree_wf t -> tree_wf t' -> path_ok p c -> path_ok p c' ->
  chart_agree eq eq p c c' -> agree eq p v v' ->
  values_seen compat t v p = Some x -> values_seen compat t' v' p = Some x' -> x = x'.
Proof.
  intros compat t t' v v' c c' p x x' Hpd Hpd' Ht Ht' Hok Hok' Hc Hv H H'.
  pose proof (tree_wf_defaults p c (process_dependencies_tree_wf _ _ _ _ Ht Hpd)) as Hw.
  pose proof (tree_wf_defaults p c' (process_dependencies_tree_wf _ _ _ _ Ht' Hpd')) as Hw'.
  rewrite (values_seen_ok _ _ _ _ _ Hpd) in H. rewrite (values_seen_ok _ _ _ _ _ Hpd') in H'.
  exact (seen_isolated p c c' v v' x x' Hok Hok' Hw Hw' Hc Hv H H').
Qed.

Lemma values_seen_parent_confined : forall compat t t' v v' c c' q n x x',
  process_dependencies compat t v = Ok c -> process_dependencies compat t' v' = Ok c' ->
  tree_wf t -> tree_wf t' -> n <> global_key -> path_ok q c -> path_ok q c' ->
  chart_agree (except_key n) (except_child n) q c c' -> agree (except_key n) q v v' ->
  values_seen compat t v q = Some x -> values_seen compat t' v' q = Some x' ->
  forall k, k <> n -> mget k x = mget k x'.
Proof.
  intros compat t t' v v' c c' q n x x' Hpd Hpd' Ht Ht' Hn Hok Hok' Hc Hv H H'.
  pose proof (tree_wf_defaults (q ++ [n]) c (process_dependencies_tree_wf _ _ _ _ Ht Hpd)) as Hw.
  pose proof (tree_wf_defaults (q ++ [n]) c' (process_dependencies_tree_wf _ _ _ _ Ht' Hpd')) as Hw'.
  rewrite (values_seen_ok _ _ _ _ _ Hpd) in H. rewrite (values_seen_ok _ _ _ _ _ Hpd') in H'.
  exact (parent_view_confined q n c c' v v' x x' Hn Hok Hok' Hw Hw' Hc Hv H H').
Qed.

Lemma values_seen_sibling_unchanged : forall compat t t' v v' c c' q n s x x',
  process_dependencies compat t v = Ok c -> process_dependencies compat t' v' = Ok c' ->
  tree_wf t -> tree_wf t' -> s <> n -> n <> global_key ->
  path_ok (q ++ [s]) c -> path_ok (q ++ [s]) c' ->
  chart_agree (except_key n) (except_child n) q c c' -> agree (except_key n) q v v' ->
  values_seen compat t v (q ++ [s]) = Some x -> values_seen compat t' v' (q ++ [s]) = Some x' -> x = x'.
Proof.
  intros compat t t' v v' c c' q n s x x' Hpd Hpd' Ht Ht' Hs Hn Hok Hok' Hc Hv H H'.
  pose proof (tree_wf_defaults (q ++ [s]) c (process_dependencies_tree_wf _ _ _ _ Ht Hpd)) as Hw.
  pose proof (tree_wf_defaults (q ++ [s]) c' (process_dependencies_tree_wf _ _ _ _ Ht' Hpd')) as Hw'.
  rewrite (values_seen_ok _ _ _ _ _ Hpd) in H. rewrite (values_seen_ok _ _ _ _ _ Hpd') in H'.
  exact (sibling_view_unchanged q n s c c' v v' x x' Hs Hn Hok Hok' Hw Hw' Hc Hv H H').
Qed.

Lemma values_seen_global : forall compat t v c p g x r,
  process_dependencies compat t v = Ok c ->
  tree_wf t -> path_ok p c -> wfm v ->
  (exists gm, mget global_key v = Some (VMap gm) /\ mget g gm = Some x) ->
  (is_table x = false /\ is_null x = false) ->
  globals_pass false g c v p ->
  (forall P, chart_at c p = Some P -> ~ In global_key (map cname (cdeps P))) ->
  values_seen compat t v p = Some r ->
  exists gm, mget global_key r = Some (VMap gm) /\ mget g gm = Some x.
Proof.
  intros compat t v c p g x r Hpd Ht Hok Hv Hg Hp Hpass Hend H.
  pose proof (tree_wf_defaults p c (process_dependencies_tree_wf _ _ _ _ Ht Hpd)) as Hw.
  rewrite (values_seen_ok _ _ _ _ _ Hpd) in H.
  exact (global_reaches p c v g x r Hok Hw Hv Hg Hp Hpass Hend H).
Qed.

Lemma values_seen_user_wins : forall compat t v c p k q x r,
  process_dependencies compat t v = Ok c -> path_ok p c ->
  lookup_path (p ++ k :: q)%list (VMap v) = Some x ->
  (is_table x = false /\ is_null x = false) ->
  (p <> [] -> k <> global_key) ->
  (forall P, chart_at c p = Some P -> ~ In k (map cname (cdeps P))) ->
  values_seen compat t v p = Some r -> lookup_path (k :: q) (VMap r) = Some x.
Proof.
  intros compat t v c p k q x r Hpd Hok Hl Hp Hk Hend H.
  rewrite (values_seen_ok _ _ _ _ _ Hpd) in H.
  exact (user_wins_at p c v k q x r Hok Hl Hp Hk Hend H).
Qed.

(* K-C11-1: for a subchart whose name contains a dot the composition is NOT the closed form -
   recAllTpls looks the section up as a dotted path and finds nothing *)
Lemma dotted_name_refuted :
  exists c v, (NoDup (map cname (cdeps c)) /\ ~ In global_key (map cname (cdeps c)))
    /\ seen_after c v ["my.sub"] = Some []
    /\ exists P X x, handed false c v ["my.sub"] = Some (P, X) /\ coalesce false P X = Ok x
                     /\ mget "x" x = Some (VNum 1).
Proof.
  exists (Chart "top" "1.0.0" [("global", VMap [("g", VNum 1)])] None
            [Chart "my.sub" "1.0.0" [("x", VNum 1)] None [] None ["templates/p.yaml"] []] None [] []), [].
  split.
  - split; [repeat constructor; simpl; tauto|simpl; intros [E|[]]; discriminate].
  - split; [vm_compute; reflexivity|]. vm_compute. do 3 eexists. repeat split; reflexivity.
Qed.

(* non-vacuity of isolation / confinement / global flow at depth three: user values that differ
   in a sibling's section two levels down, a sibling with other defaults, a global set by the user *)
Definition sx_leaf := Chart "leaf" "1.0.0" [("z", VNum 1); ("global", VMap [("g", VNum 0)])] None [] None ["templates/p.yaml"] [].
Definition sx_gca := Chart "gca" "1.0.0" [("k", VNum 2)] None [sx_leaf] None ["templates/p.yaml"] [].
Definition sx_gcb (n : Z) := Chart "gcb" "1.0.0" [("k", VNum n)] None [] None ["templates/p.yaml"] [].
Definition sx_suba (n : Z) := Chart "suba" "1.0.0" [("k", VNum 1)] None [sx_gca; sx_gcb n] None ["templates/p.yaml"] [].
Definition sx_top (n : Z) := Chart "top" "1.0.0" [("other", VNum n)] None [sx_suba n] None [] [].
Definition sx_user (n : Z) : vmap :=
  [("global", VMap [("g", VNum 7)]);
   ("suba", VMap [("gca", VMap [("leaf", VMap [("u", VNum 5)])]); ("gcb", VMap [("w", VNum n)]); ("junk", VNum n)]);
   ("zz", VNum n)].

Lemma seen_example :
  let p := ["suba"; "gca"; "leaf"] in
  match process_dependencies (fun _ _ => true) (sx_top 1) (sx_user 1),
        process_dependencies (fun _ _ => true) (sx_top 2) (sx_user 2) with
  | Ok c, Ok c' =>
      path_ok p c /\ path_ok p c' /\ tree_wf (sx_top 1) /\ tree_wf (sx_top 2)
      /\ chart_agree eq eq p c c' /\ agree eq p (sx_user 1) (sx_user 2) /\ sx_user 1 <> sx_user 2 /\ c <> c'
      /\ wfm (sx_user 1) /\ globals_pass false "g" c (sx_user 1) p
      /\ values_seen (fun _ _ => true) (sx_top 1) (sx_user 1) p
         = Some [("u", VNum 5); ("global", VMap [("g", VNum 7)]); ("z", VNum 1)]
      /\ values_seen (fun _ _ => true) (sx_top 2) (sx_user 2) p
         = Some [("u", VNum 5); ("global", VMap [("g", VNum 7)]); ("z", VNum 1)]
  | _, _ => False
  end.
Proof.
  vm_compute.
  repeat match goal with
         | |- _ /\ _ => split
         | |- NoDup _ => constructor
         | |- True => exact I
         | |- ~ _ => intro
         | |- _ -> False => intro
         | |- _ = _ => reflexivity
         | H : In _ _ |- _ => simpl in H
         | H : _ \/ _ |- _ => destruct H
         | H : False |- _ => contradiction
         | H : _ = _ |- _ => discriminate H
         | |- _ \/ _ => left; reflexivity
         end.
Qed.

Lemma import_lands : forall parent vv,
  parent <> "." ->
  table_at (split_dot parent) (path_to_map parent vv) = Some vv
  /\ forall k, mget k (path_to_map parent vv) <> None -> k = hd "" (split_dot parent).
Proof. intros parent vv H. split; [now apply path_to_map_lands|]. intros k. now apply path_to_map_keys. Qed.

(* K-C11-2 as a refuted statement: "the condition is decided by what the parent's templates see"
   fails for an ALIASED dependency at the second level whose boolean comes only from its own
   values.yaml: a1's .Values hold g1.enabled = false, yet the chain a1/g1 is enabled - the values
   processDependencyEnabled consults were coalesced one level up, before gca was renamed to g1. *)
Definition kx_gca := Chart "gca" "1.0.0" [("enabled", VBool false); ("z", VNum 1)] None [] None ["templates/p.yaml"] [].
Definition kx_suba := Chart "suba" "1.0.0" [] None [kx_gca]
                        (Some [mkDep "gca" "1.0.0" "g1.enabled" [] "g1" false []]) ["templates/p.yaml"] [].
Definition kx_top := Chart "top" "1.0.0" [] None [kx_suba] (Some [mkDep "suba" "1.0.0" "" [] "a1" false []]) [] [].

Lemma condition_in_parent_view_refuted :
  exists x, values_seen (fun _ _ => true) kx_top [] ["a1"] = Some x
    /\ lookup_path ["g1"; "enabled"] (VMap x) = Some (VBool false)
    /\ enabled_path (fun _ _ => true) kx_top [] "" ["a1"; "g1"].
Proof.
  eexists. split; [vm_compute; reflexivity|]. split; [vm_compute; reflexivity|].
  exact (enabled_path_decide (fun _ _ => true) kx_top [] ["a1"; "g1"]).
Qed.

(* Proofs about the --set grammar (Values/Strvals.v): for an expression built by the printer
   [show_set] from a path of keys (escaped as documented) and a scalar text,
   strvals.ParseInto sets exactly the named path to the typed value, and every path of the
   destination that is not related to it is unchanged. *)
From Coq Require Import List String Ascii Bool Arith ZArith Lia.
From Helm Require Import Values.Tree Values.Merge Values.Strvals Values.TreeLemmas.
Import ListNotations.
Local Open Scope string_scope.

(* ---------- the printer ---------- *)
Definition needs_esc_key (c : ascii) : bool :=
  ch_eq c c_dot || ch_eq c c_comma || ch_eq c c_eq || ch_eq c c_lbr || ch_eq c c_bsl.
Definition needs_esc_val (c : ascii) : bool :=
  ch_eq c c_comma || ch_eq c c_bsl || ch_eq c c_lbrace.

Fixpoint esc_with (ne : ascii -> bool) (s : string) : string :=
  match s with
  | EmptyString => EmptyString
  | String c t => if ne c then String c_bsl (String c (esc_with ne t)) else String c (esc_with ne t)
  end.

Definition esc_key := esc_with needs_esc_key.
Definition esc_val := esc_with needs_esc_val.

(* key1.key2.….keyN followed by [tail] *)
Fixpoint show_path (ks : list string) (tail : string) : string :=
  match ks with
  | [] => tail
  | [k] => esc_key k ++ tail
  | k :: t => esc_key k ++ String c_dot (show_path t tail)
  end.

Definition show_set (ks : list string) (v : string) : string := show_path ks (String c_eq (esc_val v)).

(* ---------- what the expression should mean ---------- *)
Definition sub_table (k : string) (d : vmap) : vmap := match mget k d with Some (VMap m) => m | _ => [] end.

Fixpoint set_path (ks : list string) (x : val) (d : vmap) : vmap :=
  match ks with
  | [] => d
  | [k] => mset k x d
  | k :: t => mset k (VMap (set_path t x (sub_table k d))) d
  end.

(* every existing value on the way (before the last key) is a table *)
Fixpoint compat (ks : list string) (d : vmap) : Prop :=
  match ks with
  | [] | [_] => True
  | k :: t => match mget k d with
              | None => True
              | Some (VMap m) => compat t m
              | Some _ => False
              end
  end.

Definition cfg_typed : pcfg := mkCfg MTyped [] [].
Definition cfg_string : pcfg := mkCfg MString [] [].

(* ---------- runesUntil reads back what the printer escaped ---------- *)
Lemma ch_eq_true : forall a b, ch_eq a b = true -> a = b.
Proof. intros a b H. now apply Ascii.eqb_eq. Qed.

Section Runes.
  Variables (ne stop : ascii -> bool).
  Hypothesis stop_ne : forall c, stop c = true -> ne c = true.
  Hypothesis ne_bsl : ne c_bsl = true.
  Hypothesis stop_bsl : stop c_bsl = false.

  Lemma ne_false_plain : forall a, ne a = false -> stop a = false /\ ch_eq a c_bsl = false.
  Proof.
    intros a H. split.
    - destruct (stop a) eqn:S; [|reflexivity]. apply stop_ne in S. congruence.
    - destruct (ch_eq a c_bsl) eqn:E; [|reflexivity]. apply ch_eq_true in E. subst. congruence.
  Qed.

  Lemma runes_until_esc_stop : forall k c rest,
    stop c = true ->
    runes_until true stop (esc_with ne k ++ String c rest) = (k, Some c, rest).
  Proof.
    induction k as [|a k IH]; intros c rest Hc.
    - simpl. now rewrite Hc.
    - simpl esc_with. destruct (ne a) eqn:N.
      + simpl. rewrite stop_bsl.
        rewrite IH by assumption. reflexivity.
      + destruct (ne_false_plain _ N) as [S B].
        simpl. rewrite S, B. simpl. rewrite IH by assumption. reflexivity.
  Qed.

  Lemma runes_until_esc_eof : forall v,
    runes_until true stop (esc_with ne v) = (v, None, EmptyString).
  Proof.
    induction v as [|a v IH].
    - reflexivity.
    - simpl esc_with. destruct (ne a) eqn:N.
      + simpl. rewrite stop_bsl.
        rewrite IH. reflexivity.
      + destruct (ne_false_plain _ N) as [S B].
        simpl. rewrite S, B. simpl. rewrite IH. reflexivity.
  Qed.
End Runes.

Lemma stop_key_ne : forall c, stop_key c = true -> needs_esc_key c = true.
Proof.
  intros c H. unfold stop_key, needs_esc_key in *.
  destruct (ch_eq c c_eq), (ch_eq c c_lbr), (ch_eq c c_comma), (ch_eq c c_dot); simpl in *; try discriminate; reflexivity.
Qed.

Lemma stop_comma_ne : forall c, stop_comma c = true -> needs_esc_val c = true.
Proof. intros c H. unfold stop_comma, needs_esc_val in *. now rewrite H. Qed.

Lemma key_reads_back : forall k c rest,
  stop_key c = true -> runes_until true stop_key (esc_key k ++ String c rest) = (k, Some c, rest).
Proof. intros. apply runes_until_esc_stop; auto using stop_key_ne. Qed.

Lemma val_reads_back : forall v, runes_until true stop_comma (esc_val v) = (v, None, EmptyString).
Proof. intros. apply runes_until_esc_eof; auto using stop_comma_ne. Qed.

Lemma val_list_esc : forall c v, val_list c (esc_val v) = match v with EmptyString => VLEof | _ => VLNotList end.
Proof.
  intros c [|a v]; [reflexivity|].
  unfold esc_val. simpl esc_with. destruct (needs_esc_val a) eqn:N.
  - reflexivity.
  - simpl. unfold needs_esc_val in N.
    destruct (ch_eq a c_lbrace) eqn:E; [|reflexivity].
    rewrite !orb_true_r in N. discriminate.
Qed.

(* the value after "name=" for --set and --set-string *)
Lemma value_after_eq_typed : forall (st : bool) (v : string),
  value_after_eq (mkCfg (if st then MString else MTyped) [] []) (esc_val v) =
  match v with EmptyString => VEof | _ => VOk (typed_val st v) EmptyString end.
Proof.
  intros st v. unfold value_after_eq.
  destruct st; simpl pmode_of; rewrite val_list_esc; destruct v as [|a v]; try reflexivity;
    rewrite val_reads_back; reflexivity.
Qed.

(* ---------- one step of key ---------- *)
Section KeySteps.
  Variable st : bool.
  Let cfg := mkCfg (if st then MString else MTyped) [] [].

  Lemma cfg_not_literal : (match pmode_of cfg with MLiteral => true | _ => false end) = false.
  Proof. unfold cfg. destruct st; reflexivity. Qed.

  Lemma key_step_eq : forall f d lvl s k rest,
    runes_until true stop_key s = (k, Some c_eq, rest) ->
    key (S f) cfg d lvl s =
    match value_after_eq cfg rest with
    | VOk v rest1 => KOk (set k v d) rest1
    | VEof => KEof (set k (VStr EmptyString) d)
    | VErr => KErr d
    | VErrNil => KErr (set k VNull d)
    end.
  Proof.
    intros f d lvl s k rest H. unfold cfg. destruct st; simpl key; rewrite H;
      change (ch_eq c_eq c_lbr) with false; change (ch_eq c_eq c_eq) with true; cbv iota;
      match goal with |- context [value_after_eq ?c rest] => destruct (value_after_eq c rest) end; reflexivity.
  Qed.

  Lemma key_step_dot : forall f d lvl s k rest,
    runes_until true stop_key s = (k, Some c_dot, rest) ->
    Nat.ltb max_nested_name_level (S lvl) = false ->
    key (S f) cfg d lvl s =
    match (match mget k d with
           | None => Some ([], false)
           | Some (VMap m) => Some (m, true)
           | Some _ => None
           end) with
    | None => KErr d
    | Some (inner, existed) =>
        match key f cfg inner (S lvl) rest with
        | KOk inner' rest1 =>
            match inner' with
            | [] => KErr d
            | _ => KOk (if existed then mset k (VMap inner') d
                        else match inner' with [] => d | _ => set k (VMap inner') d end) rest1
            end
        | KEof inner' => KEof (if existed then mset k (VMap inner') d
                               else match inner' with [] => d | _ => set k (VMap inner') d end)
        | KErr inner' => KErr (if existed then mset k (VMap inner') d
                               else match inner' with [] => d | _ => set k (VMap inner') d end)
        | KFuel => KFuel
        end
    end.
  Proof.
    intros f d lvl s k rest H L. unfold cfg. destruct st; simpl key; rewrite H;
      change (ch_eq c_dot c_lbr) with false; change (ch_eq c_dot c_eq) with false;
      change (ch_eq c_dot c_comma) with false; cbv iota; rewrite L; reflexivity.
  Qed.
End KeySteps.

(* ---------- small facts ---------- *)
Lemma mset_nonempty : forall k v d, mset k v d <> [].
Proof. intros k v [|[k' v'] t]; simpl; [discriminate|]. destruct (String.eqb k k'); discriminate. Qed.

Lemma set_nonempty_key : forall k v d, k <> EmptyString -> set k v d = mset k v d.
Proof. intros [|c t] v d H; [congruence | reflexivity]. Qed.

Lemma set_path_nonempty : forall ks x d, ks <> [] -> set_path ks x d <> [].
Proof. intros [|k [|k2 t]] x d H; [congruence | apply mset_nonempty | apply mset_nonempty]. Qed.

Lemma typed_val_empty : forall st, typed_val st EmptyString = VStr EmptyString.
Proof. intros []; reflexivity. Qed.

Lemma str_len_app : forall a b, String.length (a ++ b) = String.length a + String.length b.
Proof. induction a; intros; simpl; [reflexivity | now rewrite IHa]. Qed.

Lemma esc_len : forall ne k, k <> EmptyString -> 1 <= String.length (esc_with ne k).
Proof. intros ne [|c t] H; [congruence|]. simpl. destruct (ne c); simpl; lia. Qed.

Lemma esc_key_len : forall k, k <> EmptyString -> 1 <= String.length (esc_key k).
Proof. intros. now apply esc_len. Qed.

Lemma show_path_len : forall ks tail,
  Forall (fun k => k <> EmptyString) ks -> List.length ks <= String.length (show_path ks tail) + (match ks with [] => 0 | _ => 0 end).
Proof.
  induction ks as [|k t IH]; intros tail HF; [simpl; lia|].
  inversion HF as [|? ? Hk Ht]; subst.
  destruct t as [|k2 t'].
  - simpl. rewrite str_len_app. pose proof (esc_key_len k Hk). lia.
  - change (show_path (k :: k2 :: t') tail) with (esc_key k ++ String c_dot (show_path (k2 :: t') tail)).
    rewrite str_len_app. cbn [String.length]. specialize (IH tail Ht).
    pose proof (esc_key_len k Hk). simpl List.length in *. lia.
Qed.

(* ---------- the parser on a printed expression ---------- *)
Section Main.
  Variable st : bool.
  Let cfg := mkCfg (if st then MString else MTyped) [] [].

  Lemma key_empty : forall f d lvl, key (S f) cfg d lvl EmptyString = KEof d.
  Proof. intros. unfold cfg. destruct st; reflexivity. Qed.

  Lemma key_path : forall ks f d lvl v,
    ks <> [] -> Forall (fun k => k <> EmptyString) ks -> compat ks d ->
    List.length ks <= f -> lvl + List.length ks <= 31 ->
    key f cfg d lvl (show_set ks v) =
    match v with
    | EmptyString => KEof (set_path ks (VStr EmptyString) d)
    | _ => KOk (set_path ks (typed_val st v) d) EmptyString
    end.
  Proof.
    induction ks as [|k t IH]; intros f d lvl v Hne HF Hc Hf Hl; [congruence|].
    inversion HF as [|? ? Hk Ht]; subst.
    destruct f as [|f]; [simpl in Hf; lia|].
    destruct t as [|k2 t'].
    - (* last key *)
      unfold show_set. simpl show_path.
      rewrite (key_step_eq st f d lvl _ k (esc_val v)) by (apply key_reads_back; reflexivity).
      fold cfg. unfold cfg. rewrite value_after_eq_typed.
      destruct v; rewrite set_nonempty_key by assumption; reflexivity.
    - (* a table on the way *)
      unfold show_set.
      change (show_path (k :: k2 :: t') (String c_eq (esc_val v)))
        with (esc_key k ++ String c_dot (show_set (k2 :: t') v)).
      assert (L : Nat.ltb max_nested_name_level (S lvl) = false).
      { apply Nat.ltb_ge. unfold max_nested_name_level. simpl List.length in Hl. lia. }
      rewrite (key_step_dot st f d lvl _ k (show_set (k2 :: t') v)) by (try apply key_reads_back; try reflexivity; assumption).
      fold cfg.
      assert (IH' : forall inner, compat (k2 :: t') inner ->
                key f cfg inner (S lvl) (show_set (k2 :: t') v) =
                match v with
                | EmptyString => KEof (set_path (k2 :: t') (VStr EmptyString) inner)
                | _ => KOk (set_path (k2 :: t') (typed_val st v) inner) EmptyString
                end).
      { intros inner Hci. apply IH; try assumption; try discriminate; simpl List.length in *; lia. }
      assert (NE : forall x inner, set_path (k2 :: t') x inner <> []) by (intros; apply set_path_nonempty; discriminate).
      change (set_path (k :: k2 :: t') ?x d) with (mset k (VMap (set_path (k2 :: t') x (sub_table k d))) d).
      unfold sub_table.
      simpl compat in Hc.
      destruct (mget k d) as [y|] eqn:G.
      + destruct y; try contradiction.
        rewrite (IH' m Hc).
        destruct v as [|a v'].
        * reflexivity.
        * destruct (set_path (k2 :: t') (typed_val st (String a v')) m) eqn:E; [exfalso; eapply NE; eauto | reflexivity].
      + rewrite (IH' [] (match t' with [] => I | _ => I end)).
        destruct v as [|a v'].
        * destruct (set_path (k2 :: t') (VStr EmptyString) []) eqn:E; [exfalso; eapply NE; eauto|].
          rewrite set_nonempty_key by assumption. reflexivity.
        * destruct (set_path (k2 :: t') (typed_val st (String a v')) []) eqn:E; [exfalso; eapply NE; eauto|].
          rewrite set_nonempty_key by assumption. reflexivity.
  Qed.

  Theorem parse_printed : forall ks v dest,
    ks <> [] -> Forall (fun k => k <> EmptyString) ks -> List.length ks <= 31 -> compat ks dest ->
    parse_with cfg (show_set ks v) dest = POk (set_path ks (typed_val st v) dest).
  Proof.
    intros ks v dest Hne HF Hlen Hc. unfold parse_with.
    assert (Hs : List.length ks <= String.length (show_set ks v)).
    { unfold show_set. pose proof (show_path_len ks (String c_eq (esc_val v)) HF). destruct ks; simpl in *; lia. }
    assert (Hs1 : 1 <= String.length (show_set ks v)).
    { destruct ks; [congruence|]. simpl List.length in Hs. lia. }
    destruct (String.length (show_set ks v)) as [|n] eqn:E; [lia|].
    cbn [parse_loop]. rewrite E.
    rewrite key_path; try assumption; try lia.
    destruct v as [|a v'].
    - now rewrite typed_val_empty.
    - cbn [parse_loop String.length]. rewrite key_empty. reflexivity.
  Qed.
End Main.

(* ---------- the frame ---------- *)
Fixpoint related_b (p q : list string) : bool :=
  match p, q with
  | [], _ => true
  | _, [] => true
  | a :: p', b :: q' => String.eqb a b && related_b p' q'
  end.

Lemma set_path_cons : forall k t x d,
  set_path (k :: t) x d = mset k (match t with [] => x | _ => VMap (set_path t x (sub_table k d)) end) d.
Proof. intros k [|k2 t] x d; reflexivity. Qed.

Lemma set_path_hit : forall ks x d, ks <> [] -> lookup_path ks (VMap (set_path ks x d)) = Some x.
Proof.
  induction ks as [|k t IH]; intros x d H; [congruence|].
  rewrite set_path_cons, lookup_cons_map, mget_mset_eq.
  destruct t as [|k2 t']; [reflexivity|]. apply IH. discriminate.
Qed.

Lemma set_path_frame : forall ks x d q,
  related_b ks q = false -> lookup_path q (VMap (set_path ks x d)) = lookup_path q (VMap d).
Proof.
  induction ks as [|k t IH]; intros x d q H; [discriminate|].
  destruct q as [|b q']; [discriminate|].
  simpl in H. rewrite set_path_cons, !lookup_cons_map.
  destruct (String.eqb k b) eqn:E.
  - apply String.eqb_eq in E; subst b. simpl in H. rewrite mget_mset_eq.
    destruct t as [|k2 t']; [discriminate|].
    rewrite IH by assumption.
    destruct q' as [|c q'']; [simpl in H; discriminate|].
    unfold sub_table. destruct (mget k d) as [y|]; [|reflexivity].
    destruct y; try reflexivity.
  - apply String.eqb_neq in E. now rewrite mget_mset_neq.
Qed.

Theorem set_frame : forall (st : bool) (ks : list string) (v : string) (dest : vmap),
  ks <> [] -> Forall (fun k => k <> EmptyString) ks -> List.length ks <= 31 -> compat ks dest ->
  exists d',
    (if st then parse_into_string else parse_into) (show_set ks v) dest = POk d'
    /\ d' = set_path ks (typed_val st v) dest
    /\ lookup_path ks (VMap d') = Some (typed_val st v)
    /\ (forall q, related_b ks q = false -> lookup_path q (VMap d') = lookup_path q (VMap dest)).
Proof.
  intros st ks v dest Hne HF Hlen Hc.
  exists (set_path ks (typed_val st v) dest). split.
  - destruct st; [apply (parse_printed true) | apply (parse_printed false)]; assumption.
  - split; [reflexivity|]. split; [now apply set_path_hit|]. intros. now apply set_path_frame.
Qed.

(* non-vacuity: an escaped key, a typed literal, a destination that already has the table *)
Definition ex_dest : vmap := [("a", VMap [("x.y", VStr "old"); ("keep", VNum 1%Z)]); ("b", VBool true)].

Example ex_set_frame :
  compat ["a"; "x.y"] ex_dest
  /\ show_set ["a"; "x.y"] "true" = "a.x\.y=true"
  /\ parse_into (show_set ["a"; "x.y"] "true") ex_dest
     = POk [("a", VMap [("x.y", VBool true); ("keep", VNum 1%Z)]); ("b", VBool true)]
  /\ parse_into (show_set ["n"; "k,1"] "a,b") ex_dest
     = POk [("a", VMap [("x.y", VStr "old"); ("keep", VNum 1%Z)]); ("b", VBool true); ("n", VMap [("k,1", VStr "a,b")])].
Proof. repeat split; reflexivity. Qed.

(* ---------- the frame of ANY parse, successful or not ---------- *)
Lemma mget_set_other : forall k k' v d, k' <> k -> mget k' (set k v d) = mget k' d.
Proof. intros [|a t] k' v d H; [reflexivity|]. apply mget_mset_neq. congruence. Qed.

(* one call of key changes the table at most at the key it read *)
Lemma key_frame : forall f c d lvl s k',
  k' <> first_key c s -> mget k' (kres_table (key f c d lvl s) d) = mget k' d.
Proof.
  intros f c d lvl s k' Hk. destruct f as [|f]; [reflexivity|].
  unfold first_key in Hk. simpl key.
  assert (Hneq : forall k, k' <> k -> k <> k') by (intros; congruence).
  destruct (pmode_of c) eqn:Mode;
    (match goal with |- context [runes_until ?e ?st s] => destruct (runes_until e st s) as [[k last] rest] eqn:R end;
     simpl negb in R; rewrite R in Hk; simpl in Hk;
     repeat (match goal with
             | |- context [match ?x with _ => _ end] => destruct x eqn:?
             end; simpl kres_table);
     try reflexivity;
     rewrite ?mget_set_other by assumption; rewrite ?mget_mset_neq by (apply Hneq; assumption); try reflexivity).
Qed.

Lemma heads_S : forall f c d s,
  heads (S f) c d s =
  first_key c s :: match key (S (String.length s)) c d 0 s with KOk d' rest => heads f c d' rest | _ => [] end.
Proof. reflexivity. Qed.

Lemma parse_loop_S : forall f c d s,
  parse_loop (S f) c d s =
  match key (S (String.length s)) c d 0 s with
  | KOk d' rest => parse_loop f c d' rest
  | KEof d' => POk d'
  | KErr d' => PErr d'
  | KFuel => PFuel
  end.
Proof. reflexivity. Qed.

Theorem parse_frame : forall (c : pcfg) (s : string) (dest : vmap) (k' : string),
  ~ In k' (heads (S (String.length s)) c dest s) ->
  mget k' (pres_table (parse_with c s dest) dest) = mget k' dest.
Proof.
  intros c s dest. unfold parse_with. generalize (S (String.length s)) as f. revert s dest.
  intros s dest f. revert s dest.
  induction f as [|f IH]; intros s dest k' Hn; [reflexivity|].
  rewrite heads_S in Hn. rewrite parse_loop_S.
  assert (H1 : k' <> first_key c s) by (intros E; apply Hn; left; congruence).
  pose proof (key_frame (S (String.length s)) c dest 0 s k' H1) as KF.
  destruct (key (S (String.length s)) c dest 0 s) as [d' rest|d'|d'|] eqn:K; simpl in KF; simpl pres_table;
    try exact KF; try reflexivity.
  assert (H2 : ~ In k' (heads f c d' rest)) by (intros E; apply Hn; right; exact E).
  specialize (IH rest d' k' H2).
  destruct (parse_loop f c d' rest); simpl in *; congruence.
Qed.

(* non-vacuity of the frame on a failing expression: the first pair is stored, the second fails
   (c is not a list), the third is never reached *)
Example ex_error_frame :
  parse_into "a.b=1,c[x]=2,d=3" [("c", VStr "old"); ("z", VBool true)]
  = PErr [("c", VStr "old"); ("z", VBool true); ("a", VMap [("b", VNum 1%Z)])]
  /\ heads 17 (mkCfg MTyped [] []) [("c", VStr "old"); ("z", VBool true)] "a.b=1,c[x]=2,d=3" = ["a"; "c"].
Proof. split; reflexivity. Qed.

(* Proofs about import-values (processImportValues / processDependencyImportValues) and about
   the precedence of what it produces: the imported tables in closed form, where they land,
   what wins over them (the parent's own values, the user's values), what they cannot reach
   (a sibling's view), and that a disabled dependency imports nothing. *)
From Coq Require Import List String Ascii Bool ZArith.
From Helm Require Import Values.Tree Values.Schema Values.Scope Values.Deps Values.ScopeProofs
  Values.DepsProofs Values.ScopeTree Values.ScopeTreeProofs Values.DepsTreeProofs.
Import ListNotations.
Local Open Scope string_scope.

(* ---------- the imported table in closed form ---------- *)

Lemma import_tables_app : forall cvals a b,
  import_tables cvals (a ++ b)%list = (import_tables cvals a ++ import_tables cvals b)%list.
Proof. intros. unfold import_tables. apply flat_map_app. Qed.

Lemma import_loop_closed : forall name cvals ivs b b',
  import_loop name cvals ivs b = Ok b' ->
  b' = fold_left merge_tables (import_tables cvals (map (fun iv => (name, iv)) ivs)) b
  /\ ~ In IBad ivs.
Proof.
  induction ivs as [|iv t IH]; simpl; intros b b' H.
  - injection H as <-. auto.
  - unfold import_tables in *. simpl. destruct iv as [s|child parent| |]; simpl in *.
    + destruct (table_at _ cvals) as [vm|]; simpl; destruct (IH _ _ H) as [-> Hn]; split; try reflexivity;
        intros [E|Hin]; try discriminate; contradiction.
    + destruct (table_at _ cvals) as [vv|]; simpl; destruct (IH _ _ H) as [-> Hn]; split; try reflexivity;
        intros [E|Hin]; try discriminate; contradiction.
    + discriminate.
    + destruct (IH _ _ H) as [-> Hn]. split; [reflexivity|]. intros [E|Hin]; [discriminate|contradiction].
Qed.

Lemma import_reqs_closed : forall cvals reqs b b',
  import_reqs cvals reqs b = Ok b' ->
  b' = fold_left merge_tables (import_tables cvals (import_entries reqs)) b
  /\ forall r, In r reqs -> ~ In IBad (dimports r).
Proof.
  induction reqs as [|r t IH]; simpl; intros b b' H.
  - injection H as <-. split; [reflexivity|contradiction].
  - destruct (import_loop (dname r) cvals (dimports r) b) as [b1|] eqn:E; [|discriminate].
    destruct (import_loop_closed _ _ _ _ _ E) as [-> Hn]. destruct (IH _ _ H) as [-> Hall].
    split.
    + unfold import_entries. simpl. fold (import_entries t). rewrite import_tables_app, fold_left_app. reflexivity.
    + intros r0 [<-|Hin]; [exact Hn|now apply Hall].
Qed.

(* one level of processImportValues: the chart's new values are its effective defaults (its own
   and its subcharts', MergeValues with no user values) with the imported table below them *)
Lemma piv_closed : forall c c' reqs,
  cmdeps c = Some reqs -> process_import_values c = Ok c' ->
  exists cvals, MergeValues c [] = Ok cvals
    /\ cvalues c' = merge_tables cvals (merge_imports (import_tables cvals (import_entries reqs)))
    /\ cdeps c' = cdeps c /\ cmdeps c' = cmdeps c /\ cname c' = cname c.
Proof.
  intros c c' reqs Hm H. unfold process_import_values in H. rewrite Hm in H.
  destruct (MergeValues c []) as [cvals|] eqn:Ec; [|discriminate].
  destruct (import_reqs cvals reqs []) as [b|] eqn:Eb; [|discriminate].
  destruct (import_reqs_closed _ _ _ _ Eb) as [-> _]. injection H as <-.
  exists cvals. split; [reflexivity|]. destruct c; simpl in *. auto.
Qed.

Lemma piv_none : forall c, cmdeps c = None -> process_import_values c = Ok c.
Proof. intros c H. unfold process_import_values. now rewrite H. Qed.

(* ---------- where an entry lands ---------- *)

Lemma fold_right_singleton : forall segs (data : vmap),
  segs <> [] ->
  exists k x, fold_right (fun k cur => VMap [(k, cur)]) (VMap data) segs = VMap [(k, x)] /\ k = hd "" segs.
Proof. intros [|k t] data H; [congruence|]. simpl. eauto. Qed.

Lemma split_on_nonempty : forall sep s, split_on sep s <> [].
Proof.
  induction s as [|c t IH]; simpl; [discriminate|].
  destruct (Ascii.eqb c sep); [discriminate|]. destruct (split_on sep t); discriminate.
Qed.

(* the {child, parent} form: a single chain of keys, the parent path *)
Lemma path_to_map_keys : forall parent vv k,
  parent <> "." -> mget k (path_to_map parent vv) <> None -> k = hd "" (split_dot parent).
Proof.
  intros parent vv k Hp Hk. unfold path_to_map in Hk.
  destruct (String.eqb parent ".") eqn:E; [apply String.eqb_eq in E; contradiction|].
  destruct (fold_right_singleton (split_dot parent) vv (split_on_nonempty _ _)) as (k0 & x & Hf & Hk0).
  rewrite Hf in Hk. simpl in Hk. destruct (String.eqb k k0) eqn:Ek; [|congruence].
  apply String.eqb_eq in Ek. congruence.
Qed.

(* ... with the child's table exactly at its end *)
Lemma table_at_singletons : forall segs (data : vmap) m,
  fold_right (fun k cur => VMap [(k, cur)]) (VMap data) segs = VMap m -> table_at segs m = Some data.
Proof.
  induction segs as [|k t IH]; simpl; intros data m H.
  - now injection H as <-.
  - injection H as <-. simpl. rewrite String.eqb_refl.
    destruct t as [|k' t']; simpl in *; [reflexivity|]. rewrite String.eqb_refl.
    specialize (IH data [(k', fold_right (fun k cur => VMap [(k, cur)]) (VMap data) t')] eq_refl).
    simpl in IH. now rewrite String.eqb_refl in IH.
Qed.

Lemma path_to_map_lands : forall parent vv,
  parent <> "." -> table_at (split_dot parent) (path_to_map parent vv) = Some vv.
Proof.
  intros parent vv Hp. unfold path_to_map.
  destruct (String.eqb parent ".") eqn:E; [apply String.eqb_eq in E; contradiction|].
  destruct (fold_right_singleton (split_dot parent) vv (split_on_nonempty _ _)) as (k0 & x & Hf & _).
  rewrite Hf. apply table_at_singletons. exact Hf.
Qed.

(* ---------- dst is authoritative, at any path ---------- *)

Lemma lookup_cons : forall k p m,
  lookup_path (k :: p) (VMap m) = match mget k m with Some x => lookup_path p x | None => None end.
Proof. reflexivity. Qed.

Lemma lookup_nonempty_table : forall p y x, p <> [] -> lookup_path p y = Some x -> exists m, y = VMap m.
Proof. intros [|k p] y x Hp H; [congruence|]. destruct y; simpl in H; try discriminate. eauto. Qed.

Lemma ctv_keeps_path : forall p merge src dst x,
  p <> [] -> lookup_path p (VMap dst) = Some x -> is_table x = false ->
  negb merge && is_null x = false ->
  lookup_path p (VMap (ctv merge src dst)) = Some x.
Proof.
  induction p as [|k p IH]; intros merge src dst x Hp Hl Ht Hn; [congruence|].
  destruct src as [| | | | | |sm]; try exact Hl.
  rewrite ctv_unfold. revert dst Hl. induction sm as [|[k0 sv] t IHt]; intros dst Hl; [exact Hl|].
  simpl. apply IHt. rewrite lookup_cons in *.
  destruct (String.eqb_spec k0 k) as [->|Hne].
  - rewrite ct_step_same. destruct (mget k dst) as [dv|]; [|discriminate]. simpl.
    destruct p as [|k' p'].
    + simpl in Hl. injection Hl as ->. rewrite Hn. simpl. destruct sv; try reflexivity. now destruct x.
    + destruct (lookup_nonempty_table (k' :: p') dv x ltac:(discriminate) Hl) as (dm & ->).
      rewrite andb_false_r. destruct sv; try exact Hl.
      apply IH; try assumption. discriminate.
  - rewrite ct_step_other by congruence. exact Hl.
Qed.

Lemma coalesce_values_keeps_path : forall k p merge kids defs v x,
  lookup_path (k :: p) (VMap v) = Some x -> plain x ->
  lookup_path (k :: p) (VMap (coalesce_values merge kids defs v)) = Some x.
Proof.
  intros k p merge kids defs v x Hl [Ht Hn]. rewrite coalesce_values_fold. revert v Hl.
  induction defs as [|[key dval] t IH]; intros v Hl; [exact Hl|].
  cbn [fold_left]. apply IH. rewrite lookup_cons in *.
  destruct (String.eqb_spec key k) as [->|Hne].
  - rewrite cv_step_same. destruct (mget k v) as [value|]; [|discriminate]. simpl.
    destruct p as [|k' p'].
    + simpl in Hl. injection Hl as ->. rewrite Hn. simpl. now destruct x.
    + destruct (lookup_nonempty_table (k' :: p') value x ltac:(discriminate) Hl) as (dm & ->).
      simpl. destruct dval; try exact Hl.
      apply (ctv_keeps_path (k' :: p') _ _ dm x); try assumption; [discriminate|]. rewrite Hn. apply andb_false_r.
  - rewrite cv_step_other by congruence. exact Hl.
Qed.

(* the user's (the handed-down) value wins over whatever the chart's values say - imported or
   its own - at any path that does not start with a subchart's name *)
Lemma user_wins_chart : forall merge c dest r k p x,
  coalesce merge c dest = Ok r -> ~ In k (map cname (cdeps c)) ->
  lookup_path (k :: p) (VMap dest) = Some x -> plain x ->
  lookup_path (k :: p) (VMap r) = Some x.
Proof.
  intros merge c dest r k p x H Hk Hl Hp. rewrite coalesce_unfold in H.
  pose proof (coalesce_values_keeps_path k p merge (map cname (cdeps c)) (cvalues c) dest x Hl Hp) as H1.
  rewrite lookup_cons in *. now rewrite (deps_loop_other _ _ _ _ k H Hk).
Qed.

Lemma coalesce_globals_other : forall dv src k, k <> global_key -> mget k (coalesce_globals dv src) = mget k dv.
Proof.
  intros dv src k Hk. unfold coalesce_globals.
  destruct (glob_of dv); [|reflexivity]. destruct (glob_of src); [|reflexivity].
  apply mget_mset_other. congruence.
Qed.

(* ... also below: a value the user wrote for the chart at path p is still there when that
   chart's own coalesce starts *)
Lemma user_leaf_handed : forall p merge c dest k q x P X,
  path_ok p c -> handed merge c dest p = Some (P, X) ->
  lookup_path (p ++ k :: q)%list (VMap dest) = Some x -> plain x ->
  (p <> [] -> k <> global_key) ->
  lookup_path (k :: q) (VMap X) = Some x.
Proof.
  induction p as [|n p IH]; intros merge c dest k q x P X Hok Hh Hl Hp Hk.
  - simpl in Hh. injection Hh as _ <-. exact Hl.
  - simpl in Hok, Hh. destruct Hok as (_ & _ & _ & Hf).
    destruct (find_dep n (cdeps c)) as [d|] eqn:Ef; [|discriminate].
    set (dest1 := coalesce_values merge (map cname (cdeps c)) (cvalues c) dest) in *.
    assert (H1 : lookup_path (n :: (p ++ k :: q)%list) (VMap dest1) = Some x)
      by (now apply coalesce_values_keeps_path).
    rewrite lookup_cons in H1. unfold section_at in Hh.
    destruct (mget n dest1) as [y|] eqn:En; [|discriminate].
    destruct (lookup_nonempty_table (p ++ k :: q)%list y x ltac:(now destruct p) H1) as (dv & ->).
    apply (IH merge d (coalesce_globals dv dest1) k q x P X Hf Hh); try assumption.
    + assert (Hhd : forall h t, (p ++ k :: q)%list = h :: t -> h <> global_key).
      { intros h t E. destruct p as [|m p']; simpl in E; injection E as <- _.
        - apply Hk. discriminate.
        - exact (path_ok_head (m :: p') d Hf). }
      destruct (p ++ k :: q)%list as [|h t] eqn:E; [now destruct p|].
      rewrite lookup_cons in *. rewrite coalesce_globals_other by (eapply Hhd; reflexivity). exact H1.
    + intros _. apply Hk. discriminate.
Qed.

Lemma user_wins_at : forall p c user k q x r,
  path_ok p c -> lookup_path (p ++ k :: q)%list (VMap user) = Some x -> plain x ->
  (p <> [] -> k <> global_key) ->
  (forall P, chart_at c p = Some P -> ~ In k (map cname (cdeps P))) ->
  seen_after c user p = Some r -> lookup_path (k :: q) (VMap r) = Some x.
Proof.
  intros p c user k q x r Hok Hl Hp Hk Hend H.
  destruct (seen_after_closed _ _ _ _ Hok H) as (P & X & Hh & Hx).
  apply (user_wins_chart false P X r k q x Hx); [|eapply user_leaf_handed; eauto|exact Hp].
  apply Hend. eapply handed_chart_at; eauto.
Qed.

(* ---------- merge_tables key by key: the parent's own values win over imported ones ---------- *)

Lemma merge_tables_absent : forall dst src k, mget k src = None -> mget k (merge_tables dst src) = mget k dst.
Proof.
  intros dst src k H. unfold merge_tables. rewrite ctv_unfold. apply ct_loop_other. now apply mget_none_notin.
Qed.

Lemma merge_tables_own : forall dst src p x,
  p <> [] -> lookup_path p (VMap dst) = Some x -> is_table x = false ->
  lookup_path p (VMap (merge_tables dst src)) = Some x.
Proof. intros. unfold merge_tables. now apply ctv_keeps_path. Qed.

Lemma merge_tables_fill : forall dst src k, wfm src -> mget k dst = None -> mget k (merge_tables dst src) = mget k src.
Proof.
  intros dst src k Hw H. unfold merge_tables. rewrite ctv_key by (now apply wfm_nodup). rewrite H.
  destruct (mget k src); reflexivity.
Qed.

Lemma merge_imports_absent : forall ts b k,
  mget k b = None -> (forall t, In t ts -> mget k t = None) -> mget k (fold_left merge_tables ts b) = None.
Proof.
  induction ts as [|t ts IH]; simpl; intros b k Hb Hall; [exact Hb|].
  apply IH; [|auto]. rewrite merge_tables_absent; auto.
Qed.

Lemma merge_imports_keeps : forall ts b p x,
  p <> [] -> lookup_path p (VMap b) = Some x -> is_table x = false ->
  lookup_path p (VMap (fold_left merge_tables ts b)) = Some x.
Proof.
  induction ts as [|t ts IH]; simpl; intros b p x Hp Hl Ht; [exact Hl|].
  apply IH; try assumption. now apply merge_tables_own.
Qed.

Lemma wfm_merge_tables : forall dst src, wfm dst -> wfm src -> wfm (merge_tables dst src).
Proof. intros. unfold merge_tables. now apply wfm_ctv. Qed.

Lemma wfm_merge_imports : forall ts b, wfm b -> Forall wfm ts -> wfm (fold_left merge_tables ts b).
Proof.
  induction ts as [|t ts IH]; simpl; intros b Hb Hall; [exact Hb|]. inversion Hall; subst.
  apply IH; [now apply wfm_merge_tables|assumption].
Qed.

(* the first imported table that has the key k decides what the import contributes under k *)
Lemma merge_imports_first : forall pre t post k,
  Forall wfm pre -> wfm t -> (forall u, In u pre -> mget k u = None) ->
  forall p x, lookup_path (k :: p) (VMap t) = Some x -> is_table x = false ->
  lookup_path (k :: p) (VMap (merge_imports (pre ++ t :: post)%list)) = Some x.
Proof.
  intros pre t post k Hpre Ht Hnone p x Hl Hx. unfold merge_imports. rewrite fold_left_app. cbn [fold_left].
  apply (merge_imports_keeps post _ (k :: p) x); [discriminate| |exact Hx].
  rewrite lookup_cons in *. rewrite merge_tables_fill; [exact Hl|exact Ht|].
  apply merge_imports_absent; [reflexivity|exact Hnone].
Qed.

(* ---------- unique keys through the whole coalesce ---------- *)

Lemma tree_wf_iff : forall c, tree_wf c <-> wfm (cvalues c) /\ Forall tree_wf (cdeps c).
Proof.
  intros [n ver vals sch deps md tpls crds]. cbn [tree_wf cvalues cdeps].
  split; intros [H1 H2]; split; try exact H1.
  - induction deps as [|d t IH]; [constructor|]. destruct H2. constructor; auto.
  - induction deps as [|d t IH]; [exact I|]. inversion H2; subst. split; [assumption|now apply IH].
Qed.

Lemma wfm_section : forall n dest dv, wfm dest -> section_of n dest = Some dv -> wfm dv.
Proof.
  intros n dest dv Hw H. unfold section_of in H.
  destruct (mget n dest) as [[]|] eqn:E; try discriminate; injection H as <-;
    [exact (wfm_mget _ _ _ Hw E)|exact wfm_nil].
Qed.

Lemma wfm_coalesce : forall c merge dest r, tree_wf c -> wfm dest -> coalesce merge c dest = Ok r -> wfm r.
Proof.
  intros c. induction c as [n ver vals sch deps md tpls crds IH] using chart_ind2.
  intros merge dest r Hw Hd H. apply tree_wf_iff in Hw as [Hv Hdeps]. cbn [cvalues cdeps] in *.
  rewrite coalesce_unfold in H. cbn [cvalues cdeps] in H.
  assert (H1 : wfm (coalesce_values merge (map cname deps) vals dest)) by (now apply wfm_coalesce_values).
  revert H1 H. generalize (coalesce_values merge (map cname deps) vals dest) as d0.
  induction deps as [|d t IHt]; intros d0 H1 H; simpl in H; [now injection H as <-|].
  inversion IH as [|? ? Hd0 IH']; subst. inversion Hdeps as [|? ? Hwd Hdeps']; subst.
  destruct (section_of (cname d) d0) as [dv|] eqn:Es; [|discriminate].
  destruct (coalesce merge d (coalesce_globals dv d0)) as [x|] eqn:Ec; [|discriminate].
  apply (IHt IH' Hdeps' (mset (cname d) (VMap x) d0)); [|exact H].
  apply wfm_mset; [exact H1|]. apply (Hd0 merge (coalesce_globals dv d0) x Hwd); [|exact Ec].
  apply wfm_coalesce_globals; [eapply wfm_section; eauto|exact H1].
Qed.

Lemma wfm_table_at : forall p m t, wfm m -> table_at p m = Some t -> wfm t.
Proof.
  induction p as [|k p IH]; simpl; intros m t Hw H; [now injection H as <-|].
  destruct (mget k m) as [[]|] eqn:E; try discriminate. eapply IH; [|exact H]. exact (wfm_mget _ _ _ Hw E).
Qed.

Lemma wfm_singletons : forall segs (data : vmap) m,
  wfm data -> fold_right (fun k cur => VMap [(k, cur)]) (VMap data) segs = VMap m -> wfm m.
Proof.
  induction segs as [|k t IH]; simpl; intros data m Hw H; [now injection H as <-|].
  injection H as <-. apply wfm_iff. split; [repeat constructor; intros []|]. constructor; [|constructor].
  simpl. destruct t as [|k' t']; [exact Hw|]. simpl. apply (IH data _ Hw eq_refl).
Qed.

Lemma wfm_path_to_map : forall parent vv, wfm vv -> wfm (path_to_map parent vv).
Proof.
  intros parent vv Hw. unfold path_to_map. destruct (String.eqb parent "."); [exact Hw|].
  destruct (fold_right _ _ _) as [| | | | | |m] eqn:E; try exact Hw. eapply wfm_singletons; eauto.
Qed.

Lemma wfm_import_tables : forall cvals es, wfm cvals -> Forall wfm (import_tables cvals es).
Proof.
  intros cvals es Hw. unfold import_tables. apply Forall_forall. intros t Hin.
  apply in_flat_map in Hin as ([name iv] & _ & Hin). simpl in Hin.
  destruct iv as [s|child parent| |]; simpl in Hin; try contradiction.
  - destruct (table_at _ cvals) as [vm|] eqn:E; [|contradiction]. destruct Hin as [<-|[]].
    eapply wfm_table_at; eauto.
  - destruct (table_at _ cvals) as [vv|] eqn:E; [|contradiction]. destruct Hin as [<-|[]].
    apply wfm_path_to_map. eapply wfm_table_at; eauto.
Qed.

(* ---------- the characterisation of one level ---------- *)

(* (1) the parent's own effective values win over imported ones, at every path;
   (2) a key that no imported table has is unchanged;
   (3) under a key the chart did not have, the FIRST imported table with that key shows through *)
Theorem import_values_level : forall c c' reqs,
  tree_wf c -> cmdeps c = Some reqs -> process_import_values c = Ok c' ->
  exists cvals,
    MergeValues c [] = Ok cvals
    /\ let ts := import_tables cvals (import_entries reqs) in
       (forall p x, p <> [] -> lookup_path p (VMap cvals) = Some x -> is_table x = false ->
                    lookup_path p (VMap (cvalues c')) = Some x)
       /\ (forall k, (forall t, In t ts -> mget k t = None) -> mget k (cvalues c') = mget k cvals)
       /\ (forall pre t post k p x,
             ts = (pre ++ t :: post)%list -> (forall u, In u pre -> mget k u = None) -> mget k cvals = None ->
             lookup_path (k :: p) (VMap t) = Some x -> is_table x = false ->
             lookup_path (k :: p) (VMap (cvalues c')) = Some x).
Proof.
  intros c c' reqs Hw Hm H. destruct (piv_closed c c' reqs Hm H) as (cvals & Hc & Hv & _).
  exists cvals. split; [exact Hc|]. cbv zeta. rewrite Hv.
  assert (Hwc : wfm cvals) by (apply (wfm_coalesce c true [] cvals Hw wfm_nil Hc)).
  pose proof (wfm_import_tables cvals (import_entries reqs) Hwc) as Hwt.
  split; [|split].
  - intros p x Hp Hl Hx. now apply merge_tables_own.
  - intros k Hnone. apply merge_tables_absent. unfold merge_imports. now apply merge_imports_absent.
  - intros pre t post k p x Hts Hpre Hk Hl Hx. rewrite Hts in *.
    apply Forall_app in Hwt as [Hwpre Hwt]. inversion Hwt as [|? ? Hwt1 Hwpost]; subst.
    rewrite lookup_cons. rewrite merge_tables_fill; [|now apply wfm_merge_imports; [apply wfm_nil|
      apply Forall_app; split; [exact Hwpre|constructor; assumption]]|exact Hk].
    rewrite <- lookup_cons. now apply merge_imports_first.
Qed.

(* ---------- imports never reach a sibling ---------- *)

(* whatever is put below the chart's values (any table b that has neither the sibling's key nor
   "global"), the sibling's view is the same *)
Theorem import_not_in_sibling : forall c b s user x x',
  mget s b = None -> mget global_key b = None ->
  path_ok [s] c -> wfm (cvalues c) -> wfm b ->
  seen_after c user [s] = Some x ->
  seen_after (set_values c (merge_tables (cvalues c) b)) user [s] = Some x' ->
  x = x'.
Proof.
  intros c b s user x x' Hs Hg Hok Hw Hb H H'.
  assert (Hdeps : cdeps (set_values c (merge_tables (cvalues c) b)) = cdeps c) by (destruct c; reflexivity).
  assert (Hvals : cvalues (set_values c (merge_tables (cvalues c) b)) = merge_tables (cvalues c) b) by (destruct c; reflexivity).
  apply (seen_isolated [s] c (set_values c (merge_tables (cvalues c) b)) user user x x'); try assumption.
  - simpl. split; [exact Hw|]. destruct (find_dep s (cdeps c)); exact I.
  - cbn [defaults_wf]. rewrite Hdeps, Hvals. split; [now apply wfm_merge_tables|]. destruct (find_dep s (cdeps c)); exact I.
  - cbn [chart_agree agree]. rewrite Hdeps, Hvals. rewrite !merge_tables_absent by assumption.
    split; [split; [reflexivity|apply sect_agree_refl; reflexivity]|].
    simpl in Hok. destruct (find_dep s (cdeps c)); [reflexivity|tauto].
  - apply agree_refl. reflexivity.
Qed.

(* ---------- a disabled dependency imports nothing ---------- *)

(* the entries processImportValues goes through belong to kept requirement records only *)
Theorem disabled_imports_nothing : forall compat c v path c',
  pde compat c v path = Ok c' ->
  exists cvals,
    CoalesceValues (set_deps c (map fst (resolved_kids compat (kids_of compat c) (mdeps_list c)))) v = Ok cvals
    /\ forall r, In r (resolved_reqs (mdeps_list c)) -> enabled_spec cvals path r = false ->
         (forall e, In e (import_entries (mdeps_list c')) -> fst e <> dname r)
         /\ ~ In (dname r) (map cname (cdeps c')).
Proof.
  intros compat c v path c' H. destruct (disabled_vanish compat c v path c' H) as (cvals & Hc & Hdis & _).
  exists cvals. split; [exact Hc|]. intros r Hr Hs. destruct (Hdis r Hr Hs) as [Hnc Hnm].
  split; [|exact Hnc]. intros [n iv] Hin Heq. simpl in Heq. subst n. apply Hnm.
  unfold import_entries in Hin. apply in_flat_map in Hin as (r0 & Hr0 & Hin).
  apply in_map_iff in Hin as (iv0 & E & _). injection E as E _. rewrite <- E. now apply in_map.
Qed.

(* ... and its defaults are not even among the values imports are read from: under the name of a
   subchart that was not kept, the chart's effective defaults hold only what its own values say *)
Lemma merge_values_unkept : forall c cvals k,
  wfm (cvalues c) -> MergeValues c [] = Ok cvals -> ~ In k (map cname (cdeps c)) ->
  mget k cvals = mget k (cvalues c).
Proof.
  intros c cvals k Hw H Hk. unfold MergeValues in H. rewrite coalesce_unfold in H.
  rewrite (deps_loop_other _ _ _ _ k H Hk). rewrite coalesce_values_key by (now apply wfm_nodup).
  simpl. destruct (mget k (cvalues c)); reflexivity.
Qed.

(* ---------- non-vacuity ---------- *)

Definition ix_suba := Chart "suba" "1.0.0" [("exports", VMap [("one", VMap [("data", VMap [("fromA", VNum 1)])])])] None [] None [] [].
Definition ix_subb := Chart "subb" "1.0.0" [("exports", VMap [("two", VMap [("data", VMap [("fromB", VNum 2)])])]);
                                             ("x", VMap [("k", VNum 3)])] None [] None [] [].
Definition ix_top := Chart "top" "1.0.0" [("data", VMap [("fromA", VNum 9)])] None [ix_suba; ix_subb]
                       (Some [mkDep "suba" "*" "" [] "" true [IStr "one"];
                              mkDep "subb" "*" "" [] "" true [IStr "two"; IMap "x" "imported.x"]]) [] [].

Lemma import_example :
  match process_dependencies (fun _ _ => true) ix_top [("data", VMap [("fromB", VNum 7)])] with
  | Ok c' =>
      lookup_path ["data"; "fromA"] (VMap (cvalues c')) = Some (VNum 9)         (* the parent's own value wins *)
      /\ lookup_path ["data"; "fromB"] (VMap (cvalues c')) = Some (VNum 2)      (* imported, string form *)
      /\ lookup_path ["imported"; "x"; "k"] (VMap (cvalues c')) = Some (VNum 3) (* child/parent form lands at the parent path *)
      /\ lookup_path ["suba"; "exports"; "one"; "data"; "fromB"] (VMap (cvalues c')) = None (* not into the sibling *)
      /\ match CoalesceValues c' [("data", VMap [("fromB", VNum 7)])] with
         | Ok r => lookup_path ["data"; "fromB"] (VMap r) = Some (VNum 7)       (* the user's value wins *)
         | Err _ => False
         end
  | Err _ => False
  end.
Proof. vm_compute. repeat split; reflexivity. Qed.

(* C13 and storage READ faults.  The value model (Values/Reuse.v) has no faults: [current_idx]
   asks Releases.Deployed for the newest deployed revision and falls back to the newest revision
   only when there is none.  A failed lookup must abort the upgrade (that is what the unchanged
   Upgrade.prepareUpgrade does: the harness injects the fault and sees the refusal).  If the
   failure were taken for "nothing is deployed" — what the seeded change C13-10 makes
   Storage.DeployedAll do — the base becomes the NEWEST revision, whatever happened to it:
   [current_idx_lost] is [current_idx] with the lookup answered "none". *)
From Coq Require Import List Arith Lia.
From Helm Require Import Values.Tree Values.Coalesce Values.Reuse.
Import ListNotations.

Definition current_idx_lost (sts : list rstat) : option nat :=
  match sts with
  | [] => None
  | _ => Some (List.length sts)
  end.

(* with a truthful lookup the base is the deployed revision, however many failed ones follow it *)
Lemma nth_error_repeat_last {A} (b : A) : forall n a, nth_error (a :: repeat b (S n)) (S n) = Some b.
Proof. induction n as [|n IH]; intros a; [reflexivity|]. exact (IH b). Qed.

Lemma deployed_idx_failed : forall m k, deployed_idx_from k (repeat SFailed m) = None.
Proof. induction m as [|m IH]; intros k; simpl; auto. rewrite IH. reflexivity. Qed.

Lemma current_idx_skips_failed n :
  current_idx (SDeployed :: repeat SFailed (S n)) = Some 1.
Proof.
  unfold current_idx.
  replace (List.length (SDeployed :: repeat SFailed (S n)) - 1) with (S n)
    by (cbn [List.length]; rewrite repeat_length; lia).
  rewrite nth_error_repeat_last.
  cbn [deployed_idx_from]. rewrite deployed_idx_failed. reflexivity.
Qed.

(* ... with the lookup lost it is the newest, failed, revision: the values of a FAILED upgrade would be
   carried forward as "the currently deployed revision's" *)
Lemma current_idx_lost_refuted :
  current_idx [SDeployed; SFailed] = Some 1 /\ current_idx_lost [SDeployed; SFailed] = Some 2.
Proof. split; reflexivity. Qed.

(* the two agree exactly when the newest revision is the base anyway *)
Lemma current_idx_lost_agrees sts :
  current_idx sts = current_idx_lost sts <-> (sts = [] \/ current_idx sts = Some (List.length sts)).
Proof.
  unfold current_idx_lost. destruct sts as [|s t]; [simpl; tauto|].
  split; [intros ->; now right|intros [E|E]; [discriminate|exact E]].
Qed.

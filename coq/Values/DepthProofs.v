(* coalesce.go with dependencies at ANY depth (Values/Coalesce.v): inside the scope of the
   chart reached from the root through a chain of subcharts, outside "global", a value comes
   from the user's values if they define the path, else from the first chart on the way down
   (root first) whose own values.yaml defines it in its section for the chain, else from the
   last chart's own defaults. *)
From Coq Require Import List String Bool Arith ZArith.
From Helm Require Import Values.Tree Values.Merge Values.Coalesce Values.TreeLemmas Values.CoalesceProofs Values.SubchartProofs.
Import ListNotations.
Local Open Scope string_scope.

(* ---- the defaults loop of one chart, any key ---- *)
Lemma cv_loop_dst_wins : forall merge deps p dflt dest x,
  wf_b (VMap dflt) = true ->
  lookup_path p (VMap dest) = Some x -> is_table x = false -> x <> VNull ->
  lookup_path p (VMap (cv_loop merge deps dflt dest)) = Some x.
Proof.
  intros merge deps [|k p] dflt dest x Hwf Hl Ht Hn.
  - simpl in Hl. inversion Hl; subst. discriminate.
  - rewrite lookup_cons_map in *. rewrite cv_loop_get by assumption.
    destruct (mget k dest) as [y|] eqn:Gd; [|discriminate].
    destruct (mget k dflt) as [d|] eqn:Gs; [|assumption].
    unfold cv_result.
    assert (Hy : is_null y = false).
    { destruct y; try reflexivity. destruct p; simpl in Hl; [inversion Hl; congruence | discriminate]. }
    rewrite Hy. simpl andb.
    destruct y; try assumption. destruct d; try assumption.
    destruct p as [|k' p'].
    + simpl in Hl. inversion Hl; subst. discriminate.
    + apply ct_dst_wins; try assumption. eapply wf_mget; eauto.
Qed.

Lemma cv_loop_src_fills : forall merge deps p dflt dest,
  wf_b (VMap dflt) = true ->
  defines p (VMap dest) = false ->
  lookup_path p (VMap (cv_loop merge deps dflt dest)) = lookup_path p (VMap dflt).
Proof.
  intros merge deps [|k p] dflt dest Hwf Hd; [discriminate|].
  rewrite !lookup_cons_map. rewrite cv_loop_get by assumption.
  simpl in Hd.
  destruct (mget k dest) as [y|] eqn:Gd.
  - destruct (defines_false_table _ _ Hd) as [ym ->].
    destruct (mget k dflt) as [d|] eqn:Gs.
    + unfold cv_result. simpl is_null. simpl andb.
      destruct d; try (rewrite defines_false_lookup by assumption;
                       pose proof (defines_false_nonempty _ _ Hd) as Hne;
                       destruct p; [congruence | reflexivity]).
      apply ct_src_fills; [eapply wf_mget; eauto | assumption].
    + now apply defines_false_lookup.
  - destruct (mget k dflt); reflexivity.
Qed.

(* ---- a chart's own scope: keys that are not subchart names ---- *)
Lemma coalesce_top_key : forall merge n dflt deps dest r k,
  coalesce merge (mkChart n dflt deps) dest = Some r ->
  ~ In k (map cname deps) ->
  mget k r = mget k (cv_loop merge deps dflt dest).
Proof.
  intros merge n dflt deps dest r k H Hk. rewrite coalesce_unfold in H.
  eapply deps_loop_other; [exact H|].
  intros d Hd E. apply Hk. rewrite <- E. now apply in_map.
Qed.

(* ---- the section a subchart starts from ---- *)
Section Sections.
  Variables (merge : bool) (deps : list chart) (dflt user : vmap) (sub : chart).
  Hypothesis Hwf_d : wf_b (VMap dflt) = true.
  Hypothesis Hin : In sub deps.
  Let sname := cname sub.
  Let m := section_of sname (cv_loop merge deps dflt user).

  Lemma child_flag : child_chart_merge_true deps sname merge = true.
  Proof.
    unfold child_chart_merge_true.
    assert (E : existsb (fun d => String.eqb (cname d) sname) deps = true).
    { apply existsb_exists. exists sub. split; [assumption | apply String.eqb_refl]. }
    now rewrite E.
  Qed.

  Lemma section_eq : mget sname (cv_loop merge deps dflt user) =
    match mget sname dflt with
    | Some d => cv_result merge deps sname d (mget sname user)
    | None => mget sname user
    end.
  Proof. now apply cv_loop_get. Qed.

  Variable q : list string.
  Hypothesis Hq : q <> [].

  Lemma section_user_wins : forall x,
    lookup_path (sname :: q) (VMap user) = Some x -> is_table x = false -> x <> VNull ->
    lookup_path q (VMap m) = Some x.
  Proof.
    intros x Hl Ht Hn. rewrite lookup_cons_map in Hl.
    destruct (mget sname user) as [u|] eqn:Gu; [|discriminate].
    destruct q as [|k0 q0]; [congruence|].
    destruct u; simpl in Hl; try discriminate. rename m0 into um.
    unfold m, section_of. rewrite section_eq, Gu.
    destruct (mget sname dflt) as [d|] eqn:Gd; [|exact Hl].
    unfold cv_result. simpl is_null. simpl andb.
    destruct d; try exact Hl.
    rewrite child_flag. apply ct_dst_wins; try assumption. exact (wf_mget _ _ _ Hwf_d Gd).
  Qed.

  Lemma section_parent_wins : forall x,
    defines (sname :: q) (VMap user) = false ->
    lookup_path (sname :: q) (VMap dflt) = Some x -> is_table x = false -> x <> VNull ->
    lookup_path q (VMap m) = Some x.
  Proof.
    intros x Hu Hl Ht Hn. rewrite lookup_cons_map in Hl.
    destruct (mget sname dflt) as [d|] eqn:Gd; [|discriminate].
    destruct q as [|k0 q0]; [congruence|].
    destruct d; simpl in Hl; try discriminate. rename m0 into dm.
    assert (Hdm : wf_b (VMap dm) = true) by exact (wf_mget _ _ _ Hwf_d Gd).
    unfold m, section_of. rewrite section_eq, Gd.
    change (match mget sname user with Some y => defines (k0 :: q0) y | None => false end = false) in Hu.
    destruct (mget sname user) as [u|] eqn:Gu.
    - destruct (defines_false_table _ _ Hu) as [um ->].
      unfold cv_result. simpl is_null. simpl andb. rewrite child_flag.
      rewrite (ct_src_fills true (k0 :: q0) um dm Hdm Hu). exact Hl.
    - simpl. exact Hl.
  Qed.

  Lemma section_undefined :
    defines (sname :: q) (VMap user) = false -> defines (sname :: q) (VMap dflt) = false ->
    defines q (VMap m) = false.
  Proof.
    intros Hu Hd. destruct q as [|k0 q0]; [congruence|].
    unfold m, section_of. rewrite section_eq.
    change (match mget sname user with Some y => defines (k0 :: q0) y | None => false end = false) in Hu.
    change (match mget sname dflt with Some y => defines (k0 :: q0) y | None => false end = false) in Hd.
    destruct (mget sname dflt) as [d|] eqn:Gd.
    - destruct (defines_false_table _ _ Hd) as [dm ->].
      assert (Hdm : wf_b (VMap dm) = true) by exact (wf_mget _ _ _ Hwf_d Gd).
      destruct (mget sname user) as [u|] eqn:Gu.
      + destruct (defines_false_table _ _ Hu) as [um ->].
        unfold cv_result. simpl is_null. simpl andb. rewrite child_flag.
        now apply ct_defines_false.
      + simpl. exact Hd.
    - destruct (mget sname user) as [u|] eqn:Gu.
      + destruct (defines_false_table _ _ Hu) as [um ->]. exact Hu.
      + reflexivity.
  Qed.
End Sections.

(* ---- chains of subcharts ---- *)
Fixpoint valid_levels (ls : list chart) : Prop :=
  match ls with
  | [] => False
  | [c] => wf (VMap (cvalues c))
  | c :: ((sub :: _) as rest) =>
      wf (VMap (cvalues c)) /\ NoDup (map cname (cdeps c)) /\ In sub (cdeps c)
      /\ cname sub <> global_key /\ valid_levels rest
  end.

(* the key path from the root's values to the last chart's scope *)
Definition scope_path (ls : list chart) : list string := map cname (tl ls).

Fixpoint last_level (ls : list chart) : option chart :=
  match ls with
  | [] => None
  | [c] => Some c
  | _ :: rest => last_level rest
  end.

(* what the charts' own values.yaml files say about path p inside the last chart's scope, root
   first: Some (Some x) = the leaf x decides; Some o (at the last chart) = its own defaults
   show, whatever they have (o = lookup result); None = not decided by this statement (a
   table, a null or a blocking scalar in some chart's section on the way) *)
Fixpoint default_at (ls : list chart) (p : list string) : option (option val) :=
  match ls with
  | [] => None
  | [c] => Some (lookup_path p (VMap (cvalues c)))
  | c :: rest =>
      let q := (scope_path ls ++ p)%list in
      if defines q (VMap (cvalues c)) then
        match lookup_path q (VMap (cvalues c)) with
        | Some x => if is_table x || is_null x then None else Some (Some x)
        | None => None
        end
      else default_at rest p
  end.

Lemma scope_path_cons : forall c sub rest, scope_path (c :: sub :: rest) = cname sub :: scope_path (sub :: rest).
Proof. reflexivity. Qed.

Lemma is_null_false : forall x, x <> VNull -> is_null x = false.
Proof. intros [] H; try reflexivity. congruence. Qed.

Theorem coalesce_depth : forall (ls : list chart) (merge : bool) (c0 cn : chart) (dest r : vmap) (k : string) (p' : list string),
  valid_levels ls -> hd_error ls = Some c0 -> last_level ls = Some cn ->
  coalesce merge c0 dest = Some r ->
  k <> global_key -> ~ In k (map cname (cdeps cn)) ->
  let q := (scope_path ls ++ k :: p')%list in
  (forall x, lookup_path q (VMap dest) = Some x -> is_table x = false -> x <> VNull ->
             lookup_path q (VMap r) = Some x)
  /\ (defines q (VMap dest) = false ->
      match default_at ls (k :: p') with
      | Some o => lookup_path q (VMap r) = o
      | None => True
      end).
Proof.
  induction ls as [|c ls IH]; intros merge c0 cn dest r k p' Hv Hh Hl Hrun Hk Hkd; [destruct Hv|].
  simpl in Hh. inversion Hh; subst c0. clear Hh.
  destruct ls as [|sub rest].
  - (* the chart's own scope *)
    simpl in Hl. inversion Hl; subst cn. clear Hl. simpl in Hv.
    destruct c as [n dflt deps]. simpl cvalues in Hv. simpl cdeps in Hkd.
    assert (E : forall t, lookup_path (k :: t) (VMap r) = lookup_path (k :: t) (VMap (cv_loop merge deps dflt dest))).
    { intros t. rewrite !lookup_cons_map. now rewrite (coalesce_top_key merge n dflt deps dest r k Hrun Hkd). }
    cbn [scope_path tl map app]. simpl cvalues.
    split.
    + intros x Hx Ht Hn. rewrite E. now apply cv_loop_dst_wins.
    + intros Hd. rewrite E. now apply cv_loop_src_fills.
  - (* through a subchart *)
    destruct Hv as (Hwf & Hnd & Hin & Hsg & Hvrest).
    change (last_level (c :: sub :: rest)) with (last_level (sub :: rest)) in Hl.
    destruct c as [n dflt deps]. simpl cdeps in *. simpl cvalues in *.
    rewrite coalesce_unfold in Hrun.
    destruct (deps_loop_at _ _ _ _ _ Hnd Hin Hrun) as (dv & rs & Hdv & Hc & Hr).
    specialize (IH merge sub cn dv rs k p' Hvrest eq_refl Hl Hc Hk Hkd).
    destruct IH as [IHw IHf].
    rewrite scope_path_cons. simpl app.
    set (q' := (scope_path (sub :: rest) ++ k :: p')%list) in *.
    (* the first key of q' is not "global" *)
    assert (Hq' : exists k0 t, q' = k0 :: t /\ k0 <> global_key).
    { unfold q'. destruct rest as [|s2 rest'].
      - exists k, p'. split; [reflexivity | assumption].
      - destruct Hvrest as (_ & _ & _ & Hs2 & _). rewrite scope_path_cons. simpl app. eauto. }
    destruct Hq' as (k0 & t0 & Eq' & Hk0).
    assert (Hne : q' <> []) by (rewrite Eq'; discriminate).
    assert (Hagree : forall y, lookup_path q' (VMap dv) = y <-> lookup_path q' (VMap (section_of (cname sub) (cv_loop merge deps dflt dest))) = y).
    { intros y. rewrite Eq'. rewrite (lookup_agree dv _ k0 t0 (Hdv k0 Hk0)). tauto. }
    assert (Hagree_d : defines q' (VMap dv) = defines q' (VMap (section_of (cname sub) (cv_loop merge deps dflt dest)))).
    { rewrite Eq'. apply defines_agree. now apply Hdv. }
    split.
    + intros x Hx Ht Hn. rewrite lookup_cons_map, Hr.
      apply IHw; try assumption. apply Hagree.
      eapply section_user_wins; eauto.
    + intros Hd.
      change (default_at (mkChart n dflt deps :: sub :: rest) (k :: p'))
        with (if defines (cname sub :: q') (VMap dflt)
              then match lookup_path (cname sub :: q') (VMap dflt) with
                   | Some x => if is_table x || is_null x then None else Some (Some x)
                   | None => None
                   end
              else default_at (sub :: rest) (k :: p')).
      destruct (defines (cname sub :: q') (VMap dflt)) eqn:Dd.
      * destruct (lookup_path (cname sub :: q') (VMap dflt)) as [x|] eqn:Lx; [|exact I].
        destruct (is_table x) eqn:Tx; [exact I|].
        destruct (is_null x) eqn:Nx; [exact I|]. simpl orb. cbv iota.
        rewrite lookup_cons_map, Hr.
        apply IHw; try assumption.
        -- apply Hagree. eapply section_parent_wins; eauto. intros ->. discriminate.
        -- intros ->. discriminate.
      * assert (Hdv' : defines q' (VMap dv) = false).
        { rewrite Hagree_d. eapply section_undefined; eauto. }
        specialize (IHf Hdv').
        destruct (default_at (sub :: rest) (k :: p')) as [o|]; [|exact I].
        rewrite lookup_cons_map, Hr. exact IHf.
Qed.

(* non-vacuity: three levels *)
Definition ex_l2 : chart := mkChart "leaf" [("p", VNum 1%Z); ("q", VStr "leaf-q"); ("o", VStr "own")] [].
Definition ex_l1 : chart := mkChart "mid" [("leaf", VMap [("q", VStr "mid-q")]); ("m", VBool true)] [ex_l2].
Definition ex_l0 : chart := mkChart "top" [("mid", VMap [("leaf", VMap [("p", VNum 2%Z)])])] [ex_l1].
Definition ex_uv : vmap := [("mid", VMap [("leaf", VMap [("u", VStr "user")])])].

Example ex_depth :
  valid_levels [ex_l0; ex_l1; ex_l2]
  /\ exists r, coalesce false ex_l0 ex_uv = Some r
     /\ lookup_path ["mid"; "leaf"; "u"] (VMap r) = Some (VStr "user")
     /\ lookup_path ["mid"; "leaf"; "p"] (VMap r) = Some (VNum 2%Z)
     /\ lookup_path ["mid"; "leaf"; "q"] (VMap r) = Some (VStr "mid-q")
     /\ lookup_path ["mid"; "leaf"; "o"] (VMap r) = Some (VStr "own")
     /\ default_at [ex_l0; ex_l1; ex_l2] ["p"] = Some (Some (VNum 2%Z))
     /\ default_at [ex_l0; ex_l1; ex_l2] ["q"] = Some (Some (VStr "mid-q"))
     /\ default_at [ex_l0; ex_l1; ex_l2] ["o"] = Some (Some (VStr "own")).
Proof.
  split.
  - assert (ND : forall s : string, NoDup [s]) by (intros; constructor; [intros [] | constructor]).
    simpl. repeat split; try reflexivity; try apply ND; try (left; reflexivity); discriminate.
  - eexists. split; [reflexivity|]. repeat split; reflexivity.
Qed.

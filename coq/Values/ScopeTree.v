(* C11, end to end: the .Values of the chart at a path of the tree, as the composition of
   ProcessDependencies (enable / alias / import-values), CoalesceValues (recursive, globals) and
   the scoping of recAllTpls.  Definitions only; proofs in ScopeTreeProofs.v, DepsTreeProofs.v,
   ImportProofs.v.

   A path is the list of chart names below the root, e.g. ["a1"; "g1"] for
   top/charts/a1/charts/g1. *)
From Coq Require Import List String Ascii Bool ZArith.
From Helm Require Import Values.Tree Values.Schema Values.Scope Values.Deps.
Import ListNotations.
Local Open Scope string_scope.

(* the first chart of a dependency list with the given name *)
Fixpoint find_dep (n : string) (ds : list chart) : option chart :=
  match ds with
  | [] => None
  | d :: t => if String.eqb (cname d) n then Some d else find_dep n t
  end.

(* ---------- what recAllTpls hands down ---------- *)

(* [path_at c vals p]: the chart at path p below c and the .Values recAllTpls gives it, when c
   itself gets [vals] (each step is vals.Table("Values." + name), as the code does it) *)
Fixpoint path_at (c : chart) (vals : vmap) (p : list string) : option (chart * vmap) :=
  match p with
  | [] => Some (c, vals)
  | n :: p' =>
      match find_dep n (cdeps c) with
      | Some d => path_at d (scoped_values false (cname d) vals) p'
      | None => None
      end
  end.

(* the chart at path p *)
Fixpoint chart_at (c : chart) (p : list string) : option chart :=
  match p with
  | [] => Some c
  | n :: p' => match find_dep n (cdeps c) with Some d => chart_at d p' | None => None end
  end.

(* ChartFullPath of the chart at path p below a chart whose full path is [base] *)
Fixpoint dir_of (base : string) (p : list string) : string :=
  match p with
  | [] => base
  | n :: p' => dir_of (base ++ "/charts/" ++ n) p'
  end.

(* the same walk without choosing the first chart of a name: every chart reachable by names *)
Inductive on_path : chart -> vmap -> list string -> chart -> vmap -> Prop :=
| on_here : forall c v, on_path c v [] c v
| on_step : forall c v d q e x,
    In d (cdeps c) -> on_path d (scoped_values false (cname d) v) q e x ->
    on_path c v (cname d :: q) e x.

(* ---------- the composition ---------- *)

(* what engine.Render shows the chart at path p of an already processed tree *)
Definition seen_after (c : chart) (user : vmap) (p : list string) : option vmap :=
  match CoalesceValues c user with
  | Ok r => match path_at c r p with Some (_, x) => Some x | None => None end
  | Err _ => None
  end.

(* ProcessDependencies, then ToRenderValues (CoalesceValues), then recAllTpls *)
Definition values_seen (compat : string -> string -> bool) (tree : chart) (user : vmap) (p : list string)
  : option vmap :=
  match process_dependencies compat tree user with
  | Ok c => seen_after c user p
  | Err _ => None
  end.

(* ---------- the closed form: what is handed down the path ---------- *)

Definition section_at (n : string) (dest : vmap) : option vmap :=
  match mget n dest with
  | None => Some []
  | Some (VMap dv) => Some dv
  | Some _ => None
  end.

(* [handed merge c dest p]: the chart at path p and the values its own [coalesce] starts from:
   at every level the section under the next name, out of the chart's defaults coalesced under
   what was handed to it, with that level's globals pushed in *)
Fixpoint handed (merge : bool) (c : chart) (dest : vmap) (p : list string) : option (chart * vmap) :=
  match p with
  | [] => Some (c, dest)
  | n :: p' =>
      match find_dep n (cdeps c) with
      | None => None
      | Some d =>
          let dest1 := coalesce_values merge (map cname (cdeps c)) (cvalues c) dest in
          match section_at n dest1 with
          | None => None
          | Some dv => handed merge d (coalesce_globals dv dest1) p'
          end
      end
  end.

(* side conditions along a path: subchart names unique, none called "global", the names on the
   path free of dots (K-C11-1), the charts exist *)
Fixpoint path_ok (p : list string) (c : chart) : Prop :=
  match p with
  | [] => True
  | n :: p' =>
      NoDup (map cname (cdeps c)) /\ ~ In global_key (map cname (cdeps c)) /\ split_dot n = [n] /\
      match find_dep n (cdeps c) with
      | Some d => path_ok p' d
      | None => False
      end
  end.

(* every table has unique keys (always true of a Go map) *)
Fixpoint wfv (v : val) : Prop :=
  match v with
  | VMap m =>
      NoDup (map fst m) /\
      (fix go (m : list (string * val)) : Prop :=
         match m with
         | [] => True
         | (_, x) :: t => wfv x /\ go t
         end) m
  | _ => True
  end.
Definition wfm (m : vmap) : Prop := wfv (VMap m).

(* the defaults of the charts strictly above the end of the path are well-formed *)
Fixpoint defaults_wf (p : list string) (c : chart) : Prop :=
  match p with
  | [] => True
  | n :: p' =>
      wfm (cvalues c) /\
      match find_dep n (cdeps c) with
      | Some d => defaults_wf p' d
      | None => True
      end
  end.

(* ---------- "differs only outside the path" ---------- *)

Definition sect_agree (R : vmap -> vmap -> Prop) (a b : option val) : Prop :=
  match a, b with
  | Some (VMap s), Some (VMap s') => R s s'
  | _, _ => a = b
  end.

Section Agree.
  (* what must hold at the end of the path: [eq] for isolation, "equal except under key n" for
     what a parent sees of one child *)
  Variable E : vmap -> vmap -> Prop.
  Variable Ec : chart -> chart -> Prop.

  (* two value tables agree along p: the same "global" table at every level of the path, and
     the nested sections under the names of the path agree in turn; everything else (siblings'
     sections, other keys) is unconstrained *)
  Fixpoint agree (p : list string) (v v' : vmap) : Prop :=
    match p with
    | [] => E v v'
    | n :: p' =>
        mget global_key v = mget global_key v' /\ sect_agree (agree p') (mget n v) (mget n v')
    end.

  (* two chart trees agree along p: the defaults of the charts on the path agree along the rest
     of the path; the other subcharts (siblings of the path) are unconstrained *)
  Fixpoint chart_agree (p : list string) (c c' : chart) : Prop :=
    match p with
    | [] => Ec c c'
    | n :: p' =>
        agree (n :: p') (cvalues c) (cvalues c') /\
        match find_dep n (cdeps c), find_dep n (cdeps c') with
        | Some d, Some d' => chart_agree p' d d'
        | _, _ => False
        end
    end.
End Agree.

(* equal except under key n *)
Definition except_key (n : string) (v v' : vmap) : Prop :=
  forall k, k <> n -> mget k v = mget k v'.

(* the same chart except for the subchart called n (its defaults, its subtree) and the chart's own
   defaults under the key n *)
Definition except_child (n : string) (c c' : chart) : Prop :=
  except_key n (cvalues c) (cvalues c') /\
  Forall2 (fun d d' => cname d = cname d' /\ (cname d <> n -> d = d')) (cdeps c) (cdeps c').

(* ---------- globals along a path ---------- *)

(* "the values hold global.g = x" *)
Definition holds_global (g : string) (x : val) (v : vmap) : Prop :=
  exists gm, mget global_key v = Some (VMap gm) /\ mget g gm = Some x.

(* the cases in which the code itself passes global.g on at every level below: the section of
   the next chart has no "global" key, or a table there without a table at g *)
Fixpoint globals_pass (merge : bool) (g : string) (c : chart) (dest : vmap) (p : list string) : Prop :=
  match p with
  | [] => True
  | n :: p' =>
      match find_dep n (cdeps c) with
      | None => True
      | Some d =>
          let dest1 := coalesce_values merge (map cname (cdeps c)) (cvalues c) dest in
          match section_at n dest1 with
          | None => True
          | Some dv =>
              (mget global_key dv = None
               \/ exists dg, mget global_key dv = Some (VMap dg) /\ forall t, mget g dg <> Some (VMap t))
              /\ globals_pass merge g d (coalesce_globals dv dest1) p'
          end
      end
  end.

(* ---------- the tree-level enablement rule ---------- *)

(* a chain of subcharts with these names exists in the tree *)
Fixpoint has_path (c : chart) (q : list string) : Prop :=
  match q with
  | [] => True
  | n :: q' => exists d, In d (cdeps c) /\ cname d = n /\ has_path d q'
  end.

Section Enabled.
  Variable compat : string -> string -> bool.

  (* the subcharts a chart offers after alias resolution (name = alias, else name; charts under
     charts/ that no requirement describes keep their name) *)
  Definition offered (c : chart) : list chart :=
    map fst (resolved_kids compat (kids_of compat c) (mdeps_list c)).

  (* [enabled_path c v path q]: every dependency on the chain q is enabled by the rule of the
     property text, evaluated in its parent's effective values: [v] are the values handed to c
     (the user's for the root, the parent's effective values below), [path] the prefix
     ("a1.g1.") under which c's requirements look up their conditions.
     At each level: the parent's effective values are c's defaults and those of its offered
     subcharts coalesced under v; a subchart offered under the name n is kept iff every
     requirement record carrying that name is [enabled_spec] (first condition path that resolves
     to a boolean decides, else disabled exactly when some tag is false and none true). *)
  Fixpoint enabled_path (c : chart) (v : vmap) (path : string) (q : list string) : Prop :=
    match q with
    | [] => True
    | n :: q' =>
        exists cvals d,
          CoalesceValues (set_deps c (offered c)) v = Ok cvals
          /\ In d (offered c) /\ cname d = n
          /\ (forall r, In r (resolved_reqs (mdeps_list c)) -> dname r = n -> enabled_spec cvals path r = true)
          /\ enabled_path d cvals (path ++ n ++ ".") q'
    end.
End Enabled.

(* ---------- import-values ---------- *)

(* the table one import-values entry contributes ([None]: the child table is missing, or the
   entry is of no known form) *)
Definition import_table (name : string) (cvals : vmap) (iv : import) : option vmap :=
  match iv with
  | IMap child parent =>
      match table_at (split_dot (name ++ "." ++ child)) cvals with
      | Some vv => Some (path_to_map parent vv)
      | None => None
      end
  | IStr s => table_at (split_dot (name ++ "." ++ "exports." ++ s)) cvals
  | _ => None
  end.

(* all entries of all kept requirement records, in order *)
Definition import_entries (reqs : list dependency) : list (string * import) :=
  flat_map (fun r => map (fun iv => (dname r, iv)) (dimports r)) reqs.

(* the tables they contribute, in order *)
Definition import_tables (cvals : vmap) (es : list (string * import)) : list vmap :=
  flat_map (fun e => match import_table (fst e) cvals (snd e) with Some t => [t] | None => [] end) es.

(* b: earlier tables are authoritative over later ones *)
Definition merge_imports (ts : list vmap) : vmap := fold_left merge_tables ts [].

(* one level of a merged table, key by key (unique keys in src) *)
Definition ct_key (merge : bool) (sv : val) (dvo : option val) : option val :=
  match dvo with
  | None => Some sv
  | Some dv =>
      if negb merge && is_null dv then None
      else match sv, dv with
           | VMap _, VMap dm => Some (VMap (ctv merge sv dm))
           | _, _ => Some dv
           end
  end.

(* one key of coalesce_values (unique keys in the defaults) *)
Definition cv_key (merge inkids : bool) (dval : val) (uvo : option val) : option val :=
  match uvo with
  | None => Some dval
  | Some value =>
      if is_null value && negb merge then None
      else match value, dval with
           | VMap dest, VMap _ => Some (VMap (ctv (merge || inkids) dval dest))
           | _, _ => Some value
           end
  end.

(* every table of every chart's defaults in the tree has unique keys *)
Fixpoint tree_wf (c : chart) : Prop :=
  match c with
  | Chart _ _ vals _ deps _ _ _ =>
      wfm vals /\
      (fix go (ds : list chart) : Prop :=
         match ds with
         | [] => True
         | d :: t => tree_wf d /\ go t
         end) deps
  end.

(* a value that is neither a table nor null *)
Definition plain_val (x : val) : Prop := is_table x = false /\ is_null x = false.

Fixpoint has_path_b (c : chart) (q : list string) {struct q} : bool :=
  match q with
  | [] => true
  | n :: q' => existsb (fun d => String.eqb (cname d) n && has_path_b d q') (cdeps c)
  end.

(* Proofs about Values/ScopeTree.v, part 2: the enablement decision of the whole
   processDependencyEnabled pipeline (tags, then conditions, recursion with the parent's
   effective values, aliases) as ONE statement over the tree: a chain of subcharts exists in the
   processed tree iff every dependency on it is enabled by the rule of the property text, and
   templates / CRDs come exactly from the charts on such chains. *)
From Coq Require Import List String Ascii Bool ZArith.
From Helm Require Import Values.Tree Values.Schema Values.Scope Values.Deps Values.ScopeProofs
  Values.DepsProofs Values.ScopeTree Values.ScopeTreeProofs.
Import ListNotations.
Local Open Scope string_scope.

(* ---------- the name of a chart does not matter to its own processing ---------- *)

Lemma coalesce_set_name : forall merge c a dest, coalesce merge (set_name c a) dest = coalesce merge c dest.
Proof. intros. rewrite !coalesce_unfold. destruct c; reflexivity. Qed.

Lemma kids_of_set_name : forall compat c a, kids_of compat (set_name c a) = kids_of compat c.
Proof. intros. destruct c; reflexivity. Qed.

Lemma offered_set_name : forall compat c a, offered compat (set_name c a) = offered compat c.
Proof. intros. destruct c; reflexivity. Qed.

Lemma coalesce_set_deps_name : forall c a ks v,
  CoalesceValues (set_deps (set_name c a) ks) v = CoalesceValues (set_deps c ks) v.
Proof. intros. unfold CoalesceValues. rewrite !coalesce_unfold. destruct c; reflexivity. Qed.

Lemma pde_set_name : forall compat c a v path,
  pde compat (set_name c a) v path =
  match pde compat c v path with Ok c' => Ok (set_name c' a) | Err e => Err e end.
Proof.
  intros compat c a v path. rewrite !pde_unfold. rewrite kids_of_set_name. unfold pde_level.
  assert (Hb : pde_body compat (set_name c a) (kids_of compat c) v path =
               match pde_body compat c (kids_of compat c) v path with Ok c' => Ok (set_name c' a) | Err e => Err e end).
  { unfold pde_body.
    replace (mdeps_list (set_name c a)) with (mdeps_list c) by (destruct c; reflexivity).
    rewrite coalesce_set_deps_name.
    destruct (CoalesceValues _ v) as [cvals|]; [|reflexivity].
    destruct (process_kept _ _ _) as [cd0|]; [|reflexivity]. destruct c; reflexivity. }
  replace (cmdeps (set_name c a)) with (cmdeps c) by (destruct c; reflexivity).
  destruct (cmdeps c); [exact Hb|]. destruct (kids_of compat c); [reflexivity|exact Hb].
Qed.

Lemma has_path_set_name : forall c a q, has_path (set_name c a) q <-> has_path c q.
Proof. intros. destruct c, q; reflexivity. Qed.

Lemma enabled_path_set_name : forall compat c a v path q,
  enabled_path compat (set_name c a) v path q <-> enabled_path compat c v path q.
Proof.
  intros compat c a v path [|n q]; [reflexivity|]. cbn [enabled_path].
  rewrite offered_set_name.
  replace (mdeps_list (set_name c a)) with (mdeps_list c) by (destruct c; reflexivity).
  split; intros (cvals & d & Hc & H); exists cvals, d; (split; [|exact H]).
  - now rewrite coalesce_set_deps_name in Hc.
  - now rewrite coalesce_set_deps_name.
Qed.

(* ---------- helpers ---------- *)

Lemma Forall2_in_r : forall {A B} (R : A -> B -> Prop) l1 l2 y,
  Forall2 R l1 l2 -> In y l2 -> exists x, In x l1 /\ R x y.
Proof.
  intros A B R l1 l2 y H. induction H as [|a b t1 t2 Hab _ IH]; simpl; [contradiction|].
  intros [<-|Hin]; [exists a; auto|]. destruct (IH Hin) as (x & Hx & Hr). exists x. auto.
Qed.

Lemma Forall2_in_l : forall {A B} (R : A -> B -> Prop) l1 l2 x,
  Forall2 R l1 l2 -> In x l1 -> exists y, In y l2 /\ R x y.
Proof.
  intros A B R l1 l2 x H. induction H as [|a b t1 t2 Hab _ IH]; simpl; [contradiction|].
  intros [<-|Hin]; [exists b; auto|]. destruct (IH Hin) as (y & Hy & Hr). exists y. auto.
Qed.

Lemma keep_name_intro : forall cvals path reqs n,
  (forall r, In r reqs -> dname r = n -> enabled_spec cvals path r = true) ->
  keep_name cvals path reqs n = true.
Proof.
  intros cvals path reqs n H. unfold keep_name. apply forallb_forall. intros r Hin.
  destruct (String.eqb (dname r) n) eqn:E; [|reflexivity].
  apply String.eqb_eq in E. simpl. now apply H.
Qed.

Lemma cname_set_name : forall c a, cname (set_name c a) = a.
Proof. intros. destruct c; reflexivity. Qed.

(* ---------- the tree-level statement ---------- *)

(* processDependencyEnabled on a whole tree: a chain of subcharts q is left in the result iff
   every dependency on it is enabled by the rule, each evaluated in its parent's effective values *)
Theorem enabled_tree : forall compat q c v path c',
  pde compat c v path = Ok c' -> (has_path c' q <-> enabled_path compat c v path q).
Proof.
  intros compat q. induction q as [|n q IH]; intros c v path c' H; [reflexivity|].
  destruct (enabled_recursive compat c v path c' H) as (cvals & Hc & HF).
  set (reqs := resolved_reqs (mdeps_list c)) in *.
  set (ks := resolved_kids compat (kids_of compat c) (mdeps_list c)) in *.
  cbn [has_path enabled_path]. unfold offered. fold ks reqs. split.
  - intros (d' & Hd' & Hn & Hp).
    destruct (Forall2_in_r _ _ _ _ HF Hd') as (ek & Hek & t'' & Ht & Hset).
    apply filter_In in Hek as [Hek Hkeep].
    destruct (kids_of_origin compat c _ ek Hek) as (d0 & Hd0 & Hsnd & Hfst).
    assert (Hname : cname (fst ek) = n) by (rewrite <- Hn, Hset; now rewrite cname_set_name).
    exists cvals, (fst ek). split; [exact Hc|]. split; [now apply in_map|]. split; [exact Hname|]. split.
    + intros r Hr Hrn. apply (keep_name_true cvals path reqs n); try assumption. now rewrite <- Hname.
    + rewrite Hsnd, Hname in Ht. rewrite Hset in Hp. apply has_path_set_name in Hp.
      apply (IH d0 cvals _ t'' Ht) in Hp.
      destruct Hfst as [->|[a ->]]; [exact Hp|]. now apply enabled_path_set_name.
  - intros (cvals0 & d & Hc0 & Hd & Hn & Hreq & Hp).
    rewrite Hc in Hc0. injection Hc0 as <-.
    apply in_map_iff in Hd as (ek & <- & Hek).
    assert (Hkeep : keep_name cvals path reqs (cname (fst ek)) = true) by (rewrite Hn; now apply keep_name_intro).
    assert (Hf : In ek (filter (fun ek => keep_name cvals path reqs (cname (fst ek))) ks))
      by (apply filter_In; auto).
    destruct (Forall2_in_l _ _ _ _ HF Hf) as (t' & Ht' & t'' & Ht & Hset).
    destruct (kids_of_origin compat c _ ek Hek) as (d0 & Hd0 & Hsnd & Hfst).
    exists t'. split; [exact Ht'|]. split; [rewrite Hset, cname_set_name; exact Hn|].
    rewrite Hset. apply has_path_set_name. rewrite Hsnd, Hn in Ht.
    apply (IH d0 cvals _ t'' Ht).
    destruct Hfst as [E|[a E]]; rewrite E in Hp; [exact Hp|]. now apply enabled_path_set_name in Hp.
Qed.

(* ---------- import-values processing keeps the set of chains ---------- *)

Lemma pdiv_list_forall2 : forall ds ds', pdiv_list ds = Ok ds' -> Forall2 (fun d d' => pdiv d = Ok d') ds ds'.
Proof.
  induction ds as [|d t IH]; simpl; intros ds' H; [injection H as <-; constructor|].
  destruct (pdiv d) as [d'|] eqn:Ed; [|discriminate].
  destruct (pdiv_list t) as [l|]; [|discriminate]. injection H as <-. constructor; auto.
Qed.

Lemma pdiv_deps : forall c c', pdiv c = Ok c' ->
  cname c' = cname c /\ Forall2 (fun d d' => pdiv d = Ok d') (cdeps c) (cdeps c').
Proof.
  intros c c' H. rewrite pdiv_unfold in H.
  destruct (pdiv_list (cdeps c)) as [deps'|] eqn:El; [|discriminate].
  destruct (piv_keeps _ _ H) as (Hn & Hd & _). split.
  - rewrite Hn. destruct c; reflexivity.
  - rewrite Hd. replace (cdeps (set_deps c deps')) with deps' by (destruct c; reflexivity).
    now apply pdiv_list_forall2.
Qed.

Lemma pdiv_has_path : forall q c c', pdiv c = Ok c' -> (has_path c' q <-> has_path c q).
Proof.
  induction q as [|n q IH]; intros c c' H; [reflexivity|].
  destruct (pdiv_deps _ _ H) as [_ HF]. cbn [has_path]. split.
  - intros (d' & Hd' & Hn & Hp). destruct (Forall2_in_r _ _ _ _ HF Hd') as (d & Hd & Hpd).
    exists d. split; [exact Hd|]. destruct (pdiv_deps _ _ Hpd) as [Hname _].
    split; [congruence|]. now apply (IH d d' Hpd).
  - intros (d & Hd & Hn & Hp). destruct (Forall2_in_l _ _ _ _ HF Hd) as (d' & Hd' & Hpd).
    exists d'. split; [exact Hd'|]. destruct (pdiv_deps _ _ Hpd) as [Hname _].
    split; [congruence|]. now apply (IH d d' Hpd).
Qed.

(* ProcessDependencies as a whole *)
Theorem process_dependencies_tree : forall compat c v c'',
  process_dependencies compat c v = Ok c'' ->
  forall q, has_path c'' q <-> enabled_path compat c v "" q.
Proof.
  intros compat c v c'' H q. unfold process_dependencies in H.
  destruct (pde compat c v "") as [c'|] eqn:E; [|discriminate].
  rewrite (pdiv_has_path q c' c'' H). now apply enabled_tree.
Qed.

(* ---------- what a tree contributes comes exactly from the charts on its chains ---------- *)

Inductive chain : chart -> list string -> chart -> Prop :=
| chain_here : forall c, chain c [] c
| chain_step : forall c d q e, In d (cdeps c) -> chain d q e -> chain c (cname d :: q) e.

Lemma chain_has_path : forall c q e, chain c q e -> has_path c q.
Proof. induction 1 as [|c d q e Hin _ IH]; simpl; [exact I|]. exists d. auto. Qed.

Lemma has_path_chain : forall q c, has_path c q -> exists e, chain c q e.
Proof.
  induction q as [|n q IH]; intros c H; [exists c; constructor|].
  destruct H as (d & Hd & <- & Hp). destruct (IH d Hp) as (e & He). exists e. now constructor.
Qed.

Lemma crd_objects_unfold : forall c root pp,
  crd_objects c root pp =
  List.app (map (fun f => (f, chart_full_path root pp (cname c) ++ "/" ++ f)) (ccrds c))
           (flat_map (fun d => crd_objects d false (chart_full_path root pp (cname c))) (cdeps c)).
Proof. intros [n ver vals sch deps md tpls crds] root pp. reflexivity. Qed.

Lemma crds_by_chain : forall c root pp o,
  In o (crd_objects c root pp) <->
  exists q e f, chain c q e /\ In f (ccrds e)
                /\ o = (f, dir_of (chart_full_path root pp (cname c)) q ++ "/" ++ f).
Proof.
  intros c root pp o. split.
  - revert root pp. induction c as [n ver vals sch deps md tpls crds IH] using chart_ind2.
    intros root pp Hin. rewrite crd_objects_unfold in Hin. cbn [cdeps ccrds cname] in *.
    apply in_app_or in Hin as [Hin|Hin].
    + apply in_map_iff in Hin as (f & <- & Hf).
      exists [], (Chart n ver vals sch deps md tpls crds), f. repeat split; [constructor|exact Hf].
    + apply in_flat_map in Hin as (d & Hd & Hin). rewrite Forall_forall in IH.
      destruct (IH d Hd _ _ Hin) as (q & e & f & Hch & Hf & Ho).
      exists (cname d :: q), e, f. repeat split; [now constructor|exact Hf|exact Ho].
  - intros (q & e & f & Hch & Hf & ->). revert root pp.
    induction Hch as [c|c d q e Hin _ IH]; intros root pp; rewrite crd_objects_unfold; apply in_or_app.
    + left. apply in_map_iff. exists f. auto.
    + right. apply in_flat_map. exists d. split; [exact Hin|]. apply (IH Hf false).
Qed.

Lemma templates_by_chain : forall c root pp pv path,
  (exists y, In (path, y) (rec_all_tpls c root pp pv)) <->
  exists q e t, chain c q e /\ In t (ctemplates e)
                /\ path = dir_of (chart_full_path root pp (cname c)) q ++ "/" ++ t.
Proof.
  intros c root pp pv path. split.
  - intros (y & Hin). revert root pp pv Hin.
    induction c as [n ver vals sch deps md tpls crds IH] using chart_ind2.
    intros root pp pv Hin. rewrite rec_all_tpls_unfold in Hin. cbn [cdeps ctemplates cname] in *.
    apply in_app_or in Hin as [Hin|Hin].
    + apply in_flat_map in Hin as (d & Hd & Hin). rewrite Forall_forall in IH.
      destruct (IH d Hd _ _ _ Hin) as (q & e & t & Hch & Ht & Hp).
      exists (cname d :: q), e, t. repeat split; [now constructor|exact Ht|exact Hp].
    + apply in_map_iff in Hin as (t & E & Ht). injection E as <- _.
      exists [], (Chart n ver vals sch deps md tpls crds), t. repeat split; [constructor|exact Ht].
  - intros (q & e & t & Hch & Ht & ->). revert root pp pv.
    induction Hch as [c|c d q e Hin _ IH]; intros root pp pv; rewrite rec_all_tpls_unfold.
    + eexists. apply in_or_app. right. apply in_map_iff. exists t. split; [reflexivity|exact Ht].
    + destruct (IH Ht false (chart_full_path root pp (cname c)) (scoped_values root (cname c) pv)) as (y & Hy).
      exists y. apply in_or_app. left. apply in_flat_map. exists d. auto.
Qed.

(* the end-to-end statement: after ProcessDependencies a template path is rendered / a CRD file is
   sent iff it belongs to a chart at the end of a chain on which every dependency is enabled *)
Theorem contributes_iff_enabled : forall compat c v c'',
  process_dependencies compat c v = Ok c'' ->
  (forall vals path,
     (exists y, In (path, y) (rec_all_tpls c'' true "" vals)) <->
     exists q e t, enabled_path compat c v "" q /\ chain c'' q e /\ In t (ctemplates e)
                   /\ path = dir_of (cname c'') q ++ "/" ++ t)
  /\ (forall o,
     In o (crd_objects c'' true "") <->
     exists q e f, enabled_path compat c v "" q /\ chain c'' q e /\ In f (ccrds e)
                   /\ o = (f, dir_of (cname c'') q ++ "/" ++ f)).
Proof.
  intros compat c v c'' H. pose proof (process_dependencies_tree compat c v c'' H) as Htree. split.
  - intros vals path. rewrite templates_by_chain. cbn [chart_full_path]. split.
    + intros (q & e & t & Hch & Ht & Hp). exists q, e, t. repeat split; try assumption.
      apply Htree. eapply chain_has_path; eauto.
    + intros (q & e & t & _ & Hch & Ht & Hp). exists q, e, t. auto.
  - intros o. rewrite crds_by_chain. cbn [chart_full_path]. split.
    + intros (q & e & f & Hch & Hf & Ho). exists q, e, f. repeat split; try assumption.
      apply Htree. eapply chain_has_path; eauto.
    + intros (q & e & f & _ & Hch & Hf & Ho). exists q, e, f. auto.
Qed.

Lemma has_path_b_spec : forall q c, has_path_b c q = true <-> has_path c q.
Proof.
  induction q as [|n q IH]; intros c.
  { split; [intros _; exact I|intros _; reflexivity]. }
  change (has_path_b c (n :: q)) with (existsb (fun d => String.eqb (cname d) n && has_path_b d q) (cdeps c)).
  cbn [has_path]. rewrite existsb_exists. split.
  - intros (d & Hd & E). apply andb_prop in E as [E1 E2]. apply String.eqb_eq in E1. apply IH in E2. eauto.
  - intros (d & Hd & Hn & Hp). exists d. split; [exact Hd|]. apply andb_true_intro.
    split; [now apply String.eqb_eq|now apply IH].
Qed.

(* the rule decided by running the model: [enabled_path] is decidable through the theorem *)
Lemma enabled_path_decide : forall compat c v q,
  match process_dependencies compat c v with
  | Ok c' => if has_path_b c' q then enabled_path compat c v "" q else ~ enabled_path compat c v "" q
  | Err _ => True
  end.
Proof.
  intros compat c v q. destruct (process_dependencies compat c v) as [c'|] eqn:E; [|exact I].
  pose proof (process_dependencies_tree compat c v c' E q) as Ht.
  destruct (has_path_b c' q) eqn:Eb.
  - apply Ht. now apply has_path_b_spec.
  - intros H. apply Ht in H. apply has_path_b_spec in H. congruence.
Qed.

(* non-vacuity: depth three, aliases at two levels, a condition resolved by the alias-level
   chart's own defaults, one chain disabled at its second link *)
Definition ex_leaf := Chart "leaf" "1.0.0" [("z", VNum 1)] None [] None ["templates/p.yaml"] [].
Definition ex_gca := Chart "gca" "1.0.0" [("l1", VMap [("on", VBool true)])] None [ex_leaf]
                       (Some [mkDep "leaf" "*" "l1.on" [] "l1" false []]) ["templates/p.yaml"] [].
Definition ex_suba := Chart "suba" "1.0.0" [] None [ex_gca]
                        (Some [mkDep "gca" "*" "g1.enabled" ["t1"] "g1" false []]) ["templates/p.yaml"] [].
Definition ex_top := Chart "top" "1.0.0" [] None [ex_suba]
                       (Some [mkDep "suba" "*" "" [] "a1" false []; mkDep "suba" "*" "" [] "a2" false []]) [] [].
Definition ex_user : vmap :=
  [("a2", VMap [("g1", VMap [("enabled", VBool false)])]); ("tags", VMap [("t1", VBool true)])].

Lemma enabled_tree_example :
  enabled_path (fun _ _ => true) ex_top ex_user "" ["a1"; "g1"; "l1"]
  /\ enabled_path (fun _ _ => true) ex_top ex_user "" ["a2"]
  /\ ~ enabled_path (fun _ _ => true) ex_top ex_user "" ["a2"; "g1"].
Proof.
  split; [|split].
  - exact (enabled_path_decide (fun _ _ => true) ex_top ex_user ["a1"; "g1"; "l1"]).
  - exact (enabled_path_decide (fun _ _ => true) ex_top ex_user ["a2"]).
  - exact (enabled_path_decide (fun _ _ => true) ex_top ex_user ["a2"; "g1"]).
Qed.

(* Chart trees, value coalescing over a chart tree, and the per-chart scope of .Values.

   Go code modelled (as it is, including quirks):
     pkg/chart/v2/util/coalesce.go   coalesceTablesFullKey, coalesceValues, coalesceGlobals
                                     (after fix 479cd05: global tables are deep-copied),
                                     coalesceDeps, coalesce, CoalesceValues / MergeValues
     pkg/chart/v2/util/values.go     parsePath, Table/tableLookup, PathValue/pathValue
     pkg/engine/engine.go            recAllTpls (which slice of the values each chart sees,
                                     which template paths are rendered)
   The models are value-semantic; Go's in-place mutation of shared maps shows up (when it
   matters) as a correspondence mismatch.  This file carries its own coalesce model
   (independent of Values/Coalesce.v of C04). *)
From Coq Require Import List String Ascii Bool ZArith.
From Helm Require Import Values.Tree Values.Schema.
Import ListNotations.
Local Open Scope string_scope.

(* ---------- strings ---------- *)

(* strings.Split(s, sep) for a one-byte separator: always at least one segment *)
Fixpoint split_on (sep : ascii) (s : string) : list string :=
  match s with
  | EmptyString => [EmptyString]
  | String c t =>
      if Ascii.eqb c sep then EmptyString :: split_on sep t
      else match split_on sep t with
           | h :: r => String c h :: r
           | [] => [String c EmptyString]          (* unreachable: split_on is never [] *)
           end
  end.

Definition split_dot := split_on ".".       (* parsePath *)
Definition split_comma := split_on ",".

(* strings.TrimSpace restricted to the ASCII white space set *)
Definition is_space (c : ascii) : bool :=
  let n := nat_of_ascii c in
  Nat.eqb n 32 || Nat.eqb n 9 || Nat.eqb n 10 || Nat.eqb n 11 || Nat.eqb n 12 || Nat.eqb n 13.

Fixpoint trim_left (s : string) : string :=
  match s with
  | String c t => if is_space c then trim_left t else s
  | EmptyString => EmptyString
  end.

Fixpoint all_space (s : string) : bool :=
  match s with EmptyString => true | String c t => is_space c && all_space t end.

Fixpoint trim_right (s : string) : string :=
  match s with
  | EmptyString => EmptyString
  | String c t => if all_space s then EmptyString else String c (trim_right t)
  end.

Definition trim_space (s : string) : string := trim_right (trim_left s).

(* ---------- results ---------- *)

Inductive err :=
| ETypeMismatch (name : string)   (* coalesceDeps: "type mismatch on <name>" *)
| EImportValues (name : string).  (* processImportValues: non-string child/parent *)

Inductive res (A : Type) := Ok (a : A) | Err (e : err).
Arguments Ok {A} a.
Arguments Err {A} e.

Definition bind {A B} (r : res A) (f : A -> res B) : res B :=
  match r with Ok a => f a | Err e => Err e end.

(* ---------- charts ---------- *)

Inductive import :=
| IStr (s : string)                 (* import-values: [name]        -> exports.<name> *)
| IMap (child parent : string)      (* import-values: [{child,parent}] *)
| IBad                              (* a map whose child/parent is not a string: error *)
| IOther.                           (* any other YAML node: ignored *)

Record dependency := mkDep {
  dname : string; dversion : string; dcond : string; dtags : list string;
  dalias : string; denabled : bool; dimports : list import }.

Inductive chart := Chart {
  cname : string;
  cversion : string;
  cvalues : vmap;
  cschema : option schema;
  cdeps : list chart;                       (* chart.Dependencies() *)
  cmdeps : option (list dependency);        (* Metadata.Dependencies; None = nil slice *)
  ctemplates : list string;                 (* names, e.g. templates/probe.yaml *)
  ccrds : list string }.                    (* names of the manifest files under crds/, e.g. crds/x.yaml *)

Definition set_name (c : chart) (n : string) : chart :=
  Chart n (cversion c) (cvalues c) (cschema c) (cdeps c) (cmdeps c) (ctemplates c) (ccrds c).
Definition set_deps (c : chart) (ds : list chart) : chart :=
  Chart (cname c) (cversion c) (cvalues c) (cschema c) ds (cmdeps c) (ctemplates c) (ccrds c).
Definition set_mdeps (c : chart) (m : option (list dependency)) : chart :=
  Chart (cname c) (cversion c) (cvalues c) (cschema c) (cdeps c) m (ctemplates c) (ccrds c).
Definition set_values (c : chart) (v : vmap) : chart :=
  Chart (cname c) (cversion c) v (cschema c) (cdeps c) (cmdeps c) (ctemplates c) (ccrds c).

Definition is_null (v : val) : bool := match v with VNull => true | _ => false end.

(* ---------- coalesceTablesFullKey(dst, src, merge): dst is authoritative ---------- *)

Fixpoint ctv (merge : bool) (src : val) {struct src} : vmap -> vmap :=
  match src with
  | VMap sm =>
      (fix go (sm : list (string * val)) (dst : vmap) {struct sm} : vmap :=
         match sm with
         | [] => dst
         | (k, sv) :: t =>
             go t
               match mget k dst with
               | None => mset k sv dst
               | Some dv =>
                   if negb merge && is_null dv then mdel k dst
                   else match sv, dv with
                        | VMap _, VMap dm => mset k (VMap (ctv merge sv dm)) dst
                        | _, _ => dst       (* warnings only: dst wins *)
                        end
               end
         end) sm
  | _ => fun dst => dst
  end.

Definition coalesce_tables (dst src : vmap) : vmap := ctv false (VMap src) dst.   (* CoalesceTables *)
Definition merge_tables (dst src : vmap) : vmap := ctv true (VMap src) dst.       (* MergeTables *)

(* ---------- coalesceValues(c, v, merge): chart defaults under the given values ---------- *)

Definition coalesce_values (merge : bool) (kids : list string) (defaults v : vmap) : vmap :=
  fold_left
    (fun v kv =>
       let '(key, dval) := kv in
       match mget key v with
       | Some value =>
           if is_null value && negb merge then mdel key v
           else match value, dval with
                | VMap dest, VMap _ =>
                    mset key (VMap (ctv (merge || existsb (String.eqb key) kids) dval dest)) v
                | _, _ => v
                end
       | None => mset key dval v
       end)
    defaults v.

(* ---------- coalesceGlobals(dest, src): parent's globals pushed into the child's table ---------- *)

Definition global_key := "global".

Definition glob_of (m : vmap) : option vmap :=
  match mget global_key m with
  | None => Some []
  | Some (VMap g) => Some g
  | Some _ => None                 (* "skipping globals because ... is not a table" *)
  end.

Definition coalesce_globals (dest src : vmap) : vmap :=
  match glob_of dest with
  | None => dest
  | Some dg =>
      match glob_of src with
      | None => dest
      | Some sg =>
          let dg' :=
            fold_left
              (fun dg kv =>
                 let '(key, sval) := kv in
                 match sval with
                 | VMap vv =>
                     match mget key dg with
                     | None => mset key sval dg
                     | Some (VMap destvmap) => mset key (VMap (ctv true (VMap destvmap) vv)) dg
                     | Some _ => dg                                  (* "Conflict ... Skipping" *)
                     end
                 | _ =>
                     match mget key dg with
                     | Some (VMap _) => dg                           (* "key is table. Skipping" *)
                     | _ => mset key sval dg
                     end
                 end)
              sg dg in
          mset global_key (VMap dg') dest
      end
  end.

(* ---------- coalesce / coalesceDeps over the chart tree ---------- *)

Fixpoint coalesce (merge : bool) (c : chart) (dest : vmap) {struct c} : res vmap :=
  match c with
  | Chart _ _ defaults _ deps _ _ _ =>
      (fix go (ds : list chart) (dest : vmap) {struct ds} : res vmap :=
         match ds with
         | [] => Ok dest
         | d :: t =>
             let n := cname d in
             match match mget n dest with
                   | None => Some []
                   | Some (VMap dv) => Some dv
                   | Some _ => None
                   end with
             | None => Err (ETypeMismatch n)
             | Some dv =>
                 match coalesce merge d (coalesce_globals dv dest) with
                 | Ok r => go t (mset n (VMap r) dest)
                 | Err e => Err e
                 end
             end
         end) deps (coalesce_values merge (map cname deps) defaults dest)
  end.

Definition CoalesceValues (c : chart) (vals : vmap) : res vmap := coalesce false c vals.
Definition MergeValues (c : chart) (vals : vmap) : res vmap := coalesce true c vals.

(* ---------- Table / PathValue ---------- *)

(* Values.Table(name) with name already split: every segment must name a table *)
Fixpoint table_at (p : list string) (m : vmap) : option vmap :=
  match p with
  | [] => Some m
  | k :: p' => match mget k m with
               | Some (VMap m') => table_at p' m'
               | _ => None
               end
  end.

(* Values.PathValue(path): Some x = value found; None = ErrNoValue or the empty-path error *)
Definition path_value (m : vmap) (path : string) : option val :=
  match path with
  | EmptyString => None
  | _ =>
      match rev (split_dot path) with
      | [] => None
      | key :: rinit =>
          match table_at (rev rinit) m with
          | Some t => match mget key t with
                      | Some x => if is_table x then None else Some x
                      | None => None
                      end
          | None => None
          end
      end
  end.

(* ---------- recAllTpls: rendered template paths with the .Values each one sees ---------- *)

(* vals.Table("Values." + c.Name()): the chart name is split at dots like any path *)
Definition scoped_values (root : bool) (name : string) (pvals : vmap) : vmap :=
  if root then pvals
  else match table_at (split_dot name) pvals with Some t => t | None => [] end.

Definition chart_full_path (root : bool) (ppath name : string) : string :=
  if root then name else ppath ++ "/charts/" ++ name.

Fixpoint rec_all_tpls (c : chart) (root : bool) (ppath : string) (pvals : vmap) {struct c}
  : list (string * val) :=
  match c with
  | Chart name _ _ _ deps _ tpls _ =>
      let vals := scoped_values root name pvals in
      let full := chart_full_path root ppath name in
      List.app
        ((fix go (ds : list chart) : list (string * val) :=
            match ds with
            | [] => []
            | d :: t => List.app (rec_all_tpls d false full vals) (go t)
            end) deps)
        (map (fun t => (full ++ "/" ++ t, VMap vals)) tpls)
  end.

(* engine.Render stores renderables in a map keyed by path: a later entry replaces an earlier one *)
Fixpoint last_wins (l : list (string * val)) : list (string * val) :=
  match l with
  | [] => []
  | (k, v) :: t => if existsb (fun kv => String.eqb (fst kv) k) t then last_wins t
                   else (k, v) :: last_wins t
  end.

(* Chart.CRDObjects(): (File.Name, Filename = ChartFullPath/File.Name) of the chart's own crds/
   files, then those of every chart in its dependency list, in order *)
Fixpoint crd_objects (c : chart) (root : bool) (ppath : string) {struct c} : list (string * string) :=
  match c with
  | Chart name _ _ _ deps _ _ crds =>
      let full := chart_full_path root ppath name in
      List.app
        (map (fun f => (f, full ++ "/" ++ f)) crds)
        ((fix go (ds : list chart) : list (string * string) :=
            match ds with
            | [] => []
            | d :: t => List.app (crd_objects d false full) (go t)
            end) deps)
  end.

Definition all_templates (c : chart) (values : vmap) : list (string * val) :=
  last_wins (rec_all_tpls c true "" values).

(* The JSON-schema family used by C14 and its executable evaluator.

   Helm hands the chart's values.schema.json to santhosh-tekuri/jsonschema
   (pkg/chart/v2/util/jsonschema.go:ValidateAgainstSingleSchema).  The library is not
   modelled; [valid] is an independent evaluator for the keyword family the generator
   draws from (type, required, enum, minimum/maximum, properties, additionalProperties:false,
   items), differentially tested against the real library on every (schema, value) pair the
   correspondence run uses.  [SInvalid] stands for schema bytes that do not parse or compile:
   ValidateAgainstSingleSchema returns an error for every value.

   Round 4: [SDoc d] is a schema given by its JSON document d, evaluated by the model of the
   library in Values/Schema2.v (dialect from "$schema" - Helm's default is 2020-12 -, the
   metaschema check, and the keywords listed there); [SNode] stays as the small typed family. *)
From Coq Require Import List String Bool ZArith.
From Helm Require Import Values.Tree Values.Schema2.
Import ListNotations.

Inductive jtype := TObject | TArray | TString | TInteger | TNumber | TBoolean | TNull.

Inductive schema :=
| SInvalid
| SNode (ty : option jtype)
        (required : list string)
        (enum : option (list val))
        (minimum maximum : option Z)
        (props : list (string * schema))
        (additional : bool)              (* false = "additionalProperties": false *)
        (items : option schema)
| SDoc (doc : val).                      (* the parsed values.schema.json *)

Definition SAny : schema := SNode None [] None None None [] true None.

Definition type_ok (t : jtype) (v : val) : bool :=
  match t, v with
  | TObject, VMap _ => true
  | TArray, VList _ => true
  | TString, VStr _ => true
  | TInteger, VNum _ => true
  | TNumber, VNum _ => true
  | TNumber, VFlt _ => true
  | TBoolean, VBool _ => true
  | TNull, VNull => true
  | _, _ => false
  end.

Definition opt_all {A} (o : option A) (f : A -> bool) : bool :=
  match o with None => true | Some a => f a end.

Fixpoint valid (s : schema) (v : val) {struct s} : bool :=
  match s with
  | SInvalid => false
  | SDoc d => match doc_verdict d v with VOk => true | _ => false end
  | SNode ty required enum minimum maximum props additional items =>
      opt_all ty (fun t => type_ok t v)
      && opt_all enum (fun vs => existsb (fun e => val_equiv_b e v) vs)
      && match v with
         | VNum n => opt_all minimum (fun lo => Z.leb lo n) && opt_all maximum (fun hi => Z.leb n hi)
         | _ => true
         end
      && match v with
         | VMap m =>
             forallb (fun k => mhas k m) required
             && (fix go (ps : list (string * schema)) : bool :=
                   match ps with
                   | [] => true
                   | (k, sk) :: t =>
                       match mget k m with
                       | Some x => valid sk x
                       | None => true
                       end && go t
                   end) props
             && (additional
                 || forallb (fun kv => existsb (fun p => String.eqb (fst p) (fst kv)) props) m)
         | _ => true
         end
      && match v, items with
         | VList l, Some si => forallb (valid si) l
         | _, _ => true
         end
  end.

(* Proofs about Values/ScopeTree.v, part 1: the .Values of the chart at ANY path of the tree
   (composition of coalesce at every level with the scoping of recAllTpls), in closed form, and
   what it depends on. *)
From Coq Require Import List String Ascii Bool ZArith.
From Helm Require Import Values.Tree Values.Schema Values.Scope Values.Deps Values.ScopeProofs
  Values.DepsProofs Values.ScopeTree.
Import ListNotations.
Local Open Scope string_scope.

(* ---------- finding a subchart by name ---------- *)

Lemma find_dep_in : forall n ds d, find_dep n ds = Some d -> In d ds /\ cname d = n.
Proof.
  induction ds as [|e t IH]; simpl; intros d H; [discriminate|].
  destruct (String.eqb (cname e) n) eqn:E.
  - injection H as <-. apply String.eqb_eq in E. auto.
  - destruct (IH d H). auto.
Qed.

Lemma find_dep_nodup : forall ds d, NoDup (map cname ds) -> In d ds -> find_dep (cname d) ds = Some d.
Proof.
  induction ds as [|e t IH]; simpl; intros d Hnd Hin; [contradiction|].
  inversion Hnd as [|? ? Hn Hnd']; subst.
  destruct Hin as [->|Hin]; [now rewrite String.eqb_refl|].
  destruct (String.eqb (cname e) (cname d)) eqn:E.
  - apply String.eqb_eq in E. exfalso. apply Hn. rewrite E. now apply in_map.
  - now apply IH.
Qed.

Lemma find_dep_existsb : forall n ds d, find_dep n ds = Some d -> existsb (String.eqb n) (map cname ds) = true.
Proof.
  intros n ds d H. apply find_dep_in in H as [Hin Hn]. apply existsb_exists. exists (cname d).
  split; [now apply in_map|]. rewrite Hn. apply String.eqb_refl.
Qed.

Lemma notin_existsb : forall k (l : list string), ~ In k l -> existsb (String.eqb k) l = false.
Proof.
  intros k l H. apply not_true_is_false. intros E. apply existsb_exists in E as (x & Hx & Ex).
  apply String.eqb_eq in Ex. subst x. contradiction.
Qed.

Lemma section_at_of : forall n dest, section_at n dest = section_of n dest.
Proof. reflexivity. Qed.

(* ---------- recAllTpls along a path ---------- *)

Lemma rec_all_tpls_unfold : forall c root pp pv,
  rec_all_tpls c root pp pv =
  List.app
    (flat_map (fun d => rec_all_tpls d false (chart_full_path root pp (cname c))
                                     (scoped_values root (cname c) pv)) (cdeps c))
    (map (fun t => (chart_full_path root pp (cname c) ++ "/" ++ t, VMap (scoped_values root (cname c) pv)))
         (ctemplates c)).
Proof.
  intros [n ver vals sch deps md tpls crds] root pp pv. reflexivity.
Qed.

(* the chart at path p is rendered with exactly the values [path_at] computes *)
Lemma rendered_at : forall p c root pp pv d x t,
  path_at c (scoped_values root (cname c) pv) p = Some (d, x) -> In t (ctemplates d) ->
  In (dir_of (chart_full_path root pp (cname c)) p ++ "/" ++ t, VMap x) (rec_all_tpls c root pp pv).
Proof.
  induction p as [|n p IH]; intros c root pp pv d x t H Ht; rewrite rec_all_tpls_unfold; simpl in H.
  - injection H as <- <-. apply in_or_app. right. simpl. apply in_map_iff. exists t. auto.
  - destruct (find_dep n (cdeps c)) as [e|] eqn:Ef; [|discriminate].
    apply find_dep_in in Ef as [Hin Hn]. apply in_or_app. left. apply in_flat_map. exists e.
    split; [exact Hin|]. simpl dir_of. rewrite <- Hn.
    apply (IH e false (chart_full_path root pp (cname c)) (scoped_values root (cname c) pv) d x t); assumption.
Qed.

(* and nothing else is rendered: every entry belongs to a chart reachable by names *)
Lemma rendered_on_path : forall c root pp pv path y,
  In (path, y) (rec_all_tpls c root pp pv) ->
  exists q e x t, on_path c (scoped_values root (cname c) pv) q e x /\ In t (ctemplates e)
                  /\ path = dir_of (chart_full_path root pp (cname c)) q ++ "/" ++ t /\ y = VMap x.
Proof.
  intros c. induction c as [n ver vals sch deps md tpls crds IH] using chart_ind2.
  intros root pp pv path y Hin. rewrite rec_all_tpls_unfold in Hin. cbn [cdeps ctemplates cname] in *.
  apply in_app_or in Hin as [Hin|Hin].
  - apply in_flat_map in Hin as (d & Hd & Hin). rewrite Forall_forall in IH.
    destruct (IH d Hd _ _ _ _ _ Hin) as (q & e & x & t & Hop & Ht & Hp & Hy).
    exists (cname d :: q), e, x, t. repeat split; try assumption.
    apply on_step; assumption.
  - apply in_map_iff in Hin as (t & E & Ht). injection E as <- <-.
    exists [], (Chart n ver vals sch deps md tpls crds), (scoped_values root n pv), t.
    repeat split; try assumption. constructor.
Qed.

Lemma on_path_at : forall c v q e x, on_path c v q e x -> path_ok q c -> path_at c v q = Some (e, x).
Proof.
  induction 1 as [c v|c v d q e x Hin Hop IH]; intros Hok; [reflexivity|].
  simpl in *. destruct Hok as (Hnd & _ & _ & Hf).
  rewrite (find_dep_nodup _ _ Hnd Hin) in *. now apply IH.
Qed.

(* ---------- T1: the closed form at any depth ---------- *)

Lemma seen_closed : forall p merge c dest r,
  coalesce merge c dest = Ok r -> path_ok p c ->
  exists P X x, handed merge c dest p = Some (P, X) /\ coalesce merge P X = Ok x
                /\ path_at c r p = Some (P, x).
Proof.
  induction p as [|n p IH]; intros merge c dest r H Hok.
  - exists c, dest, r. auto.
  - simpl in Hok. destruct Hok as (Hnd & Hg & Hdot & Hf).
    destruct (find_dep n (cdeps c)) as [d|] eqn:Ef; [|contradiction].
    destruct (find_dep_in _ _ _ Ef) as [Hin Hn].
    destruct (scope_value merge c dest r d H Hin Hnd Hg) as (dv & x0 & Es & Ec & Er).
    destruct (IH merge d _ x0 Ec Hf) as (P & X & x & Hh & Hc & Hp).
    exists P, X, x. simpl. rewrite Ef. rewrite section_at_of. rewrite <- Hn at 1. rewrite Es.
    split; [exact Hh|]. split; [exact Hc|].
    unfold scoped_values. rewrite Hn, Hdot. simpl. rewrite <- Hn, Er. exact Hp.
Qed.

(* ---------- unique keys ---------- *)

Lemma wfm_iff : forall m, wfm m <-> NoDup (map fst m) /\ Forall (fun kv => wfv (snd kv)) m.
Proof.
  intros m. unfold wfm. simpl. split; intros [H1 H2]; split; try exact H1.
  - clear H1. induction m as [|[k x] t IH]; [constructor|]. destruct H2. constructor; auto.
  - clear H1. induction m as [|[k x] t IH]; [exact I|]. inversion H2; subst. split; [assumption|now apply IH].
Qed.

Lemma wfm_nodup : forall m, wfm m -> NoDup (map fst m).
Proof. intros m H. now apply wfm_iff in H. Qed.

Lemma wfm_mget : forall m k x, wfm m -> mget k m = Some x -> wfv x.
Proof.
  intros m k x H. apply wfm_iff in H as [_ H]. induction H as [|[k' v'] t Hv _ IH]; simpl; [discriminate|].
  destruct (String.eqb k k'); [intros E; injection E as <-; exact Hv|exact IH].
Qed.

Lemma wfm_nil : wfm [].
Proof. apply wfm_iff. split; constructor. Qed.

Lemma keys_mset : forall a k x m, In a (map fst (mset k x m)) <-> a = k \/ In a (map fst m).
Proof.
  induction m as [|[k' v'] t IH]; simpl.
  - intuition.
  - destruct (String.eqb k k') eqn:E; simpl.
    + apply String.eqb_eq in E. subst k'. intuition.
    + rewrite IH. intuition.
Qed.

Lemma keys_mdel : forall a k m, In a (map fst (mdel k m)) -> In a (map fst m).
Proof.
  induction m as [|[k' v'] t IH]; simpl; [auto|].
  destruct (String.eqb k k'); simpl; intuition.
Qed.

Lemma wfm_mset : forall k x m, wfm m -> wfv x -> wfm (mset k x m).
Proof.
  intros k x m H Hx. apply wfm_iff in H as [Hnd Hall]. apply wfm_iff. split.
  - clear Hall. induction m as [|[k' v'] t IH]; simpl.
    + constructor; [intros []|constructor].
    + inversion Hnd as [|? ? Hn Hnd']; subst. destruct (String.eqb k k') eqn:E; simpl.
      * apply String.eqb_eq in E. subst k'. constructor; assumption.
      * constructor; [|now apply IH]. rewrite keys_mset. intros [->|Hin]; [|contradiction].
        now rewrite String.eqb_refl in E.
  - clear Hnd. induction Hall as [|[k' v'] t Hv Ht IH]; simpl.
    + constructor; [exact Hx|constructor].
    + destruct (String.eqb k k'); constructor; auto.
Qed.

Lemma wfm_mdel : forall k m, wfm m -> wfm (mdel k m).
Proof.
  intros k m H. apply wfm_iff in H as [Hnd Hall]. apply wfm_iff. split.
  - clear Hall. induction m as [|[k' v'] t IH]; simpl; [constructor|].
    inversion Hnd as [|? ? Hn Hnd']; subst. destruct (String.eqb k k'); [now apply IH|].
    simpl. constructor; [|now apply IH]. intros Hin. apply Hn. eapply keys_mdel; eauto.
  - clear Hnd. induction Hall as [|[k' v'] t Hv _ IH]; simpl; [constructor|].
    destruct (String.eqb k k'); [exact IH|constructor; auto].
Qed.

Lemma wfm_ct_step : forall merge k sv dst,
  (forall m dm, wfv sv -> wfm dm -> wfm (ctv m sv dm)) ->
  wfv sv -> wfm dst -> wfm (ct_step merge k sv dst).
Proof.
  intros merge k sv dst Hrec Hsv Hd. unfold ct_step.
  destruct (mget k dst) as [dv|] eqn:Eg; [|now apply wfm_mset].
  destruct (negb merge && is_null dv); [now apply wfm_mdel|].
  destruct sv; try exact Hd. destruct dv; try exact Hd.
  apply wfm_mset; [exact Hd|]. apply Hrec; [exact Hsv|]. exact (wfm_mget _ _ _ Hd Eg).
Qed.

Lemma wfm_ctv : forall src merge dst, wfv src -> wfm dst -> wfm (ctv merge src dst).
Proof.
  intros src. induction src as [| | | | | |sm IH] using val_ind'; intros merge dst Hs Hd; try exact Hd.
  rewrite ctv_unfold. apply wfm_iff in Hs as [_ Hall]. revert dst Hd.
  induction sm as [|[k sv] t IHt]; intros dst Hd; [exact Hd|].
  simpl. inversion IH as [|? ? Hsv IH']; subst. inversion Hall as [|? ? Hv Hall']; subst.
  apply IHt; try assumption. apply wfm_ct_step; try assumption.
Qed.

Lemma wfm_cv_step : forall merge kids v kv, wfv (snd kv) -> wfm v -> wfm (cv_step merge kids v kv).
Proof.
  intros merge kids v [key dval] Hd Hv. unfold cv_step. simpl in Hd.
  destruct (mget key v) as [value|] eqn:Eg; [|now apply wfm_mset].
  destruct (is_null value && negb merge); [now apply wfm_mdel|].
  destruct value; try exact Hv. destruct dval; try exact Hv.
  apply wfm_mset; [exact Hv|]. apply wfm_ctv; [exact Hd|]. exact (wfm_mget _ _ _ Hv Eg).
Qed.

Lemma wfm_coalesce_values : forall merge kids defaults v,
  wfm defaults -> wfm v -> wfm (coalesce_values merge kids defaults v).
Proof.
  intros merge kids defaults v Hd. apply wfm_iff in Hd as [_ Hall]. rewrite coalesce_values_fold.
  revert v. induction Hall as [|kv t Hkv _ IH]; intros v Hv; [exact Hv|].
  simpl. apply IH. now apply wfm_cv_step.
Qed.

Lemma wfm_cg_step : forall dg kv, wfv (snd kv) -> wfm dg -> wfm (cg_step dg kv).
Proof.
  intros dg [key sval] Hs Hd. unfold cg_step. simpl in Hs.
  destruct sval; destruct (mget key dg) as [[]|] eqn:Eg; try exact Hd; try (now apply wfm_mset).
  apply wfm_mset; [exact Hd|]. apply wfm_ctv; [exact (wfm_mget _ _ _ Hd Eg)|exact Hs].
Qed.

Lemma wfm_coalesce_globals : forall dest src, wfm dest -> wfm src -> wfm (coalesce_globals dest src).
Proof.
  intros dest src Hd Hs. unfold coalesce_globals, glob_of.
  assert (Hfold : forall sg dg, wfm sg -> wfm dg -> wfm (fold_left cg_step sg dg)).
  { intros sg dg Hsg. apply wfm_iff in Hsg as [_ Hall]. revert dg.
    induction Hall as [|kv t Hkv _ IH]; intros dg Hdg; [exact Hdg|]. simpl. apply IH. now apply wfm_cg_step. }
  fold cg_step.
  destruct (mget global_key dest) as [[]|] eqn:Ed; try exact Hd;
    destruct (mget global_key src) as [[]|] eqn:Es; try exact Hd;
    apply wfm_mset; try exact Hd; apply Hfold;
    try exact wfm_nil; try exact (wfm_mget _ _ _ Hs Es); try exact (wfm_mget _ _ _ Hd Ed).
Qed.

(* ---------- key by key ---------- *)

Lemma mget_none_notin : forall k (m : vmap), mget k m = None <-> ~ In k (map fst m).
Proof.
  induction m as [|[k' v'] t IH]; simpl; [intuition|].
  destruct (String.eqb k k') eqn:E.
  - apply String.eqb_eq in E. subst. split; [discriminate|]. intros H. exfalso. apply H. now left.
  - apply String.eqb_neq in E. rewrite IH. intuition.
Qed.

Lemma ct_step_same : forall merge k sv dst, mget k (ct_step merge k sv dst) = ct_key merge sv (mget k dst).
Proof.
  intros. unfold ct_step, ct_key. destruct (mget k dst) as [dv|] eqn:Eg; [|apply mget_mset_same].
  destruct (negb merge && is_null dv); [apply mget_mdel_same|].
  destruct sv; try exact Eg. destruct dv; try exact Eg. apply mget_mset_same.
Qed.

Lemma ct_step_other : forall merge k sv dst k', k' <> k -> mget k' (ct_step merge k sv dst) = mget k' dst.
Proof.
  intros merge k sv dst k' Hne. assert (k <> k') by congruence. unfold ct_step.
  destruct (mget k dst) as [dv|]; [|now apply mget_mset_other].
  destruct (negb merge && is_null dv); [now apply mget_mdel_other|].
  destruct sv; try reflexivity. destruct dv; try reflexivity. now apply mget_mset_other.
Qed.

Lemma ct_loop_other : forall merge sm dst k, ~ In k (map fst sm) -> mget k (ct_loop merge sm dst) = mget k dst.
Proof.
  induction sm as [|[k0 sv] t IH]; intros dst k Hn; [reflexivity|]. simpl in *.
  rewrite IH by tauto. apply ct_step_other. intros ->. tauto.
Qed.

Lemma ctv_key : forall merge sm dst k, NoDup (map fst sm) ->
  mget k (ctv merge (VMap sm) dst) =
  match mget k sm with None => mget k dst | Some sv => ct_key merge sv (mget k dst) end.
Proof.
  intros merge sm dst k. rewrite ctv_unfold. revert dst.
  induction sm as [|[k0 sv] t IH]; intros dst Hnd; [reflexivity|].
  inversion Hnd as [|? ? Hn Hnd']; subst. simpl.
  destruct (String.eqb k k0) eqn:E.
  - apply String.eqb_eq in E. subst k0. rewrite ct_loop_other by exact Hn. apply ct_step_same.
  - apply String.eqb_neq in E. rewrite IH by exact Hnd'. now rewrite ct_step_other.
Qed.

Lemma cv_step_same : forall merge kids v key dval,
  mget key (cv_step merge kids v (key, dval)) =
  cv_key merge (existsb (String.eqb key) kids) dval (mget key v).
Proof.
  intros. unfold cv_step, cv_key. destruct (mget key v) as [value|] eqn:Eg; [|apply mget_mset_same].
  destruct (is_null value && negb merge); [apply mget_mdel_same|].
  destruct value; try exact Eg. destruct dval; try exact Eg. apply mget_mset_same.
Qed.

Lemma cv_fold_other : forall merge kids defaults v k,
  ~ In k (map fst defaults) -> mget k (fold_left (cv_step merge kids) defaults v) = mget k v.
Proof.
  induction defaults as [|[k0 dv] t IH]; intros v k Hn; [reflexivity|]. simpl in *.
  rewrite IH by tauto. apply cv_step_other. intros ->. tauto.
Qed.

Lemma coalesce_values_key : forall merge kids defaults v k, NoDup (map fst defaults) ->
  mget k (coalesce_values merge kids defaults v) =
  match mget k defaults with
  | None => mget k v
  | Some dval => cv_key merge (existsb (String.eqb k) kids) dval (mget k v)
  end.
Proof.
  intros merge kids defaults v k. rewrite coalesce_values_fold. revert v.
  induction defaults as [|[k0 dv] t IH]; intros v Hnd; [reflexivity|].
  inversion Hnd as [|? ? Hn Hnd']; subst. cbn [fold_left mget].
  destruct (String.eqb k k0) eqn:E.
  - apply String.eqb_eq in E. subst k0. rewrite cv_fold_other by exact Hn. apply cv_step_same.
  - apply String.eqb_neq in E. rewrite IH by exact Hnd'. now rewrite cv_step_other.
Qed.

(* ---------- agreement along a path is preserved by every step of the code ---------- *)

Definition not_table_opt (a : option val) : Prop := forall s, a <> Some (VMap s).

Lemma sect_agree_cases : forall R a b,
  sect_agree R a b ->
  (exists s s', a = Some (VMap s) /\ b = Some (VMap s') /\ R s s') \/ (a = b /\ not_table_opt a).
Proof.
  intros R a b H. unfold sect_agree in H.
  destruct a as [va|]; [|right; split; [exact H|intros z; discriminate]].
  destruct va; try (right; split; [exact H|intros z; discriminate]).
  destruct b as [vb|]; [|discriminate H].
  destruct vb; try discriminate H. left. eauto.
Qed.

Lemma sect_agree_refl : forall (R : vmap -> vmap -> Prop) a, (forall s, R s s) -> sect_agree R a a.
Proof. intros R a H. destruct a as [[]|]; simpl; auto. Qed.

Lemma sect_agree_mono : forall (R R' : vmap -> vmap -> Prop) a b,
  (forall s s', R s s' -> R' s s') -> sect_agree R a b -> sect_agree R' a b.
Proof.
  intros R R' a b H Hs. destruct (sect_agree_cases _ _ _ Hs) as [(s & s' & -> & -> & Hr)|[-> Hn]].
  - simpl. auto.
  - destruct b as [[]|]; simpl; auto.
Qed.

Lemma sect_agree_tables : forall (R : vmap -> vmap -> Prop) s s', R s s' -> sect_agree R (Some (VMap s)) (Some (VMap s')).
Proof. intros. exact H. Qed.

Lemma sect_agree_eq_nt : forall (R : vmap -> vmap -> Prop) a, not_table_opt a -> sect_agree R a a.
Proof. intros R a H. destruct a as [[]|]; simpl; auto. exfalso. eapply H. reflexivity. Qed.

Section AgreeProofs.
  Variable E : vmap -> vmap -> Prop.
  Variable Ec : chart -> chart -> Prop.
  Hypothesis E_refl : forall v, E v v.
  Hypothesis E_ctv : forall merge ds ds' s s',
    wfm ds -> wfm ds' -> E ds ds' -> E s s' -> E (ctv merge (VMap ds) s) (ctv merge (VMap ds') s').
  Hypothesis E_cg : forall dv dv' src src',
    E dv dv' -> mget global_key src = mget global_key src' ->
    E (coalesce_globals dv src) (coalesce_globals dv' src').

  Lemma agree_refl : forall p v, agree E p v v.
  Proof.
    induction p as [|n p IH]; intros v; simpl; [apply E_refl|].
    split; [reflexivity|]. apply sect_agree_refl. exact IH.
  Qed.

  Lemma ctv_agree : forall p merge ds ds' s s',
    wfm ds -> wfm ds' -> agree E p ds ds' -> agree E p s s' ->
    agree E p (ctv merge (VMap ds) s) (ctv merge (VMap ds') s').
  Proof.
    induction p as [|n p IH]; intros merge ds ds' s s' Hw Hw' Hd Hs; [now apply E_ctv|].
    simpl in Hd, Hs. destruct Hd as [Hg1 Hs1]. destruct Hs as [Hg2 Hs2].
    cbn [agree]. rewrite !ctv_key by (now apply wfm_nodup).
    split; [now rewrite <- Hg1, <- Hg2|].
    destruct (sect_agree_cases _ _ _ Hs1) as [(a & a' & Ea & Ea' & Ha)|[Ea Hna]];
      destruct (sect_agree_cases _ _ _ Hs2) as [(t & t' & Et & Et' & Ht)|[Et Hnt]].
    - rewrite Ea, Ea', Et, Et'. simpl. rewrite andb_false_r. simpl.
      apply IH; try assumption; [exact (wfm_mget _ _ _ Hw Ea)|exact (wfm_mget _ _ _ Hw' Ea')].
    - rewrite Ea, Ea', <- Et. destruct (mget n s) as [x|]; simpl; [|exact Ha].
      destruct (negb merge && is_null x); [reflexivity|].
      destruct x; try reflexivity. exfalso. eapply Hnt. reflexivity.
    - rewrite <- Ea, Et, Et'. destruct (mget n ds) as [sv|]; simpl; [|exact Ht].
      rewrite andb_false_r. destruct sv; try exact Ht. exfalso. eapply Hna. reflexivity.
    - rewrite <- Ea, <- Et. apply sect_agree_refl. apply agree_refl.
  Qed.

  Lemma cv_agree : forall n p merge kids kids' defs defs' v v',
    wfm defs -> wfm defs' ->
    existsb (String.eqb n) kids = true -> existsb (String.eqb n) kids' = true ->
    existsb (String.eqb global_key) kids = false -> existsb (String.eqb global_key) kids' = false ->
    agree E (n :: p) defs defs' -> agree E (n :: p) v v' ->
    agree E (n :: p) (coalesce_values merge kids defs v) (coalesce_values merge kids' defs' v').
  Proof.
    intros n p merge kids kids' defs defs' v v' Hw Hw' Hk Hk' Hgk Hgk' Hd Hv.
    simpl in Hd, Hv. destruct Hd as [Hg1 Hs1]. destruct Hv as [Hg2 Hs2].
    cbn [agree]. rewrite !coalesce_values_key by (now apply wfm_nodup).
    split; [now rewrite <- Hg1, <- Hg2, Hgk, Hgk'|]. rewrite Hk, Hk'.
    destruct (sect_agree_cases _ _ _ Hs1) as [(a & a' & Ea & Ea' & Ha)|[Ea Hna]];
      destruct (sect_agree_cases _ _ _ Hs2) as [(t & t' & Et & Et' & Ht)|[Et Hnt]].
    - rewrite Ea, Ea', Et, Et'. simpl.
      apply ctv_agree; try assumption; [exact (wfm_mget _ _ _ Hw Ea)|exact (wfm_mget _ _ _ Hw' Ea')].
    - rewrite Ea, Ea', <- Et. destruct (mget n v) as [x|]; simpl; [|exact Ha].
      destruct (is_null x && negb merge); [reflexivity|].
      destruct x; try reflexivity. exfalso. eapply Hnt. reflexivity.
    - rewrite <- Ea, Et, Et'. destruct (mget n defs) as [dv|]; simpl; [|exact Ht].
      destruct dv; try exact Ht. exfalso. eapply Hna. reflexivity.
    - rewrite <- Ea, <- Et. apply sect_agree_refl. apply agree_refl.
  Qed.

  Lemma agree_mset_global : forall m p y dv dv',
    m <> global_key -> agree E (m :: p) dv dv' ->
    agree E (m :: p) (mset global_key y dv) (mset global_key y dv').
  Proof.
    intros m p y dv dv' Hne [_ Hs]. cbn [agree]. rewrite !mget_mset_same.
    split; [reflexivity|]. rewrite !mget_mset_other by congruence. exact Hs.
  Qed.

  Lemma cg_agree : forall p dv dv' src src',
    match p with m :: _ => m <> global_key | [] => True end ->
    agree E p dv dv' -> mget global_key src = mget global_key src' ->
    agree E p (coalesce_globals dv src) (coalesce_globals dv' src').
  Proof.
    intros [|m p] dv dv' src src' Hne Ha Hsrc; [now apply E_cg|].
    pose proof Ha as [Hg _]. unfold coalesce_globals, glob_of. rewrite <- Hsrc, <- Hg.
    destruct (mget global_key dv) as [[]|]; try exact Ha;
      destruct (mget global_key src) as [[]|]; try exact Ha; now apply agree_mset_global.
  Qed.

  Lemma path_ok_head : forall p c,
    path_ok p c -> match p with m :: _ => m <> global_key | [] => True end.
  Proof.
    intros [|m p] c H; [exact I|]. simpl in H. destruct H as (_ & Hg & _ & Hf).
    destruct (find_dep m (cdeps c)) as [d|] eqn:Ef; [|contradiction].
    apply find_dep_in in Ef as [Hin Hn]. intros ->. apply Hg. rewrite <- Hn. now apply in_map.
  Qed.

  (* what is handed down the path depends only on what [agree] / [chart_agree] constrain *)
  Lemma handed_agree : forall p merge c c' dest dest',
    path_ok p c -> path_ok p c' -> defaults_wf p c -> defaults_wf p c' ->
    chart_agree E Ec p c c' -> agree E p dest dest' ->
    match handed merge c dest p, handed merge c' dest' p with
    | Some (P, X), Some (P', X') => Ec P P' /\ E X X'
    | None, None => True
    | _, _ => False
    end.
  Proof.
    induction p as [|n p IH]; intros merge c c' dest dest' Hok Hok' Hwf Hwf' Hc Hv; [simpl; auto|].
    cbn [handed]. simpl in Hok, Hok', Hwf, Hwf'. cbn [chart_agree] in Hc.
    destruct Hok as (Hnd & Hg & Hdot & Hf). destruct Hok' as (Hnd' & Hg' & _ & Hf').
    destruct Hwf as [Hw Hwd]. destruct Hwf' as [Hw' Hwd']. destruct Hc as [Hdef Hsub].
    destruct (find_dep n (cdeps c)) as [d|] eqn:Ef; [|contradiction].
    destruct (find_dep n (cdeps c')) as [d'|] eqn:Ef'; [|contradiction].
    set (dest1 := coalesce_values merge (map cname (cdeps c)) (cvalues c) dest).
    set (dest1' := coalesce_values merge (map cname (cdeps c')) (cvalues c') dest').
    assert (H1 : agree E (n :: p) dest1 dest1').
    { apply cv_agree; try assumption.
      - exact (find_dep_existsb _ _ _ Ef).
      - exact (find_dep_existsb _ _ _ Ef').
      - now apply notin_existsb.
      - now apply notin_existsb. }
    pose proof H1 as [Hgl Hsec]. pose proof (path_ok_head _ _ Hf) as Hhead.
    unfold section_at.
    destruct (sect_agree_cases _ _ _ Hsec) as [(s & s' & Es & Es' & Hss)|[Es Hnt]].
    - rewrite Es, Es'. apply IH; try assumption. now apply cg_agree.
    - rewrite <- Es. destruct (mget n dest1) as [x|].
      + destruct x; try exact I. exfalso. eapply Hnt. reflexivity.
      + apply IH; try assumption. apply cg_agree; [exact Hhead|apply agree_refl|exact Hgl].
  Qed.
End AgreeProofs.

(* ---------- (a) isolation at any depth ---------- *)

Lemma seen_after_closed : forall c v p x,
  path_ok p c -> seen_after c v p = Some x ->
  exists P X, handed false c v p = Some (P, X) /\ coalesce false P X = Ok x.
Proof.
  intros c v p x Hok H. unfold seen_after, CoalesceValues in H.
  destruct (coalesce false c v) as [r|] eqn:Ec; [|discriminate].
  destruct (seen_closed p false c v r Ec Hok) as (P & X & x0 & Hh & Hc & Hp).
  rewrite Hp in H. injection H as <-. eauto.
Qed.

Lemma seen_isolated : forall p c c' v v' x x',
  path_ok p c -> path_ok p c' -> defaults_wf p c -> defaults_wf p c' ->
  chart_agree eq eq p c c' -> agree eq p v v' ->
  seen_after c v p = Some x -> seen_after c' v' p = Some x' -> x = x'.
Proof.
  intros p c c' v v' x x' Hok Hok' Hw Hw' Hc Hv H H'.
  destruct (seen_after_closed _ _ _ _ Hok H) as (P & X & Hh & Hx).
  destruct (seen_after_closed _ _ _ _ Hok' H') as (P' & X' & Hh' & Hx').
  assert (Hag := handed_agree eq eq (fun v => eq_refl)
                   (fun merge ds ds' s s' _ _ (e1 : ds = ds') (e2 : s = s') =>
                      f_equal2 (fun a b => ctv merge (VMap a) b) e1 e2)).
  specialize (Hag (fun dv dv' src src' (e : dv = dv') Hs =>
                     eq_trans (f_equal (fun d => coalesce_globals d src) e) (coalesce_globals_src dv' src src' Hs))).
  specialize (Hag p false c c' v v' Hok Hok' Hw Hw' Hc Hv).
  rewrite Hh, Hh' in Hag. destruct Hag as [-> ->]. rewrite Hx in Hx'. now injection Hx'.
Qed.

(* ---------- (c) one subchart's values never change what the parent or a sibling sees ---------- *)

Lemma except_key_refl : forall n v, except_key n v v.
Proof. intros n v k _. reflexivity. Qed.

Lemma except_ctv : forall n merge ds ds' s s',
  wfm ds -> wfm ds' -> except_key n ds ds' -> except_key n s s' ->
  except_key n (ctv merge (VMap ds) s) (ctv merge (VMap ds') s').
Proof.
  intros n merge ds ds' s s' Hw Hw' Hd Hs k Hk. rewrite !ctv_key by (now apply wfm_nodup).
  now rewrite (Hd k Hk), (Hs k Hk).
Qed.

Lemma except_mset_global : forall n y dv dv',
  except_key n dv dv' -> except_key n (mset global_key y dv) (mset global_key y dv').
Proof.
  intros n y dv dv' He k Hk. destruct (String.eqb_spec k global_key) as [->|Hne].
  - now rewrite !mget_mset_same.
  - rewrite !mget_mset_other by congruence. now apply He.
Qed.

Lemma except_cg : forall n dv dv' src src',
  n <> global_key -> except_key n dv dv' -> mget global_key src = mget global_key src' ->
  except_key n (coalesce_globals dv src) (coalesce_globals dv' src').
Proof.
  intros n dv dv' src src' Hn He Hs. unfold coalesce_globals, glob_of.
  rewrite <- Hs. rewrite <- (He global_key) by congruence.
  destruct (mget global_key dv) as [[]|]; try exact He;
    destruct (mget global_key src) as [[]|]; try exact He; now apply except_mset_global.
Qed.

Lemma deps_loop_except : forall n merge ds ds',
  Forall2 (fun d d' => cname d = cname d' /\ (cname d <> n -> d = d')) ds ds' ->
  n <> global_key ->
  forall dest dest' r r', except_key n dest dest' ->
  deps_loop merge ds dest = Ok r -> deps_loop merge ds' dest' = Ok r' -> except_key n r r'.
Proof.
  induction 1 as [|d d' t t' [Hname Hsame] _ IH]; intros Hn dest dest' r r' He H H'; simpl in *.
  - injection H as <-. injection H' as <-. exact He.
  - destruct (section_of (cname d) dest) as [dv|] eqn:Es; [|discriminate].
    destruct (coalesce merge d (coalesce_globals dv dest)) as [x|] eqn:Ec; [|discriminate].
    destruct (section_of (cname d') dest') as [dv'|] eqn:Es'; [|discriminate].
    destruct (coalesce merge d' (coalesce_globals dv' dest')) as [x'|] eqn:Ec'; [|discriminate].
    refine (IH Hn _ _ _ _ _ H H'). intros k Hk.
    destruct (String.eqb_spec (cname d) n) as [En|En].
    + rewrite <- Hname, En. rewrite !mget_mset_other by congruence. now apply He.
    + specialize (Hsame En). subst d'.
      unfold section_of in Es, Es'. rewrite (He (cname d) En) in Es. rewrite Es in Es'. injection Es' as <-.
      rewrite (coalesce_globals_src dv dest dest') in Ec by (apply He; congruence).
      rewrite Ec in Ec'. injection Ec' as <-.
      destruct (String.eqb_spec k (cname d)) as [->|Hne].
      * now rewrite !mget_mset_same.
      * rewrite !mget_mset_other by congruence. now apply He.
Qed.

Lemma coalesce_except : forall n merge P P' X X' r r',
  n <> global_key -> wfm (cvalues P) -> wfm (cvalues P') ->
  except_child n P P' -> except_key n X X' ->
  coalesce merge P X = Ok r -> coalesce merge P' X' = Ok r' -> except_key n r r'.
Proof.
  intros n merge P P' X X' r r' Hn Hw Hw' [Hvals Hdeps] HX H H'. rewrite coalesce_unfold in H, H'.
  assert (Hkids : map cname (cdeps P) = map cname (cdeps P')).
  { clear - Hdeps. induction Hdeps as [|d d' t t' [Hd _] _ IH]; simpl; [reflexivity|]. now rewrite Hd, IH. }
  eapply (deps_loop_except n merge _ _ Hdeps Hn); [|exact H|exact H'].
  intros k Hk. rewrite !coalesce_values_key by (now apply wfm_nodup).
  now rewrite <- Hkids, (Hvals k Hk), (HX k Hk).
Qed.

Lemma handed_chart_at : forall p merge c dest P X, handed merge c dest p = Some (P, X) -> chart_at c p = Some P.
Proof.
  induction p as [|n p IH]; simpl; intros merge c dest P X H; [now injection H as <- _|].
  destruct (find_dep n (cdeps c)) as [d|]; [|discriminate].
  destruct (section_at n _); [|discriminate]. eapply IH; eauto.
Qed.

Lemma defaults_wf_app : forall q n c, defaults_wf (q ++ [n]) c -> defaults_wf q c.
Proof.
  induction q as [|m q IH]; simpl; intros n c H; [exact I|]. destruct H as [Hw H]. split; [exact Hw|].
  destruct (find_dep m (cdeps c)); [now apply (IH n)|exact I].
Qed.

Lemma defaults_wf_end : forall q n c P, defaults_wf (q ++ [n]) c -> chart_at c q = Some P -> wfm (cvalues P).
Proof.
  induction q as [|m q IH]; simpl; intros n c P H Hc.
  - injection Hc as <-. tauto.
  - destruct H as [_ H]. destruct (find_dep m (cdeps c)); [|discriminate]. now apply (IH n _ _ H).
Qed.

(* what the PARENT sees changes only under the child's own key *)
Lemma parent_view_confined : forall q n c c' v v' x x',
  n <> global_key ->
  path_ok q c -> path_ok q c' -> defaults_wf (q ++ [n]) c -> defaults_wf (q ++ [n]) c' ->
  chart_agree (except_key n) (except_child n) q c c' -> agree (except_key n) q v v' ->
  seen_after c v q = Some x -> seen_after c' v' q = Some x' -> except_key n x x'.
Proof.
  intros q n c c' v v' x x' Hn Hok Hok' Hw Hw' Hc Hv H H'.
  destruct (seen_after_closed _ _ _ _ Hok H) as (P & X & Hh & Hx).
  destruct (seen_after_closed _ _ _ _ Hok' H') as (P' & X' & Hh' & Hx').
  pose proof (handed_agree (except_key n) (except_child n) (except_key_refl n) (except_ctv n)
                (fun dv dv' src src' => except_cg n dv dv' src src' Hn)
                q false c c' v v' Hok Hok' (defaults_wf_app _ _ _ Hw) (defaults_wf_app _ _ _ Hw') Hc Hv) as Hag.
  rewrite Hh, Hh' in Hag. destruct Hag as [HP HX].
  eapply (coalesce_except n false P P' X X'); eauto.
  - eapply defaults_wf_end; [exact Hw|]. eapply handed_chart_at; eauto.
  - eapply defaults_wf_end; [exact Hw'|]. eapply handed_chart_at; eauto.
Qed.

Lemma agree_except_sibling : forall n s q v v',
  s <> n -> n <> global_key -> agree (except_key n) q v v' -> agree eq (q ++ [s]) v v'.
Proof.
  intros n s q. induction q as [|m q IH]; intros v v' Hs Hn H.
  - simpl in *. split; [apply H; congruence|]. rewrite (H s Hs). apply sect_agree_refl. reflexivity.
  - simpl in *. destruct H as [Hg Hsec]. split; [exact Hg|].
    eapply sect_agree_mono; [|exact Hsec]. intros a b Hab. now apply IH.
Qed.

Lemma find_dep_forall2 : forall n s ds ds' d,
  Forall2 (fun d d' => cname d = cname d' /\ (cname d <> n -> d = d')) ds ds' ->
  s <> n -> find_dep s ds = Some d -> find_dep s ds' = Some d.
Proof.
  intros n s ds ds' d HF Hs. induction HF as [|e e' t t' [Hname Hsame] _ IH]; simpl; [auto|].
  rewrite <- Hname. destruct (String.eqb (cname e) s) eqn:E; [|exact IH].
  apply String.eqb_eq in E. intros H. injection H as <-. f_equal. symmetry. apply Hsame. congruence.
Qed.

Lemma chart_agree_except_sibling : forall n s q c c',
  s <> n -> n <> global_key ->
  chart_agree (except_key n) (except_child n) q c c' ->
  (exists P d, chart_at c q = Some P /\ find_dep s (cdeps P) = Some d) ->
  chart_agree eq eq (q ++ [s]) c c'.
Proof.
  intros n s q. induction q as [|m q IH]; intros c c' Hs Hn H (P & d & HP & Hd).
  - simpl in *. injection HP as <-. destruct H as [Hvals Hdeps]. split.
    + split; [apply Hvals; congruence|]. rewrite (Hvals s Hs). apply sect_agree_refl. reflexivity.
    + rewrite Hd, (find_dep_forall2 n s _ _ d Hdeps Hs Hd). reflexivity.
  - cbn [chart_agree app] in *. destruct H as [Hvals Hsub]. split.
    + now apply (agree_except_sibling n s (m :: q)).
    + simpl in HP. destruct (find_dep m (cdeps c)) as [e|]; [|discriminate].
      destruct (find_dep m (cdeps c')) as [e'|]; [|contradiction].
      apply IH; try assumption. eauto.
Qed.

(* ... and a SIBLING's view does not change at all *)
Lemma sibling_view_unchanged : forall q n s c c' v v' x x',
  s <> n -> n <> global_key ->
  path_ok (q ++ [s]) c -> path_ok (q ++ [s]) c' -> defaults_wf (q ++ [s]) c -> defaults_wf (q ++ [s]) c' ->
  chart_agree (except_key n) (except_child n) q c c' -> agree (except_key n) q v v' ->
  seen_after c v (q ++ [s]) = Some x -> seen_after c' v' (q ++ [s]) = Some x' -> x = x'.
Proof.
  intros q n s c c' v v' x x' Hs Hn Hok Hok' Hw Hw' Hc Hv H H'.
  eapply (seen_isolated (q ++ [s]) c c' v v'); eauto.
  - apply (chart_agree_except_sibling n); try assumption.
    clear - Hok. revert c Hok. induction q as [|m q IH]; intros c Hok; simpl in *.
    + destruct Hok as (_ & _ & _ & Hf). destruct (find_dep s (cdeps c)) as [d|] eqn:E; [|contradiction]. eauto.
    + destruct Hok as (_ & _ & _ & Hf). destruct (find_dep m (cdeps c)) as [e|]; [|contradiction]. now apply IH.
  - now apply (agree_except_sibling n).
Qed.

(* ---------- (b) globals flow down with the ancestor winning, at any depth ---------- *)

Lemma holds_has : forall g x v, holds_global g x v <-> has_global g x v.
Proof. reflexivity. Qed.

Lemma global_down_path : forall p merge c dest g x P X,
  path_ok p c -> defaults_wf p c -> wfm dest -> holds_global g x dest -> plain x ->
  globals_pass merge g c dest p -> handed merge c dest p = Some (P, X) ->
  holds_global g x X /\ wfm X.
Proof.
  induction p as [|n p IH]; intros merge c dest g x P X Hok Hw Hd Hg Hp Hpass Hh.
  - simpl in Hh. injection Hh as <- <-. auto.
  - simpl in Hok, Hw, Hpass, Hh. destruct Hok as (_ & _ & _ & Hf). destruct Hw as [Hwc Hwd].
    destruct (find_dep n (cdeps c)) as [d|] eqn:Ef; [|discriminate].
    set (dest1 := coalesce_values merge (map cname (cdeps c)) (cvalues c) dest) in *.
    assert (Hw1 : wfm dest1) by (now apply wfm_coalesce_values).
    destruct (section_at n dest1) as [dv|] eqn:Es; [|discriminate]. destruct Hpass as [Hsec Hpass].
    pose proof (coalesce_values_keeps_global merge (map cname (cdeps c)) (cvalues c) dest g x Hg Hp) as (sg & Hsg & Hgx).
    fold dest1 in Hsg.
    assert (Hwdv : wfm dv).
    { unfold section_at in Es. destruct (mget n dest1) as [[]|] eqn:En; try discriminate; injection Es as <-;
        [exact (wfm_mget _ _ _ Hw1 En)|exact wfm_nil]. }
    apply (IH merge d (coalesce_globals dv dest1) g x P X); try assumption.
    + now apply wfm_coalesce_globals.
    + apply (coalesce_globals_delivers dv dest1 g x sg); try assumption.
      apply wfm_nodup. exact (wfm_mget _ _ _ Hw1 Hsg).
Qed.

(* a plain global.g = x in the values handed to a chart (the user's values for the root) is what
   the chart at ANY path below sees, whatever the defaults on the way say *)
Lemma global_reaches : forall p c user g x r,
  path_ok p c -> defaults_wf p c -> wfm user -> holds_global g x user -> plain x ->
  globals_pass false g c user p ->
  (forall P, chart_at c p = Some P -> ~ In global_key (map cname (cdeps P))) ->
  seen_after c user p = Some r -> holds_global g x r.
Proof.
  intros p c user g x r Hok Hw Hu Hg Hp Hpass Hend H.
  destruct (seen_after_closed _ _ _ _ Hok H) as (P & X & Hh & Hx).
  destruct (global_down_path p false c user g x P X Hok Hw Hu Hg Hp Hpass Hh) as [HgX _].
  rewrite coalesce_unfold in Hx.
  pose proof (coalesce_values_keeps_global false (map cname (cdeps P)) (cvalues P) X g x HgX Hp) as (gm & Hm & Hgm).
  exists gm. split; [|exact Hgm].
  rewrite (deps_loop_other _ _ _ _ global_key Hx); [exact Hm|].
  apply Hend. eapply handed_chart_at; eauto.
Qed.

(* the same for a global that a chart on the way holds in its effective values (its own defaults
   included): every chart below it sees it *)
Lemma global_from_ancestor : forall n p c dest g x P X,
  path_ok (n :: p) c -> defaults_wf (n :: p) c -> wfm dest -> plain x ->
  holds_global g x (coalesce_values false (map cname (cdeps c)) (cvalues c) dest) ->
  globals_pass false g c dest (n :: p) ->
  handed false c dest (n :: p) = Some (P, X) -> holds_global g x X.
Proof.
  intros n p c dest g x P X Hok Hw Hd Hp Hg Hpass Hh.
  simpl in Hok, Hw, Hpass, Hh. destruct Hok as (_ & _ & _ & Hf). destruct Hw as [Hwc Hwd].
  destruct (find_dep n (cdeps c)) as [d|] eqn:Ef; [|discriminate].
  set (dest1 := coalesce_values false (map cname (cdeps c)) (cvalues c) dest) in *.
  assert (Hw1 : wfm dest1) by (now apply wfm_coalesce_values).
  destruct (section_at n dest1) as [dv|] eqn:Es; [|discriminate]. destruct Hpass as [Hsec Hpass].
  destruct Hg as (sg & Hsg & Hgx).
  assert (Hwdv : wfm dv).
  { unfold section_at in Es. destruct (mget n dest1) as [[]|] eqn:En; try discriminate; injection Es as <-;
      [exact (wfm_mget _ _ _ Hw1 En)|exact wfm_nil]. }
  apply (global_down_path p false d (coalesce_globals dv dest1) g x P X); try assumption.
  - now apply wfm_coalesce_globals.
  - apply (coalesce_globals_delivers dv dest1 g x sg); try assumption.
    apply wfm_nodup. exact (wfm_mget _ _ _ Hw1 Hsg).
Qed.

(* ---------- the composition with ProcessDependencies ---------- *)

Lemma values_seen_unfold : forall compat t v p x,
  values_seen compat t v p = Some x <->
  exists c, process_dependencies compat t v = Ok c /\ seen_after c v p = Some x.
Proof.
  intros. unfold values_seen. destruct (process_dependencies compat t v) as [c|e].
  - split; [eauto|]. intros (c0 & E & H). now injection E as <-.
  - split; [discriminate|]. intros (c0 & E & _). discriminate.
Qed.

(* what values_seen says is what engine.Render's renderable for that chart holds *)
Lemma values_seen_rendered : forall compat t v p x c r d,
  process_dependencies compat t v = Ok c -> CoalesceValues c v = Ok r ->
  values_seen compat t v p = Some x -> chart_at c p = Some d ->
  forall tpl, In tpl (ctemplates d) ->
    In (dir_of (cname c) p ++ "/" ++ tpl, VMap x) (rec_all_tpls c true "" r).
Proof.
  intros compat t v p x c r d Hpd Hcv Hs Hd tpl Ht.
  unfold values_seen in Hs. rewrite Hpd in Hs. unfold seen_after in Hs. rewrite Hcv in Hs.
  destruct (path_at c r p) as [[e y]|] eqn:Ep; [|discriminate]. injection Hs as <-.
  assert (e = d).
  { clear - Ep Hd. revert c r Ep Hd. induction p as [|n p IH]; simpl; intros c r Ep Hd.
    - injection Ep as <- _. now injection Hd.
    - destruct (find_dep n (cdeps c)); [|discriminate]. eapply IH; eauto. }
  subst e. exact (rendered_at p c true "" r d y tpl Ep Ht).
Qed.

(* loader.MergeMaps (pkg/chart/v2/loader/load.go:249) — the merge used by
   values.Options.MergeValues for -f files and --set-json objects.

     out := copy of a
     for k, v := range b:
        if v is a map and out[k] exists and is a map: out[k] = MergeMaps(out[k], v)
        else                                         out[k] = v

   Definitions only; proofs are in MergeProofs.v. *)
From Coq Require Import List String Bool.
From Helm Require Import Values.Tree.
Import ListNotations.

(* [merge_val a b]: b laid over a.  Structural on b (the map that is ranged over). *)
Fixpoint merge_val (a b : val) {struct b} : val :=
  match a, b with
  | VMap ma, VMap mb =>
      VMap ((fix go (mb : list (string * val)) (out : vmap) : vmap :=
               match mb with
               | [] => out
               | (k, x) :: t =>
                   go t (mset k (match mget k out with
                                 | Some o => merge_val o x
                                 | None => x
                                 end) out)
               end) mb ma)
  | _, _ => b
  end.

Definition merge_maps (a b : vmap) : vmap :=
  match merge_val (VMap a) (VMap b) with VMap m => m | _ => b end.

(* the loop of MergeMaps as a stand-alone function (equal to the inner [fix] above) *)
Fixpoint merge_loop (mb : vmap) (out : vmap) : vmap :=
  match mb with
  | [] => out
  | (k, x) :: t =>
      merge_loop t (mset k (match mget k out with
                            | Some o => merge_val o x
                            | None => x
                            end) out)
  end.

(* sources low -> high precedence, folded over an initial base *)
Definition merge_all (base : val) (srcs : list val) : val := fold_left merge_val srcs base.

(* ---- vocabulary of the precedence statements ---- *)

(* a leaf is anything that is not a table: scalars, null and lists replace as a whole *)
Definition leaf_at (p : list string) (v : val) : option val :=
  match lookup_path p v with
  | Some x => if is_table x then None else Some x
  | None => None
  end.

(* [defines p v]: walking p in v either reaches the end of p, or meets a non-table before the
   end (which replaces everything below it).  [false] = some table on the way lacks the key,
   i.e. v says nothing about p and a lower-precedence source shows through. *)
Fixpoint defines (p : list string) (v : val) : bool :=
  match p with
  | [] => true
  | k :: p' =>
      match v with
      | VMap m => match mget k m with Some x => defines p' x | None => false end
      | _ => true
      end
  end.

(* the last (highest-precedence) source of a low->high list that defines p *)
Fixpoint last_defining (p : list string) (srcs : list val) : option val :=
  match srcs with
  | [] => None
  | s :: t =>
      match last_defining p t with
      | Some s' => Some s'
      | None => if defines p s then Some s else None
      end
  end.

(* well-formed: every table has unique keys (always true of a Go map) *)
Fixpoint keys_nodup_b (ks : list string) : bool :=
  match ks with
  | [] => true
  | k :: t => negb (existsb (String.eqb k) t) && keys_nodup_b t
  end.

Fixpoint wf_b (v : val) : bool :=
  match v with
  | VList l => forallb wf_b l
  | VMap m =>
      keys_nodup_b (map fst m) &&
      (fix go (m : list (string * val)) : bool :=
         match m with
         | [] => true
         | (_, x) :: t => wf_b x && go t
         end) m
  | _ => true
  end.

Definition wf (v : val) : Prop := wf_b v = true.

(* pkg/strvals/parser.go and literal_parser.go — the --set / --set-string / --set-file /
   --set-json / --set-literal grammar, as it is.

   The Go parser reads runes from a bytes.Buffer and mutates the destination map in place;
   here the rest of the input and the table are threaded through.  Strings are byte
   strings: for valid UTF-8 the byte-level and rune-level readings agree (all stop
   characters are ASCII).  Every error (including the recovered panics of the unchecked
   type assertions) ends the whole parse with an error, so only "error" is modelled for
   those; the table after a *successful* parse is modelled exactly, including the io.EOF
   paths that count as success ("a=", "a.", "a[0]").  After the fix "--set keeps an empty
   value that ends the input after a list index": when the input ends inside a list item
   ("a[0].b=", "a[0][1].b=") what was parsed is stored before io.EOF is passed on.  After
   the fix "strvals counts list items as nesting levels" (C20): "[" and "." read by listItem
   increment the nesting level and fail above MaxNestedNameLevel, like "." read by key.

   Outside the model (supplied with the case as data): the JSON decoder behind --set-json
   ([jdec]: for the input that remains after "key=", the decoded value and the number of
   bytes it took) and the files behind --set-file ([files]).

   Definitions only; proofs are in StrvalsProofs.v. *)
From Coq Require Import List String Ascii Bool Arith ZArith Lia.
From Helm Require Import Values.Tree.
Import ListNotations.
Local Open Scope string_scope.

(* ---------- characters ---------- *)
Definition ch_eq := Ascii.eqb.
Definition c_eq : ascii := "=".
Definition c_lbr : ascii := "[".
Definition c_rbr : ascii := "]".
Definition c_comma : ascii := ",".
Definition c_dot : ascii := ".".
Definition c_bsl : ascii := "\".
Definition c_lbrace : ascii := "{".
Definition c_rbrace : ascii := "}".

Definition stop_key (c : ascii) : bool := ch_eq c c_eq || ch_eq c c_lbr || ch_eq c c_comma || ch_eq c c_dot.
Definition stop_key_lit (c : ascii) : bool := ch_eq c c_eq || ch_eq c c_lbr || ch_eq c c_dot.
Definition stop_item (c : ascii) : bool := ch_eq c c_lbr || ch_eq c c_dot || ch_eq c c_eq.
Definition stop_rbr (c : ascii) : bool := ch_eq c c_rbr.
Definition stop_comma (c : ascii) : bool := ch_eq c c_comma.
Definition stop_none (c : ascii) : bool := false.

(* unicode.IsSpace on ASCII *)
Definition is_space (c : ascii) : bool :=
  let n := nat_of_ascii c in (Nat.eqb n 32) || ((Nat.leb 9 n) && (Nat.leb n 13)).

(* runesUntil (esc = true) / runesUntilLiteral (esc = false):
   (collected, Some stop-char | None at EOF, rest).  A backslash takes the next character
   literally; a backslash at the very end is EOF. *)
Fixpoint runes_until (esc : bool) (stop : ascii -> bool) (s : string) : string * option ascii * string :=
  match s with
  | EmptyString => (EmptyString, None, EmptyString)
  | String c t =>
      if stop c then (EmptyString, Some c, t)
      else if esc && ch_eq c c_bsl then
        match t with
        | EmptyString => (EmptyString, None, EmptyString)
        | String n t' => let '(v, l, r) := runes_until esc stop t' in (String n v, l, r)
        end
      else let '(v, l, r) := runes_until esc stop t in (String c v, l, r)
  end.

(* ---------- numbers ---------- *)
Definition digit_of (c : ascii) : option Z :=
  let n := nat_of_ascii c in
  if (Nat.leb 48 n) && (Nat.leb n 57) then Some (Z.of_nat (n - 48)) else None.

Fixpoint digits_val (acc : Z) (s : string) : option Z :=
  match s with
  | EmptyString => Some acc
  | String c t => match digit_of c with Some d => digits_val (acc * 10 + d) t | None => None end
  end.

Definition int64_min : Z := (- 9223372036854775808)%Z.
Definition int64_max : Z := 9223372036854775807%Z.

(* strconv.ParseInt(s, 10, 64) / strconv.Atoi on a 64-bit platform:
   optional sign, at least one digit, digits only, value in the int64 range *)
Definition parse_int (s : string) : option Z :=
  let '(neg, body) :=
    match s with
    | String c t => if ch_eq c "-" then (true, t) else if ch_eq c "+" then (false, t) else (false, s)
    | EmptyString => (false, s)
    end in
  match body with
  | EmptyString => None
  | _ => match digits_val 0 body with
         | Some n => let z := if neg then (- n)%Z else n in
                     if (int64_min <=? z)%Z && (z <=? int64_max)%Z then Some z else None
         | None => None
         end
  end.

Definition lower (c : ascii) : ascii :=
  let n := nat_of_ascii c in if (Nat.leb 65 n) && (Nat.leb n 90) then ascii_of_nat (n + 32) else c.

(* strings.EqualFold against an ASCII lower-case word (ASCII folding only) *)
Fixpoint eq_fold (s w : string) : bool :=
  match s, w with
  | EmptyString, EmptyString => true
  | String a s', String b w' => ch_eq (lower a) b && eq_fold s' w'
  | _, _ => false
  end.

(* typedVal(v, st) *)
Definition typed_val (st : bool) (v : string) : val :=
  if st then VStr v
  else if eq_fold v "true" then VBool true
  else if eq_fold v "false" then VBool false
  else if eq_fold v "null" then VNull
  else if eq_fold v "0" then VNum 0
  else match v with
       | String c _ =>
           if ch_eq c "0" then VStr v
           else match parse_int v with Some n => VNum n | None => VStr v end
       | EmptyString => VStr v
       end.

(* ---------- parser configuration ---------- *)
Inductive pmode := MTyped | MString | MFile | MJson | MLiteral.

Record pcfg := mkCfg {
  pmode_of : pmode;
  pfiles : list (string * string);            (* --set-file: path -> content *)
  pjdec : list (nat * (val * nat))            (* --set-json: remaining length -> (value, bytes used) *)
}.

Definition esc_of (c : pcfg) : bool := match pmode_of c with MLiteral => false | _ => true end.

Fixpoint assoc_str (k : string) (l : list (string * string)) : option string :=
  match l with
  | [] => None
  | (k', v) :: t => if String.eqb k k' then Some v else assoc_str k t
  end.

Fixpoint assoc_nat {A} (k : nat) (l : list (nat * A)) : option A :=
  match l with
  | [] => None
  | (k', v) :: t => if Nat.eqb k k' then Some v else assoc_nat k t
  end.

(* t.reader(rs): None = the reader failed (only the file reader can) *)
Definition reader (c : pcfg) (rs : string) : option val :=
  match pmode_of c with
  | MTyped => Some (typed_val false rs)
  | MString => Some (typed_val true rs)
  | MFile => option_map VStr (assoc_str rs (pfiles c))
  | MJson | MLiteral => None                     (* never called in these modes *)
  end.

(* set(data, key, val): an empty key is not set *)
Definition set (k : string) (v : val) (d : vmap) : vmap :=
  match k with EmptyString => d | _ => mset k v d end.

(* ---------- lists ---------- *)
Fixpoint set_nth (i : nat) (v : val) (l : list val) : list val :=
  match i, l with
  | O, _ :: t => v :: t
  | O, [] => [v]
  | S i', x :: t => x :: set_nth i' v t
  | S i', [] => VNull :: set_nth i' v []       (* make([]interface{}, index+1): nil padding *)
  end.

Definition max_index : Z := 65536.
Definition max_nested_name_level : nat := 30.

(* setIndex(list, index, val): None = error *)
Definition set_index (l : list val) (i : Z) (v : val) : option (list val) :=
  if (i <? 0)%Z then None
  else if (max_index <? i)%Z then None
  else Some (set_nth (Z.to_nat i) v l).

Definition in_range (l : list val) (i : Z) : bool := (i <? Z.of_nat (List.length l))%Z && (0 <=? i)%Z.

(* keyIndex: runesUntil ']' then strconv.Atoi *)
Definition key_index (esc : bool) (s : string) : option (Z * string) :=
  match runes_until esc stop_rbr s with
  | (v, Some _, rest) => match parse_int v with Some i => Some (i, rest) | None => None end
  | (_, None, _) => None
  end.

(* emptyVal: skip blanks; true when a comma or the end follows (the comma is consumed) *)
Fixpoint empty_val (s : string) : bool * string :=
  match s with
  | EmptyString => (true, EmptyString)
  | String c t =>
      if ch_eq c c_comma then (true, t)
      else if is_space c then empty_val t
      else (false, s)
  end.

Fixpoint drop (n : nat) (s : string) : string :=
  match n, s with
  | O, _ => s
  | S n', String _ t => drop n' t
  | S _, EmptyString => EmptyString
  end.

(* valList: a brace list {a,b,c} *)
Inductive vlres := VLOk (l : list val) (rest : string) | VLNotList | VLEof | VLErr.

(* the loop of valList after the opening brace; [cur] is the item being read *)
Fixpoint val_list_loop (c : pcfg) (cur : string) (acc : list val) (s : string) : vlres :=
  match s with
  | EmptyString => VLErr                                   (* "list must terminate with '}'" *)
  | String ch t =>
      if ch_eq ch c_rbrace then
        let rest := match t with String c2 t2 => if ch_eq c2 c_comma then t2 else t | EmptyString => t end in
        match reader c cur with
        | Some v => VLOk (acc ++ [v])%list rest
        | None => VLErr
        end
      else if ch_eq ch c_comma then
        match reader c cur with
        | Some v => val_list_loop c EmptyString (acc ++ [v])%list t
        | None => VLErr
        end
      else if ch_eq ch c_bsl then
        match t with
        | EmptyString => VLErr
        | String n t' => val_list_loop c (cur ++ String n EmptyString) acc t'
        end
      else val_list_loop c (cur ++ String ch EmptyString) acc t
  end.

Definition val_list (c : pcfg) (s : string) : vlres :=
  match s with
  | EmptyString => VLEof
  | String ch t => if ch_eq ch c_lbrace then val_list_loop c EmptyString [] t else VLNotList
  end.

(* ---------- key / listItem ---------- *)
(* An error result carries the table (list) as the call leaves it: what had been stored before
   the failure stays stored (ParseInto changes its destination in place).  At the key the
   failing pair names the content is the model's value-semantic reading and is NOT claimed to
   be what Go leaves there in every case (a failing --set-file reader stores a nil, a panic
   inside listItem skips the final store, slices are patched in place); every OTHER key is
   exact, which is what the frame theorem (StrvalsProofs.parse_frame) is about. *)
Inductive kres := KOk (d : vmap) (rest : string) | KEof (d : vmap) | KErr (d : vmap) | KFuel.
Inductive lres := LOk (l : list val) (rest : string) | LEof (l : list val) | LErr (l : list val) | LFuel.

(* the value after "name=" for the typed / string / file parsers:
   Some (v, rest, eof): eof = valList hit the end of input (the key is set to "" and io.EOF
   is returned) *)
(* VErrNil: the reader failed on a plain value (only --set-file can): key() has stored a nil by then *)
Inductive vres := VOk (v : val) (rest : string) | VEof | VErr | VErrNil.

Definition value_after_eq (c : pcfg) (s : string) : vres :=
  match pmode_of c with
  | MLiteral => VOk (VStr s) EmptyString
  | MJson =>
      let '(emp, rest) := empty_val s in
      if emp then VOk VNull rest
      else match assoc_nat (String.length rest) (pjdec c) with
           | Some (v, used) => VOk v (snd (empty_val (drop used rest)))
           | None => VErr
           end
  | _ =>
      match val_list c s with
      | VLOk l rest => VOk (VList l) rest
      | VLEof => VEof
      | VLErr => VErr
      | VLNotList =>
          let '(rs, _, rest) := runes_until true stop_comma s in
          match reader c rs with Some v => VOk v rest | None => VErrNil end
      end
  end.

Definition nth_val (i : Z) (l : list val) : val := nth (Z.to_nat i) l VNull.

Fixpoint key (f : nat) (c : pcfg) (d : vmap) (lvl : nat) (s : string) {struct f} : kres :=
  match f with
  | O => KFuel
  | S f' =>
      let lit := match pmode_of c with MLiteral => true | _ => false end in
      let '(k, last, rest) := runes_until (negb lit) (if lit then stop_key_lit else stop_key) s in
      match last with
      | None => match k with EmptyString => KEof d | _ => KErr d end      (* "key has no value" *)
      | Some ch =>
          if ch_eq ch c_lbr then
            match key_index (negb lit) rest with
            | None => KErr d
            | Some (i, rest1) =>
                match (match mget k d with
                       | None => Some []
                       | Some (VList l) => Some l
                       | Some _ => None                                  (* .([]interface{}) panics *)
                       end) with
                | None => KErr d
                | Some l =>
                    match list_item f' c l i lvl rest1 with
                    | LOk l' rest2 => KOk (set k (VList l') d) rest2
                    | LEof l' => KEof (set k (VList l') d)
                    | LErr l' => KErr (set k (VList l') d)              (* set(data, kk, list); return err *)
                    | LFuel => KFuel
                    end
                end
            end
          else if ch_eq ch c_eq then
            match pmode_of c, value_after_eq c rest with
            | _, VOk v rest1 => KOk (set k v d) rest1
            | _, VEof => KEof (set k (VStr EmptyString) d)
            | _, VErr => KErr d
            | _, VErrNil => KErr (set k VNull d)                        (* v, e := t.reader(rs); set(data, k, v); return e *)
            end
          else if ch_eq ch c_comma then KErr (set k (VStr EmptyString) d) (* set(data, k, ""); "key has no value (cannot end with ,)" *)
          else (* '.' *)
            if Nat.ltb max_nested_name_level (S lvl) then KErr d
            else
              match (match mget k d with
                     | None => Some ([], false)
                     | Some (VMap m) => Some (m, true)
                     | Some _ => None                                    (* .(map[string]interface{}) panics *)
                     end) with
              | None => KErr d
              | Some (inner, existed) =>
                  let writeback (inner' : vmap) :=
                    if existed then mset k (VMap inner') d               (* same map object, changed in place *)
                    else match inner' with [] => d | _ => set k (VMap inner') d end in
                  match key f' c inner (S lvl) rest with
                  | KOk inner' rest1 =>
                      match inner' with
                      | [] => KErr d                                     (* "key map has no value" *)
                      | _ => KOk (writeback inner') rest1
                      end
                  | KEof inner' => KEof (writeback inner')
                  | KErr inner' => KErr (writeback inner')              (* if len(inner) != 0 { set(...) }; return e *)
                  | KFuel => KFuel
                  end
              end
      end
  end

with list_item (f : nat) (c : pcfg) (l : list val) (i : Z) (lvl : nat) (s : string) {struct f} : lres :=
  match f with
  | O => LFuel
  | S f' =>
      if (i <? 0)%Z then LErr l
      else
        let lit := match pmode_of c with MLiteral => true | _ => false end in
        let '(k, last, rest) := runes_until (negb lit) stop_item s in
        match k with
        | String _ _ => LErr l                                           (* "unexpected data at end of array index" *)
        | EmptyString =>
            match last with
            | None => LEof l
            | Some ch =>
                if ch_eq ch c_eq then
                  match value_after_eq c rest with
                  | VOk v rest1 => match set_index l i v with Some l' => LOk l' rest1 | None => LErr l end
                  | VEof => match set_index l i (VStr EmptyString) with Some l' => LOk l' EmptyString | None => LErr l end
                  | VErr | VErrNil => LErr l
                  end
                else if ch_eq ch c_lbr then
                  if Nat.ltb max_nested_name_level (S lvl) then LErr l   (* a nested list counts as a level *)
                  else
                  match key_index (negb lit) rest with
                  | None => LErr l
                  | Some (nexti, rest1) =>
                      match (if in_range l i
                             then match nth_val i l with
                                  | VNull => Some ([], false)
                                  | VList x => Some (x, true)
                                  | _ => None                            (* .([]interface{}) panics *)
                                  end
                             else Some ([], false)) with
                      | None => LErr l
                      | Some (crt, existed) =>
                          match list_item f' c crt nexti (S lvl) rest1 with
                          | LOk l2 rest2 => match set_index l i (VList l2) with Some l' => LOk l' rest2 | None => LErr l end
                          | LEof l2 =>
                              match l2 with
                              | _ :: _ =>                                (* input ended inside the nested item: kept *)
                                  match set_index l i (VList l2) with Some l' => LEof l' | None => LErr l end
                              | [] => if existed then LEof (set_nth (Z.to_nat i) (VList l2) l) else LEof l
                              end
                          | LErr _ => LErr l
                          | LFuel => LFuel
                          end
                      end
                  end
                else (* '.' *)
                  if Nat.ltb max_nested_name_level (S lvl) then LErr l   (* the '.' read here counts as a level *)
                  else
                  let '(l1, inner, inplace) :=
                    if in_range l i
                    then match nth_val i l with
                         | VMap m => (l, m, true)
                         | _ => (set_nth (Z.to_nat i) (VMap []) l, [], true)   (* "indices out of order" *)
                         end
                    else (l, [], false) in
                  match key f' c inner (S lvl) rest with
                  | KOk inner' rest1 => match set_index l1 i (VMap inner') with Some l' => LOk l' rest1 | None => LErr l1 end
                  | KEof inner' =>
                      match inner' with
                      | _ :: _ =>                                        (* "a[0].b=" at the end of the input: kept *)
                          match set_index l1 i (VMap inner') with Some l' => LEof l' | None => LErr l1 end
                      | [] => if inplace then LEof (set_nth (Z.to_nat i) (VMap inner') l1) else LEof l1
                      end
                  | KErr _ => LErr l1
                  | KFuel => LFuel
                  end
            end
        end
  end.

(* ---------- parse: the loop over key=value pairs ---------- *)
Inductive pres := POk (d : vmap) | PErr (d : vmap) | PFuel.

Fixpoint parse_loop (f : nat) (c : pcfg) (d : vmap) (s : string) : pres :=
  match f with
  | O => PFuel
  | S f' =>
      match key (S (String.length s)) c d 0 s with
      | KOk d' rest => parse_loop f' c d' rest
      | KEof d' => POk d'
      | KErr d' => PErr d'
      | KFuel => PFuel
      end
  end.

Definition parse_with (c : pcfg) (s : string) (dest : vmap) : pres :=
  parse_loop (S (String.length s)) c dest s.

(* the public entry points *)
Definition parse_into (s : string) (dest : vmap) : pres := parse_with (mkCfg MTyped [] []) s dest.
Definition parse_into_string (s : string) (dest : vmap) : pres := parse_with (mkCfg MString [] []) s dest.
Definition parse_into_file (files : list (string * string)) (s : string) (dest : vmap) : pres :=
  parse_with (mkCfg MFile files []) s dest.
Definition parse_json (jdec : list (nat * (val * nat))) (s : string) (dest : vmap) : pres :=
  parse_with (mkCfg MJson [] jdec) s dest.
Definition parse_literal_into (s : string) (dest : vmap) : pres := parse_with (mkCfg MLiteral [] []) s dest.

(* ---------- vocabulary of the frame statements (StrvalsProofs.parse_frame) ---------- *)
(* the top-level key a name=value pair starts with, as runesUntil reads it *)
Definition first_key (c : pcfg) (s : string) : string :=
  match pmode_of c with
  | MLiteral => fst (fst (runes_until false stop_key_lit s))
  | _ => fst (fst (runes_until true stop_key s))
  end.

Definition kres_table (r : kres) (d0 : vmap) : vmap :=
  match r with KOk d _ | KEof d | KErr d => d | KFuel => d0 end.

Definition pres_table (r : pres) (d0 : vmap) : vmap :=
  match r with POk d | PErr d => d | PFuel => d0 end.

(* the keys the successive pairs start with, as far as the parser gets *)
Fixpoint heads (f : nat) (c : pcfg) (d : vmap) (s : string) : list string :=
  match f with
  | O => []
  | S f' =>
      first_key c s ::
      match key (S (String.length s)) c d 0 s with
      | KOk d' rest => heads f' c d' rest
      | _ => []
      end
  end.


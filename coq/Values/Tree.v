(* Value trees: the value-semantic stand-in for Helm's map[string]interface{} values.
   Shared by C04, C11, C13, C14, C20.  Maps are association lists; Go maps are unordered,
   so observations are compared after [norm] (keys sorted, first binding wins). *)
From Coq Require Import List String Ascii Bool Arith ZArith.
Import ListNotations.

Inductive val :=
| VNull
| VBool (b : bool)
| VNum (n : Z)            (* integral JSON/YAML number *)
| VFlt (s : string)       (* any other number, by its shortest decimal spelling *)
| VStr (s : string)
| VList (l : list val)
| VMap (m : list (string * val)).

Definition vmap := list (string * val).

(* induction principle that reaches into lists and maps *)
Section ValInd.
  Variable P : val -> Prop.
  Hypothesis Hnull : P VNull.
  Hypothesis Hbool : forall b, P (VBool b).
  Hypothesis Hnum : forall n, P (VNum n).
  Hypothesis Hflt : forall s, P (VFlt s).
  Hypothesis Hstr : forall s, P (VStr s).
  Hypothesis Hlist : forall l, Forall P l -> P (VList l).
  Hypothesis Hmap : forall m, Forall (fun kv => P (snd kv)) m -> P (VMap m).

  Fixpoint val_ind' (v : val) : P v :=
    match v with
    | VNull => Hnull
    | VBool b => Hbool b
    | VNum n => Hnum n
    | VFlt s => Hflt s
    | VStr s => Hstr s
    | VList l => Hlist l ((fix go (l : list val) : Forall P l :=
                             match l with
                             | [] => Forall_nil _
                             | x :: t => Forall_cons _ (val_ind' x) (go t)
                             end) l)
    | VMap m => Hmap m ((fix go (m : list (string * val)) : Forall (fun kv => P (snd kv)) m :=
                           match m with
                           | [] => Forall_nil _
                           | (k, x) :: t => Forall_cons (k, x) (val_ind' x) (go t)
                           end) m)
    end.
End ValInd.

Fixpoint mget (k : string) (m : vmap) : option val :=
  match m with
  | [] => None
  | (k', v) :: t => if String.eqb k k' then Some v else mget k t
  end.

Fixpoint mset (k : string) (v : val) (m : vmap) : vmap :=
  match m with
  | [] => [(k, v)]
  | (k', v') :: t => if String.eqb k k' then (k, v) :: t else (k', v') :: mset k v t
  end.

Fixpoint mdel (k : string) (m : vmap) : vmap :=
  match m with
  | [] => []
  | (k', v') :: t => if String.eqb k k' then mdel k t else (k', v') :: mdel k t
  end.

Definition mhas (k : string) (m : vmap) : bool := match mget k m with Some _ => true | None => false end.

Definition is_table (v : val) : bool := match v with VMap _ => true | _ => false end.

(* lookup along a path of keys (maps only) *)
Fixpoint lookup_path (p : list string) (v : val) : option val :=
  match p with
  | [] => Some v
  | k :: p' => match v with
               | VMap m => match mget k m with Some x => lookup_path p' x | None => None end
               | _ => None
               end
  end.

(* structural equality, order-sensitive (use after [norm]) *)
Fixpoint val_eqb (a b : val) {struct a} : bool :=
  match a, b with
  | VNull, VNull => true
  | VBool x, VBool y => Bool.eqb x y
  | VNum x, VNum y => Z.eqb x y
  | VFlt x, VFlt y => String.eqb x y
  | VStr x, VStr y => String.eqb x y
  | VList l1, VList l2 =>
      (fix go (l1 l2 : list val) : bool :=
         match l1, l2 with
         | [], [] => true
         | x :: t1, y :: t2 => val_eqb x y && go t1 t2
         | _, _ => false
         end) l1 l2
  | VMap m1, VMap m2 =>
      (fix go (m1 m2 : list (string * val)) : bool :=
         match m1, m2 with
         | [], [] => true
         | (k1, x) :: t1, (k2, y) :: t2 => String.eqb k1 k2 && val_eqb x y && go t1 t2
         | _, _ => false
         end) m1 m2
  | _, _ => false
  end.

(* byte-wise string order, as Go's < on strings *)
Fixpoint str_ltb (a b : string) : bool :=
  match a, b with
  | EmptyString, EmptyString => false
  | EmptyString, String _ _ => true
  | String _ _, EmptyString => false
  | String c1 t1, String c2 t2 =>
      if Nat.ltb (nat_of_ascii c1) (nat_of_ascii c2) then true
      else if Nat.ltb (nat_of_ascii c2) (nat_of_ascii c1) then false
      else str_ltb t1 t2
  end.

Fixpoint insert_kv (k : string) (v : val) (m : vmap) : vmap :=
  match m with
  | [] => [(k, v)]
  | (k', v') :: t =>
      if String.eqb k k' then (k', v') :: t          (* first binding wins *)
      else if str_ltb k k' then (k, v) :: m
      else (k', v') :: insert_kv k v t
  end.

(* canonical form: every map sorted by key, duplicates collapsed to the first binding *)
Fixpoint norm (v : val) : val :=
  match v with
  | VList l => VList (map norm l)
  | VMap m =>
      VMap ((fix go (m : list (string * val)) : vmap :=
               match m with
               | [] => []
               | (k, x) :: t => insert_kv k (norm x) (go t)
               end) m)
  | x => x
  end.

(* [go] above inserts from the back, so the LAST duplicate would win; maps produced by the
   models have unique keys, and the harness prints Go maps (unique keys) sorted. *)
Definition val_equiv_b (a b : val) : bool := val_eqb (norm a) (norm b).

(* Lemmas about the association-list operations of Values/Tree.v and the well-formedness
   predicate of Values/Merge.v (unique keys), used by MergeProofs / CoalesceProofs /
   ReuseProofs / StrvalsProofs. *)
From Coq Require Import List String Bool Arith.
From Helm Require Import Values.Tree Values.Merge.
Import ListNotations.

Lemma mget_mset_eq : forall k v m, mget k (mset k v m) = Some v.
Proof.
  induction m as [|[k' v'] t IH]; simpl.
  - now rewrite String.eqb_refl.
  - destruct (String.eqb k k') eqn:E; simpl.
    + now rewrite String.eqb_refl.
    + now rewrite E.
Qed.

Lemma mget_mset_neq : forall k k' v m, k <> k' -> mget k' (mset k v m) = mget k' m.
Proof.
  induction m as [|[k0 v0] t IH]; simpl; intros Hn.
  - destruct (String.eqb k' k) eqn:E; [apply String.eqb_eq in E; congruence | reflexivity].
  - destruct (String.eqb k k0) eqn:E; simpl.
    + apply String.eqb_eq in E; subst k0.
      destruct (String.eqb k' k) eqn:E2; [apply String.eqb_eq in E2; congruence | reflexivity].
    + destruct (String.eqb k' k0); [reflexivity | now apply IH].
Qed.

Lemma mget_mdel_eq : forall k m, mget k (mdel k m) = None.
Proof.
  induction m as [|[k' v'] t IH]; simpl; [reflexivity|].
  destruct (String.eqb k k') eqn:E; simpl; [assumption | now rewrite E].
Qed.

Lemma mget_mdel_neq : forall k k' m, k <> k' -> mget k' (mdel k m) = mget k' m.
Proof.
  induction m as [|[k0 v0] t IH]; simpl; intros Hn; [reflexivity|].
  destruct (String.eqb k k0) eqn:E; simpl.
  - apply String.eqb_eq in E; subst k0.
    destruct (String.eqb k' k) eqn:E2; [apply String.eqb_eq in E2; congruence | now apply IH].
  - destruct (String.eqb k' k0); [reflexivity | now apply IH].
Qed.

Lemma mget_mset : forall k k' v m,
  mget k' (mset k v m) = if String.eqb k' k then Some v else mget k' m.
Proof.
  intros. destruct (String.eqb k' k) eqn:E.
  - apply String.eqb_eq in E; subst. apply mget_mset_eq.
  - apply String.eqb_neq in E. apply mget_mset_neq. congruence.
Qed.

Lemma mget_mdel : forall k k' m,
  mget k' (mdel k m) = if String.eqb k' k then None else mget k' m.
Proof.
  intros. destruct (String.eqb k' k) eqn:E.
  - apply String.eqb_eq in E; subst. apply mget_mdel_eq.
  - apply String.eqb_neq in E. apply mget_mdel_neq. congruence.
Qed.

(* ---- unique keys ---- *)
Lemma existsb_eqb_mget_none : forall k (m : vmap),
  existsb (String.eqb k) (map fst m) = false -> mget k m = None.
Proof.
  induction m as [|[k' v'] t IH]; simpl; intros H; [reflexivity|].
  apply orb_false_iff in H. destruct H as [H1 H2]. rewrite H1. now apply IH.
Qed.

Lemma wf_map_cons : forall k x t,
  wf_b (VMap ((k, x) :: t)) = true -> mget k t = None /\ wf_b x = true /\ wf_b (VMap t) = true.
Proof.
  intros k x t H. simpl in H.
  apply andb_true_iff in H. destruct H as [H1 H2].
  apply andb_true_iff in H1. destruct H1 as [H1 H3].
  apply andb_true_iff in H2. destruct H2 as [H2 H4].
  apply negb_true_iff in H1.
  split; [now apply existsb_eqb_mget_none|].
  split; [assumption|]. simpl. apply andb_true_iff. split; assumption.
Qed.

Lemma wf_mget : forall m k x, wf_b (VMap m) = true -> mget k m = Some x -> wf_b x = true.
Proof.
  induction m as [|[k' v'] t IH]; simpl mget; intros k x Hwf Hg; [discriminate|].
  apply wf_map_cons in Hwf. destruct Hwf as (_ & Hx & Ht).
  destruct (String.eqb k k'); [inversion Hg; subst; assumption | eapply IH; eauto].
Qed.

Lemma wf_nil : wf_b (VMap []) = true.
Proof. reflexivity. Qed.

(* ---- paths ---- *)
Lemma lookup_cons_map : forall k p m,
  lookup_path (k :: p) (VMap m) = match mget k m with Some x => lookup_path p x | None => None end.
Proof. reflexivity. Qed.

Lemma lookup_cons_nonmap : forall k p v, is_table v = false -> lookup_path (k :: p) v = None.
Proof. intros k p v H. destruct v; simpl in *; try reflexivity; discriminate. Qed.

Lemma leaf_cons_map : forall k p m,
  leaf_at (k :: p) (VMap m) = match mget k m with Some x => leaf_at p x | None => None end.
Proof. intros. unfold leaf_at. rewrite lookup_cons_map. destruct (mget k m); reflexivity. Qed.

Lemma leaf_cons_nonmap : forall k p v, is_table v = false -> leaf_at (k :: p) v = None.
Proof. intros. unfold leaf_at. now rewrite lookup_cons_nonmap. Qed.

Lemma defines_false_lookup : forall p v, defines p v = false -> lookup_path p v = None.
Proof.
  induction p as [|k p IH]; simpl; intros v H; [discriminate|].
  destruct v; try discriminate.
  destruct (mget k m); [now apply IH | reflexivity].
Qed.

Lemma defines_false_leaf : forall p v, defines p v = false -> leaf_at p v = None.
Proof. intros. unfold leaf_at. now rewrite defines_false_lookup. Qed.

Lemma defines_false_nonempty : forall p v, defines p v = false -> p <> [].
Proof. intros p v H. destruct p; [discriminate | congruence]. Qed.

Lemma defines_false_table : forall p v, defines p v = false -> exists m, v = VMap m.
Proof. intros p v H. destruct p; simpl in H; [discriminate|]. destruct v; try discriminate. eauto. Qed.

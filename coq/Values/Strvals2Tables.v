(* The lexical constants of the --set parsers as the translator reads them out of
   pkg/strvals/parser.go and literal_parser.go on every run (Gen/StrvalsTable.v), tied to the
   models: the stop functions of Values/Strvals.v / Strvals2.v agree with the extracted
   runeSet literals on every byte; the constants, the escape rune, the comparison lists and
   typedVal's words are the model's. *)
From Coq Require Import List String Ascii Bool Arith ZArith Lia.
From Helm Require Import Common.Strs Values.Tree Values.Strvals Values.Strvals2 Gen.StrvalsTable.
Import ListNotations.
Local Open Scope string_scope.

Definition mem_nat (n : nat) (l : list nat) : bool := existsb (Nat.eqb n) l.

(* f is the characteristic function of the byte set [set] (all ASCII) *)
Definition stop_agrees (f : ascii -> bool) (set : list nat) : bool :=
  forallb (fun n => Bool.eqb (f (ascii_of_nat n)) (mem_nat n set)) (seq 0 256)
  && forallb (fun n => Nat.ltb n 128) set.

Lemma stop_agrees_all : forall f set, stop_agrees f set = true ->
  forall c, f c = mem_nat (nat_of_ascii c) set.
Proof.
  intros f set H c. unfold stop_agrees in H. apply andb_true_iff in H. destruct H as [H _].
  rewrite forallb_forall in H.
  assert (L : nat_of_ascii c < 256) by apply nat_ascii_bounded.
  specialize (H (nat_of_ascii c)). rewrite ascii_nat_embedding in H.
  apply eqb_prop. apply H. apply in_seq. lia.
Qed.

(* the stop function the models use in each state, in the order the translator lists them *)
Definition model_stops : list (string * (ascii -> bool)) :=
  [ ("parser.key", stop_key); ("parser.keyIndex", stop_rbr); ("parser.listItem", stop_item);
    ("parser.val", stop_comma); ("parser.valList", stop_list);
    ("literalParser.key", stop_key_lit); ("literalParser.keyIndex", stop_rbr);
    ("literalParser.listItem", stop_item); ("literalParser.val", stop_none) ].

Fixpoint stops_agree (ms : list (string * (ascii -> bool))) (gs : list (string * list nat)) : bool :=
  match ms, gs with
  | [], [] => true
  | (n, f) :: ms', (n', set) :: gs' => String.eqb n n' && stop_agrees f set && stops_agree ms' gs'
  | _, _ => false
  end.

Definition expected_rune_cmps : list (string * list string) :=
  [ ("parser.key", ["== 91"; "== 61"; "== 44"; "== 46"]); ("parser.listItem", ["== 61"; "== 91"; "== 46"]);
    ("parser.emptyVal", ["== 44"]); ("parser.valList", ["!= 123"; "== 125"; "!= 44"; "== 44"]);
    ("runesUntil", ["== 92"]);
    ("literalParser.key", ["== 61"; "== 46"; "== 91"]); ("literalParser.listItem", ["== 61"; "== 46"; "== 91"]) ].

Definition expected_range_checks : list (string * list string) :=
  [ ("parser.key", ["nestedNameLevel > MaxNestedNameLevel"]);
    ("setIndex", ["index < 0"; "index > MaxIndex"; "len(list) <= index"]);
    ("parser.listItem", ["i < 0"; "nestedNameLevel > MaxNestedNameLevel"; "len(list) > i"; "nestedNameLevel > MaxNestedNameLevel"; "len(list) > i"]);
    ("literalParser.key", ["nestedNameLevel > MaxNestedNameLevel"]);
    ("literalParser.listItem", ["i < 0"; "nestedNameLevel > MaxNestedNameLevel"; "len(list) > i"; "nestedNameLevel > MaxNestedNameLevel"; "len(list) > i"]) ].

Lemma tables_ok :
  go_max_index = max_index
  /\ go_max_nested_name_level = max_nested_name_level
  /\ stops_agree model_stops go_stop_sets = true
  /\ go_rune_cmps = expected_rune_cmps
  /\ go_range_checks = expected_range_checks
  /\ go_typed_words = ["true"; "false"; "null"; "0"]
  /\ go_parse_int_args = [10; 64]
  /\ go_is_space_users = ["parser.emptyVal"].
Proof. repeat split; vm_compute; reflexivity. Qed.

(* the models decide with the extracted values *)
Lemma set_index_uses_table : forall l i v,
  set_index l i v = if (i <? 0)%Z then None else if (go_max_index <? i)%Z then None else Some (set_nth (Z.to_nat i) v l).
Proof. reflexivity. Qed.

Lemma typed_val2_uses_table : forall v,
  typed_val2 false v =
  if eq_fold2 v (nth 0 go_typed_words "") then VBool true
  else if eq_fold2 v (nth 1 go_typed_words "") then VBool false
  else if eq_fold2 v (nth 2 go_typed_words "") then VNull
  else if eq_fold2 v (nth 3 go_typed_words "") then VNum 0
  else match v with
       | String c _ => if ch_eq c "0" then VStr v else match parse_int v with Some n => VNum n | None => VStr v end
       | EmptyString => VStr v
       end.
Proof. reflexivity. Qed.

(* every stop rune of every state is the byte set the translator extracted — for all bytes *)
Lemma stops_all_bytes : forall c,
  stop_key c = mem_nat (nat_of_ascii c) [61; 91; 44; 46]
  /\ stop_key_lit c = mem_nat (nat_of_ascii c) [61; 91; 46]
  /\ stop_item c = mem_nat (nat_of_ascii c) [91; 46; 61]
  /\ stop_rbr c = mem_nat (nat_of_ascii c) [93]
  /\ stop_comma c = mem_nat (nat_of_ascii c) [44]
  /\ stop_list c = mem_nat (nat_of_ascii c) [44; 125]
  /\ stop_none c = mem_nat (nat_of_ascii c) [].
Proof.
  intros c. repeat split; apply stop_agrees_all; vm_compute; reflexivity.
Qed.

Lemma tables_all :
  go_max_index = max_index
  /\ go_max_nested_name_level = max_nested_name_level
  /\ stops_agree model_stops go_stop_sets = true
  /\ go_rune_cmps = expected_rune_cmps
  /\ go_range_checks = expected_range_checks
  /\ go_typed_words = ["true"; "false"; "null"; "0"]
  /\ go_parse_int_args = [10; 64]
  /\ go_is_space_users = ["parser.emptyVal"]
  /\ (forall c : ascii,
        stop_key c = mem_nat (nat_of_ascii c) [61; 91; 44; 46]
        /\ stop_key_lit c = mem_nat (nat_of_ascii c) [61; 91; 46]
        /\ stop_item c = mem_nat (nat_of_ascii c) [91; 46; 61]
        /\ stop_rbr c = mem_nat (nat_of_ascii c) [93]
        /\ stop_comma c = mem_nat (nat_of_ascii c) [44]
        /\ stop_list c = mem_nat (nat_of_ascii c) [44; 125]
        /\ stop_none c = mem_nat (nat_of_ascii c) [])
  /\ (forall l i v, set_index l i v =
        if (i <? 0)%Z then None else if (go_max_index <? i)%Z then None else Some (set_nth (Z.to_nat i) v l)).
Proof.
  destruct tables_ok as (A & B & C & D & E & F & G & H).
  split; [exact A|]. split; [exact B|]. split; [exact C|]. split; [exact D|]. split; [exact E|].
  split; [exact F|]. split; [exact G|]. split; [exact H|]. split; [exact stops_all_bytes | exact set_index_uses_table].
Qed.
